#!/bin/sh
# MANIFEST.setup_cmd: build the Lean development (all models, proofs, driver) and the harness, offline.
set -e
cd "$(dirname "$0")"
export CARGO_NET_OFFLINE=true CARGO_TARGET_DIR=/verif/.build/cargo
mkdir -p .build evidence replays
(cd lean && lake build)
[ -f harness/Cargo.lock ] || cp /repo/Cargo.lock harness/Cargo.lock
(cd harness && cargo build --release --offline)
echo setup ok
