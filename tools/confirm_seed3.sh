#!/bin/bash
# usage: tools/confirm_seed2.sh Cxx mN newid — like confirm_seed.sh for round-3 seeds (/tmp/wt3_Cxx, /tmp/out3_Cxx/mN -> seeded/<newid>)
P=$1; M=$2; ID=$3; WT=/tmp/wt3_$P; SRC=/tmp/out3_$P/$M; DST=/verif/seeded/$ID
mkdir -p $DST; cp $SRC/patch.diff $SRC/demo.rs $DST/; cp $SRC/notes.md $DST/notes.md 2>/dev/null; cp $SRC/RUN.txt $DST/ 2>/dev/null
export CARGO_TARGET_DIR=$WT/target CARGO_NET_OFFLINE=true RUST_BACKTRACE=0
cd $WT && git checkout -q -- . && rm -rf ddo/tests
LOG=$DST/confirm.log; : > $LOG
mkdir -p ddo/tests && cp $SRC/demo.rs ddo/tests/seed_demo.rs
echo "### demo on unchanged HEAD" >> $LOG
timeout 900 cargo test --offline -p ddo --test seed_demo >> $LOG 2>&1; RC_BASE=$?
git apply $SRC/patch.diff; RC_APPLY=$?
echo "### demo with the change (apply rc=$RC_APPLY)" >> $LOG
timeout 900 cargo test --offline -p ddo --test seed_demo >> $LOG 2>&1; RC_MUT=$?
rm -rf ddo/tests
echo "### existing suite with the change" >> $LOG
timeout 1800 cargo test --workspace --no-fail-fast --offline 2>&1 | grep -E '^test result|FAILED|failed|error' >> $LOG; 
SUITE=$(grep -c '^test result: ok. 176 passed; 0 failed' $LOG)
DOC=$(grep -c '^test result: ok. 20 passed; 0 failed' $LOG)
git checkout -q -- .
echo "{\"property\": \"$P\", \"id\": \"$ID\", \"round\": 3, \"patch_applies\": $([ $RC_APPLY = 0 ] && echo true || echo false), \"demo_rc_unchanged\": $RC_BASE, \"demo_rc_with_change\": $RC_MUT, \"suite_176_pass_with_change\": $([ $SUITE -ge 1 ] && echo true || echo false), \"doctests_20_pass_with_change\": $([ $DOC -ge 1 ] && echo true || echo false)}" > $DST/confirm.json
cat $DST/confirm.json
