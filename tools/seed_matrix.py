#!/usr/bin/env python3
"""Runs the quick checks against every seeded change in an isolated copy (/tmp/matrix: a git worktree of /repo's HEAD
and a copy of /verif whose harness depends on that worktree), so that /repo and /verif stay usable meanwhile.
Writes /verif/seeded/<id>/meta.json and /verif/seeded/RESULTS.json."""
import json, os, re, shutil, subprocess, sys, time
from pathlib import Path
V = Path("/verif"); M = Path("/tmp/matrix"); R = M / "repo"; W = M / "verif"
own_only = "--own" in sys.argv          # run only the check of the property the seed was written against
only = [a for a in sys.argv[1:] if not a.startswith("--")]  # optional list of seed ids
def sh(cmd, **kw): return subprocess.run(cmd, shell=True, text=True, capture_output=True, **kw)
if not R.exists():
    M.mkdir(parents=True, exist_ok=True)
    print(sh(f"git -C /repo worktree add -q --detach {R} HEAD").stderr)
else:
    sh(f"git -C {R} checkout -q --detach $(git -C /repo rev-parse HEAD) && git -C {R} checkout -- .")
sh(f"rsync -a --delete --exclude .git --exclude replays --exclude evidence --exclude .build/run --exclude .build/audit {V}/ {W}/")
cargo = (W / "harness/Cargo.toml").read_text().replace('path = "/repo/ddo"', f'path = "{R}/ddo"')
(W / "harness/Cargo.toml").write_text(cargo)
cfgp = W / "harness/.cargo/config.toml"; cfgp.write_text(cfgp.read_text().replace("/verif/.build/cargo", f"{W}/.build/cargo"))
# the example sources compiled into the harness (engine exmodel) come from the isolated worktree too
for f in list((W / "harness/src").glob("*.rs")) + [W / "harness/build.rs"]:
    t = f.read_text()
    if "/repo/ddo/examples" in t: f.write_text(t.replace("/repo/ddo/examples", f"{R}/ddo/examples"))
chk = (W / "check").read_text().replace('shutil.copy("/repo/Cargo.lock", lock)', f'shutil.copy("{R}/Cargo.lock", lock)')
chk = chk.replace('cwd="/repo"', f'cwd="{R}"')
(W / "check").write_text(chk)
os.environ["VERIF_EXAMPLES_DIR"] = f"{W}/.build/cargo_repo/debug/examples"
os.environ["VERIF_C16_CORPUS"] = f"{W}/corpus/C16/cases.txt"
sys.path.insert(0, str(V)); from checklib.props import PROPS
claimed = [p for p in sorted(PROPS) if PROPS[p].get("claimed", True)]
# which checks to run for a seed: its own property + the ones sharing engines (all, when cheap)
results = {}
resf = V / "seeded/RESULTS.json"
if resf.exists(): results = json.loads(resf.read_text())
for d in sorted((V / "seeded").iterdir()):
    if not d.is_dir(): continue
    sid = d.name
    if only and sid not in only: continue
    patch = d / "patch_head.diff" if (d / "patch_head.diff").exists() else d / "patch.diff"
    sh(f"git -C {R} checkout -- .")
    a = sh(f"git -C {R} apply {patch}")
    if a.returncode != 0:
        results[sid] = dict(applies=False, error=a.stderr[-300:]); print(sid, "PATCH DOES NOT APPLY"); continue
    det = {}
    t0 = time.time()
    for p in ([sid.split("_")[0]] if own_only else claimed):
        r = sh(f"./check {p} --tier quick", cwd=W, env=dict(os.environ, CARGO_TARGET_DIR=f"{W}/.build/cargo"))
        v = [l for l in r.stdout.splitlines() if l.startswith("VIOLATION")]
        if v or r.returncode != 0:
            rp = None
            m = re.search(r"replay=(\S+)", v[0]) if v else None
            kind = None
            if m and Path(m.group(1)).exists():
                try: kind = json.loads(Path(m.group(1)).read_text()).get("kind")
                except Exception: pass
            det[p] = dict(line=(v[0] if v else f"exit {r.returncode}"), kind=kind, summary=[l for l in r.stdout.splitlines() if l.startswith("[")][-1:] )
    sh(f"git -C {R} checkout -- .")
    prop = sid.split("_")[0]
    results[sid] = dict(applies=True, patch=patch.name, detected_by=sorted(det), own_property_detects=prop in det, details=det, wall_s=round(time.time() - t0))
    print(sid, "->", sorted(det), flush=True)
    conf = json.loads((d / "confirm.json").read_text()) if (d / "confirm.json").exists() else {}
    notes = (d / "notes.md").read_text()[:1500] if (d / "notes.md").exists() else ""
    meta = dict(id=sid, breaks_property=prop, origin="independent sub-agent given only the property text and a scratch worktree",
                confirmation=conf, what_it_needs=notes, patch_file=patch.name,
                ran=[f"git apply {patch.name} (in an isolated worktree)", ("./check " + sid.split("_")[0] + " --tier quick (the property it was written against)") if own_only else "every claimed ./check <Cxx> --tier quick", "git checkout -- ."],
                detected_by=sorted(det), detection_details=det)
    (d / "meta.json").write_text(json.dumps(meta, indent=1))
    resf.write_text(json.dumps(results, indent=1))
print("done")
