#!/bin/sh
# usage: tools/try_seed.sh <patch.diff> <Cxx> [<Cyy> ...]   — applies the patch to /repo, runs the checks, undoes it
P="$1"; shift
git -C /repo apply "$P" || { echo "patch does not apply"; exit 2; }
for c in "$@"; do ./check "$c" 2>&1 | tail -4; echo "rc($c)=$?"; done
git -C /repo checkout -- .
git -C /repo status --short | head -3
# leave no binary built against the changed tree behind
(cd /verif/harness && CARGO_NET_OFFLINE=true cargo build --release --offline -q 2>/dev/null)
