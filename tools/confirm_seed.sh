#!/bin/bash
# usage: tools/confirm_seed.sh Cxx mN   — confirms a seeded change in its scratch worktree /tmp/wt_Cxx:
#   demo passes on HEAD, fails with the patch; the existing suite still passes with the patch.
# writes /verif/seeded/Cxx_mN/{patch.diff,demo.rs,notes.md,confirm.log,confirm.json}
P=$1; M=$2; WT=/tmp/wt_$P; SRC=/tmp/out_$P/$M; DST=/verif/seeded/${P}_$M
mkdir -p $DST; cp $SRC/patch.diff $SRC/demo.rs $DST/; cp $SRC/notes.md $DST/notes.md 2>/dev/null
export CARGO_TARGET_DIR=$WT/target CARGO_NET_OFFLINE=true RUST_BACKTRACE=0
cd $WT && git checkout -q -- . && rm -rf ddo/tests
LOG=$DST/confirm.log; : > $LOG
mkdir -p ddo/tests && cp $SRC/demo.rs ddo/tests/seed_demo.rs
echo "### demo on unchanged HEAD" >> $LOG
timeout 900 cargo test --offline -p ddo --test seed_demo >> $LOG 2>&1; RC_BASE=$?
git apply $SRC/patch.diff; RC_APPLY=$?
echo "### demo with the change (apply rc=$RC_APPLY)" >> $LOG
timeout 900 cargo test --offline -p ddo --test seed_demo >> $LOG 2>&1; RC_MUT=$?
rm -rf ddo/tests
echo "### existing suite with the change" >> $LOG
timeout 1800 cargo test --workspace --no-fail-fast --offline 2>&1 | grep -E '^test result|FAILED|failed|error' >> $LOG; 
SUITE=$(grep -c '^test result: ok. 176 passed; 0 failed' $LOG)
DOC=$(grep -c '^test result: ok. 20 passed; 0 failed' $LOG)
git checkout -q -- .
echo "{\"property\": \"$P\", \"id\": \"${P}_$M\", \"patch_applies\": $([ $RC_APPLY = 0 ] && echo true || echo false), \"demo_rc_unchanged\": $RC_BASE, \"demo_rc_with_change\": $RC_MUT, \"suite_176_pass_with_change\": $([ $SUITE -ge 1 ] && echo true || echo false), \"doctests_20_pass_with_change\": $([ $DOC -ge 1 ] && echo true || echo false)}" > $DST/confirm.json
cat $DST/confirm.json
