#!/bin/bash
# usage: tools/try_engine.sh <patch.diff|-> <engine> [harness args...] — applies patch, rebuilds harness, runs engine seeds 1..3
P="$1"; E="$2"; shift; shift
[ "$P" != "-" ] && { git -C /repo apply "$P" || { echo "patch does not apply"; exit 2; }; }
(cd harness && cargo build --release --offline 2>&1 | grep -E '^error' -A8)
for seed in 1 2 3; do
  .build/cargo/release/ddo_verif_harness $E --seed $seed --out /tmp/te.txt "$@"; lean/.lake/build/bin/ddo_model < /tmp/te.txt > /tmp/te.out
  echo "seed $seed: n=$(grep -c '^R' /tmp/te.out) ok=$(grep -c '^R [0-9]* 1 1 |' /tmp/te.out) dis=$(grep -c '^R [0-9]* 0 ' /tmp/te.out) phi=$(grep -c '^R [0-9]* [01] 0 ' /tmp/te.out) E=$(grep -c '^E' /tmp/te.out)"
  grep '^R [0-9]* [01] 0 ' /tmp/te.out | sed 's/.*# //' | grep -o 'F:C[0-9]* \[[^]]*\]' | sort | uniq -c | head -5
done
[ "$P" != "-" ] && git -C /repo checkout -- .
(cd harness && cargo build --release --offline 2>&1 | grep -E '^error' -A8)
