#!/usr/bin/env python3
"""Regenerates /verif/MANIFEST.json from checklib/props.py (claimed properties) — keeps it schema-valid."""
import json, sys
from pathlib import Path
ROOT = Path(__file__).resolve().parent.parent
sys.path.insert(0, str(ROOT))
from checklib.props import PROPS
ALL = [f"C{i:02d}" for i in range(1, 21)]
checks = []
for pid in ALL:
    if pid not in PROPS or not PROPS[pid].get("claimed", True):
        continue
    c = PROPS[pid]
    checks.append(dict(
        property_id=pid,
        quick_cmd=f"./check {pid} --tier quick",
        thorough_cmd=f"./check {pid} --tier thorough",
        evidence_file=f"/verif/evidence/{pid}.json",
        replay_cmd_template=f"./check {pid} --replay {{path}}",
        engine="lean-proof+correspondence",
        level_claimed=dict(category="proof", text=c["level_text"], design_ref=c.get("design_ref", f"DESIGN.md section 6, {pid}")),
        level_note=c["level_note"],
        technique=c.get("technique", "Lean 4 theorems about a hand-written executable model + differential correspondence check (Rust harness vs Lean driver) + property predicate evaluated in Lean on the implementation's output"),
    ))
na = [dict(property_id=pid, reason=(PROPS.get(pid, {}).get("na_reason") or "not claimed yet: the model / theorems / correspondence engine for this property are still being built (see DESIGN.md section 10, staging); the technique applies")) for pid in ALL if pid not in PROPS or not PROPS[pid].get("claimed", True)]
m = dict(
    version=1,
    setup_cmd="./setup.sh",
    hooks=dict(guard="xgillard_ddo_verif (cargo feature of the ddo crate)",
               enable="harness/Cargo.toml depends on ddo = { path = \"/repo/ddo\", features = [\"xgillard_ddo_verif\"] }; every check rebuilds the harness with `cargo build --release --offline`",
               baseline_off_cmd="cd /repo && cargo test --workspace --no-fail-fast --offline",
               source_commits=["41a2632", "649fb4c"], add_only=True),
    engines=[dict(name="lean-proof+correspondence", path="/verif/check", serves_properties=[c["property_id"] for c in checks],
                  kind_free_text="Lean 4 development /verif/lean (models, Props/*.lean theorems, native driver ddo_model) + Rust harness /verif/harness driving /repo/ddo in-process + python orchestrator")],
    checks=checks,
    notes="Every check: lake build of the property's theorems + #print axioms audit + source audit (no sorry/axiom/native_decide), cargo build of the harness against /repo's working tree, correspondence run (model vs implementation) and property predicate phi evaluated by the Lean driver on the implementation's output. KNOWN_FINDINGS.txt lists fixed/open findings. See DESIGN.md.",
    not_applicable=na,
)
(ROOT / "MANIFEST.json").write_text(json.dumps(m, indent=1) + "\n")
print("claimed:", [c["property_id"] for c in checks])
