"""Per-property configuration of ./check: Lean modules and theorems (proof obligations),
correspondence engines, trusted base, coverage rule."""

TB_COMMON = [
    "Lean 4.33.0 kernel (thorough tier: leanchecker re-check of the compiled Props module)",
    "axioms: subset of {propext, Classical.choice, Quot.sound} as printed by #print axioms for every listed theorem; no native_decide, no bv_decide, no own axioms, no sorry",
    "the hand-written Lean model and the statements in lean/DdoModel/Props/",
    "the correspondence check: Rust harness (/verif/harness, path dependency on /repo/ddo), Lean driver ddo_model, this orchestrator",
]

PROPS = {}

PROPS["C17"] = dict(
    modules=["DdoModel.Props.C17"],
    theorems=["Ddo.C17.gap_not_nan", "Ddo.C17.gap_den_pos", "Ddo.C17.gap_nonneg", "Ddo.C17.gap_one_of_infinite",
              "Ddo.C17.gap_one_iff_infinite", "Ddo.C17.gap_zero_iff_eq", "Ddo.C17.gap_le_one_same_sign", "Ddo.C17.gap_total",
              "Ddo.C17.gapOld_nan", "Ddo.C17.gapOld_zero_but_different"],
    level_text="All clauses of the property are Lean theorems about the model of Solver::gap for every pair of bounds (unbounded integers, all of isize); the model is tied to the code by comparing it with the real default method on a grid + random pairs, and the property predicate is evaluated on every float the code returns.",
    level_note="Trusted: Lean kernel; IEEE rounding of `as f32` and `/` (the theorems are on the exact fraction); the correspondence harness. Model and theorems follow the code after fix commit 3f82fd3 (D1); the pre-fix formula is kept as gapOld with its two violation witnesses.",
    engines=[dict(name="gap")],
    trusted_base=TB_COMMON + ["f32 conversion and division are correctly rounded (monotone, 0 -> 0, non-zero integer -> non-zero): the model works on the exact fraction; the driver checks |float - fraction| <= 2^-20 * fraction and evaluates every clause of the property on the float itself"],
    assumptions=["lb <= ub (bounds reported by a solver)", "IEEE-754 round-to-nearest for `as f32` and `/`"],
    rule="grid of 33 magnitudes incl. 0, +-1, 2^24+1, 2^31, 2^62, isize::MIN/MAX (all ordered pairs) + random pairs of random bit-length through a stub Solver exposing the bounds (the trait's default method gap() is what runs); non-trivial = both bounds finite (tags other than 'sentinel'); distinct = distinct (lb, ub)",
    trivial_tags=["sentinel"],
)

PROPS["C13"] = dict(
    modules=["DdoModel.Props.C13"],
    theorems=["Ddo.C13.times_pos", "Ddo.C13.divBy_pos", "Ddo.C13.combinator_never_zero", "Ddo.C13.divBy_zero_crashes", "Ddo.C13.times_le_uMax"],
    claimed=False,
    level_text="",
    level_note="",
    engines=[dict(name="width")],
    trusted_base=TB_COMMON + ["usize arithmetic: checked (panic on overflow / underflow / division by zero) as in the debug profile and in the harness' overflow-checks release profile"],
    assumptions=["checked usize arithmetic (debug / overflow-checks profile)"],
    rule="nested Times/DivBy/FixedWidth/NbUnassignedWidth expressions (grid incl. 0, 2^32, usize::MAX; random nesting depth <= 3) evaluated by the real heuristics on a sub-problem with the given path length; non-trivial = result clamped to 1 or panic; distinct = distinct expression + path length",
    trivial_tags=["plain"],
)
