"""Per-property configuration of ./check: Lean modules and theorems (proof obligations),
correspondence engines, trusted base, coverage rule."""

TB_COMMON = [
    "Lean 4.33.0 kernel (thorough tier: leanchecker re-check of the compiled Props module)",
    "axioms: subset of {propext, Classical.choice, Quot.sound} as printed by #print axioms for every listed theorem; no native_decide, no bv_decide, no own axioms, no sorry",
    "the hand-written Lean model and the statements in lean/DdoModel/Props/",
    "the correspondence check: Rust harness (/verif/harness, path dependency on /repo/ddo), Lean driver ddo_model, this orchestrator",
]

PROPS = {}

PROPS["C17"] = dict(
    modules=["DdoModel.Props.C17"],
    theorems=["Ddo.C17.gap_not_nan", "Ddo.C17.gap_den_pos", "Ddo.C17.gap_nonneg", "Ddo.C17.gap_one_of_infinite",
              "Ddo.C17.gap_one_iff_infinite", "Ddo.C17.gap_zero_iff_eq", "Ddo.C17.gap_le_one_same_sign", "Ddo.C17.gap_total",
              "Ddo.C17.gapOld_nan", "Ddo.C17.gapOld_zero_but_different"],
    level_text="All clauses of the property are Lean theorems about the model of Solver::gap for every pair of bounds (unbounded integers, all of isize); the model is tied to the code by comparing it with the real default method on a grid + random pairs, and the property predicate is evaluated on every float the code returns.",
    level_note="Trusted: Lean kernel; IEEE rounding of `as f32` and `/` (the theorems are on the exact fraction); the correspondence harness. Model and theorems follow the code after fix commit 3f82fd3 (D1); the pre-fix formula is kept as gapOld with its two violation witnesses.",
    engines=[dict(name="gap"), dict(name="seq", label="seq_clean", args=[]), dict(name="par", label="par_cutoff", args=["--cutoff"])],
    trusted_base=TB_COMMON + ["f32 conversion and division are correctly rounded (monotone, 0 -> 0, non-zero integer -> non-zero): the model works on the exact fraction; the driver checks |float - fraction| <= 2^-20 * fraction and evaluates every clause of the property on the float itself"],
    assumptions=["lb <= ub (bounds reported by a solver)", "IEEE-754 round-to-nearest for `as f32` and `/`"],
    rule="(b) gap() of the real sequential and parallel solvers after every explored run, interrupted ones included (a solver may override the default method); (a) grid of 33 magnitudes incl. 0, +-1, 2^24+1, 2^31, 2^62, isize::MIN/MAX (all ordered pairs) + random pairs of random bit-length through a stub Solver exposing the bounds (the trait's default method gap() is what runs); non-trivial = both bounds finite (tags other than 'sentinel'); distinct = distinct (lb, ub)",
    trivial_tags=["sentinel"],
)

PROPS["C13"] = dict(
    modules=["DdoModel.Props.C13"],
    theorems=["Ddo.C13.times_pos", "Ddo.C13.divBy_pos", "Ddo.C13.combinator_never_zero", "Ddo.C13.divBy_zero_crashes", "Ddo.C13.times_le_uMax"],
    claimed=False,
    level_text="",
    level_note="",
    engines=[dict(name="width")],
    trusted_base=TB_COMMON + ["usize arithmetic: checked (panic on overflow / underflow / division by zero) as in the debug profile and in the harness' overflow-checks release profile"],
    assumptions=["checked usize arithmetic (debug / overflow-checks profile)"],
    rule="nested Times/DivBy/FixedWidth/NbUnassignedWidth expressions (grid incl. 0, 2^32, usize::MAX; random nesting depth <= 3) evaluated by the real heuristics on a sub-problem with the given path length; non-trivial = result clamped to 1 or panic; distinct = distinct expression + path length",
    trivial_tags=["plain"],
)

PROPS["C18"] = dict(
    modules=["DdoModel.Props.C18", "DdoModel.Props.C10"],
    theorems=["Ddo.C18.get_eq_max_since_clear", "Ddo.C18.clear_layer_local", "Ddo.C18.update_local", "Ddo.C18.update_ge",
              "Ddo.C18.maxThr_spec", "Ddo.C18.update_comm", "Ddo.C18.update_idem", "Ddo.C18.updates_perm_invariant",
              "Ddo.C18.must_explore_spec",
              "Ddo.C10.store_eq_pareto_front", "Ddo.C10.front_perm_invariant", "Ddo.C10.dominated_iff",
              "Ddo.C10.store_antichain", "Ddo.C10.query_refines_bucket"],
    level_text="Sequential specification proved for every operation sequence: get = max (in (value, explored) order) of the thresholds recorded since the layer was last cleared; clear_layer is local; updates commute and are idempotent, so every linearisation of a concurrent update phase yields the same cell; the dominance store equals the Pareto front of everything recorded, whatever the order (front_perm_invariant). Tied to SimpleCache / SimpleDominanceChecker by exhaustive short + long random operation sequences and by concurrent phases of 2..16 real threads (slow-hash keys) whose observations must lie in the model's envelope and whose final state must equal the model's unique state.",
    level_note="Partial on atomicity: the theorems show that *if* each call is one atomic step the concurrent outcome is that of a sequential ordering (and is order independent); atomicity of dashmap's entry API itself is trusted and only stressed by real threads (a non-atomic read-modify-write shows up as a lost update / lost entry in the concurrent phases, it cannot be exhibited by the model).",
    engines=[dict(name="cache"), dict(name="dom")],
    trusted_base=TB_COMMON + ["dashmap: each entry()/get()/clear() call is one atomic step of a finite map (stressed by real-thread phases, not proved)", "Vec::retain visits elements in order; Option<isize>::min on Some values is the minimum"],
    assumptions=["each DashMap call is atomic", "dominance rule of uniform dimension per key"],
    rule="cache: all sequences of length <= 3 (quick) / 4 (thorough) over 26 operations (2 states x 2 depths x 2 values x 2 flags updates, gets, must_explore, clear_layer, clear, one out-of-range get) ending in an observation, random sequences of length 5..120 incl. isize extremes and out-of-range depths, concurrent update phases (2,3,4,8,16 threads, 1..3 keys); dominance: all query sequences of length <= 3/4 over 22 operations with and without value, random sequences up to 150, concurrent insertion phases followed by 12 sequential probes; non-trivial = at least two updates to the same structure, a clear, a dominated verdict, a panic or a concurrent phase; distinct = distinct operation sequence",
    trivial_tags=["exhaustive", "random", "with_value"],
)

PROPS["C10"] = dict(
    modules=["DdoModel.Props.C10", "DdoModel.Props.C10b"],
    theorems=["Ddo.C10.pcmp_spec", "Ddo.C10.dom_strict_order", "Ddo.C10.store_covers_history", "Ddo.C10.store_sub_history",
              "Ddo.C10.dominated_iff", "Ddo.C10.not_dominated_inserts", "Ddo.C10.insert_drops_dominated", "Ddo.C10.store_antichain",
              "Ddo.C10.store_eq_pareto_front", "Ddo.C10.threshold_sound", "Ddo.C10.cmp_of_dominates", "Ddo.C10.query_refines_bucket",
              "Ddo.C10.query_no_key",
              "Ddo.C10.dominance_solver_optimal", "Ddo.C10.dominance_same_value", "Ddo.C10.undomOpt_of_sim", "Ddo.C10.admissible_of_sim", "Ddo.C10.undomOpt_of_strict",
              "Ddo.C10.filterDom_spec", "Ddo.C10.filterDom_protected", "Ddo.C10.compile_storeReach", "Ddo.C10.relaxed_ub_dom", "Ddo.C10.relaxed_cutset_dom", "Ddo.C10.exact_diagram_dom",
              "Ddo.C10.compile_no_crash_dom", "Ddo.C10.Cyc.finding", "Ddo.C10.Cyc.admissible_not_sufficient", "Ddo.C10.Cyc.with_checker", "Ddo.C10.Cyc.without_checker",
              "Ddo.C10.Kp.correct", "Ddo.C10.Kp.prunes_across"],
    stated_not_proved=["sentence 1 for arbitrary value-admissible rules: FALSE (open known finding D13, Cyc.finding)", "Ddo.C10.RelaxedUbAdmStmt (relaxed counterpart of exact_diagram_adm under value-based admissibility)",
                       "cache + dominance, cutoff, pooled diagrams and the parallel solver with the checker enabled: correspondence + phi (the per-query lemmas query_protected / query_storeAll do not depend on the interleaving)"],
    level_text="Checker part (sentences 2-4 of the property) proved for every query sequence: dominated iff a previously presented state of the same depth and key is >= everywhere and > somewhere; otherwise recorded and everything it dominates dropped; the store is an antichain equal to the Pareto front of the history; the threshold is >= the presented value and sound; the comparator ranks a dominating state first. Solver part (sentence 1) is partial: not a theorem, watched by the solver-level correspondence runs with dominance enabled (engine seq, see C01).",
    level_note="Sentence 1 is DECIDED in both directions (C10b, 4800 lines of Lean). Negative: with 'admissible' read in the usual value (potential) form - every dominated state has a dominator whose best completion is at least as good - the sentence is false: Cyc.finding is a kernel-checked 4-variable model meeting every hypothesis of the closed solver theorem whose rule is admissible for all value pairs, on which the solver model with the checker enabled stops after one turn with is_exact = true and value 5 while the optimum is 10; the real library does the same in every solver configuration (engine domcyc; open known finding D13): entries recorded by a restricted compilation for nodes it then drops prune the only remaining optimal route of the relaxed compilation when two dominance verdicts cross. Positive: dominance_solver_optimal - for every well-formed model and every rule with a protected optimal strategy (UndomOpt: an optimal family of states closed under some decision of every selectable variable none of which is dominated by a reachable state; implied by the classical simulation condition, undomOpt_of_sim, and by strict admissibility, undomOpt_of_strict) the sequential solver with the shared store of SimpleDominanceChecker terminates with the optimum, a feasible stored solution and the same Completion as without the checker, whatever the history of the store (no contract hypothesis left; the store invariant is simply 'every entry is reached exactly'). Knapsack instance Kp with real pruning inside a layer and across sub-problems. Hypothesis of the checker theorems: the rule has one dimension per key (the code reads both states with nb_dimensions of the first).",
    engines=[dict(name="dom"), dict(name="mdd", label="mdd_clean", args=[]), dict(name="mdd", label="mdd_pooled_long", args=["--pooled", "--long-arcs"]),
             dict(name="seq", label="seq_dominance", args=["--focus-dominance"]), dict(name="domcyc", no_search=True)],
    trusted_base=TB_COMMON + ["dashmap entry API = finite map", "Vec::retain visits elements in order"],
    assumptions=["dominance rule of uniform dimension per key", "values are isize (InI) for threshold_sound"],
    rule="all query sequences of length <= 3 (quick) / 4 (thorough) over 22 operations (18 (coords, value) combinations on one key, a key-less state, a second key, a second depth, clear_layer), with and without value; random sequences of length 4..150 with 0..3 coordinates, isize extremes, out-of-range depths; comparator evaluated on all pairs of the first six presented entries; concurrent phases; non-trivial = a dominated verdict, a clear or a panic occurred; distinct = distinct sequence",
    trivial_tags=["exhaustive", "random", "with_value"],
)

PROPS["C11"] = dict(
    modules=["DdoModel.Props.C11", "DdoModel.Props.C11Inv"],
    theorems=["Ddo.C11.push_keeps_others", "Ddo.C11.coalesce_only_same_subproblem", "Ddo.C11.push_no_invention",
              "Ddo.C11.survivor_fields", "Ddo.C11.push_represents_new", "Ddo.C11.push_length",
              "Ddo.C11.pop_returns_root", "Ddo.C11.pop_is_max", "Ddo.C11.pop_max_ub_value", "Ddo.C11.pop_empty",
              "Ddo.C11.heapOrdB_sound", "Ddo.C11.keyOld_merges_distinct",
              "Ddo.C11.inv_iff_checked", "Ddo.C11.inv_empty", "Ddo.C11.inv_clear", "Ddo.C11.inv_push", "Ddo.C11.inv_pop",
              "Ddo.C11.push_no_crash", "Ddo.C11.pop_no_crash", "Ddo.C11.reachable_inv",
              "Ddo.C11.bubbleUp_correct", "Ddo.C11.bubbleDown_correct", "Ddo.C11.bubbleUp_fuel_irrelevant", "Ddo.C11.bubbleDown_fuel_irrelevant",
              "Ddo.C11.live_keys_distinct", "Ddo.C11.live_length", "Ddo.C11.push_refines_perm", "Ddo.C11.push_refines",
              "Ddo.C11.pop_refines", "Ddo.C11.pop_none_iff", "Ddo.C11.pop_is_max_live",
              "Ddo.C11.NoDupInvariantInductive_total", "Ddo.C11.NoDupRefinesKeyed_holds", "Ddo.C11.icmp_fringe",
              "Ddo.NoDup.root_max", "Ddo.subLe_trans", "Ddo.subLe_iff"],
    stated_not_proved=[],
    level_text="Full refinement proof for the duplicate-free fringe. Specification level (keyed priority queue with the property's coalescing rule): only an entry denoting the same (state, depth) is touched by a push, the survivor keeps the larger value with its own path and the larger ub, no loss, no invention, length law. Concrete level (field-by-field model of NoDupFringe incl. the indexed binary heap, position table and recycle bin, tied to the code by exact trace equality): the well-formedness + heap-order invariant holds initially and is preserved by every push (both branches), pop and clear; no operation crashes; the loops' fuel never cuts them short; every reachable state satisfies it (reachable_inv); the live nodes after a push are a permutation of the specification's push, after a pop a permutation of the old ones minus the popped one; pop answers None iff empty; the popped node is MaxUB-maximal among the live nodes (hence non-increasing ub, ties by larger value); len is the number of live nodes. The invariant is also evaluated by the driver on every state of every explored trace (inv_iff_checked relates the two).",
    level_note="Hypothesis: the state ranking is transitive and consistent (RankOK: trans, rank x y = gt -> rank y x = lt); needed for heap order only (NoDupInvariantInductive_literal_false shows it is necessary). SimpleFringe = binary_heap_plus::BinaryHeap is modelled (pop returns a comparator-maximal element), not verified. Model follows the code after fix commit d8c734c (D2: key = (state, depth)); keyOld_merges_distinct is the witness against the old key. FringeInv.lean (1700 lines) was produced by a delegated proof session and is checked by the same lake build / axiom audit.",
    engines=[dict(name="fringe")],
    trusted_base=TB_COMMON + ["binary_heap_plus::BinaryHeap behind SimpleFringe (modelled as: pop returns a comparator-maximal element)", "FxHashMap lookup/insert/remove = finite map"],
    assumptions=["state ranking satisfies RankOK (icmp does: icmp_ok)"],
    rule="all sequences of length <= 4 (quick) / 5 (thorough) over 18 operations (pushes with state, depth, value, ub in {0,1}^4 + pop + clear), each followed by len and a full drain, for NoDupFringe/total ranking (and SimpleFringe and a coarse ranking on two lengths); random sequences of length 5..2000 with small alphabets (1..12 states, 1..3 depths) and recycling-heavy push/pop mixes for both fringes and both rankings; non-trivial = a duplicate push, the same state at another depth, or a push after a pop (slot recycling) occurred; distinct = distinct sequence + fringe + ranking",
    trivial_tags=["exhaustive", "random"],
)

MDD_RULE = ("random TableDP instances (1..7 layers, 1..6 base states, 1..3 decisions, negative costs, dead ends, ties; depth embedded or not; identity or slack arc relaxation; "
            "no / exact / slack rough bound; total or coarse ranking; optional same-state dominance rule) and Knapsack instances (2..7 items, optional (capacity, value) dominance); "
            "4 compilations per instance: random reachable exact root (random walk), type exact / relaxed / restricted, width 1..4, incumbent in {none, OPT-1, OPT, OPT+1, random}, "
            "LEL and frontier cut-sets, optional pre-filled threshold cache, optional cutoff at poll 1..6, 0..3 earlier compilations on the same diagram object; "
            "non-trivial = a merge happened, the diagram is inexact, a cutoff fired, cache content or a dominance verdict was consumed; distinct = distinct instance + request + history")
MDD_TRIVIAL = ["lel", "frontier", "pooled", "exact", "relaxed", "restricted", "history", "knapsack", "dominance"]
MDD_TB = TB_COMMON + ["user code (Problem / Relaxation / ranking / dominance rule) is a parameter of the model; the harness families are re-implemented in Lean (Families.lean) from the same instance text",
                      "FxHashMap iteration order: only `best` ties depend on it (ebpMust / ebpMay relation); slice::sort_unstable_by returns a sorted permutation; isize saturating arithmetic = clamp"]

MDD_ENGINES = [dict(name="mdd", label="mdd_clean", args=[]), dict(name="mdd", label="mdd_pooled", args=["--pooled"]),
               dict(name="mdd", label="mdd_pooled_long", args=["--pooled", "--long-arcs"])]

PROPS["C13"].update(dict(
    claimed=True,
    modules=["DdoModel.Props.C13", "DdoModel.Props.C13b", "DdoModel.Props.C13p"],
    theorems=PROPS["C13"]["theorems"] + ["Ddo.C13.restrict_cur_le_width", "Ddo.C13.relax_cur_le_width", "Ddo.C13.squash_cur_le_width", "Ddo.C13.stepLayer_expandedOf",
              "Ddo.C13.stepLayer_expanded_le_width", "Ddo.C13.expandAll_domain_calls_le", "Ddo.C13.stepLayer_domain_calls_le_width", "Ddo.C13.compile_expanded_le_width",
              "Ddo.C13.compileP_expanded_le_width", "Ddo.C13.compileP_expanded_le_width_restricted", "Ddo.C13.compileP_expanded_le_width_of_index", "Ddo.C13.compileP_expanded_le_width_allImpacted",
              "Ddo.C13.stepLayerP_domain_calls_le_width"],
    engines=[dict(name="width"), dict(name="mdd", label="mdd_clean", args=[]), dict(name="mdd", label="mdd_pooled", args=["--pooled"])],
    level_text="Sentence 2 (the width-heuristic combinators never yield zero) is proved for every nesting of Times / DivBy / FixedWidth / NbUnassignedWidth and every sub-problem. Sentence 1 (per-layer width bound) is proved on the clean diagram model for every problem, relaxation, ranking, cache, dominance rule, cutoff and outcome: in a restricted compilation no layer, and in a relaxed compilation no layer other than the one directly below the root, hands more than max_width nodes to the expansion (compile_expanded_le_width, through restrict / relax / squash bounds and a loop invariant of buildLoop), and the expansion makes at most one domain enumeration per node (expandAll_domain_calls_le); a kernel-checked witness shows the exception for the first relaxed layer is real. The model is tied to the code by exact equality of the per-layer expansion counts on every explored compilation, and the bound is also evaluated on the implementation (number of for_each_in_domain calls between two next_variable calls, seen by a recording Problem wrapper) for the three diagram implementations.",
    level_note="The pooled diagram has its own theorem (compileP_expanded_le_width, no hypothesis): every layer of a restricted compilation, and in a relaxed compilation every layer expanded once two layers have been materialised (pooled.rs tests layers.len() >= 2 and only records non-empty layers: with long arcs the exempt 'first layer below the root' is the first non-empty one, which may come late by iteration index - kernel-checked witness WitnessP; under AllImpacted the statement is literally the clean one). usize arithmetic is the checked arithmetic of the debug / overflow-checks profile. MddWidth.lean / C13b.lean were produced by a delegated proof session and are checked by the same lake build / axiom audit.",
    stated_not_proved=[],
    trusted_base=MDD_TB + ["usize arithmetic: checked (panic on overflow / underflow / division by zero)"],
    rule="(a) nested width combinators on a grid + random; (b) " + MDD_RULE,
    trivial_tags=["plain"] + MDD_TRIVIAL,
))

PROPS["C12"] = dict(
    modules=["DdoModel.Props.C12", "DdoModel.Props.C12b", "DdoModel.Props.C12p"],
    theorems=["Ddo.C12.expandAll_calls_ok", "Ddo.C12.expandOne_calls_ok", "Ddo.C12.relaxLayer_calls_ok", "Ddo.C12.mem_sortBy",
              "Ddo.C12.buildLoop_protocol", "Ddo.C12.compile_protocol", "Ddo.C12.buildLoop_first_call", "Ddo.C12.nextVar_depths", "Ddo.C12.nextVar_depth_at",
              "Ddo.C12.protocolOk_head", "Ddo.C12.protocolOk_cost", "Ddo.C12.protocolOk_domain", "Ddo.C12.protocolOk_merge", "Ddo.C12.protocolOk_relax", "Ddo.C12.bodyOk_iff",
              "Ddo.C12.compileP_protocol", "Ddo.C12.buildLoopP_protocol", "Ddo.C12.buildLoopP_first_call", "Ddo.C12.nextVar_depth_at_pooled", "Ddo.C12.protocolOkP_impacted",
              "Ddo.C12.protocolOkP_relax", "Ddo.C12.protocolOkP_cost", "Ddo.C12.protocolOkP_domain", "Ddo.C12.protocolOkP_merge", "Ddo.C12.arcAvail_iff"],
    stated_not_proved=[],
    level_text="For the clean diagram model (LEL and frontier) the whole-compilation protocol is a theorem with no hypothesis at all (any Problem, Relaxation, ranking, compilation type, width - 0 included -, cache, dominance rule, cutoff, fuel): the chronological log of calls into user code is a sequence of layer blocks; block j opens with next_variable(root depth + j, states) - so the depth handed to next_variable is the number of layers since the problem root plus the depth of the sub-problem - and inside a block for_each_in_domain / fast_upper_bound are only called for the block's variable on a state of the layer (or the merged state), every transition follows the domain call of its state with a decision of that domain, every transition_cost immediately follows its transition with dst = transition(src, d), there is at most one merge per layer, over at least two states of the layer, and every relax call receives as merged the state just returned by merge, as dst one of the merged-away states, and as decision / cost exactly the decision and transition_cost of an arc created in the previous block (compile_protocol, through a loop invariant of buildLoop; 1200 lines of Lean). The states handed to next_variable in block j+1 are destinations of block j. The model is tied to the code by exact equality of the call log (as a multiset per compilation, order where the code's order is defined) on every explored compilation, and the protocol predicate is also evaluated in Lean on the chronological log of every implementation run, pooled diagram with long arcs included.",
    level_note="The pooled diagram has its own protocol theorem (compileP_protocol, no hypothesis): same block structure and depths; each complete block starts with exactly one is_impacted_by(var, s) per pool state handed to next_variable, for the selected variable, and they appear nowhere else; the states of a layer are the impacted pool states (plus the merged state); a relax call concerns an arc created in SOME earlier block whose destination stayed in the pool, unimpacted, in every block in between (long arcs) rather than in the previous block; kernel-checked 41-call witness with such a relax. Trusted: recording wrappers around Problem / Relaxation in the harness. MddProtocol.lean / C12b.lean were produced by a delegated proof session and are checked by the same lake build / axiom audit.",
    engines=MDD_ENGINES,
    trusted_base=MDD_TB,
    assumptions=["the harness families compute the relaxed cost from dst and merged (relax = cost + slack * |merged \\ dst|), so swapped arguments change results"],
    rule=MDD_RULE + "; pooled diagrams additionally with long arcs (random irrelevance patterns)",
    trivial_tags=MDD_TRIVIAL,
)

SEQ_RULE = ("random TableDP / Knapsack instances (as for the diagram engine; rough bound none in half of them) x {LEL, frontier, pooled} x {EmptyCache, SimpleCache} x {SimpleFringe, NoDupFringe} x width heuristics "
            "FixedWidth(1..3), NbUnassignedWidth, Times, DivBy x {no primal, primal = value of a random feasible solution} x {no cutoff, cutoff at poll 1..12}; the real SequentialSolver runs with recording wrappers "
            "around the real diagram, cache and fringe and the tape of all calls is replayed through the Lean solver model; seqcut: for each instance / configuration the outcome at every cutoff index k = 1..K+1; "
            "non-trivial = more than one sub-problem explored, a cache refusal, a cutoff, a primal or no value; distinct = distinct instance + configuration")
SEQ_TRIVIAL = ["lel", "frontier", "pooled", "cache", "nocache", "nodup", "simple", "dominance", "knapsack", "random"]
SEQ_TB = MDD_TB + ["the diagram is a parameter of the solver model: theorems assume the contracts CompileOk / CutsetOk (= C06-C08), the tape supplies the real diagram's answers",
                   "SimpleFringe / NoDupFringe: the specification multiset with an arbitrary maximal pop (C11)"]
SEQ_ENGINES = [dict(name="seq", label="seq_clean", args=[]), dict(name="seq", label="seq_pooled", args=["--pooled"])]

PROPS["C01"] = dict(
    modules=["DdoModel.Props.C01", "DdoModel.Props.C01b", "DdoModel.Props.C01t", "DdoModel.Props.C01c", "DdoModel.Props.C01d"],
    theorems=["Ddo.C01.process_inv", "Ddo.C01.init_inv", "Ddo.C01.complete_optimal", "Ddo.C01.infeasible_no_update",
              "Ddo.enqueue_false_spec", "Ddo.updateBest_ok",
              "Ddo.C01b.process_dedup_rel", "Ddo.C01b.process_inv_dedup", "Ddo.C01b.process_inv_any", "Ddo.C01b.process_inv_dedup_potential",
              "Ddo.C01t.step_measure_lt", "Ddo.C01t.seq_terminates", "Ddo.C01t.no_infinite_run", "Ddo.C01t.goodStep_inv", "Ddo.C01t.run_inv",
              "Ddo.C01t.run_end_optimal", "Ddo.C01t.good_terminates", "Ddo.lexLT_wf",
              "Ddo.C01.compileOk_restricted", "Ddo.C01.compileOk_relaxed", "Ddo.C01.restricted_sound_within", "Ddo.C01.process_inv_of_model",
              "Ddo.C01.cutsetOk_relaxed", "Ddo.C01.process_inv_closed", "Ddo.C01.crun_inv", "Ddo.C01.crun_end_correct", "Ddo.C01.cstep_terminates", "Ddo.C01.no_infinite_crun",
              "Ddo.C01.cstep_progress", "Ddo.C01.sequential_solver_correct", "Ddo.C01.solveLoop_computes_opt", "Ddo.Closed.compile_no_crash", "Ddo.C01.NoNvBound.counter",
              "Ddo.C01.Trap.correct", "Ddo.C01.Trap.loop_value"],
    stated_not_proved=["runs with a threshold cache: theorem for best-first pops with part of the cached-compilation contract as hypotheses (C09: caching_run_optimal); runs with the dominance checker: closed theorem for rules with a protected optimal strategy (C10: dominance_solver_optimal), false for merely value-admissible rules (D13)",
                       "the closed theorem reads the relaxed compilation through the must-resolution of the exact-best-path tie (for the may-resolution CompileOk.sound is not available: C06.Tie.finding) and covers EmptyCache / no dominance / no cutoff"],
    level_text="Closed theorem (sequential_solver_correct, C01d): for every model that is well formed in potential form (Potential, RubOk, MergeOk, AttMerge; costs bounded so that isize never saturates; next_variable answers None from depth nb_variables on - NvBound, shown necessary by a kernel-checked counter-example; widths >= 1), every run of the sequential solver MODEL COMPOSED WITH THE DIAGRAM MODEL (pop a maximal node, restricted compilation with the incumbent, relaxed compilation with the updated incumbent, process; both cut-set kinds, both fringes, EmptyCache) terminates, never crashes, can always take a turn while the fringe is non-empty, and at the empty fringe reports is_exact = true and the optimum with a stored solution that is a genuinely feasible complete path of that value - or no value iff the problem is infeasible. No contract hypothesis is left: CompileOk and CutsetOk are discharged from the diagram theorems C06 - C08 (compileOk_restricted / compileOk_relaxed / cutsetOk_relaxed), the per-node side conditions are part of the loop invariant CInv, termination uses C08 (ii). A fuel-driven executable version of the loop is proved to compute the optimum (solveLoop_computes_opt), with a kernel-evaluated three-turn branch-and-bound as non-vacuity instance (Trap). Underneath: the coverage invariant of the sequential branch-and-bound (if the optimum beats the incumbent, some open sub-problem still has the optimum as its potential and a bound above it; every open sub-problem is exact; the incumbent is the value of the stored feasible solution) is proved to hold initially, to be preserved by process_one_node under exactly the diagram contracts of C06-C08, and to imply - when the fringe is found empty - that the incumbent is the optimum (none iff infeasible). For every model, width, ranking and every diagram meeting the contracts. The solver model is tied to the code by tape validation: every call the real solver makes to its diagram, cache and fringe (arguments included) must be the model's next call, on every explored run; phi compares the final value with the exact optimum.",
    level_note="Partial: proved for both fringes (plain multiset and duplicate-free: the latter coalesces the former, process_dedup_rel), without threshold cache / cross-diagram dominance, which are stated, not proved, and watched by tape validation + phi. Termination: every turn of the loop (any pop, any answers, cutoffs included) strictly decreases the per-depth entry counts of the fringe in the lexicographic order, which is well-founded (seq_terminates), provided cut-set nodes are strictly deeper than the node they come from (C08 (ii)) - exactly what fails for the pooled diagram with long arcs (open finding D5). run_end_optimal: any finite run of contract-abiding turns from an invariant state that reaches the empty fringe holds the optimum and a feasible solution. The diagram contracts are hypotheses here (they are the subject of C06-C08). SeqInvDedup / LexNat / C01b / C01t were produced by a delegated proof session and are checked by the same lake build / axiom audit.",
    engines=SEQ_ENGINES, trusted_base=SEQ_TB,
    assumptions=["diagram contracts CompileOk / CutsetOk (C06-C08)", "potential Phi independent of the ub field"],
    rule=SEQ_RULE, trivial_tags=SEQ_TRIVIAL,
)
PROPS["C02"] = dict(
    modules=["DdoModel.Props.C02", "DdoModel.Props.C03b", "DdoModel.Props.C01c"],
    theorems=["Ddo.C02.best_is_solution", "Ddo.C02.value_iff_solution", "Ddo.C02.completion_value_eq_lb", "Ddo.C02.ub_eq_value_uninterrupted",
              "Ddo.C05.cutoff_bounds_restricted", "Ddo.C05.cutoff_bounds_relaxed",
              "Ddo.C03b.sys_solution_feasible", "Ddo.C03b.sys_final", "Ddo.C01.compileOk_restricted", "Ddo.C01.compileOk_relaxed"],
    stated_not_proved=["CompileOk.sound for the 'may' resolution of the exact-best-path tie of a relaxed diagram and for compilations with a cache / dominance rule: evaluated by solution replay (phi)"],
    level_text="Sequential solver: at every point of every run, also after a cutoff at any poll, the stored solution is a feasible solution whose value is the lower bound (invariant over maybe_update_best under the diagram contract), a value is present iff a solution is, equals the lower bound and the Completion value, and after an uninterrupted run the upper bound equals it. phi replays every reported solution through the model's transition and cost functions (default-completed replay for pooled diagrams) on every explored run, sequential and parallel.",
    level_note="Parallel solver: sys_solution_feasible - in every reachable state of the concrete parallel model (every interleaving, also after cutoffs and worker panics) the stored solution is a feasible solution of value best_lb (value and solution are written in the same critical section), and sys_final describes what maximize() returns. The diagram-level feasibility the solver theorems assume (CompileOk.sound) is discharged from the diagram model for restricted compilations and for the must-resolution of relaxed ones in isolation (compileOk_restricted / compileOk_relaxed). All reported solutions are also replayed (phi) on every explored run.",
    engines=SEQ_ENGINES + [dict(name="seqcut")], trusted_base=SEQ_TB,
    assumptions=["diagram contract CompileOk.sound (C06 / C07)"],
    rule=SEQ_RULE, trivial_tags=SEQ_TRIVIAL + ["many_polls"],
)
PROPS["C05"] = dict(
    modules=["DdoModel.Props.C05", "DdoModel.Props.C01b", "DdoModel.Props.C03b", "DdoModel.Props.C03c"],
    theorems=["Ddo.C05.bounds_at_pop", "Ddo.C05.update_le_ub", "Ddo.C05.cutoff_bounds_restricted", "Ddo.C05.cutoff_bounds_relaxed", "Ddo.C05.aborted_not_exact",
              "Ddo.C01b.process_cutoff_dedup_irrel", "Ddo.C01b.cutoff_bounds_restricted_any", "Ddo.C01b.cutoff_bounds_relaxed_any",
              "Ddo.C03b.sys_cutoff_bounds", "Ddo.C03b.sys_cutoff_bounds_final", "Ddo.C03b.sys_final", "Ddo.C03b.d4b_witness", "Ddo.C03b.d4b_fixed", "Ddo.C03c.par_cutoff_bounds", "Ddo.C03c.par_final"],
    stated_not_proved=["parallel part (par_cutoff_bounds): see C03 / C04 - not yet modelled"],
    level_text="Sequential part: for every instance and every poll index at which the cutoff fires (during the restricted or during the relaxed compilation of the node in hand) the aborted state satisfies best_lb <= optimum <= best_ub, its solution is feasible with value best_lb, and exactness is not claimed; proved from the coverage invariant, the max-pop order of the fringe and the parent-capped bounds. Tied to the code by tape validation of interrupted runs and by the seqcut engine (every k = 1..K+1).",
    level_note="Partial: the parallel solver's abort path is not covered yet (planned with the parallel model, where the design-time probes found a defect, D4).",
    engines=SEQ_ENGINES + [dict(name="seqcut")], trusted_base=SEQ_TB,
    assumptions=["diagram contracts (C06-C08)", "fringe pops a maximal element (C11)"],
    rule=SEQ_RULE, trivial_tags=SEQ_TRIVIAL + ["many_polls"],
)
PROPS["C14"] = dict(
    modules=["DdoModel.Props.C02", "DdoModel.Props.C03b", "DdoModel.Props.C03c"],
    theorems=["Ddo.C03c.parallel_solver_primal", "Ddo.C02.set_primal_strict", "Ddo.C02.from_primal_optimal", "Ddo.C01.process_inv", "Ddo.C01.complete_optimal",
              "Ddo.C03b.sys_inv_init_primal", "Ddo.C03b.sys_primal", "Ddo.C03b.sys_primal_any"],
    stated_not_proved=[],
    level_text="set_primal replaces the incumbent exactly when the new value is strictly greater (proved); a run started from any primal that belongs to a feasible solution satisfies the coverage invariant initially, hence (process_inv, complete_optimal) ends exact with max(primal, optimum). Tape validation covers runs with a primal taken from a random feasible solution (often equal to the optimum).",
    level_note="Parallel solver: sys_primal - started from a feasible primal of value v the concrete parallel model ends, in every interleaving, with best_lb = max(v, optimum) and a feasible solution of that value; sys_primal_any: the same value for a primal the caller did not verify (the stored solution is then genuine unless it is the caller's own). Same contract hypotheses as C01 / C03.",
    engines=SEQ_ENGINES, trusted_base=SEQ_TB,
    assumptions=["as C01"], rule=SEQ_RULE + "; after the feasible primal, an equal-valued and a smaller primal with marker solutions are supplied too: they must not replace it", trivial_tags=SEQ_TRIVIAL,
)
PROPS["C19"] = dict(
    modules=["DdoModel.Props.C05", "DdoModel.Props.C01b"],
    theorems=["Ddo.C05.process_lb_mono", "Ddo.C05.process_below", "Ddo.C05.next_pop_le", "Ddo.C05.complete_ub_le", "Ddo.C05.cutoff_bounds_relaxed",
              "Ddo.C01b.process_below_any", "Ddo.C01b.next_pop_le_dedup"],
    stated_not_proved=["cut_run_is_prefix (the run cut at poll k is the uninterrupted run frozen at poll k) and eventually_exact as theorems over whole runs"],
    level_text="The two monotonicity mechanisms are proved on the solver model for every input: the incumbent never decreases through process_one_node (any fringe, any answers), and everything in the fringe after processing a node is below that node's bound (pushed nodes are capped by the parent's bound), so the bound of the next popped node - the next best_ub - never exceeds the current one, and the final best_ub := best_lb does not increase it either. The seqcut engine compares the reported bounds for all consecutive cutoff indices k = 1..K+1 of every explored instance.",
    level_note="Partial: the statement over whole runs as a function of k is evaluated (phi on all consecutive k) rather than proved.",
    engines=[dict(name="seqcut")], trusted_base=SEQ_TB,
    assumptions=["fringe pops a maximal element (C11)"], rule=SEQ_RULE, trivial_tags=SEQ_TRIVIAL + ["many_polls"],
)

PROPS["C20"] = dict(
    modules=["DdoModel.Props.C20"],
    theorems=["Ddo.C20.render_none_iff", "Ddo.C20.render_total", "Ddo.C20.terminal_iff_last_layer_nonempty", "Ddo.C20.terminal_decl_count",
              "Ddo.C20.nodes_once", "Ddo.C20.nodes_once_wf", "Ddo.C20.edges_faithful", "Ddo.C20.edges_sound", "Ddo.C20.edges_endpoints",
              "Ddo.C20.edges_count", "Ddo.C20.edges_hidden", "Ddo.C20.terminal_edges", "Ddo.C20.terminal_edges_bold", "Ddo.C20.skeleton",
              "Ddo.C20.clusters_kind0", "Ddo.C20.clusters_kind1", "Ddo.C20.edge_text", "Ddo.C20.renderLines_eq_some"],
    stated_not_proved=["Ddo.C20.TerminalTextLevel (clause (b) read on the bytes of the text rather than on the list of emitted units): needs a hypothesis on the Debug text of states - a state whose Debug text contains a tab followed by 'terminal [shape=' is a counter-example to the byte-level reading; the DOT reader of the driver evaluates the clause on the parsed graph of every produced string instead"],
    level_text="as_graphviz of both diagram kinds (clean.rs, pooled.rs) is modelled as a function from the diagram's content (nodes with flags / values / Debug text, inbound edge lists, best edge, layer list: the dump of hook H2) and the VizConfig to the list of emitted units and their bytes. Proved for every dump and configuration: exactly when the rendering panics (never on a well-formed dump with at least one layer); the terminal node is declared (once) iff the last layer is non-empty; every non-hidden node is declared exactly once under its index and no hidden node is; the drawn edges are exactly, with multiplicity, the inbound edges of the non-hidden nodes, with the recorded endpoints, variable, value and cost, bold iff it is the node's best edge; the terminal edges are exactly the nodes of the last layer, bold iff of maximal value; header first, footer last; cluster contents. The model is tied to the code by byte equality of the whole DOT text on every explored diagram x configuration (all 64 configurations cycled), and the property's clauses are also evaluated on the implementation's own string through an independent DOT reader.",
    level_note="'Last layer' is read literally as the last entry of the diagram's layer list (see DESIGN.md 11.3, D6 withdrawn). The dump (hook H2) is trusted to report the node / edge / layer vectors the renderer reads; it is a read-only Display of the same fields. Viz.lean, Engines/Viz.lean and Props/C20.lean were produced by a delegated session and are checked by the same lake build / axiom audit.",
    engines=[dict(name="viz")],
    trusted_base=TB_COMMON + ["hook H2 (verif_dump, guarded by feature xgillard_ddo_verif) reports the diagram's nodes, edge lists, best edges and layers as the renderer sees them", "Debug formatting of the state type (i64) is what the dump carries"],
    assumptions=["well-formed dump (ids = indices, edges point to existing nodes, layers mention existing nodes): checked on every case (wfDump)"],
    rule="random TableDP / Knapsack instances (incl. long-arc ones for the pooled diagram, infeasible ones, all-pruned last layers), random compilation requests (3 kinds x 3 types, widths 1..4, random lower bound, cache / dominance), the 64 VizConfig combinations cycled; non-trivial = diagram with a value (tags other than 'infeasible'); distinct = distinct (dump, config)",
    trivial_tags=["infeasible"],
)

EX_NAMES = ["knapsack", "misp", "max2sat", "mcp", "lcs", "golomb", "psp", "sop", "tsptw", "srflp", "talentsched", "alp"]
PROPS["C16"] = dict(
    modules=["DdoModel.Examples.Knapsack", "DdoModel.Examples.KnapsackDp", "DdoModel.Examples.KnapsackModel", "DdoModel.Examples.MispDp", "DdoModel.Examples.MispModel",
             "DdoModel.Examples.Max2satDp", "DdoModel.Examples.Max2satModel", "DdoModel.Engines.Ex", "DdoModel.Engines.ExModel", "DdoModel.Props.C16"],
    theorems=["Ddo.Examples.KnapsackModel.wfRel", "Ddo.Examples.KnapsackModel.rubAdmissible", "Ddo.Examples.KnapsackModel.dantzig_adm", "Ddo.Examples.KnapsackModel.H_root",
              "Ddo.Examples.KnapsackModel.best_perm", "Ddo.Examples.KnapsackModel.knapsack_relaxed_ub",
              "Ddo.Examples.MispModel.wfRel", "Ddo.Examples.MispModel.mwis_isMax", "Ddo.Examples.MispModel.best_eq_mwis", "Ddo.Examples.MispModel.H_eq_best_induced", "Ddo.Examples.MispModel.rub_adm",
              "Ddo.Examples.MispModel.misp_relaxed_ub", "Ddo.Examples.MispModel.misp_exact_opt", "Ddo.Examples.MispModel.skip_sound", "Ddo.Examples.MispModel.lowRel",
              "Ddo.Examples.Max2satModel.rub_admissible", "Ddo.Examples.Max2satModel.merge_ok", "Ddo.Examples.Max2satModel.tabOkB_iff",
              "Ddo.C16.knapsack_spec_adequate", "Ddo.C16.knapsack_spec_adequate_idx", "Ddo.C16.misp_spec_adequate", "Ddo.C16.mcp_spec_adequate", "Ddo.C16.max2sat_spec_adequate",
              "Ddo.C16.golomb_spec_adequate", "Ddo.C16.lcs_spec_adequate", "Ddo.C16.sop_spec_adequate", "Ddo.C16.srflp_spec_adequate", "Ddo.C16.talentsched_spec_adequate",
              "Ddo.C16.psp_spec_adequate", "Ddo.C16.tsptw_spec_adequate", "Ddo.C16.alp_spec_adequate", "Ddo.C16.alp_spec_infeasible",
              "Ddo.SpecUtil.mem_sublists", "Ddo.SpecUtil.mem_perms", "Ddo.SpecUtil.mem_tuples", "Ddo.SpecUtil.maxOf_eq_some", "Ddo.SpecUtil.minOf_eq_some"],
    stated_not_proved=["DP model / relaxation of the nine other examples (mcp, lcs, golomb, sop, tsptw, srflp, talentsched, psp, alp) as Lean models: they are decided by correspondence with the exhaustive specifications alone",
                       "max2sat: exactness of the DP model (DpExactStmt) and TabOkOfInst (the hypotheses of rub_admissible / merge_ok follow from the instance) are stated only - both are evaluated on every instance by the driver; WfRel cannot be instantiated as is (next_variable reads the depth from the first state of the layer)",
                       "lcs (consequence of D5) and sop (D12) print a too small / too large objective on some instances: open known findings"],
    level_text="Each shipped example program is run as built from the working tree (cargo build --examples, debug profile) on generated instance files of its own input format, for widths {1, 2, 3, default} x threads {1, 2, 4}, and the printed objective is compared by the Lean driver with an executable exhaustive specification of the underlying combinatorial problem written in Lean independently of the DP models (DdoModel/Examples/*.lean: all subsets / assignments / permutations of the tiny instance). Each of the twelve executable specifications is PROVED adequate (Props/C16.lean, 1650 lines): its value is v iff v is the optimum of a declarative statement of the problem - there is a feasible solution of objective v and every feasible solution is no better - with feasibility a plain predicate written without reference to the enumeration (sub-lists within capacity; independent sets; bipartitions; assignments; Golomb rulers, incl. the proof that the search bound 2^(n-1) loses nothing; common subsequences; precedence-respecting permutations; layouts; schedules; timed tours; runway / time assignments with a dominance argument for the greedy landing times), and -1 iff no feasible solution exists. Crashes, hangs (watchdog) and 'Aborted: true' are failures. For the knapsack example the DP model, merge operator, relaxation, Dantzig rough bound and ranking are additionally modelled in Lean (KnapsackDp.lean), tied POINTWISE to the example's own code - the example's source file is compiled into the harness by path and every next_variable / for_each_in_domain / transition / transition_cost / fast_upper_bound / merge / relax / compare answer along random walks is recomputed by the model (engine exmodel, which also checks on every instance the hypotheses of the theorem: the order chosen by Knapsack::new is a permutation sorted by exact ratio) - and proved well-formed; the same level-A tie exists for the MISP example (MispDp.lean: bitset states, the DYNAMIC variable order computed from the states of the layer, is_impacted_by; the example's private constructor and reader are reached without touching its source; MispModel.lean proves WfRel with no hypothesis on the instance - rough bound admissible, union merge a relaxation, the dynamic order harmless - hence misp_relaxed_ub, and misp_exact_opt on loop-free graphs, with the potential proved equal to the exhaustive specification on the induced subgraph) and for the MAX2SAT example (Max2satDp.lean mirrors the weight table with its offset / mk_lit indexing, the ordering, transition, cost, merge, relax and the bound tables; rub_admissible and merge_ok are theorems for weights of any sign; the driver additionally checks pointwise, by exhaustive enumeration over the remaining variables, that the bound the CODE returned dominates the best completion, that every merge + relax event over-approximates each merged-away state, and that every walk prefix plus its best completion equals the independent specification) (WfRel instance; Dantzig admissibility fully proved for ratio-sorted items with positive weights and non-negative profits), so that the diagram theorem applies: its relaxed diagrams never report less than the exhaustive optimum (knapsack_relaxed_ub). The checks found eight defects in the shipped examples on in-format instances (six repaired by fix: commits - knapsack, psp / sop / alp infeasible instances, talentsched, misp, max2sat, tsptw -, two recorded as open known findings: lcs = D5 showing through, sop = D12).",
    level_note="Partial: the theorem part covers the knapsack example only; for the other examples the deciding evidence is the correspondence with the exhaustive specification (a differential check, not a proof) - the property quantifies over twelve whole programs including parsers and float arithmetic, which are compared black-box. Instances are tiny by necessity (exhaustive enumeration); out-of-domain instances (generator tags ood_*: self-loops, duplicate clauses / edges, non-metric distances, unsorted aircraft, ...) are excluded. Golomb has no instance file (the 'file' is n). The knapsack model abstracts nothing any more since fix 4f57927 replaced the f64 floor by exact integer arithmetic (the abstraction was where the defect was).",
    engines=[dict(name="ex", label="ex_" + n, args=[n, "--per=24,300" if n == "golomb" else "--per=150,1500"]) for n in EX_NAMES] + [dict(name="exmodel")],
    trusted_base=TB_COMMON + ["the exhaustive specifications DdoModel/Examples/*.lean are the reference (written from the problem statements, independently of the DP models)", "process spawning, stdout parsing of the example binaries"],
    assumptions=["instances within each example's documented input domain (generator tags ood_* are excluded)", "sop: no -1 on the diagonal of the distance matrix (hypothesis hdiag of sop_spec_adequate: the specification ignores such an entry while the reader makes the job its own predecessor; the generator never writes one)"],
    rule="per example: random small instances in the example's file format (sizes small enough for exhaustive enumeration), the corpus of minimised past failures first, widths {1,2,3,default} x threads {1,2,4} (two combinations per instance, all combinations over a run); non-trivial = all; distinct = distinct (instance, width, threads)",
    trivial_tags=[],
)

PROPS["C15"] = dict(
    modules=["DdoModel.Props.C15"],
    theorems=["Ddo.C15.unimpacted_stays_in_pool", "Ddo.C15.layer_only_impacted", "Ddo.C15.branchOn_keeps", "Ddo.C15.expandFold_keeps",
              "Ddo.C01.process_inv", "Ddo.C01.complete_optimal"],
    stated_not_proved=["Ddo.C15.pooled_eq_clean_opt (solvers with the pooled diagram terminate and return the optimum): false in the current code for long-arc models - open known finding D5 (C08 / C15 entries of KNOWN_FINDINGS.txt)",
                       "pooled_* versions of the diagram contracts under SkipOk"],
    level_text="The pooled diagram model reproduces the implementation exactly on every explored compilation with random irrelevance patterns (long arcs); solver tapes with the pooled diagram on long-arc models are validated by the solver model, with deterministic non-termination detection (pop cap) and default-completed replay of the reported solutions. Proved on the model for every input: a pool node not impacted by the layer's variable is skipped past the layer (stays in the pool, same state, value never decreases) and only impacted nodes form the layer; the solver-level optimality theorems (C01) are generic in the diagram and apply once the pooled diagram meets the contracts. It does not with long arcs: the checks rediscover D5 (the root is handed out by its own cut-set -> non-termination), recorded as an open known finding.",
    level_note="Partial, with an open known finding: termination and optimality with long arcs do not hold in the current code (D5) and are therefore not theorems; what is proved is the skipping mechanism and the generic solver composition. Hang detection is a deterministic pop cap (50 000 pops for instances of at most 8 layers), not a wall clock.",
    engines=[dict(name="mdd", label="mdd_pooled_long", args=["--pooled", "--long-arcs"]), dict(name="seq", label="seq_long", args=["--long-arcs"])],
    trusted_base=SEQ_TB,
    assumptions=["non-impacted states carry one neutral decision (the harness families), SkipOk"],
    rule=SEQ_RULE + "; long-arc instances: depth-free TableDP with random irrelevance patterns (a state is impacted by a variable iff one of its base states is), all three diagram kinds (the plain diagrams expand every state on every variable), widths 1..3, cache on/off",
    trivial_tags=SEQ_TRIVIAL + MDD_TRIVIAL,
)

PROPS["C07"] = dict(
    modules=["DdoModel.Props.C07", "DdoModel.Props.C07b", "DdoModel.Props.C07p"],
    theorems=["Ddo.C07.restricted_sound", "Ddo.C07.restricted_sound_detail", "Ddo.C07.exact_nodes_reachable", "Ddo.C07.exact_nodes_reachable_gen",
              "Ddo.C07.exact_nodes_step", "Ddo.C07.root_reach", "Ddo.buildLoop_exact_reach", "Ddo.finalize_bestSol_eq",
              "Ddo.C07.exact_mode_opt", "Ddo.C07.exact_mode_opt_rel", "Ddo.C07.exact_mode_opt_value", "Ddo.C07.restricted_exact_truthful", "Ddo.C07.restricted_exact_truthful_rel",
              "Ddo.C07.restricted_exact_value", "Ddo.C07.nonrelaxed_le_opt", "Ddo.C07.exact_mode_le", "Ddo.C07.CounterCache.counter", "Ddo.C07.CounterClamp.counter",
              "Ddo.C07.exact_nodes_reachable_pooled", "Ddo.C07.exact_nodes_reachable_pooled_compile", "Ddo.C07.exact_nodes_reachable_pooled_allImpacted", "Ddo.C07.restricted_sound_pooled",
              "Ddo.C07.restricted_sound_pooled_allImpacted", "Ddo.ReachSkip.toReach", "Ddo.Reach.toSkip"],
    stated_not_proved=["the optimum clauses for the pooled diagram (correspondence + phi)", "the optimum clauses with a cutoff position (stopAt = none in the theorems)"],
    level_text="For the clean diagram model (all compilation types, any cache / dominance configuration, any cutoff): every node flagged exact anywhere in the diagram is genuinely reached from the problem root by the decisions of its best-arc chain with exactly its value and depth (invariant of the whole compilation loop, 1150 lines of Lean); hence a restricted or exact compilation never reports a value above the sub-problem optimum: its best value is that of a genuinely feasible complete solution, and the reported best_solution is the root path followed by exactly those decisions (restricted_sound). The remaining clauses (an exact-claiming restricted diagram and exact mode reach the optimum) are evaluated as property predicates against the exact value-to-go of every explored instance. The model is tied to the code by complete observation of single compilations (engine mdd).",
    level_note="The optimum clauses are theorems as well (C07b / MddTruth.lean): in isolation, for a well-formed model (Potential, RubOk, NoClamp; no MergeOk / AttMerge / width hypothesis), a compilation in exact mode declares itself exact and reports the optimum of the sub-problem with a feasible solution of that value whenever the optimum beats the incumbent, whatever the width (exact_mode_opt); a restricted compilation that declares itself exact does the same (restricted_exact_truthful); any restricted / exact compilation reports at most the optimum (nonrelaxed_le_opt, any cache / dominance / cutoff). Isolation is necessary: CounterCache is a kernel-checked restricted compilation with one explored cache entry that is 'exact' yet reports nothing while the optimum beats the incumbent; CounterClamp shows the guard on saturation is necessary. Pooled diagram: exact_nodes_reachable_pooled / restricted_sound_pooled - the same soundness statements with ReachSkip (a path in which a layer whose variable does not impact the state contributes no decision: long arcs), which coincides with Reach when every state is impacted by every variable. Hypothesis NoClamp: costs bounded so that isize saturation never fires on path values. MddExact.lean was produced by a delegated proof session and is checked by the same lake build / axiom audit.",
    engines=MDD_ENGINES, trusted_base=MDD_TB,
    assumptions=["NoClamp (no isize saturation on path values)", "the root sub-problem is exact (Reach)"],
    rule=MDD_RULE, trivial_tags=MDD_TRIVIAL,
)

PROPS["C06"] = dict(
    modules=["DdoModel.Props.C06", "DdoModel.Props.C06b", "DdoModel.Props.C07", "DdoModel.Examples.KnapsackModel"],
    theorems=["Ddo.C06.relaxed_ub", "Ddo.C06.relaxed_ub_static", "Ddo.C06.relaxed_ub_rel_dom", "Ddo.C06.relaxed_ub_rel",
              "Ddo.C06.relaxed_exact_truthful", "Ddo.C06.relaxed_exact_truthful_rel", "Ddo.C06.relaxed_exact_value", "Ddo.C06.relaxed_exact_solution", "Ddo.C06.relaxed_nomerge_truthful",
              "Ddo.C06.Tie.must_example", "Ddo.C06.Tie.finding",
              "Ddo.Examples.KnapsackModel.wfRel", "Ddo.Examples.KnapsackModel.rubAdmissible", "Ddo.Examples.KnapsackModel.H_root", "Ddo.Examples.KnapsackModel.knapsack_relaxed_ub", "Ddo.C06.CounterA.counter", "Ddo.C06.CounterB.counter",
              "Ddo.C07.exact_nodes_reachable"],
    stated_not_proved=["feasibility of best_exact_solution for the 'may' resolution of the exact-best-path tie (when the best terminal nodes tie in value and only some of them have an exact best path the code's answer depends on hash order; the value clauses are proved for both resolutions, the solution clause for the 'must' resolution and whenever nothing was merged; Tie.finding shows the model's own tie-break is not the one to replay): evaluated by replaying the implementation's solution (phi)",
                       "truthful exactness with a cutoff position (stopAt = none in the theorems)",
                       "pooled diagram; compile_history_independent holds by construction of the model (a pure function of the input) and is watched by running 0..3 earlier compilations on the same object"],
    level_text="relaxed_ub: for the clean diagram model (LEL and frontier), any well-formed model (Potential, RubOk, MergeOk in potential form), any width >= 1 and any incumbent, a relaxed compilation in isolation reports a best value >= the optimum of the sub-problem whenever that optimum beats the incumbent - proved by a coverage invariant over the whole compilation loop, merge (fresh and recycled merged node) and rough-bound pruning included (1440 lines of Lean), with a concrete non-vacuity instance in which a merge really happens. Two extra hypotheses turned out to be necessary and are proved necessary by counter-examples in Lean: AttMerge (the variable is selected by next_variable *before* the layer is squashed, so it must also suit the merged state - automatic for static variable orders: relaxed_ub_static) and o <= isize::MAX or lb < isize::MAX. The exactness-claim clauses are evaluated against the exact value-to-go on every explored compilation (phi), incl. an unobserved history of earlier compilations on the same object.",
    level_note="Sentence 2 (truthful exactness) is proved too (MddTruth.lean, 1440 lines): a relaxed compilation in isolation whose result declares itself exact has best exact value = best value = the optimum of the sub-problem (when it beats the incumbent), for both resolutions of the hash-order tie, and its best_exact_solution is a feasible complete solution of that value (must-resolution / nothing merged). Pooled model by correspondence + phi only. Hypotheses: Potential / RubOk / MergeOk / AttMerge, NoClamp (no isize saturation on path values), isolation (EmptyCache, no dominance rule). The single proof is relaxed_ub_rel_dom: well-formedness relativised to a validity predicate V on (depth, state) pairs closed under transition and merge (WfRel), so that models whose state embeds the depth qualify; relaxed_ub (V := True) is a corollary. Instance: the model of the shipped knapsack example (state = (depth, capacity), merge = last maximal capacity, Dantzig rough bound with the f64 floor abstracted to the exact integer floor) satisfies WfRel whenever the items are sorted by ratio along `order`, weights are positive and profits non-negative (rubAdmissible: Dantzig admissibility fully proved; positive weights are necessary - capacity 0 with an item of weight 0 is a counter-example the Rust loop would stop on), hence knapsack_relaxed_ub: the example's relaxed diagram never reports less than the exhaustive optimum Knapsack.best. KnapsackModel.lean is a hand model of examples/knapsack/main.rs not yet tied pointwise to the example's code (the example binary as a whole is tied by C16's engine). MddCover.lean, WfRel.lean, KnapsackModel.lean were produced by a delegated proof session and are checked by the same lake build / axiom audit.",
    engines=MDD_ENGINES, trusted_base=MDD_TB,
    assumptions=["well-formed model in potential form (DESIGN.md 5.2), relativised to valid (depth, state) pairs", "NoClamp (on domain decisions)", "AttMerge / vstepMerge (dynamic variable orders)"],
    rule=MDD_RULE, trivial_tags=MDD_TRIVIAL,
)

PAR_RULE = ("random TableDP / Knapsack instances x {LEL, frontier, pooled} x {EmptyCache, SimpleCache} x {SimpleFringe, NoDupFringe} x width heuristics x 1..4 worker threads, the real ParallelSolver under the controlled scheduler "
            "(hook H1: one worker runs between two acquisitions of the critical mutex; at quiescence the policy - uniform random or PCT-style priorities with change points, derived from the seed - picks who enters its next section; "
            "in a third of the runs every cache read / write inside a compilation is a scheduling point too); variants: thread count different from the construction-time count (--resize), cutoff at poll 1..13 (--cutoff); "
            "the linearised trace is replayed through the Lean model of the parallel solver and through the synchronisation skeleton; deadlock = quiescent state with a parked worker and nobody runnable; non-termination = step bound; "
            "non-trivial = a worker waited on the condvar, more than two compilations, a cutoff, a resize; distinct = distinct instance + configuration + schedule")
PAR_TRIVIAL = ["lel", "frontier", "pooled", "cache", "nocache", "threads1", "threads2", "threads3", "threads4", "cache_yield"]
PAR_TB = SEQ_TB + ["parking_lot::{Mutex, Condvar}: sections are atomic, wait releases the lock and parks atomically, notify_all wakes every parked worker; std::thread::scope joins all workers (modelled, not verified)",
                   "hook H1 (feature xgillard_ddo_verif, add-only) and the harness scheduler; weak-memory effects are outside the model"]
PAR_ENGINES = [dict(name="par", label="par", args=[]), dict(name="par", label="par_resize", args=["--resize"]), dict(name="par", label="par_cutoff", args=["--cutoff"]),
               dict(name="par", label="par_cache", args=["--focus-cache"])]

PROPS["C04"] = dict(
    modules=["DdoModel.Props.C04", "DdoModel.Props.C03b", "DdoModel.Props.C03c"],
    theorems=["Ddo.C04.par_ongoing_inv", "Ddo.C04.par_reachable_inv", "Ddo.C04.par_no_crash", "Ddo.C04.par_no_stuck", "Ddo.C04.par_complete_only_when_closed",
              "Ddo.C04.initial_inv", "Ddo.C04.maximize_never_stuck", "Ddo.ParSync.stepAt_sound", "Ddo.ParSync.stepOrStutter_sound", "Ddo.ParSync.invB_iff",
              "Ddo.ParSync.d3_step1", "Ddo.ParSync.d3_step2", "Ddo.ParSync.s2_stuck",
              "Ddo.C03b.sys_terminates", "Ddo.C03b.sys_no_infinite_run", "Ddo.C03b.sys_progOk",
              "Ddo.C03c.par_terminates", "Ddo.C03c.par_no_infinite_run", "Ddo.C03c.par_no_gwCrash", "Ddo.C03c.par_notify_defined", "Ddo.C03c.par_no_panic", "Ddo.C03c.par_progress",
              "Ddo.C03c.par_layinv", "Ddo.C03c.parallel_solver_total"],
    stated_not_proved=["thread counts changed after construction are covered on the synchronisation skeleton (ubSlots vs number of workers: par_no_crash, D3 witness) and by the scheduled runs (--resize); the concrete closed theorem starts from U workers with U cells"],
    level_text="For the synchronisation skeleton of the parallel solver (any number of workers, every interleaving, cutoff firing at any moment) it is proved by induction over the transition relation that: the ongoing counter equals the number of workers holding a node and a parked worker implies work in progress (inductive invariant); no worker crashes when upper_bounds has a cell per worker; in every state reachable from the initial state of maximize() in which some worker has not left its loop some step is enabled (no deadlock, no lost wake-up); Complete is answered only when nothing is open or in progress. The skeleton is tied to the code in two checked hops: the executable model of the parallel solver is validated trace by trace against the real solver under a controlled scheduler, and every section of the executable model is checked (by a recogniser proved sound) to be invisible to the skeleton or exactly one of its steps, with the invariant evaluated in every state. The D3 deadlock (with_nb_threads above the construction-time count) was found by the scheduler, is kept as a proved stuck-state witness, and is repaired (fix commit).",
    level_note="Partial: termination proper (well-foundedness) is not proved; it is bounded by the scheduler's step bound in every explored run. Mutex / condvar semantics are modelled (atomic sections, atomic release-and-park, notify_all wakes all), not verified; the model cannot exhibit weak-memory effects.",
    engines=PAR_ENGINES, trusted_base=PAR_TB,
    assumptions=["mutex / condvar semantics as modelled", "a cell of upper_bounds per worker (true by construction since fix 0737e5d)"],
    rule=PAR_RULE, trivial_tags=PAR_TRIVIAL,
)
PROPS["C03"] = dict(
    modules=["DdoModel.Props.C03", "DdoModel.Props.C03b", "DdoModel.Props.C03c", "DdoModel.Proofs.ParSysExecSound"],
    theorems=["Ddo.C03.par_cover", "Ddo.C03.run_cover", "Ddo.C03.par_correct", "Ddo.ParCover.step_inv", "Ddo.ParCover.final",
              "Ddo.C03b.sys_inv_init", "Ddo.C03b.sys_inv_init_primal", "Ddo.C03b.sys_inv_step", "Ddo.C03b.sys_inv", "Ddo.C03b.sys_inv_seq", "Ddo.C03b.sys_complete_optimal",
              "Ddo.C03b.sys_complete_value", "Ddo.C03b.sys_final", "Ddo.C03b.sys_terminates", "Ddo.C03b.sys_progOk", "Ddo.C03b.sys_no_infinite_run",
              "Ddo.C03c.parallel_solver_correct", "Ddo.C03c.parallel_solver_total", "Ddo.C03c.parallel_solver_primal", "Ddo.C03c.par_pcinv", "Ddo.C03c.par_contract_R", "Ddo.C03c.par_contract_X",
              "Ddo.C03c.par_complete_optimal", "Ddo.C03c.par_infeasible", "Ddo.C03c.par_terminates", "Ddo.C03c.par_no_panic", "Ddo.C03c.par_progress", "Ddo.C03c.Trap2.correct",
              "Ddo.C03c.Trap2.zero_threads",
              "Ddo.ParSys.exec_sound", "Ddo.ParSys.execRun_sound", "Ddo.ParSys.execRun_sound_mem", "Ddo.ParSys.execRun_inv", "Ddo.ParSys.execRun_final", "Ddo.ParSys.popMax?_sound"],
    stated_not_proved=["for runs WITH the threshold cache the trace validator is linked to the proved step relation only by construction (same ParSolver.lean functions); cache-less runs are linked by a checked refinement (below)",
                       "runs with cache / dominance (C09 / C10)", "the closed theorem reads relaxed compilations through the must-resolution of the exact-best-path tie (as C01)"],
    level_text="For the data-level transition system of the parallel solver (fringe, incumbent, and the nodes held by workers together with the stale incumbent each worker read and what its compilations answered; any number of workers; every interleaving of the critical sections and lock-free compilations) the coverage invariant is proved to be preserved by every step of every worker in every order under exactly the diagram contracts, and to imply that the incumbent is the optimum once nothing is open or held. The executable model of the parallel solver, which has the same sections, is validated against the real solver trace by trace under the controlled scheduler (thread counts 1..4, random and PCT schedules, cache accesses as scheduling points), and phi compares every final value with the exact optimum.",
    level_note="Checked link between the code's runs and the proved system: for every scheduled run without threshold cache the driver advances, next to its trace validator, a state of the proved transition system ParSys by the executable step function Sys.exec (one action per StepG constructor, fed with what the tape says the fringe / diagram answered; the maximal-pop side condition is CHECKED on the model's fringe), rejects the trace if a section is not such a step or if the shared record or a worker's state differs from the validator's after any section, and exec_sound / execRun_sound prove that whatever Sys.exec accepts is a Step / Run of ParSys - so every accepted real run IS a run of the system the theorems are about (execRun_inv, execRun_final: its invariants and its final-state theorem apply to it). Closed theorem (parallel_solver_correct, C03c): for every well-formed model (same bundle as C01: Potential, RubOk, MergeOk, AttMerge, bounded costs, NvBound, widths >= 1) and every number of threads U >= 1, from the initial state every run of the concrete parallel system in which the compilations are THE DIAGRAM MODEL'S answers (EmptyCache, no dominance; cutoffs may strike any compilation) - every interleaving - satisfies the invariants, terminates (no infinite run), never takes a panic step, is never stuck while a worker is still there (no deadlock, no lost wake-up), and when get_workload answers Complete the incumbent is the optimum with a genuinely feasible stored solution and completion = (true, some opt), (true, none) iff the problem is infeasible; after a cutoff best_lb <= opt <= best_ub and not exact; parallel_solver_total: uninterrupted runs exist and every one of them ends with all workers gone and the optimum; parallel_solver_primal: from a feasible primal, max(v, opt). The per-worker side conditions (stale incumbent in range, node in hand reached exactly, ...) are an invariant PCInv; the contracts are derived from C06 - C08 for the stale incumbent each worker read. Non-vacuity: two threads on the Trap model, evaluated by the kernel through a deterministic scheduler (a state where one thread has published incumbent 4 while the other is about to compile with the stale incumbent 1). U >= 1 is necessary: with nb_threads = 0, which custom() / with_nb_threads() accept, maximize() reports (is_exact = true, no value) for any problem (Trap2.zero_threads) - outside the property's quantifier (>= 1), recorded as an observation. Second stage (C03b, ParSys.lean + 2000 lines of proofs): the same results are theorems about the CONCRETE model - the shared record ParCrit with the ParSolver.lean functions themselves (popLoop, take, readLb, updateBest, enqueue, notifyFinished, abortSearch, complete) and one local state per worker, 15 step constructors composed as parallel.rs composes its sections, both fringes, cutoffs and worker panics included: the invariant SysInv (coverage; per worker: the stale incumbent it read is below the current one and its compilations meet the contracts for the incumbent it read; upper_bounds[i] is the bound of the node worker i holds; ongoing = number of holders) holds initially (with or without a primal) and along every run of every interleaving (sys_inv); when get_workload answers Complete the incumbent is the optimum with a feasible solution, none iff infeasible (sys_complete_optimal, sys_complete_value); what maximize() returns once all workers are done (sys_final); no infinite run at all, wait steps included, when cut-sets make progress (sys_terminates, sys_no_infinite_run: lexicographic measure on per-depth counts of open nodes). First stage: abstract data-level system; proved without cache and dominance; the link trace validator -> step relation is by construction of the definitions, not a checked refinement; synchronisation (no deadlock) is C04. Atomicity of the critical sections is assumed (mutex semantics).",
    engines=[PAR_ENGINES[0], PAR_ENGINES[3]], trusted_base=PAR_TB,
    assumptions=["diagram contracts (C06-C08)", "atomic critical sections"],
    rule=PAR_RULE, trivial_tags=PAR_TRIVIAL,
)
# the parallel parts of C02 / C05 ride on the same engine
PROPS["C02"]["engines"] = PROPS["C02"]["engines"] + PAR_ENGINES + [dict(name="parstress")]
PROPS["C03"]["engines"] = PROPS["C03"]["engines"] + [dict(name="parstress")]
PROPS["C04"]["engines"] = PROPS["C04"]["engines"] + [dict(name="parstress")]
PROPS["C14"]["engines"] = PROPS["C14"]["engines"] + [PAR_ENGINES[0]]
PROPS["C17"]["trivial_tags"] = PROPS["C17"]["trivial_tags"] + SEQ_TRIVIAL + PAR_TRIVIAL
PROPS["C14"]["trivial_tags"] = PROPS["C14"]["trivial_tags"] + PAR_TRIVIAL
PROPS["C05"]["engines"] = PROPS["C05"]["engines"] + [PAR_ENGINES[2]]
PROPS["C05"]["level_note"] = "Parallel part: sys_cutoff_bounds - in every reachable state of the concrete parallel model best_lb <= optimum, and after one or several abort_search calls (no crashed worker) optimum <= best_ub; sys_final: after an abort maximize() returns best_lb <= optimum <= best_ub, not exact, with a feasible solution of value best_lb. The proof attempt exposed that the first repair of D4 (976f40b) was incomplete: d4b_witness is a kernel-checked 20-step run of the system built with the intermediate formula (abortSearchD4) ending with best_ub = 10 < best_lb = optimum = 15; it was confirmed on the real code, repaired (5976a75), and d4b_fixed replays the schedule with the current formula. The tie to the code is trace validation + phi on every scheduled run with a cutoff (early and late cutoffs)."
PROPS["C05"]["stated_not_proved"] = ["the bound with a crashed worker (NoCrash is necessary: a worker that panics inside get_workload holds a popped node whose bound never reached upper_bounds; the real code then re-raises the panic and reports nothing)"]

PROPS["C08"] = dict(
    modules=["DdoModel.Props.C08", "DdoModel.Props.C08b", "DdoModel.Props.C08p"],
    theorems=["Ddo.C08.finalize_cutset", "Ddo.C08.cutset_exact", "Ddo.C08.cutset_progress", "Ddo.C08.cutset_empty_of_exact", "Ddo.compile_wf",
              "Ddo.C08.cutset_ub_valid", "Ddo.C08.cutset_cover", "Ddo.Bounds.computeCutset_frontier_mem", "Ddo.Bounds.compile_lbmax_cutset",
              "Ddo.C08.cutset_exact_pooled", "Ddo.C08.cutset_progress_pooled_allImpacted", "Ddo.C08.not_cutset_progress_pooled"],
    stated_not_proved=["pooled diagram: (ii) is FALSE with long arcs in the current code (open known finding D5) - refuted on the model by a kernel-checked witness (not_cutset_progress_pooled: the cut-set contains the root itself), proved under AllImpacted; (i) is proved for the pooled model in general (cutset_exact_pooled); (iii), (iv) for the pooled model by correspondence + phi only",
                       "(iii) / (iv) with a threshold cache or a dominance rule (the property is about diagrams compiled in isolation)"],
    level_text="All four clauses are theorems about the clean diagram model, for both cut-set kinds (last exact layer and frontier), both admissible resolutions of the exact-best-path tie, any cutoff position: (i) every sub-problem handed out by the cut-set is exact - genuinely reached from the problem root by its path (root path followed by the decisions of its best-arc chain) with exactly its value and depth - and (ii) lies strictly deeper than the sub-problem the diagram was compiled for; the cut-set is empty when no layer was squashed (any cache / dominance configuration for (i), (ii)). For a relaxed compilation in isolation of a well-formed model (Potential, RubOk, MergeOk, AttMerge, NoClamp): (iii) the ub recorded for a cut-set sub-problem - min(value + rub, value + local bound, best value of the diagram), exactly the field the code computes - is at least the value of the best completion through it whenever that completion beats the incumbent, and (iv) if the optimum of the root sub-problem beats both the incumbent and the best exact value found, some cut-set sub-problem still carries it. Proved through invariants of the whole compilation loop (arcs between consecutive layers; exactness up to the last exact layer; a liveness invariant with potential-preserving paths for the bottom-up local bounds; 975 + 1150 + 2430 lines of Lean), with kernel-checked instances on which the bounds of (iii) are tight. For the pooled diagram the checks rediscover D5 (clause (ii) fails with long arcs), recorded as an open known finding.",
    level_note="(iii) / (iv) are stated in potential form (H: value of the best completion of a state at a depth) under the same hypotheses as C06.relaxed_ub plus exactness of the root sub-problem (Reach); the driver additionally evaluates all four clauses against the exact value-to-go on every explored compilation. (iii) is evaluated only for compilations that received no dominance verdict (a child pruned in favour of a dominator of the same layer is soundly missing from the local bound - decision recorded in DESIGN.md 11.3). Pooled model: correspondence + phi with an open known finding. MddCutset.lean / MddBounds.lean were produced by delegated proof sessions, checked by the same lake build / axiom audit.",
    engines=MDD_ENGINES, trusted_base=MDD_TB,
    assumptions=["NoClamp", "the root sub-problem is exact (Reach)"],
    rule=MDD_RULE + "; pooled diagrams additionally with long arcs", trivial_tags=MDD_TRIVIAL,
)

PROPS["C09"] = dict(
    modules=["DdoModel.Props.C09", "DdoModel.Props.C09b"],
    theorems=["Ddo.C09.clear_layer_safe_seq", "Ddo.C09.clear_layer_safe_par", "Ddo.C09.must_explore_spec", "Ddo.C09.threshold_never_decreases",
              "Ddo.C18.get_eq_max_since_clear", "Ddo.C18.update_comm", "Ddo.C18.updates_perm_invariant",
              "Ddo.C09.theta_sound", "Ddo.C09.theta_sound_isolated", "Ddo.C09.theta_contract_of_model", "Ddo.C09.exact_contract_of_model", "Ddo.C09.cover_contract_of_model",
              "Ddo.C09.cacheRun_inv", "Ddo.C09.caching_run_optimal", "Ddo.C09.cachePruneOk", "Ddo.C09.clear_layer_preserves"],
    stated_not_proved=["Ddo.C09.AnyOrder: preservation of the caching invariant without best-first pops (the proof uses that the popped node's bound dominates every fringe bound - the MaxUB order; the obstacle for arbitrary sub-problem rankings is the capping of cut-set bounds by a parent bound that was computed in a diagram cut by the cache); watched by the correspondence runs",
                       "Ddo.C09.CompCRest: the remaining fields of the cached-compilation contract for the diagram model (ub, fresh, sound for relaxed compilations with cache; thresholds recorded by exact restricted compilations) - so there is no closed theorem over the diagram model with the cache yet",
                       "Ddo.C09.Parallel: the parallel solver with the cache"],
    level_text="Sentence 2 (threshold soundness) is a theorem about the diagram model: theta_sound - for a relaxed compilation, with or without consulting a cache of any content, both cut-set kinds, both tie resolutions, any cutoff position, every cache update (s, d, theta, explored) it emits is justified: any sub-problem with state s at depth d and value v <= theta has every completion either no better than the incumbent absorbed from this diagram (max(lb, best exact value)), or no better than the potential of a cut-set node of this diagram at depth >= d, or (when a cache was consulted) no better than what an entry of that cache strictly deeper covers (2 900 lines: loop invariant of the compilation with the cache filter, pull form of _compute_thresholds, exact flags of both cut-set computations, downward induction over the layers). Sentence 1 at solver level, for best-first pops (the MaxUB order of the shipped solvers): the coverage invariant extended with 'every cache entry is justified by a LIVE open sub-problem that the cache itself cannot prune' holds initially, is preserved by process_one_node with must_explore answered by the cache and compilations meeting the cached contract, for both fringes, survives clear_layer (which only forgets), and implies that a run ending with the empty fringe holds the optimum with a feasible solution (cacheRun_inv, caching_run_optimal, cachePruneOk); three fields of the cached contract (thresholds, exactness, coverage modulo what the cache covers) are discharged from the diagram model. Data-structure part, for every history: the cache is a faithful max-map in (value, explored) order with commuting, idempotent, monotone updates; must_explore is exactly the rule of the property; layers are cleared only when nothing open (and, in parallel, nothing in progress) has that depth.",
    level_note="Partial: sentence 1 asks for every processing order and the parallel solver; the theorem covers best-first pops of the sequential solver with the remaining contract fields as hypotheses (see stated_not_proved). The any-order part is explored on the real code: engine seqorder runs the sequential solver (all diagram kinds, both fringes, cache mostly on) with five custom SubProblemRankings - smallest bound first, deepest first, shallowest first, largest value first, pseudo-random - and evaluates optimum, exactness and solution replay (the parallel solver's early termination 'popped bound <= incumbent => drop the fringe' is only meaningful for best-first pops, so custom rankings are a sequential-solver matter). An exhaustive search over all pop orders of about 220 000 random knapsack instances on the composed executable models found no wrong optimum either. The Theta* / SeqCache* files were produced by a delegated proof session and are checked by the same lake build / axiom audit.",
    engines=[dict(name="cache"), dict(name="mdd", label="mdd_clean", args=[]), dict(name="mdd", label="mdd_pooled", args=["--pooled"]),
             dict(name="seq", label="seq_cache", args=["--focus-cache"]), dict(name="par", label="par_cache", args=["--focus-cache"]), dict(name="seqorder")],
    trusted_base=PAR_TB,
    assumptions=["dashmap operations atomic (C18)"],
    rule=SEQ_RULE + "; --focus-cache: SimpleCache always on, saturating (heavily re-convergent) TableDP instances with few base states and many layers, width 1..2; " + PAR_RULE,
    trivial_tags=SEQ_TRIVIAL + MDD_TRIVIAL + PAR_TRIVIAL + ["exhaustive"],
)

# observables of the diagram engine each property is about (a disagreement on another observable alone does not alarm it)
PROPS["C06"]["observables"] = ["status", "polls"]
PROPS["C07"]["observables"] = ["status", "polls"]
PROPS["C08"]["observables"] = ["status", "cutset"]
PROPS["C09"]["observables"] = ["status", "ups", "cutset"]
PROPS["C10"]["observables"] = ["status", "ndom", "ups", "cutset"]
PROPS["C12"]["observables"] = ["log", "polls"]
PROPS["C13"]["observables"] = ["expanded"]
PROPS["C10"]["search"] = [dict(name="seq", label="seq_focus_dom", args=["--focus-dominance"]), dict(name="par", label="par_focus_dom", args=["--focus-dominance"])]
PROPS["C09"]["search"] = [dict(name="seq", label="seq_focus_cache2", args=["--focus-cache", "--focus-dominance"])]
# the optimality theorems of the solvers (C01 sequential, C03 parallel) assume the diagram contracts; their tie to the code
# therefore also covers what the solvers consume from a compilation: outcome and best values, cut-set (with bounds) and the
# thresholds written to the cache
for _p in ("C01", "C03"):
    PROPS[_p]["engines"] = PROPS[_p]["engines"] + MDD_ENGINES[:2]
    PROPS[_p]["observables"] = ["status", "cutset", "ups"]
    # focused generators for the failing-input search that follows a broken tie / proof obligation
    PROPS[_p]["search"] = ([dict(name="seq", label="seq_focus_cache", args=["--focus-cache"]), dict(name="seq", label="seq_focus_dom", args=["--focus-dominance"])] if _p == "C01"
                           else [dict(name="par", label="par_focus_cache", args=["--focus-cache"]), dict(name="par", label="par_focus_dom", args=["--focus-dominance"])])
    PROPS[_p]["trivial_tags"] = PROPS[_p]["trivial_tags"] + MDD_TRIVIAL
    PROPS[_p]["rule"] = PROPS[_p]["rule"] + "; plus single compilations (engine mdd): " + MDD_RULE
