//! Family `srflp` of engine `exmodel` (C16): pointwise correspondence between the DP model, relaxation (merge, relax, rough
//! bound with its sorted length / flow tables), ranking and width heuristic of the shipped srflp example and the Lean model
//! `DdoModel/Examples/SrflpDp.lean`.  The example's own source files are compiled in (see `build.rs`: copies made at build
//! time from the working tree, with `crate::` re-rooted and nothing else changed).  The instance always goes through the
//! example's own reader (a file; when the file NAME contains "Cl" the reader adds a clearance of 10 to every length: style
//! bit 8) and its constructor `Srflp::new`; recorded are the instance the reader built, the public tables `sorted_lengths`
//! and `sorted_flows`, `root_value`, `next_variable` on every depth, and — along random walks, on the states of the exact
//! layers (breadth first), on merged states, on walks continued from merged states and on arbitrary reachable-looking
//! states — every `for_each_in_domain`, `transition`, `transition_cost`, `is_impacted_by`, `fast_upper_bound`, `merge` (2–5
//! states, IN THE ORDER GIVEN), `relax`, `compare`, `max_width`; the objective `main.rs` prints for a complete walk.
//!
//! A state in full: `depth m <must_place, increasing> y <maybe_place, increasing> c cut_0 … cut_{n-1}`, with `n` instead of
//! `y …` when `maybe_place` is `None`.  Events (separated by `;`):
//!   `dims n` · `len l…` · `flw row , row , …` (the `SrflpInstance` the reader built) · `sl l i , l i , …` (`sorted_lengths`)
//!   `sf f i j , f i j , …` (`sorted_flows`) · `rv x` (`root_value()`, printed with `{}`) · `nv k`
//!   `ord v_0 … ` (`next_variable(depth)`, depth 0..=n+1, `n` = None) · `init S : value` · `rub S : bound`
//!   `pv S : value : decisions of the prefix (values, variables 0, 1, …)` · `obj value : what main.rs prints as Objective`
//!   `dom S : var : values in call order` · `tr S : var val : S' : cost` · `imp S : var : 0|1` · `mg S_1 , … , S_k : M`
//!   `rx SRC : DST : M : var val : cost : relaxed cost` · `rk A : B : lt|eq|gt` · `wd nb_vars factor : max_width`;
//!   a call that panics answers `panic`.
#[allow(dead_code, unused_imports, clippy::all)]
pub mod ex_srflp {
    include!(concat!(env!("OUT_DIR"), "/ex_srflp.rs"));
}
use crate::{out::Out, rng::Rng};
use ddo::*;
use ex_srflp::{heuristics::{SrflpRanking, SrflpWidth}, io_utils::read_instance, model::Srflp, relax::SrflpRelax, state::SrflpState};
use smallbitset::Set64;
use std::sync::Arc;

fn join<T: ToString>(v: &[T]) -> String { v.iter().map(|x| x.to_string()).collect::<Vec<_>>().join(" ") }
fn rows<T: ToString>(v: &[Vec<T>]) -> String { v.iter().map(|r| join(r)).collect::<Vec<_>>().join(" , ") }
fn members(s: Set64) -> String { s.iter().map(|x| format!(" {}", x)).collect::<String>() }
fn sst(s: &SrflpState) -> String {
    let maybe = match &s.maybe_place { None => "n".to_string(), Some(m) => format!("y{}", members(*m)) };
    format!("{} m{} {} c {}", s.depth, members(s.must_place), maybe, join(&s.cut))
}
fn sord(o: std::cmp::Ordering) -> &'static str { match o { std::cmp::Ordering::Less => "lt", std::cmp::Ordering::Equal => "eq", _ => "gt" } }
fn or_panic<T: ToString>(x: Option<T>) -> String { x.map(|x| x.to_string()).unwrap_or("panic".into()) }
fn srub(rlx: &SrflpRelax, s: &SrflpState) -> String { or_panic(crate::out::catch(|| rlx.fast_upper_bound(s))) }
fn sdom(pb: &Srflp, var: Variable, s: &SrflpState) -> Option<Vec<isize>> {
    crate::out::catch(|| { let mut dom: Vec<isize> = vec![]; pb.for_each_in_domain(var, s, &mut |x: Decision| dom.push(x.value)); dom })
}
fn set_of(xs: &[usize]) -> Set64 { let mut s = Set64::empty(); for x in xs { s.add_inplace(*x); } s }
/// the instance file; `style` bits: 1 = commas, 2 = a leading empty line, 4 = several separators between numbers, 16 = empty
/// lines between the rows  (8 = the file name contains "Cl": see `run_one_srflp`)
fn sfile(n: usize, l: &[i64], c: &[Vec<i64>], style: u64) -> String {
    let sep = match style & 5 { 0 => " ", 1 => ",", 4 => "  ", _ => ", " };
    let row = |r: &[i64]| -> String { r.iter().map(|x| x.to_string()).collect::<Vec<_>>().join(sep) };
    let gap = if style & 16 != 0 { "\n\n" } else { "\n" };
    let mut f = String::new();
    if style & 2 != 0 { f.push('\n'); }
    f.push_str(&format!("{}{}{}{}", n, gap, row(l), gap));
    for r in c.iter() { f.push_str(&row(r)); f.push_str(gap); }
    f
}
/// one step from `s` on the variable of its depth: domain, random decision, transition, cost; events `dom`, `imp`, `tr`
fn sstep(pb: &Srflp, s: &SrflpState, ev: &mut Vec<String>, rng: &mut Rng) -> Option<(Decision, isize, SrflpState)> {
    let var = pb.next_variable(s.depth, &mut std::iter::once(s))?;
    let dom = match sdom(pb, var, s) { Some(d) => d, None => { ev.push(format!("dom {} : {} : panic", sst(s), var.id())); return None; } };
    ev.push(format!("dom {} : {} : {}", sst(s), var.id(), join(&dom)));
    if dom.is_empty() { return None; }
    let val = *rng.pick(&dom);
    let dec = Decision { variable: var, value: val };
    let s2 = crate::out::catch(|| pb.transition(s, dec));
    let cost = crate::out::catch(|| pb.transition_cost(s, s2.as_ref().unwrap_or(s), dec));
    ev.push(format!("tr {} : {} {} : {} : {}", sst(s), var.id(), val, s2.as_ref().map(sst).unwrap_or("panic".into()), or_panic(cost)));
    Some((dec, cost?, s2?))
}
/// a transition that the domain may forbid (panics are answers)
fn str_any(pb: &Srflp, s: &SrflpState, dec: Decision, ev: &mut Vec<String>) {
    let s2 = crate::out::catch(|| pb.transition(s, dec));
    let cost = crate::out::catch(|| pb.transition_cost(s, s2.as_ref().unwrap_or(s), dec));
    ev.push(format!("tr {} : {} {} : {} : {}", sst(s), dec.variable.id(), dec.value, s2.as_ref().map(sst).unwrap_or("panic".into()), or_panic(cost)));
}
/// a node of a layer: the state, the arc it was first reached by, the value and the decisions of that path (exact ones)
#[derive(Clone)]
struct Node { state: SrflpState, parent: SrflpState, dec: Decision, cost: isize, value: isize, decs: Vec<isize>, exact: bool }

fn run_one_srflp(n: usize, l: &[i64], c: &[Vec<i64>], walks: u64, style: u64, rng: &mut Rng) -> String {
    let name = if style & 8 != 0 { "ddo_verif_exmodel_srflp_Cl" } else { "ddo_verif_exmodel_srflp" };
    let path = std::env::temp_dir().join(format!("{}_{}.txt", name, std::process::id()));
    std::fs::write(&path, sfile(n, l, c, style)).expect("cannot write the instance file");
    let r = read_instance(&path);
    let _ = std::fs::remove_file(&path);
    let inst = r.expect("the example's reader rejects the instance");
    let pb = Srflp::new(inst);
    let rlx = SrflpRelax::new(&pb);
    let rk = SrflpRanking;
    let nv = pb.nb_variables();
    let mut ev: Vec<String> = vec![];
    // what the reader and the constructor built
    ev.push(format!("dims {}", pb.instance.nb_departments));
    ev.push(format!("len {}", join(&pb.instance.lengths)));
    ev.push(format!("flw {}", rows(&pb.instance.flows)));
    ev.push(format!("sl {}", pb.sorted_lengths.iter().map(|(l, i)| format!("{} {}", l, i)).collect::<Vec<_>>().join(" , ")));
    ev.push(format!("sf {}", pb.sorted_flows.iter().map(|(f, i, j)| format!("{} {} {}", f, i, j)).collect::<Vec<_>>().join(" , ")));
    ev.push(format!("rv {}", pb.root_value()));
    ev.push(format!("nv {}", nv));
    let root = pb.initial_state();
    let ord: Vec<String> = (0..=nv + 1).map(|k| pb.next_variable(k, &mut std::iter::once(&root)).map(|v| v.id().to_string()).unwrap_or("n".into())).collect();
    ev.push(format!("ord {}", ord.join(" ")));
    ev.push(format!("init {} : {}", sst(&root), pb.initial_value()));
    ev.push(format!("rub {} : {}", sst(&root), srub(&rlx, &root)));
    { // the width heuristic of main.rs (`-w factor`)
        let factor = rng.range(0, 12) as usize;
        let sub = SubProblem { state: Arc::new(root.clone()), value: 0, path: vec![], ub: isize::MAX, depth: 0 };
        ev.push(format!("wd {} {} : {}", nv, factor, SrflpWidth::new(nv, factor).max_width(&sub)));
    }
    // random walks from the root; `pv` = value and decisions of the prefix
    for _ in 0..walks {
        let mut s = pb.initial_state();
        let mut value = pb.initial_value();
        let mut decs: Vec<isize> = vec![];
        ev.push(format!("pv {} : {} :", sst(&s), value));
        for _ in 0..nv {
            ev.push(format!("imp {} : {} : {}", sst(&s), s.depth, pb.is_impacted_by(Variable(s.depth), &s) as u8));
            let (dec, cost, s2) = match sstep(&pb, &s, &mut ev, rng) { Some(x) => x, None => break };
            value += cost;
            decs.push(dec.value);
            ev.push(format!("pv {} : {} : {}", sst(&s2), value, join(&decs)));
            ev.push(format!("rub {} : {}", sst(&s2), srub(&rlx, &s2)));
            s = s2;
        }
        if decs.len() == nv {
            // the line `Objective:` of main.rs for this solution: `- v as f64 + problem.root_value()`
            ev.push(format!("obj {} : {}", value, - value as f64 + pb.root_value()));
        }
    }
    // the exact layers, breadth first through the example's own functions (not recorded: what is used below is)
    let mut layers: Vec<Vec<Node>> = vec![vec![]; nv + 1];
    {
        let mut cur: Vec<(SrflpState, isize, Vec<isize>)> = vec![(root.clone(), pb.initial_value(), vec![])];
        for depth in 0..nv {
            let var = pb.next_variable(depth, &mut cur.iter().map(|x| &x.0)).expect("next_variable");
            let mut next: Vec<Node> = vec![];
            for (s, v, decs) in cur.iter() {
                let dom = sdom(&pb, var, s).expect("for_each_in_domain panics on a reachable state");
                for val in dom {
                    let dec = Decision { variable: var, value: val };
                    let s2 = pb.transition(s, dec);
                    if next.iter().any(|x| x.state == s2) { continue; }
                    let cost = pb.transition_cost(s, &s2, dec);
                    let mut decs2 = decs.clone(); decs2.push(val);
                    next.push(Node { state: s2, parent: s.clone(), dec, cost, value: v + cost, decs: decs2, exact: true });
                }
            }
            next.truncate(300);
            cur = next.iter().map(|x| (x.state.clone(), x.value, x.decs.clone())).collect();
            layers[depth + 1] = next;
            if cur.is_empty() { break; }
        }
    }
    // merges of 2..=5 states of a layer in a recorded order (exact states, and states reached from merged states of the
    // layers above), the relaxed cost of the arc into each merged-away state, ranking, bound; then a walk from the merged state
    let mut extra: Vec<Vec<Node>> = vec![vec![]; nv + 1];
    for depth in 1..=nv {
        let mut pool: Vec<Node> = layers[depth].clone();
        pool.extend(extra[depth].iter().cloned());
        if pool.len() < 2 { continue; }
        let nmerge = if pool.len() >= 4 { rng.range(1, 2) } else { 1 };
        for _ in 0..nmerge {
            let kmax = (pool.len() as i64).min(5);
            let k = if kmax >= 3 && rng.chance(2, 3) { rng.range(3, kmax) } else { rng.range(2, kmax) } as usize;
            let mut idx: Vec<usize> = (0..pool.len()).collect();
            for i in (1..idx.len()).rev() { let j = rng.below(i as u64 + 1) as usize; idx.swap(i, j); }
            let mut pick: Vec<usize> = vec![];
            // half of the time relaxed states (they have a `maybe_place`) come first
            if rng.chance(1, 2) { for i in idx.iter() { if pick.len() < k && !pool[*i].exact { pick.push(*i); } } }
            for i in idx.iter() { if pick.len() < k && !pick.contains(i) { pick.push(*i); } }
            if rng.chance(1, 2) { for i in (1..pick.len()).rev() { let j = rng.below(i as u64 + 1) as usize; pick.swap(i, j); } }
            if rng.chance(1, 10) { let dup = pick[0]; pick.push(dup); }
            let pick: Vec<&Node> = pick.iter().map(|i| &pool[*i]).collect();
            for p in pick.iter() {
                ev.push(format!("tr {} : {} {} : {} : {}", sst(&p.parent), p.dec.variable.id(), p.dec.value, sst(&p.state), p.cost));
                if p.exact { ev.push(format!("pv {} : {} : {}", sst(&p.state), p.value, join(&p.decs))); }
                ev.push(format!("rub {} : {}", sst(&p.state), srub(&rlx, &p.state)));
            }
            let m = rlx.merge(&mut pick.iter().map(|p| &p.state));
            ev.push(format!("mg {} : {}", pick.iter().map(|p| sst(&p.state)).collect::<Vec<_>>().join(" , "), sst(&m)));
            for p in pick.iter() {
                let c = if rng.chance(1, 4) { rng.range(-30, 9) as isize } else { p.cost };
                ev.push(format!("rx {} : {} : {} : {} {} : {} : {}", sst(&p.parent), sst(&p.state), sst(&m), p.dec.variable.id(), p.dec.value, c, rlx.relax(&p.parent, &p.state, &m, p.dec, c)));
            }
            ev.push(format!("rk {} : {} : {}", sst(&pick[0].state), sst(&pick[1].state), sord(rk.compare(&pick[0].state, &pick[1].state))));
            ev.push(format!("rk {} : {} : {}", sst(&m), sst(&pick[0].parent), sord(rk.compare(&m, &pick[0].parent))));
            ev.push(format!("rub {} : {}", sst(&m), srub(&rlx, &m)));
            let mut s = m;
            for dd in depth..nv {
                ev.push(format!("imp {} : {} : {}", sst(&s), dd, pb.is_impacted_by(Variable(dd), &s) as u8));
                let (dec, cost, s2) = match sstep(&pb, &s, &mut ev, rng) { Some(x) => x, None => break };
                ev.push(format!("rub {} : {}", sst(&s2), srub(&rlx, &s2)));
                if extra[dd + 1].len() < 6 && !extra[dd + 1].iter().any(|x| x.state == s2) {
                    extra[dd + 1].push(Node { state: s2.clone(), parent: s.clone(), dec, cost, value: 0, decs: vec![], exact: false });
                }
                s = s2;
            }
        }
    }
    // arbitrary reachable-looking states (any depth `d < n`; `must_place` and `maybe_place` disjoint with
    // `|must| <= n - d <= |must| + |maybe|`; any non-negative cuts): bound, domain, one step, ranking; merges of 2..=4 of
    // them (same depth), relaxed cost of an arc into each, bound of the merged state, a walk from it
    for _ in 0..2 {
        let d = rng.below(nv as u64) as usize;
        let free = nv - d;
        let k = rng.range(1, 4) as usize;
        let cmax = *rng.pick(&[0i64, 3, 12, 40]);
        let sts: Vec<SrflpState> = (0..k).map(|_| {
            let mut perm: Vec<usize> = (0..nv).collect();
            for i in (1..perm.len()).rev() { let j = rng.below(i as u64 + 1) as usize; perm.swap(i, j); }
            let nmust = rng.range(0, free as i64) as usize;
            let nmaybe = if nmust == free && rng.chance(1, 2) { 0 } else { rng.range((free - nmust) as i64, (nv - nmust) as i64) as usize };
            let must = set_of(&perm[..nmust]);
            let maybe = if nmaybe == 0 { None } else { Some(set_of(&perm[nmust..nmust + nmaybe])) };
            SrflpState { must_place: must, maybe_place: maybe, cut: (0..nv).map(|_| rng.range(0, cmax) as isize).collect(), depth: d }
        }).collect();
        for s in sts.iter() { ev.push(format!("rub {} : {}", sst(s), srub(&rlx, s))); }
        let other = Variable(rng.below(nv as u64) as usize);
        ev.push(format!("dom {} : {} : {}", sst(&sts[0]), other.id(), sdom(&pb, other, &sts[0]).map(|x| join(&x)).unwrap_or("panic".into())));
        ev.push(format!("imp {} : {} : {}", sst(&sts[0]), other.id(), pb.is_impacted_by(other, &sts[0]) as u8));
        if let Some((_, _, s2)) = sstep(&pb, &sts[0], &mut ev, rng) {
            ev.push(format!("rub {} : {}", sst(&s2), srub(&rlx, &s2)));
            ev.push(format!("rk {} : {} : {}", sst(&sts[0]), sst(&s2), sord(rk.compare(&sts[0], &s2))));
        }
        if k >= 2 {
            let m = rlx.merge(&mut sts.iter());
            ev.push(format!("mg {} : {}", sts.iter().map(sst).collect::<Vec<_>>().join(" , "), sst(&m)));
            for s in sts.iter() {
                let c = rng.range(-30, 9) as isize;
                let dec = Decision { variable: Variable(d.saturating_sub(1)), value: rng.below(nv as u64) as isize };
                ev.push(format!("rx {} : {} : {} : {} {} : {} : {}", sst(&root), sst(s), sst(&m), dec.variable.id(), dec.value, c, rlx.relax(&root, s, &m, dec, c)));
            }
            ev.push(format!("rk {} : {} : {}", sst(&sts[0]), sst(&sts[1]), sord(rk.compare(&sts[0], &sts[1]))));
            ev.push(format!("rub {} : {}", sst(&m), srub(&rlx, &m)));
            let mut s = m;
            loop {
                let (_, _, s2) = match sstep(&pb, &s, &mut ev, rng) { Some(x) => x, None => break };
                ev.push(format!("rub {} : {}", sst(&s2), srub(&rlx, &s2)));
                s = s2;
            }
        }
    }
    // calls outside the domain (panics are answers): a department that does not exist, the bound and a decision on a terminal
    // state, a state with more departments to place than positions left, a `maybe_place` that is `Some(empty)`, a merge of
    // states of different depths
    if rng.chance(1, 3) {
        let var = Variable(rng.below(nv as u64) as usize);
        match rng.below(6) {
            0 => str_any(&pb, &root, Decision { variable: var, value: nv as isize + rng.range(0, 70) as isize }, &mut ev),
            1 => str_any(&pb, &root, Decision { variable: var, value: -(rng.range(1, 3) as isize) }, &mut ev),
            2 => {
                let mut s = root.clone(); s.depth = nv; s.must_place = Set64::empty();
                ev.push(format!("rub {} : {}", sst(&s), srub(&rlx, &s)));
                ev.push(format!("dom {} : {} : {}", sst(&s), var.id(), sdom(&pb, var, &s).map(|x| join(&x)).unwrap_or("panic".into())));
                str_any(&pb, &s, Decision { variable: var, value: rng.below(nv as u64) as isize }, &mut ev);
            }
            3 => {
                let mut s = root.clone(); s.depth = rng.range(1, nv as i64 + 1) as usize;
                ev.push(format!("rub {} : {}", sst(&s), srub(&rlx, &s)));
                ev.push(format!("dom {} : {} : {}", sst(&s), var.id(), sdom(&pb, var, &s).map(|x| join(&x)).unwrap_or("panic".into())));
                str_any(&pb, &s, Decision { variable: var, value: rng.below(nv as u64) as isize }, &mut ev);
            }
            4 => {
                let mut s = root.clone(); s.maybe_place = Some(Set64::empty());
                ev.push(format!("rub {} : {}", sst(&s), srub(&rlx, &s)));
                ev.push(format!("dom {} : {} : {}", sst(&s), var.id(), sdom(&pb, var, &s).map(|x| join(&x)).unwrap_or("panic".into())));
                str_any(&pb, &s, Decision { variable: var, value: rng.below(nv as u64) as isize }, &mut ev);
            }
            _ => {
                // a decision on a department that is already placed (neither in `must_place` nor in `maybe_place`)
                let v = rng.below(nv as u64) as isize;
                let s1 = pb.transition(&root, Decision { variable: Variable(0), value: v });
                str_any(&pb, &s1, Decision { variable: Variable(1.min(nv - 1)), value: v }, &mut ev);
                let m = rlx.merge(&mut [&root, &s1].into_iter());
                ev.push(format!("mg {} , {} : {}", sst(&root), sst(&s1), sst(&m)));
            }
        }
    }
    ev.join(" ; ")
}

/// random small instance: 1–6 departments; in the domain: lengths >= 1, symmetric non-negative flows, zero diagonal
fn gen_srflp(rng: &mut Rng) -> (usize, Vec<i64>, Vec<Vec<i64>>, Vec<String>) {
    let mut tags: Vec<String> = vec![];
    let n = *rng.pick(&[1usize, 2, 3, 3, 4, 4, 4, 5, 5, 5, 5, 6]);
    // focused searches on larger instances: `DDO_VERIF_SRFLP_N=7` (the model enumerates `n!` orders: slow beyond 8)
    let n = std::env::var("DDO_VERIF_SRFLP_N").ok().and_then(|v| v.parse().ok()).unwrap_or(n);
    let lmax = *rng.pick(&[1i64, 5, 5, 20]);
    let fmax = *rng.pick(&[1i64, 5, 10]);
    let zero_pct = *rng.pick(&[0u64, 30, 60]);
    if lmax == 1 { tags.push("equal_lengths".into()); }
    if fmax == 1 { tags.push("ties".into()); }
    let mut l: Vec<i64> = (0..n).map(|_| rng.range(1, lmax)).collect();
    let mut c = vec![vec![0i64; n]; n];
    for i in 0..n { for j in i + 1..n { let x = if rng.below(100) < zero_pct { 0 } else { rng.range(0, fmax) }; c[i][j] = x; c[j][i] = x; } }
    if n > 1 && c.iter().flatten().all(|x| *x == 0) { tags.push("no_flow".into()); }
    let mode = rng.below(100);
    if n >= 2 && (88..91).contains(&mode) { let i = rng.below(n as u64) as usize; l[i] = 0; tags.push("ood_zero_length".into()); }
    if n >= 2 && (91..94).contains(&mode) {
        let mut any = false;
        for i in 0..n { for j in i + 1..n { if rng.chance(1, 3) { let x = -rng.range(1, fmax); c[i][j] = x; c[j][i] = x; any = true; } } }
        if any { tags.push("ood_negative_flows".into()); }
    }
    if n >= 2 && (94..97).contains(&mode) {
        let mut any = false;
        for i in 0..n { for j in 0..n { if i != j && rng.chance(1, 3) { let x = rng.range(0, fmax); if x != c[j][i] { any = true; } c[i][j] = x; } } }
        if any { tags.push("ood_asymmetric".into()); }
    }
    if n >= 2 && (97..100).contains(&mode) {
        // a non-zero diagonal: never read by the example nor by the specification
        for i in 0..n { c[i][i] = rng.range(1, 9); }
        tags.push("nonzero_diagonal".into());
    }
    if n == 1 { tags.push("single_department".into()); }
    (n, l, c, tags)
}
fn scase(n: usize, l: &[i64], c: &[Vec<i64>], walks: u64, wseed: u64, style: u64) -> String {
    format!("srflp | {} {} {} | {} {} {}", n, join(l), c.iter().map(|r| join(r)).collect::<Vec<_>>().join(" "), walks, wseed, style)
}

/// replay of one case: "srflp | n l(n) c(n*n) | walks seed style"
pub fn replay(parts: &[&str]) -> String {
    let t: Vec<i64> = parts[1].split_whitespace().map(|x| x.parse().unwrap()).collect();
    let n = t[0] as usize;
    let l: Vec<i64> = t[1..1 + n].to_vec();
    let c: Vec<Vec<i64>> = t[1 + n..].chunks(n).map(|r| r.to_vec()).collect();
    let u: Vec<u64> = parts[2].split_whitespace().map(|x| x.parse().unwrap()).collect();
    let mut r2 = Rng::new(u[1]);
    crate::out::catch(|| run_one_srflp(n, &l, &c, u[0], u[2], &mut r2)).unwrap_or("panic".into())
}
/// the generated cases of the family
pub fn generate(out: &mut Out, rng: &mut Rng, ninst: usize) {
    // the recorded witness of the open finding `srflp-rub-f32` first (the ratios of the rough bound are compared as `f32`: with
    // flows in the millions two different ratios collide, get ordered the wrong way, and the bound is not admissible; on this
    // instance `srflp <file> -t 1 -w 1` prints `Objective: 121635077`, `Aborted: false`; the optimum is 121635076)
    {
        let case = "srflp | 5 13 7 7 9 9 0 1835012 1835012 2359301 2359301 1835012 0 0 0 0 1835012 0 0 0 0 2359301 0 0 0 0 2359301 0 0 0 0 | 3 7 0";
        let parts: Vec<&str> = case.split('|').collect();
        let imp = replay(&parts);
        out.case_tagged(case, &imp, "f32_ratio corpus");
    }
    for _ in 0..ninst {
        let (n, l, c, mut tags) = gen_srflp(rng);
        let walks = rng.range(1, 3) as u64; let wseed = rng.next() >> 1;
        let mut style = rng.below(8) | (rng.below(2) << 4);
        if rng.chance(1, 12) { style |= 8; tags.push("clearance".into()); }
        let mut r2 = Rng::new(wseed);
        let imp = crate::out::catch(|| run_one_srflp(n, &l, &c, walks, style, &mut r2)).unwrap_or("panic".into());
        let big = imp.split(" ; ").filter(|e| e.starts_with("mg ")).any(|e| e.matches(" , ").count() >= 2);
        if big { tags.push("merge_of_3_or_more".into()); }
        if imp.contains("panic") { tags.push("panic_answer".into()); }
        out.case_tagged(&scase(n, &l, &c, walks, wseed, style), &imp, &tags.join(" "));
    }
}
