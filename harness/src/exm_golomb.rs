//! Family `golomb` of engine `exmodel` (C16): pointwise correspondence between the DP model, relaxation (merge, relax, rough
//! bound with its table of known optima) and ranking of the shipped golomb example and the Lean model
//! `DdoModel/Examples/GolombDp.lean`.  The example is one file, `main.rs`; it is compiled in through `build.rs` (a copy made at
//! build time from the working tree — or from `DDO_VERIF_GOLOMB_DIR` — with `crate::` re-rooted and nothing else changed; its
//! `fn main` and clap structure are dead code here).  There is no instance file: the instance is `n`, given to the example's
//! own constructor `Golomb::new`.  The fields of `GolombState` are private: states are BUILT only through the example's own
//! `initial_state`, `transition` and `merge`, and READ from their `Debug` text (the two `u128` blocks of each `Set256`).
//!
//! Recorded: `nb_variables`, `next_variable` on every depth, and — along random walks from the root, on the states of the exact
//! layers (breadth first, sampled), on merged states, on states reached from merged states and on arbitrary reachable-looking
//! states (any increasing sequence of marks, Golomb or not, inside the domain or not) — every `for_each_in_domain`,
//! `transition`, `transition_cost`, `fast_upper_bound`, `merge` (2–5 states, IN THE ORDER GIVEN), `relax`, `compare`.
//!
//! A state in full: `number_of_marks last_mark m <marks, increasing> d <distances, increasing>`.  Events (separated by `;`):
//!   `nv k` · `ord v_0 …` (`next_variable(depth)`, depth 0..=n+1, `n` = None) · `init S : value` · `rub S : bound`
//!   `pv S : value : decisions of the prefix (values of variables 0, 1, …)` · `dom S : var : values in call order`
//!   `tr S : var val : S' : cost` · `mg S_1 , … , S_k : M` · `rx SRC : DST : M : var val : cost : relaxed cost`
//!   `rk A : B : lt|eq|gt`;  a call that panics answers `panic`.
#[allow(dead_code, unused_imports, clippy::all)]
pub mod ex_golomb {
    include!(concat!(env!("OUT_DIR"), "/ex_golomb.rs"));
}
use crate::{out::Out, rng::Rng};
use ddo::*;
use ex_golomb::main::{Golomb, GolombRanking, GolombRelax, GolombState};

fn join<T: ToString>(v: &[T]) -> String { v.iter().map(|x| x.to_string()).collect::<Vec<_>>().join(" ") }
/// (marks, distances, number_of_marks, last_mark) of a state, from its `Debug` text:
/// `GolombState { marks: Set256 { blocks: [lo, hi] }, distances: Set256 { blocks: [lo, hi] }, number_of_marks: k, last_mark: l }`
fn view(s: &GolombState) -> (Vec<usize>, Vec<usize>, u128, u128) {
    let t = format!("{:?}", s);
    let nums: Vec<u128> = t.split(|c: char| !c.is_ascii_digit()).filter(|x| !x.is_empty()).map(|x| x.parse().unwrap()).collect();
    assert!(nums.len() == 8 && nums[0] == 256 && nums[3] == 256, "unexpected Debug text of GolombState: {}", t);
    let bits = |lo: u128, hi: u128| -> Vec<usize> { (0..256usize).filter(|i| if *i < 128 { (lo >> *i) & 1 == 1 } else { (hi >> (*i - 128)) & 1 == 1 }).collect() };
    (bits(nums[1], nums[2]), bits(nums[4], nums[5]), nums[6], nums[7])
}
fn gst(s: &GolombState) -> String { let (m, d, k, l) = view(s); format!("{} {} m {} d {}", k, l, join(&m), join(&d)).replace("  ", " ") }
fn last(s: &GolombState) -> usize { view(s).3.min(1 << 40) as usize }
fn nmarks(s: &GolombState) -> usize { view(s).2.min(1 << 40) as usize }
fn gord(o: std::cmp::Ordering) -> &'static str { match o { std::cmp::Ordering::Less => "lt", std::cmp::Ordering::Equal => "eq", _ => "gt" } }
fn grub(rlx: &GolombRelax, s: &GolombState) -> String {
    crate::out::catch(|| rlx.fast_upper_bound(s)).map(|x| x.to_string()).unwrap_or("panic".into())
}
fn gdom(pb: &Golomb, var: Variable, s: &GolombState) -> Option<Vec<isize>> {
    crate::out::catch(|| { let mut dom: Vec<isize> = vec![]; pb.for_each_in_domain(var, s, &mut |x: Decision| dom.push(x.value)); dom })
}
fn gnext(pb: &Golomb, depth: usize, s: &GolombState) -> Option<Variable> {
    crate::out::catch(|| pb.next_variable(depth, &mut std::iter::once(s))).flatten()
}
/// a value of the domain: half of the time one of the three least (the good rulers are there)
fn gpick(dom: &[isize], rng: &mut Rng) -> isize {
    if rng.chance(1, 2) { dom[rng.below(dom.len().min(3) as u64) as usize] } else { *rng.pick(dom) }
}
/// one step from `s` at `depth`: domain, random decision, transition, cost; events `dom`, `tr`
fn gstep(pb: &Golomb, depth: usize, s: &GolombState, ev: &mut Vec<String>, rng: &mut Rng) -> Option<(Decision, isize, GolombState)> {
    let var = gnext(pb, depth, s)?;
    let dom = match gdom(pb, var, s) { Some(d) => d, None => { ev.push(format!("dom {} : {} : panic", gst(s), var.id())); return None; } };
    ev.push(format!("dom {} : {} : {}", gst(s), var.id(), join(&dom)));
    if dom.is_empty() { return None; }
    let val = gpick(&dom, rng);
    let dec = Decision { variable: var, value: val };
    let s2 = pb.transition(s, dec);
    let cost = pb.transition_cost(s, &s2, dec);
    ev.push(format!("tr {} : {} {} : {} : {}", gst(s), var.id(), val, gst(&s2), cost));
    Some((dec, cost, s2))
}
/// a transition that the domain may forbid (panics are answers); the state reached, if any
fn gtr_any(pb: &Golomb, s: &GolombState, dec: Decision, ev: &mut Vec<String>) -> Option<GolombState> {
    let s2 = crate::out::catch(|| pb.transition(s, dec));
    let cost = crate::out::catch(|| pb.transition_cost(s, s2.as_ref().unwrap_or(s), dec));
    ev.push(format!("tr {} : {} {} : {} : {}", gst(s), dec.variable.id(), dec.value,
        s2.as_ref().map(gst).unwrap_or("panic".into()), cost.map(|c| c.to_string()).unwrap_or("panic".into())));
    s2
}
/// a node of a layer: the state, the arc it was reached by, (exact nodes) the value and the decisions of that path
#[derive(Clone)]
struct Node { state: GolombState, parent: GolombState, dec: Decision, cost: isize, value: isize, decs: Vec<isize>, exact: bool }

/// merge of `pick` (in that order), with everything that is asked around it; returns the merged state
fn gmerge(pb: &Golomb, rlx: &GolombRelax, pick: &[&Node], ev: &mut Vec<String>, rng: &mut Rng) -> GolombState {
    let _ = pb;
    for p in pick.iter() {
        ev.push(format!("tr {} : {} {} : {} : {}", gst(&p.parent), p.dec.variable.id(), p.dec.value, gst(&p.state), p.cost));
        if p.exact { ev.push(format!("pv {} : {} : {}", gst(&p.state), p.value, join(&p.decs))); }
        ev.push(format!("rub {} : {}", gst(&p.state), grub(rlx, &p.state)));
    }
    let m = rlx.merge(&mut pick.iter().map(|p| &p.state));
    ev.push(format!("mg {} : {}", pick.iter().map(|p| gst(&p.state)).collect::<Vec<_>>().join(" , "), gst(&m)));
    for p in pick.iter() {
        let c = if rng.chance(1, 4) { rng.range(-30, 9) as isize } else { p.cost };
        ev.push(format!("rx {} : {} : {} : {} {} : {} : {}", gst(&p.parent), gst(&p.state), gst(&m), p.dec.variable.id(), p.dec.value, c, rlx.relax(&p.parent, &p.state, &m, p.dec, c)));
    }
    let rk = GolombRanking;
    if pick.len() >= 2 { ev.push(format!("rk {} : {} : {}", gst(&pick[0].state), gst(&pick[1].state), gord(rk.compare(&pick[0].state, &pick[1].state)))); }
    ev.push(format!("rk {} : {} : {}", gst(&m), gst(&pick[0].state), gord(rk.compare(&m, &pick[0].state))));
    ev.push(format!("rub {} : {}", gst(&m), grub(rlx, &m)));
    m
}

fn run_one_golomb(n: usize, walks: u64, rng: &mut Rng) -> String {
    let pb = Golomb::new(n);
    let rlx = GolombRelax { pb: &pb };
    let rk = GolombRanking;
    let mut ev: Vec<String> = vec![];
    let nv = crate::out::catch(|| pb.nb_variables());
    ev.push(format!("nv {}", nv.map(|x| x.to_string()).unwrap_or("panic".into())));
    let root = pb.initial_state();
    let ord: Option<Vec<String>> = crate::out::catch(|| (0..=n + 1).map(|k| pb.next_variable(k, &mut std::iter::once(&root)).map(|v| v.id().to_string()).unwrap_or("n".into())).collect());
    ev.push(format!("ord {}", ord.map(|o| o.join(" ")).unwrap_or("panic".into())));
    ev.push(format!("init {} : {}", gst(&root), pb.initial_value()));
    ev.push(format!("rub {} : {}", gst(&root), grub(&rlx, &root)));
    let nv = match nv {
        Some(x) if n <= 9 => x,
        _ => {
            // out of the domain (n = 0: `n - 1` underflows; n >= 30: the table of known optima has 29 entries): a few more calls
            ev.push(format!("dom {} : 0 : {}", gst(&root), gdom(&pb, Variable(0), &root).map(|x| join(&x)).unwrap_or("panic".into())));
            if let Some(s2) = gtr_any(&pb, &root, Decision { variable: Variable(0), value: rng.range(1, 5) as isize }, &mut ev) {
                ev.push(format!("rub {} : {}", gst(&s2), grub(&rlx, &s2)));
                ev.push(format!("dom {} : 1 : {}", gst(&s2), gdom(&pb, Variable(1), &s2).map(|x| join(&x)).unwrap_or("panic".into())));
                ev.push(format!("rk {} : {} : {}", gst(&root), gst(&s2), gord(rk.compare(&root, &s2))));
            }
            return ev.join(" ; ");
        }
    };
    // random walks from the root; `pv` = value and decisions of the prefix
    for _ in 0..walks {
        let mut s = pb.initial_state();
        let mut value = pb.initial_value();
        let mut decs: Vec<isize> = vec![];
        ev.push(format!("pv {} : {} :", gst(&s), value));
        for depth in 0..nv {
            let (dec, cost, s2) = match gstep(&pb, depth, &s, &mut ev, rng) { Some(x) => x, None => break };
            value += cost;
            decs.push(dec.value);
            ev.push(format!("pv {} : {} : {}", gst(&s2), value, join(&decs)));
            ev.push(format!("rub {} : {}", gst(&s2), grub(&rlx, &s2)));
            s = s2;
        }
    }
    // the exact layers, breadth first through the example's own functions, sampled (not recorded: what is used below is)
    let mut layers: Vec<Vec<Node>> = vec![vec![]; nv + 1];
    {
        let mut cur: Vec<(GolombState, isize, Vec<isize>)> = vec![(root, pb.initial_value(), vec![])];
        for depth in 0..nv {
            let var = pb.next_variable(depth, &mut cur.iter().map(|x| &x.0)).expect("next_variable");
            let mut next: Vec<Node> = vec![];
            for (s, v, decs) in cur.iter() {
                let dom = gdom(&pb, var, s).expect("for_each_in_domain panics on a reachable state");
                for val in dom {
                    // deep layers: the near-optimal region and a sample of the rest
                    if next.len() > 60 && !rng.chance(1, 6) { continue; }
                    let dec = Decision { variable: var, value: val };
                    let s2 = pb.transition(s, dec);
                    if next.iter().any(|x| x.state == s2) { continue; }
                    let cost = pb.transition_cost(s, &s2, dec);
                    let mut decs2 = decs.clone(); decs2.push(val);
                    next.push(Node { state: s2, parent: *s, dec, cost, value: v + cost, decs: decs2, exact: true });
                }
            }
            next.truncate(240);
            cur = next.iter().map(|x| (x.state, x.value, x.decs.clone())).collect();
            layers[depth + 1] = next;
            if cur.is_empty() { break; }
        }
    }
    // merges of 2..=5 states of a layer in a recorded order (exact states, and states reached from merged states of the layers
    // above), the relaxed cost of the arc into each merged-away state, ranking, bound; then a walk from the merged state
    let mut extra: Vec<Vec<Node>> = vec![vec![]; nv + 1];
    for depth in 1..=nv {
        let mut pool: Vec<Node> = layers[depth].clone();
        pool.extend(extra[depth].iter().cloned());
        if pool.len() < 2 { continue; }
        let nmerge = if pool.len() >= 4 { rng.range(2, 4) } else { 1 };
        for _ in 0..nmerge {
            let kmax = (pool.len() as i64).min(5);
            let k = if kmax >= 3 && rng.chance(1, 2) { rng.range(3, kmax) } else { 2 } as usize;
            let mut idx: Vec<usize> = (0..pool.len()).collect();
            for i in (1..idx.len()).rev() { let j = rng.below(i as u64 + 1) as usize; idx.swap(i, j); }
            let mut pick: Vec<usize> = vec![];
            match rng.below(4) {
                // siblings (same parent: the merged state keeps most marks and distances)
                0 | 1 => { let p0 = idx[0]; for i in idx.iter() { if pick.len() < k && pool[*i].parent == pool[p0].parent { pick.push(*i); } } }
                // neighbours in the order of the ranking (what a compilation merges: the tail of the sorted layer)
                2 => { let mut by: Vec<usize> = idx.clone(); by.sort_by_key(|i| last(&pool[*i].state)); let at = rng.below((by.len() - k + 1) as u64) as usize; pick = by[at..at + k].to_vec(); }
                _ => {}
            }
            for i in idx.iter() { if pick.len() < k && !pick.contains(i) { pick.push(*i); } }
            if rng.chance(1, 2) { for i in (1..pick.len()).rev() { let j = rng.below(i as u64 + 1) as usize; pick.swap(i, j); } }
            if rng.chance(1, 12) { let dup = pick[0]; pick.push(dup); }
            let pick: Vec<&Node> = pick.iter().map(|i| &pool[*i]).collect();
            let m = gmerge(&pb, &rlx, &pick, &mut ev, rng);
            let mut s = m;
            for dd in depth..nv {
                let (dec, cost, s2) = match gstep(&pb, dd, &s, &mut ev, rng) { Some(x) => x, None => break };
                ev.push(format!("rub {} : {}", gst(&s2), grub(&rlx, &s2)));
                if extra[dd + 1].len() < 6 && !extra[dd + 1].iter().any(|x| x.state == s2) {
                    extra[dd + 1].push(Node { state: s2, parent: s, dec, cost, value: 0, decs: vec![], exact: false });
                }
                s = s2;
            }
        }
    }
    // arbitrary reachable-looking states: any increasing sequence of marks below n*n+4 (Golomb or not, inside the domain or not)
    // built by the example's own `transition`: bound, domain on the variable of their depth and on another one, one step,
    // ranking; merges of 2..=4 of them (same number of marks), relaxed cost of the arc into each, bound of the merged state, a
    // walk from it
    if nv >= 1 {
        for _ in 0..2 {
            let depth = rng.range(1, nv as i64) as usize;
            let k = rng.range(1, 4) as usize;
            let top = (n * n + 4) as i64;
            let mut sts: Vec<Node> = vec![];
            for _ in 0..k {
                let mut vals: Vec<i64> = vec![];
                while vals.len() < depth { let v = if rng.chance(1, 2) { rng.range(1, (3 * n as i64).min(top)) } else { rng.range(1, top) }; if !vals.contains(&v) { vals.push(v); } }
                vals.sort();
                let mut s = root; let mut parent = root; let mut dec = Decision { variable: Variable(0), value: 0 }; let mut cost = 0;
                for (i, v) in vals.iter().enumerate() {
                    dec = Decision { variable: Variable(i), value: *v as isize };
                    parent = s;
                    s = pb.transition(&parent, dec);
                    cost = pb.transition_cost(&parent, &s, dec);
                }
                sts.push(Node { state: s, parent, dec, cost, value: 0, decs: vec![], exact: false });
            }
            for s in sts.iter() { ev.push(format!("rub {} : {}", gst(&s.state), grub(&rlx, &s.state))); }
            let other = Variable(rng.below(nv as u64 + 1) as usize);
            ev.push(format!("dom {} : {} : {}", gst(&sts[0].state), other.id(), gdom(&pb, other, &sts[0].state).map(|x| join(&x)).unwrap_or("panic".into())));
            if let Some((_, _, s2)) = gstep(&pb, depth, &sts[0].state, &mut ev, rng) {
                ev.push(format!("rub {} : {}", gst(&s2), grub(&rlx, &s2)));
                ev.push(format!("rk {} : {} : {}", gst(&sts[0].state), gst(&s2), gord(rk.compare(&sts[0].state, &s2))));
            }
            if k >= 2 {
                let pick: Vec<&Node> = sts.iter().collect();
                let m = gmerge(&pb, &rlx, &pick, &mut ev, rng);
                let mut s = m;
                for dd in depth..nv {
                    let (_, _, s2) = match gstep(&pb, dd, &s, &mut ev, rng) { Some(x) => x, None => break };
                    ev.push(format!("rub {} : {}", gst(&s2), grub(&rlx, &s2)));
                    s = s2;
                }
            }
        }
    }
    // calls outside the domain: a mark that is not beyond the last one (`l - i` underflows: a panic under the overflow checks
    // of the harness profile; the last mark itself: distance 0), a negative value, a value beyond the 256 bits, a decision on a
    // terminal state (more marks than `n`: the bound and the domain index the table with `n - number_of_marks`), the merge of
    // no state at all, the merge of states of different depths
    if rng.chance(1, 3) {
        let mut s = root;
        for dd in 0..nv { if rng.chance(1, 3) { break; } match gstep(&pb, dd, &s, &mut ev, rng) { Some((_, _, s2)) => s = s2, None => break } }
        let l = last(&s) as isize;
        let val = match rng.below(6) { 0 => l, 1 => rng.range(0, l.max(0) as i64) as isize, 2 => -rng.range(1, 3) as isize, 3 => rng.range(250, 260) as isize, 4 => rng.range(128, 255) as isize, _ => l + rng.range(1, 3) as isize };
        if let Some(s2) = gtr_any(&pb, &s, Decision { variable: Variable(nmarks(&s).saturating_sub(1)), value: val }, &mut ev) {
            ev.push(format!("rub {} : {}", gst(&s2), grub(&rlx, &s2)));
            ev.push(format!("dom {} : {} : {}", gst(&s2), nmarks(&s2) - 1, gdom(&pb, Variable(nmarks(&s2) - 1), &s2).map(|x| join(&x)).unwrap_or("panic".into())));
        }
    }
    if rng.chance(1, 4) {
        // beyond the last variable
        let mut s = root;
        for dd in 0..nv { match gstep(&pb, dd, &s, &mut ev, rng) { Some((_, _, s2)) => s = s2, None => break } }
        if nmarks(&s) == n {
            let val = last(&s) as isize + rng.range(1, 9) as isize;
            if let Some(s2) = gtr_any(&pb, &s, Decision { variable: Variable(nv), value: val }, &mut ev) {
                ev.push(format!("rub {} : {}", gst(&s2), grub(&rlx, &s2)));
                ev.push(format!("dom {} : {} : {}", gst(&s2), nv + 1, gdom(&pb, Variable(nv + 1), &s2).map(|x| join(&x)).unwrap_or("panic".into())));
            }
        }
    }
    if rng.chance(1, 30) {
        let none: Vec<GolombState> = vec![];
        let m = rlx.merge(&mut none.iter());
        ev.push(format!("mg : {}", gst(&m)));
        ev.push(format!("rub {} : {}", gst(&m), grub(&rlx, &m)));
        ev.push(format!("dom {} : 0 : {}", gst(&m), gdom(&pb, Variable(0), &m).map(|x| join(&x)).unwrap_or("panic".into())));
        gtr_any(&pb, &m, Decision { variable: Variable(0), value: rng.range(0, 9) as isize }, &mut ev);
    }
    if nv >= 2 && rng.chance(1, 10) {
        let (d1, d2) = (rng.range(0, nv as i64) as usize, rng.range(0, nv as i64) as usize);
        let pick = |d: usize, rng: &mut Rng| -> GolombState { if d == 0 || layers[d].is_empty() { root } else { rng.pick(&layers[d]).state } };
        let (a, b) = (pick(d1, rng), pick(d2, rng));
        let m = rlx.merge(&mut [a, b].iter());
        ev.push(format!("mg {} , {} : {}", gst(&a), gst(&b), gst(&m)));
        ev.push(format!("rk {} : {} : {}", gst(&a), gst(&b), gord(rk.compare(&a, &b))));
    }
    ev.join(" ; ")
}

/// replay of one case: "golomb | n | walks seed"
pub fn replay(parts: &[&str]) -> String {
    let n: usize = parts[1].trim().parse().unwrap();
    let u: Vec<u64> = parts[2].split_whitespace().map(|x| x.parse().unwrap()).collect();
    let mut r2 = Rng::new(u[1]);
    crate::out::catch(|| run_one_golomb(n, u[0], &mut r2)).unwrap_or("panic".into())
}
/// the generated cases of the family: there is one instance per `n`, so the cases differ by their walks, merges and probes
pub fn generate(out: &mut Out, rng: &mut Rng, ninst: usize) {
    for _ in 0..ninst {
        let mut tags: Vec<String> = vec![];
        let n: usize = if rng.chance(1, 60) { *rng.pick(&[0usize, 30, 31, 40]) } else { *rng.pick(&[1usize, 2, 2, 3, 3, 4, 4, 4, 4, 4, 4, 5, 5, 5, 5, 5, 6, 6, 6, 7]) };
        if n == 0 || n >= 30 { tags.push("ood_size".into()); }
        if n == 1 { tags.push("single_mark".into()); }
        tags.push(format!("n_{}", n));
        let walks = rng.range(1, 4) as u64; let wseed = rng.next() >> 1;
        let mut r2 = Rng::new(wseed);
        let imp = crate::out::catch(|| run_one_golomb(n, walks, &mut r2)).unwrap_or("panic".into());
        let evs: Vec<&str> = imp.split(" ; ").collect();
        if evs.iter().filter(|e| e.starts_with("mg ")).any(|e| e.matches(" , ").count() >= 2) { tags.push("merge_of_3_or_more".into()); }
        if evs.iter().any(|e| e.ends_with("panic")) { tags.push("ood_call_panics".into()); }
        if evs.iter().any(|e| e.starts_with("mg : ")) { tags.push("ood_merge_of_nothing".into()); }
        out.case_tagged(&format!("golomb | {} | {} {}", n, walks, wseed), &imp, &tags.join(" "));
    }
}
