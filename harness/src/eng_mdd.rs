//! Engine `mdd` (C06, C07, C08, C09-thresholds, C12, C13, C15-diagram): single compilations of the three
//! diagram implementations through the public `DecisionDiagram` API, observed completely:
//! Completion, best / best-exact value and solution, drained cut-set, cache updates (recording
//! `Cache`), every call into user code (recording `Problem` / `Relaxation`).
use crate::{fam::*, out::{Out, catch}, rng::Rng, Args};
use ddo::*;
use std::sync::{Arc, Mutex, atomic::{AtomicUsize, Ordering as AO}};

pub struct CountCutoff { pub count: AtomicUsize, pub stop_at: Option<usize> }
impl Cutoff for CountCutoff {
    fn must_stop(&self) -> bool { let c = self.count.fetch_add(1, AO::SeqCst) + 1; self.stop_at.map_or(false, |k| c >= k) }
}
/// recording cache: `use_cache = false` behaves as `EmptyCache` (but still records the updates)
pub struct RecCache { pub inner: SimpleCache<i64>, pub use_cache: bool, pub updates: Mutex<Vec<(i64, usize, isize, bool)>> }
impl RecCache {
    pub fn new(n: usize, use_cache: bool) -> Self {
        let mut inner = SimpleCache::default();
        struct N(usize);
        impl Problem for N {
            type State = i64;
            fn nb_variables(&self) -> usize { self.0 }
            fn initial_state(&self) -> i64 { 0 } fn initial_value(&self) -> isize { 0 }
            fn transition(&self, s: &i64, _: Decision) -> i64 { *s }
            fn transition_cost(&self, _: &i64, _: &i64, _: Decision) -> isize { 0 }
            fn next_variable(&self, _: usize, _: &mut dyn Iterator<Item = &i64>) -> Option<Variable> { None }
            fn for_each_in_domain(&self, _: Variable, _: &i64, _: &mut dyn DecisionCallback) {}
        }
        inner.initialize(&N(n));
        RecCache { inner, use_cache, updates: Mutex::new(vec![]) }
    }
}
impl Cache for RecCache {
    type State = i64;
    fn initialize(&mut self, _: &dyn Problem<State = i64>) {}
    fn get_threshold(&self, s: &i64, d: usize) -> Option<Threshold> { if self.use_cache { self.inner.get_threshold(s, d) } else { None } }
    fn update_threshold(&self, s: Arc<i64>, d: usize, v: isize, e: bool) {
        self.updates.lock().unwrap().push((*s, d, v, e));
        if self.use_cache { self.inner.update_threshold(s, d, v, e); }
    }
    fn clear_layer(&self, d: usize) { self.inner.clear_layer(d) }
    fn clear(&self) { self.inner.clear() }
}

/// recording dominance checker: counts the `dominated` verdicts
pub struct RecDom { pub inner: Box<dyn DominanceChecker<State = i64> + Send + Sync>, pub ndom: AtomicUsize }
impl DominanceChecker for RecDom {
    type State = i64;
    fn clear_layer(&self, d: usize) { self.inner.clear_layer(d) }
    fn is_dominated_or_insert(&self, s: Arc<i64>, d: usize, v: isize) -> DominanceCheckResult {
        let r = self.inner.is_dominated_or_insert(s, d, v);
        if r.dominated { self.ndom.fetch_add(1, AO::SeqCst); }
        r
    }
    fn cmp(&self, a: &i64, va: isize, b: &i64, vb: isize) -> std::cmp::Ordering { self.inner.cmp(a, va, b, vb) }
}
pub fn new_dom(fam: &Fam) -> RecDom {
    let inner: Box<dyn DominanceChecker<State = i64> + Send + Sync> = if fam.has_dominance() { Box::new(SimpleDominanceChecker::new(FamDom(fam.clone()), fam.n())) } else { Box::new(EmptyDominanceChecker::default()) };
    RecDom { inner, ndom: AtomicUsize::new(0) }
}

#[derive(Clone, Debug)]
pub struct Req {
    pub kind: usize,   // 0 LEL, 1 frontier, 2 pooled
    pub ctype: usize,  // 0 exact, 1 relaxed, 2 restricted
    pub width: usize,
    pub lb: isize,
    pub root: (i64, isize, usize, Vec<(usize, isize)>), // state, value, depth, path
    pub use_cache: bool,
    pub cache: Vec<(i64, usize, isize, bool)>,
    pub stop_at: Option<usize>,
}
impl Req {
    pub fn tokens(&self) -> String {
        format!("{} {} {} {} {} {} {} {} {} {} {} {} {}", self.kind, self.ctype, self.width, self.lb, self.root.0, self.root.1, self.root.2,
            self.root.3.len(), self.root.3.iter().map(|(v, x)| format!("{} {}", v, x)).collect::<Vec<_>>().join(" "),
            self.use_cache as u8, self.cache.len(), self.cache.iter().map(|(s, d, v, e)| format!("{} {} {} {}", s, d, v, *e as u8)).collect::<Vec<_>>().join(" "),
            self.stop_at.map(|k| k as i64).unwrap_or(-1)).split_whitespace().collect::<Vec<_>>().join(" ")
    }
    pub fn parse(t: &[&str]) -> Req {
        let p = |i: usize| -> i64 { t[i].parse().unwrap() };
        let np = p(7) as usize; let mut i = 8;
        let mut path = vec![]; for _ in 0..np { path.push((p(i) as usize, p(i + 1) as isize)); i += 2; }
        let use_cache = p(i) == 1; i += 1;
        let nc = p(i) as usize; i += 1;
        let mut cache = vec![]; for _ in 0..nc { cache.push((p(i), p(i + 1) as usize, p(i + 2) as isize, p(i + 3) == 1)); i += 4; }
        let sa = p(i);
        Req { kind: p(0) as usize, ctype: p(1) as usize, width: p(2) as usize, lb: p(3) as isize, root: (p(4), p(5) as isize, p(6) as usize, path), use_cache, cache, stop_at: if sa < 0 { None } else { Some(sa as usize) } }
    }
}
fn decs(v: &[Decision]) -> String { if v.is_empty() { "e".into() } else { v.iter().map(|d| format!("{} {}", d.variable.id(), d.value)).collect::<Vec<_>>().join(" ") } }

/// one compilation on the given diagram object; returns the implementation line
pub fn compile_on<D: DecisionDiagram<State = i64>>(dd: &mut D, fam: &Fam, req: &Req, observe: bool) -> String {
    let rec = Rec::new(fam);
    let cache = RecCache::new(fam.n(), req.use_cache);
    for (s, d, v, e) in &req.cache { if *d <= fam.n() { cache.inner.update_threshold(Arc::new(*s), *d, *v, *e); } }
    let dom = new_dom(fam);
    let cutoff = CountCutoff { count: AtomicUsize::new(0), stop_at: req.stop_at };
    let residual = SubProblem { state: Arc::new(req.root.0), value: req.root.1, path: req.root.3.iter().map(|(v, x)| Decision { variable: Variable(*v), value: *x }).collect(), ub: isize::MAX, depth: req.root.2 };
    let width = req.width;
    let res = catch(|| {
        let input = CompilationInput {
            comp_type: match req.ctype { 0 => CompilationType::Exact, 1 => CompilationType::Relaxed, _ => CompilationType::Restricted },
            problem: &rec, relaxation: &rec, ranking: fam, cutoff: &cutoff, max_width: width, residual: &residual, best_lb: req.lb,
            cache: &cache, dominance: &dom,
        };
        dd.compile(&input)
    });
    if !observe { return String::new(); }
    let polls = cutoff.count.load(AO::SeqCst);
    let log = rec.take();
    let expanded: Vec<usize> = { let mut v = vec![]; for l in &log { if l.starts_with("nv ") { v.push(0); } else if l.starts_with("dm ") { if let Some(x) = v.last_mut() { *x += 1; } } } v };
    let mut ups = cache.updates.lock().unwrap().clone(); ups.sort();
    let ups_s = ups.iter().map(|(s, d, v, e)| format!("{} {} {} {}", s, d, v, *e as u8)).collect::<Vec<_>>().join(" ; ");
    let tail = format!("{} | {} | {} {} | {}", ups_s, expanded.iter().map(|x| x.to_string()).collect::<Vec<_>>().join(" "), polls, dom.ndom.load(AO::SeqCst), log.join(" ; "));
    match res {
        None => format!("panic | | | | {}", tail),
        Some(Err(_)) => format!("cutoff | | | | {}", tail),
        Some(Ok(c)) => catch(|| {
            let o = |x: Option<isize>| x.map(|v| v.to_string()).unwrap_or("none".into());
            let status = format!("ok {} {} {} {}", c.is_exact as u8, o(c.best_value), o(dd.best_exact_value()), dd.is_exact() as u8);
            let bs = dd.best_solution().map(|s| decs(&s)).unwrap_or("none".into());
            let bes = dd.best_exact_solution().map(|s| decs(&s)).unwrap_or("none".into());
            let mut cs: Vec<(i64, usize, isize, isize, String)> = vec![];
            dd.drain_cutset(|n| cs.push((*n.state, n.depth, n.value, n.ub, decs(&n.path))));
            cs.sort();
            let cs_s = cs.iter().map(|(s, d, v, ub, p)| format!("{} {} {} {} : {}", s, d, v, ub, p)).collect::<Vec<_>>().join(" ; ");
            format!("{} | {} | {} | {} | {}", status, bs, bes, cs_s, tail)
        }).unwrap_or_else(|| format!("qpanic | | | | {}", tail)),   // a query on the compiled diagram panicked
    }
}

/// runs the history (earlier compilations on the same object, unobserved) and then the request
pub fn run_case(fam: &Fam, req: &Req, hist: &[Req]) -> String {
    fn go<D: DecisionDiagram<State = i64> + Default>(fam: &Fam, req: &Req, hist: &[Req]) -> String {
        let mut dd = D::default();
        for h in hist { compile_on(&mut dd, fam, h, false); }
        compile_on(&mut dd, fam, req, true)
    }
    match req.kind { 0 => go::<DefaultMDDLEL<i64>>(fam, req, hist), 1 => go::<DefaultMDDFC<i64>>(fam, req, hist), _ => go::<Pooled<i64>>(fam, req, hist) }
}

/// a reachable exact sub-problem root obtained by a random walk
pub fn random_root(fam: &Fam, rng: &mut Rng, depth: usize) -> (i64, isize, usize, Vec<(usize, isize)>) {
    let mut s = fam.initial_state(); let mut v = fam.initial_value(); let mut path = vec![];
    for k in 0..depth {
        // a state the variable does not impact: the pooled diagram records no decision for that layer (long arc), so
        // the sub-problems it hands out have paths shorter than their depth; same state, same value
        if !fam.is_impacted_by(Variable(k), &s) && rng.chance(1, 2) { continue; }
        let mut ds = vec![];
        fam.for_each_in_domain(Variable(k), &s, &mut |d: Decision| ds.push(d));
        if ds.is_empty() { return (s, v, k, path); }
        let d = *rng.pick(&ds);
        let s2 = fam.transition(&s, d);
        v += fam.transition_cost(&s, &s2, d);
        s = s2; path.push((k, d.value));
    }
    (s, v, depth, path)
}
pub fn random_req(fam: &Fam, rng: &mut Rng, kinds: &[usize], with_cache: bool) -> Req {
    let depth = rng.range(0, fam.n() as i64) as usize;
    let depth = if rng.chance(1, 2) { 0 } else { depth };
    let root = random_root(fam, rng, depth);
    let opt = fam.h(root.2, root.0).map(|h| h + root.1);
    let lb = match rng.below(6) {
        0 | 1 => isize::MIN,
        2 => opt.map(|o| o - 1).unwrap_or(isize::MIN),
        3 => opt.unwrap_or(0),
        4 => opt.map(|o| o + 1).unwrap_or(1),
        _ => rng.range(-4, 8) as isize,
    };
    let use_cache = with_cache && rng.chance(1, 2);
    let mut cache = vec![];
    if use_cache {
        // thresholds for states that may show up below the root: random (state, depth) with values around the path values
        let n = rng.range(0, 6);
        for _ in 0..n {
            let d = rng.range(root.2 as i64, fam.n() as i64) as usize;
            let r = random_root(fam, rng, d);
            cache.push((r.0, r.2, r.1 + rng.range(-2, 2) as isize, rng.chance(1, 2)));
        }
    }
    Req { kind: *rng.pick(kinds), ctype: rng.below(3) as usize, width: *rng.pick(&[1usize, 1, 1, 2, 2, 2, 3, 3, 4]), lb, root, use_cache, cache, stop_at: if rng.chance(1, 12) { Some(rng.range(1, 6) as usize) } else { None } }
}

/// recycled merged node: the merged state is one of the states handed to next_variable for that layer and not a merged-away one
pub fn is_recycle(imp: &str) -> bool {
    let mut layer: Vec<&str> = vec![];
    for e in imp.rsplit('|').next().unwrap_or("").split(';') {
        let t: Vec<&str> = e.split_whitespace().collect();
        if t.first() == Some(&"nv") { layer = t[3..].to_vec(); }
        if t.first() == Some(&"mg") && layer.contains(&t[1]) && !t[2..].contains(&t[1]) { return true; }
    }
    false
}
pub fn run_mdd(a: &Args) {
    let mut out = Out::new(&a.out, "mdd");
    if let Some(r) = &a.replay {
        let parts: Vec<&str> = r.split('|').collect();
        let ft: Vec<&str> = parts[0].split_whitespace().collect();
        let (fam, _) = Fam::parse(&ft);
        let req = Req::parse(&parts[1].split_whitespace().collect::<Vec<_>>());
        let hist: Vec<Req> = parts.get(2).map(|h| h.split(';').filter(|s| !s.trim().is_empty()).map(|s| Req::parse(&s.split_whitespace().collect::<Vec<_>>())).collect()).unwrap_or_default();
        let imp = run_case(&fam, &req, &hist);
        out.case_tagged(&format!("{} | {} | {}", fam.tokens(), req.tokens(), hist.iter().map(|h| h.tokens()).collect::<Vec<_>>().join(" ; ")), &imp, "replay");
        out.finish(); return;
    }
    let kinds: Vec<usize> = if a.extra.iter().any(|x| x == "--pooled") { vec![2] } else if a.extra.iter().any(|x| x == "--all-kinds") { vec![0, 1, 2] } else { vec![0, 1] };
    let long_arcs = a.extra.iter().any(|x| x == "--long-arcs");
    let mut rng = Rng::new(a.seed);
    let ninst = if a.thorough { 6000 } else { 500 };
    for _ in 0..ninst {
        let fam = if long_arcs && rng.chance(1, 3) { Fam::Knap(Knap::random_long(&mut rng)) } else if rng.chance(1, 5) && !long_arcs { Fam::Knap(Knap::random(&mut rng)) } else { Fam::Table(TableDP::random(&mut rng, long_arcs)) };
        for j in 0..4 {
            let mut req = random_req(&fam, &mut rng, &kinds, true);
            if j == 0 {
                // targeted request: among up to 24 random relaxed requests keep the most eventful one
                // (recycled merged node > merge with cache content > merge > inexact)
                let mut best_score = -1;
                for _ in 0..24 {
                    let mut r = random_req(&fam, &mut rng, &kinds, true);
                    r.ctype = 1; r.stop_at = None; if rng.chance(1, 2) { r.width = r.width.max(2); }
                    let o = run_case(&fam, &r, &[]);
                    let score = if is_recycle(&o) { 4 } else if o.contains(" mg ") && r.use_cache { 3 } else if o.contains(" mg ") { 2 } else if o.starts_with("ok 0") { 1 } else { 0 };
                    if score > best_score { best_score = score; req = r; }
                    if score == 4 { break; }
                }
            }
            let nh = if rng.chance(1, 3) { rng.range(1, 3) } else { 0 };
            let hist: Vec<Req> = (0..nh).map(|_| { let mut h = random_req(&fam, &mut rng, &[req.kind], false); h.stop_at = if rng.chance(1, 4) { Some(1) } else { None }; h }).collect();
            let imp = run_case(&fam, &req, &hist);
            // event tags from the log
            let mut tags = vec![["lel", "frontier", "pooled"][req.kind], ["exact", "relaxed", "restricted"][req.ctype]];
            if imp.contains(" mg ") { tags.push("merge"); }
            if is_recycle(&imp) { tags.push("recycle"); }
            if imp.contains(" | 0 | nv") || imp.contains(" 0 | nv") { } else if fam.has_dominance() { tags.push("dominated_verdict"); }
            if imp.starts_with("cutoff") { tags.push("cutoff"); }
            if imp.starts_with("panic") { tags.push("panic"); }
            if imp.starts_with("ok 0") { tags.push("inexact"); }
            if !hist.is_empty() { tags.push("history"); }
            if req.use_cache && !req.cache.is_empty() { tags.push("cache_content"); }
            if fam.has_dominance() { tags.push("dominance"); }
            if matches!(fam, Fam::Knap(_)) { tags.push("knapsack"); }
            if long_arcs { tags.push("long_arcs"); }
            out.case_tagged(&format!("{} | {} | {}", fam.tokens(), req.tokens(), hist.iter().map(|h| h.tokens()).collect::<Vec<_>>().join(" ; ")), &imp, &tags.join(" "));
        }
    }
    out.finish();
}
