//! Engine `cacheorder` (C09, "order in which sub-problems are processed"): the counter-example `Ddo.C09.Counter` of the Lean
//! development (threshold cache + a sub-problem ranking that is not best-first) run through the real sequential solvers.
//! 7 binary variables in static order, states 0..2, tables below; merge = largest state, relax = cost unchanged,
//! rough upper bound 20, state ranking = larger state better, width 1 for sub-problems of depth <= 1 and 2 deeper.
use crate::{out::{catch, Out}, Args};
use ddo::*;

// per variable, per state: ((next, cost) for decision 0, (next, cost) for decision 1)
const T: [[((isize, isize), (isize, isize)); 3]; 7] = [
    [((1, 0), (0, 0)), ((1, 0), (0, 0)), ((1, 0), (0, 0))],
    [((0, 0), (0, 0)), ((1, 0), (1, 0)), ((1, 0), (1, 0))],
    [((0, 0), (1, 0)), ((2, 0), (2, 0)), ((2, 0), (2, 0))],
    [((1, 0), (1, 0)), ((2, 0), (0, 0)), ((2, 0), (2, 0))],
    [((0, 0), (0, 0)), ((2, 0), (2, 0)), ((2, 0), (1, 1))],
    [((0, 2), (1, 1)), ((0, 2), (1, 1)), ((2, 0), (1, 2))],
    [((0, 0), (0, 0)), ((0, 2), (0, 0)), ((0, 10), (0, 0))],
];
struct Pb;
impl Problem for Pb {
    type State = isize;
    fn nb_variables(&self) -> usize { 7 }
    fn initial_state(&self) -> isize { 0 }
    fn initial_value(&self) -> isize { 0 }
    fn transition(&self, s: &isize, d: Decision) -> isize { let e = T[d.variable.id()][*s as usize]; if d.value == 0 { e.0 .0 } else { e.1 .0 } }
    fn transition_cost(&self, s: &isize, _n: &isize, d: Decision) -> isize { let e = T[d.variable.id()][*s as usize]; if d.value == 0 { e.0 .1 } else { e.1 .1 } }
    fn next_variable(&self, depth: usize, _: &mut dyn Iterator<Item = &isize>) -> Option<Variable> { if depth < 7 { Some(Variable(depth)) } else { None } }
    fn for_each_in_domain(&self, variable: Variable, _s: &isize, f: &mut dyn DecisionCallback) {
        f.apply(Decision { variable, value: 0 }); f.apply(Decision { variable, value: 1 });
    }
}
struct Rlx;
impl Relaxation for Rlx {
    type State = isize;
    fn merge(&self, states: &mut dyn Iterator<Item = &isize>) -> isize { states.copied().max().unwrap() }
    fn relax(&self, _s: &isize, _d: &isize, _m: &isize, _dec: Decision, cost: isize) -> isize { cost }
    fn fast_upper_bound(&self, _s: &isize) -> isize { 20 }
}
struct Rank;
impl StateRanking for Rank { type State = isize; fn compare(&self, a: &isize, b: &isize) -> std::cmp::Ordering { a.cmp(b) } }
struct W;
impl WidthHeuristic<isize> for W { fn max_width(&self, s: &SubProblem<isize>) -> usize { if s.depth <= 1 { 1 } else { 2 } } }
/// breadth-first: shallower sub-problems first, then the larger state
struct Bfs;
impl SubProblemRanking for Bfs {
    type State = isize;
    fn compare(&self, a: &SubProblem<isize>, b: &SubProblem<isize>) -> std::cmp::Ordering { b.depth.cmp(&a.depth).then(a.state.cmp(&b.state)) }
}

// ---- the same instance on the parallel solver with the library's own best-first ranking (MaxUB): worker 0 pops
// k2 = (state 2, depth 4) and is delayed before compiling (its `max_width` call waits); another worker processes P and N and
// records the threshold (2, depth 5) -> (0, unexplored); worker 0 then compiles k2 and loses the only route to 10.
use std::sync::atomic::{AtomicBool, Ordering as AO};
use std::sync::Arc;
static STALLED: AtomicBool = AtomicBool::new(false);
static SIGNAL: AtomicBool = AtomicBool::new(false);
static STALL_ON: AtomicBool = AtomicBool::new(false);
struct WStall;
impl WidthHeuristic<isize> for WStall {
    fn max_width(&self, s: &SubProblem<isize>) -> usize {
        if STALL_ON.load(AO::SeqCst) && s.depth == 4 && *s.state == 2 && !STALLED.swap(true, AO::SeqCst) {
            let t0 = std::time::Instant::now();
            while !SIGNAL.load(AO::SeqCst) && t0.elapsed().as_secs() < 5 { std::thread::sleep(std::time::Duration::from_millis(1)); }
            // let the signalling worker finish its turn (enqueue_cutset, notify_finished)
            std::thread::sleep(std::time::Duration::from_millis(30));
        }
        if s.depth <= 1 { 1 } else { 2 }
    }
}
#[derive(Default)]
struct SigCache { inner: SimpleCache<isize> }
impl Cache for SigCache {
    type State = isize;
    fn initialize(&mut self, p: &dyn Problem<State = isize>) { self.inner.initialize(p) }
    fn get_threshold(&self, s: &isize, d: usize) -> Option<Threshold> { self.inner.get_threshold(s, d) }
    fn update_threshold(&self, s: Arc<isize>, d: usize, v: isize, e: bool) {
        let sig = *s == 2 && d == 5;
        self.inner.update_threshold(s, d, v, e);
        if sig { SIGNAL.store(true, AO::SeqCst); }
    }
    fn clear_layer(&self, d: usize) { self.inner.clear_layer(d) }
    fn clear(&self) { self.inner.clear() }
}

pub fn run_cacheorder(a: &Args) {
    let mut out = Out::new(&a.out, "cacheorder");
    let problem = Pb; let relax = Rlx; let rank = Rank; let width = W; let cutoff = NoCutoff; let dominance = EmptyDominanceChecker::default();
    let mut runs: Vec<String> = vec![];
    let show = |name: &str, r: Option<Completion>| match r { Some(c) => format!("{} {} {}", name, c.is_exact as u8, c.best_value.map(|v| v.to_string()).unwrap_or("none".into())), None => format!("{} panic", name) };
    macro_rules! seq { ($name:expr, $solver:ty, $fringe:expr) => {{
        let mut fringe = $fringe;
        let r = catch(|| { let mut s = <$solver>::custom(&problem, &relax, &rank, &width, &dominance, &cutoff, &mut fringe); s.maximize() });
        runs.push(show($name, r));
    }}; }
    seq!("maxub_lel_cache", SeqCachingSolverLel<isize>, SimpleFringe::new(MaxUB::new(&rank)));
    seq!("bfs_lel_nocache", SeqNoCachingSolverLel<isize>, SimpleFringe::new(Bfs));
    seq!("bfs_lel_cache", SeqCachingSolverLel<isize>, SimpleFringe::new(Bfs));
    seq!("bfs_fc_cache", SeqCachingSolverFc<isize>, SimpleFringe::new(Bfs));
    seq!("bfs_lel_cache_nodup", SeqCachingSolverLel<isize>, NoDupFringe::new(Bfs));
    seq!("bfs_fc_cache_nodup", SeqCachingSolverFc<isize>, NoDupFringe::new(Bfs));
    out.case_tagged("counter", &runs.join(" ; "), "any_order");
    // parallel, MaxUB, 2 and 3 threads; without the delay (free run) and with it
    let mut runs: Vec<String> = vec![];
    for (stall, threads) in [(false, 2usize), (true, 2), (true, 3)] {
        for lel in [true, false] {
            STALL_ON.store(stall, AO::SeqCst); STALLED.store(false, AO::SeqCst); SIGNAL.store(false, AO::SeqCst);
            let w = WStall;
            let name = format!("par{}_{}_{}", threads, if lel { "lel" } else { "fc" }, if stall { "delayed" } else { "free" });
            let r = if lel {
                let mut fringe = SimpleFringe::new(MaxUB::new(&rank));
                catch(|| { let mut s = ParallelSolver::<isize, DefaultMDDLEL<isize>, SigCache>::custom(&problem, &relax, &rank, &w, &dominance, &cutoff, &mut fringe, threads); s.maximize() })
            } else {
                let mut fringe = SimpleFringe::new(MaxUB::new(&rank));
                catch(|| { let mut s = ParallelSolver::<isize, DefaultMDDFC<isize>, SigCache>::custom(&problem, &relax, &rank, &w, &dominance, &cutoff, &mut fringe, threads); s.maximize() })
            };
            runs.push(show(&name, r));
            // reference: same schedule with the empty cache
            if stall {
                STALLED.store(false, AO::SeqCst); SIGNAL.store(true, AO::SeqCst);
                let mut fringe = SimpleFringe::new(MaxUB::new(&rank));
                let r = catch(|| { let mut s = ParallelSolver::<isize, DefaultMDDLEL<isize>, EmptyCache<isize>>::custom(&problem, &relax, &rank, &w, &dominance, &cutoff, &mut fringe, threads); s.maximize() });
                runs.push(show(&format!("par{}_nocache", threads), r));
            }
        }
    }
    STALL_ON.store(false, AO::SeqCst);
    out.case_tagged("counter_par", &runs.join(" ; "), "par_maxub");
    out.finish();
}
