//! Instance generators of the remaining examples (one `gen_<name>` per example; see `eng_ex.rs` for the contract).
//!
//! Conventions shared by all generators below:
//!  * sizes are tiny (the Lean specifications enumerate exhaustively) but varied, with explicit edge cases
//!    (empty / single-element instances, zero and negative weights where the reader accepts them, ties, repeated lines);
//!  * `tags` describe what is special about the instance; a tag starting with `ood_` marks an instance that the
//!    reader accepts but that lies OUTSIDE the domain the example's model / documentation assumes (such instances are
//!    produced rarely and must be reported separately);
//!  * `tokens` is what `DdoModel/Examples/<Name>.lean : specFromTokens` parses (always starts with the sizes).
use crate::eng_ex::*;
#[allow(unused_imports)]
use crate::rng::Rng;

fn join<T: ToString>(v: &[T]) -> String { v.iter().map(|x| x.to_string()).collect::<Vec<_>>().join(" ") }
fn shuffle<T>(rng: &mut Rng, v: &mut [T]) { for i in (1..v.len()).rev() { let j = rng.below(i as u64 + 1) as usize; v.swap(i, j); } }
fn push_tag(tags: &mut Vec<&'static str>, cond: bool, t: &'static str) { if cond && !tags.contains(&t) { tags.push(t); } }
/// a small "how many" with explicit edge cases: `zero` with probability 1/40 (if allowed), 1 with probability 1/12, else 2..=hi
fn small_size(rng: &mut Rng, allow_zero: bool, hi: i64) -> usize {
    if allow_zero && rng.chance(1, 40) { 0 } else if rng.chance(1, 12) { 1 } else { rng.range(2, hi) as usize }
}
/// weights drawn according to a random "mode" (0 positive 1..=9, 1 tiny 1..=2 => many ties, 2 with zeros 0..=4,
/// 3 mixed signs -5..=9, 4 all negative -9..=-1, 5 all equal to 1)
fn weight(rng: &mut Rng, mode: u64) -> i64 {
    match mode { 0 => rng.range(1, 9), 1 => rng.range(1, 2), 2 => rng.range(0, 4), 3 => rng.range(-5, 9), 4 => rng.range(-9, -1), _ => 1 }
}
fn weight_tags(tags: &mut Vec<&'static str>, ws: &[i64]) {
    push_tag(tags, ws.iter().any(|x| *x < 0), "negative_weights");
    push_tag(tags, ws.iter().any(|x| *x == 0), "zero_weight");
    push_tag(tags, !ws.is_empty() && ws.iter().all(|x| *x < 0), "all_negative");
    let mut s = ws.to_vec(); s.sort(); s.dedup();
    push_tag(tags, s.len() < ws.len(), "ties");
}
/// random simple graph on 0..n: each unordered pair with probability `num/4`, random orientation, shuffled
fn random_pairs(rng: &mut Rng, n: usize) -> Vec<(usize, usize)> {
    let num = rng.below(5);
    let mut e = vec![];
    for u in 0..n { for v in (u + 1)..n { if rng.below(4) < num { e.push(if rng.chance(1, 2) { (u, v) } else { (v, u) }); } } }
    shuffle(rng, &mut e);
    e
}

// ---------------------------------------------------------------------------------------------- misp
/// `p edge <n> <m>` / `n <vertex> <weight>` (optional, default weight 1) / `e <u> <v>` (1-based); `c …` comments.
/// tokens: `n m w_1..w_n (u v)*m`.
pub fn gen_misp(rng: &mut Rng) -> ExInst {
    let mut tags = vec![];
    let n = small_size(rng, true, 11);
    // weights: 0..=4 as in `weight`, 5 = no `n` line at all (unweighted), 6 = `n` lines for about half of the vertices
    let mode = *rng.pick(&[0u64, 0, 1, 2, 3, 3, 4, 5, 5, 6]);
    let mut w = vec![1i64; n];
    let mut declared = vec![false; n];
    for v in 0..n {
        match mode {
            5 => {}
            6 => if rng.chance(1, 2) { declared[v] = true; w[v] = rng.range(1, 9); },
            m => { declared[v] = true; w[v] = weight(rng, m); }
        }
    }
    push_tag(&mut tags, mode == 5, "unweighted");
    push_tag(&mut tags, mode == 6 && declared.iter().any(|d| !*d), "default_weights");
    weight_tags(&mut tags, &w);
    let mut edges = random_pairs(rng, n);
    if !edges.is_empty() && rng.chance(1, 6) {
        for _ in 0..rng.range(1, 3) { let (u, v) = *rng.pick(&edges); edges.push(if rng.chance(1, 2) { (u, v) } else { (v, u) }); }
        shuffle(rng, &mut edges);
        tags.push("duplicate_edges");
    }
    if n >= 1 && rng.chance(1, 40) {
        let v = rng.below(n as u64) as usize; edges.push((v, v)); shuffle(rng, &mut edges);
        tags.push("ood_self_loop");
    }
    push_tag(&mut tags, n == 0, "empty_graph");
    push_tag(&mut tags, n == 1, "single_vertex");
    push_tag(&mut tags, n > 1 && edges.is_empty(), "no_edges");
    let mut file = String::new();
    if rng.chance(1, 3) { file.push_str("c random instance of the ddo verification harness\n"); }
    file.push_str(&format!("p edge {} {}\n", n, edges.len()));
    let nodes_first = rng.chance(2, 3);
    let node_lines: String = (0..n).filter(|v| declared[*v]).map(|v| format!("n {} {}\n", v + 1, w[v])).collect();
    let edge_lines: String = edges.iter().map(|(u, v)| format!("e {} {}\n", u + 1, v + 1)).collect();
    if nodes_first { file.push_str(&node_lines); file.push_str(&edge_lines); } else { file.push_str(&edge_lines); file.push_str(&node_lines); }
    let tokens = format!("{} {} {} {}", n, edges.len(), join(&w), edges.iter().map(|(u, v)| format!("{} {}", u + 1, v + 1)).collect::<Vec<_>>().join(" "));
    ExInst { file, tokens, tags }
}

// ---------------------------------------------------------------------------------------------- max2sat
/// `p wcnf <n> <m>` / `<w> <x> <y> 0` (binary; x = y unit, x = -y tautology) / `<w> <x> 0` (unit); `c …` comments.
/// tokens: `n m (w x y)*m` (unit clause: y = x).  Every clause (as a set of literals) is listed once, except under
/// `ood_duplicate_clauses` (the reader silently keeps the last weight only).
pub fn gen_max2sat(rng: &mut Rng) -> ExInst {
    let mut tags = vec![];
    let n = small_size(rng, true, 10) as i64;
    let mode = *rng.pick(&[0u64, 0, 0, 1, 1, 2, 3, 3, 5]);
    let unit_heavy = rng.chance(1, 4);
    let m = if n == 0 { 0 } else { rng.range(0, 3 * n + 1) };
    let mut clauses: Vec<(i64, i64, i64)> = vec![]; // (w, a, b) with a <= b
    let lit = |rng: &mut Rng| -> i64 { let v = rng.range(1, n); if rng.chance(1, 2) { v } else { -v } };
    for _ in 0..m {
        let k = rng.below(20);
        let (a, b) = if n < 2 || (unit_heavy && k < 10) || k < 3 { let x = lit(rng); (x, x) }             // unit
            else if k == 19 { let v = rng.range(1, n); (-v, v) }                                         // tautology
            else { let x = lit(rng); let mut y = lit(rng); while y.abs() == x.abs() { y = lit(rng); } (x.min(y), x.max(y)) };
        if clauses.iter().any(|c| c.1 == a && c.2 == b) { continue; }
        clauses.push((weight(rng, mode), a, b));
    }
    if !clauses.is_empty() && rng.chance(1, 30) {
        let (_, a, b) = *rng.pick(&clauses);
        clauses.push((rng.range(1, 9), a, b));
        tags.push("ood_duplicate_clauses");
    }
    let ws: Vec<i64> = clauses.iter().map(|c| c.0).collect();
    weight_tags(&mut tags, &ws);
    push_tag(&mut tags, n == 0, "no_vars");
    push_tag(&mut tags, n == 1, "single_var");
    push_tag(&mut tags, clauses.is_empty(), "no_clauses");
    push_tag(&mut tags, clauses.iter().any(|c| c.1 == c.2), "unit_clauses");
    push_tag(&mut tags, clauses.iter().any(|c| c.1 == -c.2), "tautology");
    let mut file = String::new();
    if rng.chance(1, 3) { file.push_str("c random instance of the ddo verification harness\n"); }
    file.push_str(&format!("p wcnf {} {}\n", n, clauses.len()));
    for (w, a, b) in clauses.iter() {
        if a == b {
            if rng.chance(1, 3) { file.push_str(&format!("{} {} {} 0\n", w, a, a)); push_tag(&mut tags, true, "unit_as_binary"); }
            else { file.push_str(&format!("{} {} 0\n", w, a)); }
        } else if rng.chance(1, 2) { file.push_str(&format!("{} {} {} 0\n", w, a, b)); } else { file.push_str(&format!("{} {} {} 0\n", w, b, a)); }
    }
    let tokens = format!("{} {} {}", n, clauses.len(), clauses.iter().map(|(w, a, b)| format!("{} {} {}", w, a, b)).collect::<Vec<_>>().join(" "));
    ExInst { file, tokens, tags }
}
/// `-f <file> [-w <width>]` (max2sat and mcp: `-t` is a TIMEOUT there, and they are sequential)
pub fn dashf_args(f: &str, w: Option<usize>, _t: usize) -> Vec<String> {
    let mut a = vec!["-f".to_string(), f.to_string()];
    if let Some(w) = w { a.push("-w".into()); a.push(w.to_string()); }
    a
}

// ---------------------------------------------------------------------------------------------- mcp
/// `<n> <m>` / `<u> <v> <w>` (1-based, undirected, integer weight of any sign); `c …` comments.
/// tokens: `n m (u v w)*m`.  Every edge is listed once and has two distinct end points, except under
/// `ood_duplicate_edges` (the reader keeps the last weight) / `ood_self_loop`.
pub fn gen_mcp(rng: &mut Rng) -> ExInst {
    let mut tags = vec![];
    let n = small_size(rng, true, 10);
    let mode = *rng.pick(&[0u64, 0, 1, 2, 3, 3, 3, 4, 5]);
    let mut edges: Vec<(usize, usize, i64)> = random_pairs(rng, n).into_iter().map(|(u, v)| (u, v, weight(rng, mode))).collect();
    if !edges.is_empty() && rng.chance(1, 30) {
        let (u, v, _) = *rng.pick(&edges);
        edges.push((v, u, rng.range(-9, 9)));
        tags.push("ood_duplicate_edges");
    }
    if n >= 1 && rng.chance(1, 40) {
        let v = rng.below(n as u64) as usize; edges.push((v, v, rng.range(-9, 9))); shuffle(rng, &mut edges);
        tags.push("ood_self_loop");
    }
    let ws: Vec<i64> = edges.iter().map(|e| e.2).collect();
    weight_tags(&mut tags, &ws);
    push_tag(&mut tags, mode == 5, "unweighted");
    push_tag(&mut tags, n == 0, "empty_graph");
    push_tag(&mut tags, n == 1, "single_vertex");
    push_tag(&mut tags, n > 1 && edges.is_empty(), "no_edges");
    let mut file = String::new();
    if rng.chance(1, 3) { file.push_str("c random instance of the ddo verification harness\n"); }
    file.push_str(&format!("{} {}\n", n, edges.len()));
    for (u, v, w) in edges.iter() { file.push_str(&format!("{} {} {}\n", u + 1, v + 1, w)); }
    let tokens = format!("{} {} {}", n, edges.len(), edges.iter().map(|(u, v, w)| format!("{} {} {}", u + 1, v + 1, w)).collect::<Vec<_>>().join(" "));
    ExInst { file, tokens, tags }
}

// ---------------------------------------------------------------------------------------------- lcs
/// `<k> <alphabet size>` then exactly k lines `<length> <string>` (no blank line, strings non-empty).
/// tokens: `k alphabet (len c_1..c_len)*k` with the characters as code points.  The first string has at most 12
/// characters (the specification enumerates its subsequences), the others at most 14.
pub fn gen_lcs(rng: &mut Rng) -> ExInst {
    let mut tags = vec![];
    let k = if rng.chance(1, 12) { 1 } else { rng.range(2, 4) as usize };
    let alpha_size = rng.range(1, 4) as usize;
    let alphabet: Vec<char> = rng.pick(&["acgt", "ABCD", "tgca", "zaZ0", "0123"]).chars().take(alpha_size).collect();
    let rnd_string = |rng: &mut Rng, len: usize, al: &[char]| -> Vec<char> { (0..len).map(|_| *rng.pick(al)).collect() };
    let mode = rng.below(10);
    let mut strings: Vec<Vec<char>> = vec![];
    match mode {
        0 | 1 => { // independent random strings, any length
            for i in 0..k { let len = rng.range(1, if i == 0 { 12 } else { 14 }) as usize; strings.push(rnd_string(rng, len, &alphabet)); }
        }
        2 | 3 | 4 => { // long strings over a small alphabet: many incomparable partial matches
            let al = &alphabet[..alphabet.len().min(rng.range(2, 3) as usize)];
            for i in 0..k { let len = rng.range(8, if i == 0 { 12 } else { 14 }) as usize; strings.push(rnd_string(rng, len, al)); }
            tags.push("long_strings");
        }
        5 | 6 | 7 => { // noisy copies of a common base: long common subsequences
            let blen = rng.range(2, 10) as usize; let base = rnd_string(rng, blen, &alphabet);
            for _ in 0..k {
                let mut s = base.clone();
                for _ in 0..rng.range(0, 2) { if s.len() > 1 { let p = rng.below(s.len() as u64) as usize; s.remove(p); } }
                for _ in 0..rng.range(0, 3) { if s.len() < 12 { let p = rng.below(s.len() as u64 + 1) as usize; s.insert(p, *rng.pick(&alphabet)); } }
                strings.push(s);
            }
            tags.push("noisy_copies");
        }
        8 => { // identical strings
            let len = rng.range(1, 12) as usize; let s = rnd_string(rng, len, &alphabet);
            for _ in 0..k { strings.push(s.clone()); }
            tags.push("identical_strings");
        }
        _ => { // string i only uses character i (mod alphabet): no common character when k >= 2 and alphabet >= 2
            for i in 0..k { let len = rng.range(1, 6) as usize; strings.push(vec![alphabet[i % alphabet.len()]; len]); }
            push_tag(&mut tags, k >= 2 && alphabet.len() >= 2, "no_common_character");
        }
    }
    let mut used: Vec<char> = strings.iter().flatten().copied().collect(); used.sort(); used.dedup();
    let mut declared = used.len();
    if rng.chance(1, 6) { declared += rng.range(1, 2) as usize; tags.push("unused_alphabet"); }
    push_tag(&mut tags, k == 1, "single_string");
    push_tag(&mut tags, used.len() == 1, "single_character");
    push_tag(&mut tags, strings.iter().any(|s| s.len() == 1), "length_one_string");
    { let mut l: Vec<usize> = strings.iter().map(|s| s.len()).collect(); l.sort(); l.dedup(); push_tag(&mut tags, k > 1 && l.len() < k, "ties"); }
    let sep = if rng.chance(1, 2) { "\t" } else { " " };
    let mut file = format!("{} {}\n", k, declared);
    for s in strings.iter() { file.push_str(&format!("{}{}{}\n", s.len(), sep, s.iter().collect::<String>())); }
    let tokens = format!("{} {} {}", k, declared, strings.iter().map(|s| format!("{} {}", s.len(), join(&s.iter().map(|c| *c as u32).collect::<Vec<_>>()))).collect::<Vec<_>>().join(" "));
    ExInst { file, tokens, tags }
}

// ---------------------------------------------------------------------------------------------- golomb
/// No instance file: the number of marks is the positional argument.  The "file" holds that number (the `args`
/// function reads it back).  tokens: `n`.  n = 8 takes several seconds in the debug build and is drawn rarely; n >= 9
/// takes minutes and is never drawn.
pub fn gen_golomb(rng: &mut Rng) -> ExInst {
    let n = if rng.chance(1, 40) { 8 } else if rng.chance(1, 10) { 7 } else if rng.chance(1, 12) { 1 } else { rng.range(2, 6) };
    let mut tags = vec![];
    push_tag(&mut tags, n == 1, "single_mark");
    ExInst { file: format!("{}\n", n), tokens: n.to_string(), tags }
}
/// `<n> [-w <width>]`; without `-w` the example uses FixedWidth(10); it is sequential (`-t` is an ignored timeout)
pub fn golomb_args(f: &str, w: Option<usize>, _t: usize) -> Vec<String> {
    let n = std::fs::read_to_string(f).expect("golomb pseudo-instance").trim().to_string();
    let mut a = vec![n];
    if let Some(w) = w { a.push("-w".into()); a.push(w.to_string()); }
    a
}

// ---------------------------------------------------------------------------------------------- psp
/// `T` / `n` / `#orders` / blank / n rows of changeover costs q[from][to] / blank / one row of stocking costs / blank /
/// n rows of T demands in {0,1} / optionally: blank + reference optimum (ignored by the reader).
/// tokens: `T n q(n*n, row major) h(n) d(n*T, row major)`.  (n+1)^T <= 20000 (the specification enumerates all plans).
/// In-domain: q[i][i] = 0 (else `ood_nonzero_diagonal`); an instance whose demands cannot be met in time is tagged
/// `infeasible` (the program must then print -1).
/// merge-heavy family: 2-3 items, 4-6 periods, many demands (feasible by construction: item of period t due at t or later),
/// asymmetric changeover 0..7, small stocking costs: at narrow widths many states with different "next item" are merged, and
/// the relaxation must stay a relaxation whatever their order
/// psp: the changeover costs of the problem (CSPLib 058) satisfy the triangle inequality, and the example's merge operator
/// is a relaxation only then (open finding D15, reported by engine `exmodel`).  A drawn matrix that violates it is replaced by
/// its shortest-path closure (asymmetry kept), except one time in ten, where it is kept and tagged `ood_no_triangle`.
fn psp_triangle(q: &mut Vec<Vec<i64>>, rng: &mut Rng, tags: &mut Vec<&'static str>) {
    let n = q.len();
    let viol = |q: &Vec<Vec<i64>>| (0..n).any(|a| (0..n).any(|b| (0..n).any(|c| a != b && q[a][b] > q[a][c] + q[c][b])));
    if !viol(q) { return; }
    if rng.chance(1, 10) { tags.push("ood_no_triangle"); return; }
    for c in 0..n { for a in 0..n { for b in 0..n { if a != b && q[a][c] + q[c][b] < q[a][b] { q[a][b] = q[a][c] + q[c][b]; } } } }
    tags.push("triangle_closure");
}
fn gen_psp_merge_heavy(rng: &mut Rng) -> ExInst {
    let n = rng.range(2, 3) as usize; let t_hor = rng.range(4, 6) as usize;
    let mut d = vec![vec![0i64; t_hor]; n];
    for s in 0..t_hor {
        if rng.chance(1, 5) { continue; }
        let i = rng.below(n as u64) as usize;
        let free: Vec<usize> = (s..t_hor).filter(|t| d[i][*t] == 0).collect();
        if free.is_empty() { continue; }
        let t = *rng.pick(&free);
        d[i][t] = 1;
    }
    let total: i64 = d.iter().flatten().sum();
    let mut q = vec![vec![0i64; n]; n];
    for a in 0..n { for b in 0..n { if a != b { q[a][b] = rng.range(0, 7); } } }
    let mut tags = vec!["merge_heavy"];
    psp_triangle(&mut q, rng, &mut tags);
    let h: Vec<i64> = (0..n).map(|_| rng.range(0, 3)).collect();
    let mut file = format!("{}\n{}\n{}\n\n", t_hor, n, total);
    for a in 0..n { file.push_str(&join(&q[a])); file.push('\n'); }
    file.push('\n');
    file.push_str(&join(&h)); file.push_str("\n\n");
    for i in 0..n { file.push_str(&join(&d[i])); file.push('\n'); }
    file.push_str("\n0\n");
    let tokens = format!("{} {} {} {} {}", t_hor, n, q.iter().map(|r| join(r)).collect::<Vec<_>>().join(" "), join(&h), d.iter().map(|r| join(r)).collect::<Vec<_>>().join(" "));
    if total == 0 { tags.push("no_demand"); }
    ExInst { file, tokens, tags }
}
pub fn gen_psp(rng: &mut Rng) -> ExInst {
    if rng.chance(2, 5) { return gen_psp_merge_heavy(rng); }
    let mut tags = vec![];
    let n = *rng.pick(&[1usize, 2, 2, 2, 3, 3, 3, 4]);
    let tmax = [0i64, 9, 8, 7, 6][n];
    let t_hor = if rng.chance(1, 15) { 1 } else { rng.range(2, tmax) } as usize;
    // demands
    let mut d = vec![vec![0i64; t_hor]; n];
    let dmode = rng.below(6);
    if dmode == 0 { // raw random demands: possibly infeasible
        let num = rng.range(1, 3) as u64;
        for i in 0..n { for t in 0..t_hor { if rng.below(2 * n as u64 + 2) < num { d[i][t] = 1; } } }
    } else { // feasible by construction: draw a plan, then a due date not before each production
        let busy = if dmode == 1 { (1, 1) } else { (rng.range(1, 4) as u64, 4) };
        for s in 0..t_hor {
            if !rng.chance(busy.0, busy.1) { continue; }
            let i = rng.below(n as u64) as usize;
            let free: Vec<usize> = (s..t_hor).filter(|t| d[i][*t] == 0).collect();
            if free.is_empty() { continue; }
            let t = if rng.chance(1, 3) { free[0] } else { *rng.pick(&free) };
            d[i][t] = 1;
        }
    }
    let mut cum = 0i64; let mut feasible = true;
    for t in 0..t_hor { for i in 0..n { cum += d[i][t]; } if cum > t as i64 + 1 { feasible = false; } }
    let total = cum;
    push_tag(&mut tags, !feasible, "infeasible");
    push_tag(&mut tags, total == 0, "no_demand");
    push_tag(&mut tags, feasible && total == t_hor as i64, "all_periods_busy");
    push_tag(&mut tags, n == 1, "single_item");
    push_tag(&mut tags, t_hor == 1, "single_period");
    push_tag(&mut tags, (0..n).any(|i| d[i].iter().all(|x| *x == 0)) && total > 0, "item_without_demand");
    // changeover costs
    let mut q = vec![vec![0i64; n]; n];
    let qmode = rng.below(6);
    for a in 0..n { for b in 0..n { if a != b {
        q[a][b] = match qmode { 0 => 0, 1 => rng.range(1, 2), 2 => if a < b { rng.range(0, 9) } else { q[b][a] }, 3 => rng.range(10, 40), _ => rng.range(0, 9) };
    } } }
    push_tag(&mut tags, qmode == 0 && n > 1, "zero_changeover");
    push_tag(&mut tags, qmode == 2 && n > 1, "symmetric_changeover");
    psp_triangle(&mut q, rng, &mut tags);
    if rng.chance(1, 40) { for a in 0..n { q[a][a] = rng.range(1, 5); } tags.push("ood_nonzero_diagonal"); }
    // stocking costs
    let hmode = rng.below(5);
    let h: Vec<i64> = (0..n).map(|_| match hmode { 0 => 0, 1 => 1, 2 => rng.range(5, 20), _ => rng.range(0, 5) }).collect();
    push_tag(&mut tags, h.iter().all(|x| *x == 0), "zero_stocking");
    let mut file = format!("{}\n{}\n{}\n\n", t_hor, n, total);
    for a in 0..n { file.push_str(&join(&q[a])); file.push('\n'); }
    file.push('\n');
    file.push_str(&join(&h)); file.push_str("\n\n");
    for i in 0..n { file.push_str(&join(&d[i])); if rng.chance(1, 8) { file.push(' '); } file.push('\n'); }
    if rng.chance(1, 2) { file.push_str("\n0\n"); }
    let tokens = format!("{} {} {} {} {}", t_hor, n, q.iter().map(|r| join(r)).collect::<Vec<_>>().join(" "), join(&h), d.iter().map(|r| join(r)).collect::<Vec<_>>().join(" "));
    ExInst { file, tokens, tags }
}

pub fn more_examples() -> Vec<Example> {
    vec![
        Example { name: "misp", gen: gen_misp, args: std_args, parse: std_parse, threads: true },
        Example { name: "max2sat", gen: gen_max2sat, args: dashf_args, parse: std_parse, threads: false },
        Example { name: "mcp", gen: gen_mcp, args: dashf_args, parse: std_parse, threads: false },
        Example { name: "lcs", gen: gen_lcs, args: std_args, parse: std_parse, threads: true },
        Example { name: "golomb", gen: gen_golomb, args: golomb_args, parse: std_parse, threads: false },
        Example { name: "psp", gen: gen_psp, args: std_args, parse: std_parse, threads: true },
    ]
}
