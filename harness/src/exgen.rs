//! Instance generators of the remaining examples (one `gen_<name>` per example; see `eng_ex.rs` for the contract).
use crate::eng_ex::*;
#[allow(unused_imports)]
use crate::rng::Rng;

pub fn more_examples() -> Vec<Example> {
    vec![]
}
