//! Family `alp` of engine `exmodel` (C16): pointwise correspondence between the DP model, relaxation, ranking and dominance
//! rule of the shipped alp example (aircraft landing; its source files are compiled in by path) and the Lean model
//! `DdoModel/Examples/AlpDp.lean`.  The instance goes through the example's own reader (a file) or its own data structure,
//! then its constructor `Alp::new`; recorded are what the reader built, the public table `next`, the private table
//! `min_separation_to` as `get_arrival_time` reveals it (runway of unknown class), `to_decision` / `from_decision`,
//! `next_variable` at every depth, and along random walks every `for_each_in_domain`, `transition`, `transition_cost`,
//! `fast_upper_bound` with the value and the decisions of the prefix; merges of 2–5 states met at the same depth (merged
//! ones included), the relaxed cost of the arc into each, ranking, then a walk from the merged state (previous classes
//! unknown: the only place where `min_separation_to` matters); the dominance rule (`get_key` through a recording hasher and
//! `==`, `nb_dimensions`, `get_coordinate`, `use_value`, the inherited `partial_cmp` / `cmp`) on pairs of states of one
//! depth and on pairs (state, same state with later runway times); decisions outside the domain (panics are observations).
/// The modules of the shipped alp example, compiled in by path.  `model.rs` names the reader's module `crate::io_utils`
/// (they are top-level modules of the example binary): `main.rs` of the harness re-exports it under this name at the
/// crate root; `dominance.rs` says `super::model`.
#[allow(dead_code, unused_imports, clippy::all)]
pub mod ex_alp {
    #[path = "/repo/ddo/examples/alp/io_utils.rs"]
    pub mod io_utils;
    #[path = "/repo/ddo/examples/alp/model.rs"]
    pub mod model;
    #[path = "/repo/ddo/examples/alp/dominance.rs"]
    pub mod dominance;
}
use crate::{out::Out, rng::Rng};
use ddo::*;
use ex_alp::{dominance::AlpDominance, io_utils::{read_instance, AlpInstance}, model::{Alp, AlpDecision, AlpRanking, AlpRelax, AlpState, RunwayState}};
use std::sync::Arc;

/// the instance as generated: `(target, latest, class)` per aircraft in file order, the separation matrix
#[derive(Clone)]
struct Spec { k: usize, r: usize, ac: Vec<(i64, i64, usize)>, sep: Vec<Vec<i64>> }

fn ints<T: ToString>(xs: &mut dyn Iterator<Item = T>) -> String { xs.map(|x| x.to_string()).collect::<Vec<_>>().join(" ") }
fn info_txt(info: &[RunwayState]) -> String { ints(&mut info.iter().flat_map(|i| [i.prev_time, i.prev_class])) }
/// a state in full: `rem_0 … rem_{k-1} time_0 class_0 … time_{r-1} class_{r-1}`
fn st(s: &AlpState) -> String {
    let a = ints(&mut s.rem.iter());
    let b = info_txt(&s.info);
    if b.is_empty() { a } else if a.is_empty() { b } else { format!("{} {}", a, b) }
}
fn ord(o: std::cmp::Ordering) -> &'static str { match o { std::cmp::Ordering::Less => "lt", std::cmp::Ordering::Equal => "eq", _ => "gt" } }
fn or_panic<T: ToString>(x: Option<T>) -> String { x.map(|x| x.to_string()).unwrap_or("panic".into()) }

/// a hasher that records what it is fed (every default `write_*` of `Hasher` ends in `write`): `AlpKey::hash` observed
/// exactly, as 64-bit words
struct Rec(Vec<u8>);
impl std::hash::Hasher for Rec {
    fn finish(&self) -> u64 { 0 }
    fn write(&mut self, bytes: &[u8]) { self.0.extend_from_slice(bytes); }
}
fn key_words(s: &AlpState) -> String {
    use std::hash::Hash;
    match AlpDominance.get_key(Arc::new(s.clone())) {
        None => "none".into(),
        Some(k) => {
            let mut h = Rec(vec![]);
            k.hash(&mut h);
            if h.0.len() % 8 != 0 { return format!("odd {}", h.0.len()); }
            ints(&mut h.0.chunks(8).map(|c| i64::from_ne_bytes(c.try_into().unwrap())))
        }
    }
}
fn key_eq(a: &AlpState, b: &AlpState) -> String {
    match (AlpDominance.get_key(Arc::new(a.clone())), AlpDominance.get_key(Arc::new(b.clone()))) {
        (Some(x), Some(y)) => ((x == y) as u8).to_string(),
        _ => "none".into(),
    }
}
/// the dominance events of one state
fn dom_state(s: &AlpState, ev: &mut Vec<String>) {
    ev.push(format!("key {} : {}", st(s), key_words(s)));
    let dims = AlpDominance.nb_dimensions(s);
    ev.push(format!("dc {} : {} : {}", st(s), dims, ints(&mut (0..dims).map(|i| AlpDominance.get_coordinate(s, i)))));
}
/// the dominance events of a pair: key equality, `partial_cmp`, `cmp`
fn dom_pair(a: &AlpState, va: isize, b: &AlpState, vb: isize, ev: &mut Vec<String>) {
    let pc = match AlpDominance.partial_cmp(a, va, b, vb) { None => "none".to_string(), Some(r) => format!("{} {}", ord(r.ordering), r.only_val_diff as u8) };
    ev.push(format!("dm {} : {} : {} : {} : {} : {}", st(a), va, st(b), vb, key_eq(a, b), pc));
    ev.push(format!("cm {} : {} : {} : {} : {}", st(a), va, st(b), vb, ord(AlpDominance.cmp(a, va, b, vb))));
}

/// the instance file of the example's reader: blank-separated numbers, any layout
fn file_of(sp: &Spec, rng: &mut Rng) -> String {
    let one_line = rng.chance(1, 6);
    let nl = if one_line { " " } else { "\n" };
    let mut f = format!("{} {} {}{}", sp.ac.len(), sp.k, sp.r, nl);
    if rng.chance(1, 5) { f.push('\n'); }
    for a in &sp.ac { f.push_str(&format!("{} {}  {}{}", a.0, a.1, a.2, nl)); }
    if rng.chance(1, 5) { f.push_str("\n\n"); }
    for row in &sp.sep { f.push_str(&format!("{}{}", ints(&mut row.iter()), if rng.chance(1, 8) { "\t" } else { nl })); }
    f
}

/// an arc of a walk: parent, decision, cost, state reached, value of the path (meaningless below a merged state)
#[derive(Clone)]
struct Node { parent: AlpState, dec: Decision, cost: isize, state: AlpState, value: isize }

fn tr_event(pb: &Alp, s: &AlpState, dec: Decision) -> (String, Option<(AlpState, isize)>) {
    let s2 = crate::out::catch(|| pb.transition(s, dec));
    let cost = match &s2 { Some(t) => crate::out::catch(|| pb.transition_cost(s, t, dec)), None => crate::out::catch(|| pb.transition_cost(s, s, dec)) };
    let e = format!("tr {} : {} {} : {} : {}", st(s), dec.variable.id(), dec.value, s2.as_ref().map(st).unwrap_or("panic".into()), or_panic(cost));
    (e, match (s2, cost) { (Some(a), Some(c)) => Some((a, c)), _ => None })
}

/// one step of a walk: domain, random decision, transition, cost (events `dom`, `tr`); now and then decisions outside
/// the domain: `-1` with aircraft left, a class without aircraft left, a runway that does not exist, a runway refused
fn step(pb: &Alp, s: &AlpState, d: usize, ev: &mut Vec<String>, rng: &mut Rng) -> Option<(Decision, isize, AlpState)> {
    let var = pb.next_variable(d, &mut std::iter::once(s))?;
    let mut dom: Vec<isize> = vec![];
    pb.for_each_in_domain(var, s, &mut |x: Decision| dom.push(x.value));
    ev.push(format!("dom {} : {} {} : {}", st(s), d, var.id(), ints(&mut dom.iter())));
    if rng.chance(1, 6) {
        let (k, r) = (pb.instance.nb_classes, pb.instance.nb_runways);
        let v = match rng.below(5) {
            0 => -1,
            1 => -2,
            2 => pb.to_decision(&AlpDecision { class: rng.below(k as u64) as usize, runway: r }),
            _ => pb.to_decision(&AlpDecision { class: rng.below(k as u64) as usize, runway: rng.below(r as u64) as usize }),
        };
        ev.push(tr_event(pb, s, Decision { variable: var, value: v }).0);
    }
    if dom.is_empty() { return None; }
    let val = *rng.pick(&dom);
    let dec = Decision { variable: var, value: val };
    let (e, res) = tr_event(pb, s, dec);
    ev.push(e);
    let (s2, cost) = res?;
    Some((dec, cost, s2))
}

fn build(sp: &Spec, reader: bool, rng: &mut Rng) -> AlpInstance {
    if reader {
        static CNT: std::sync::atomic::AtomicUsize = std::sync::atomic::AtomicUsize::new(0);
        let path = std::env::temp_dir().join(format!("ddo_verif_exmodel_alp_{}_{}.txt", std::process::id(), CNT.fetch_add(1, std::sync::atomic::Ordering::Relaxed)));
        std::fs::write(&path, file_of(sp, rng)).expect("cannot write the instance file");
        let r = read_instance(&path);
        let _ = std::fs::remove_file(&path);
        r.expect("the example's reader rejects the instance")
    } else {
        AlpInstance {
            nb_classes: sp.k, nb_aircrafts: sp.ac.len(), nb_runways: sp.r,
            classes: sp.ac.iter().map(|a| a.2).collect(), target: sp.ac.iter().map(|a| a.0 as isize).collect(),
            latest: sp.ac.iter().map(|a| a.1 as isize).collect(),
            separation: sp.sep.iter().map(|row| row.iter().map(|x| *x as isize).collect()).collect(),
        }
    }
}

/// a state of depth `d` that no walk need reach: any split of `n - d` (or fewer) aircraft left over the classes, runways
/// with any times, classes known or not, sorted as the model keeps them
fn arbitrary_state(pb: &Alp, d: usize, rng: &mut Rng) -> AlpState {
    let inst = &pb.instance;
    let mut rem = vec![0usize; inst.nb_classes];
    let mut pool: Vec<usize> = inst.classes.clone();
    for _ in 0..(inst.nb_aircrafts - d) { let i = rng.below(pool.len() as u64) as usize; rem[pool.swap_remove(i)] += 1; }
    let tmax = inst.target.iter().copied().max().unwrap_or(0) as i64 + 6;
    let mut info: Vec<RunwayState> = (0..inst.nb_runways).map(|_| {
        if rng.chance(1, 5) { RunwayState { prev_time: 0, prev_class: -1 } }
        else { RunwayState { prev_time: rng.range(0, tmax) as isize, prev_class: if rng.chance(1, 3) { -1 } else { rng.below(inst.nb_classes as u64) as isize } } }
    }).collect();
    info.sort_unstable();
    AlpState { rem, info }
}

fn run_one(sp: &Spec, walks: u64, reader: bool, rng: &mut Rng) -> String {
    let inst = build(sp, reader, rng);
    let pb = Alp::new(inst);
    let rlx = AlpRelax::new(pb.clone());
    let n = pb.nb_variables();
    let (k, r) = (pb.instance.nb_classes, pb.instance.nb_runways);
    let mut ev: Vec<String> = vec![];
    ev.push(format!("nv {}", n));
    // what the reader / the data structure holds, the public table, the decision encoding
    ev.push(format!("inst {} {} {} : {} : {} : {} : {}", pb.instance.nb_classes, pb.instance.nb_aircrafts, pb.instance.nb_runways,
        ints(&mut pb.instance.classes.iter()), ints(&mut pb.instance.target.iter()), ints(&mut pb.instance.latest.iter()), ints(&mut pb.instance.separation.iter().flatten())));
    for c in 0..k { ev.push(format!("nxt {} : {}", c, ints(&mut pb.next[c].iter()))); }
    for c in 0..k { for rw in 0..=r {
        let v = pb.to_decision(&AlpDecision { class: c, runway: rw });
        let back = pb.from_decision(v);
        ev.push(format!("dec {} {} : {} : {} {}", c, rw, v, back.class, back.runway));
    } }
    // get_arrival_time: after an unknown class at a late time (reveals min_separation_to), after every known class, on an empty runway
    for a in 0..n {
        let late = 1000 + rng.range(0, 9) as isize;
        let info = vec![RunwayState { prev_time: late, prev_class: -1 }; r];
        ev.push(format!("arr {} : {} 0 : {}", info_txt(&info), a, or_panic(crate::out::catch(|| pb.get_arrival_time(&info, a, 0)))));
        let info: Vec<RunwayState> = (0..r).map(|_| RunwayState { prev_time: rng.range(0, 30) as isize, prev_class: rng.range(-1, k as i64 - 1) as isize }).collect();
        let rw = rng.below(r as u64) as usize;
        ev.push(format!("arr {} : {} {} : {}", info_txt(&info), a, rw, or_panic(crate::out::catch(|| pb.get_arrival_time(&info, a, rw)))));
    }
    // next_variable at every depth (one state, no state)
    let root = pb.initial_state();
    let empty: Vec<AlpState> = vec![];
    ev.push(format!("ord {}", (0..=n + 1).map(|d| pb.next_variable(d, &mut std::iter::once(&root)).map(|v| v.id().to_string()).unwrap_or("n".into())).collect::<Vec<_>>().join(" ")));
    ev.push(format!("nve {}", (0..=n + 1).map(|d| pb.next_variable(d, &mut empty.iter()).map(|v| v.id().to_string()).unwrap_or("n".into())).collect::<Vec<_>>().join(" ")));
    ev.push(format!("init {} : {}", st(&root), pb.initial_value()));
    ev.push(format!("rub {} : {}", st(&root), rlx.fast_upper_bound(&root)));
    ev.push(format!("uv {}", AlpDominance.use_value() as u8));
    dom_state(&root, &mut ev);
    // random walks from the root; `pv` = value and decisions of the prefix
    let mut by_depth: Vec<Vec<Node>> = vec![vec![]; n + 1];
    for _ in 0..walks {
        let mut s = pb.initial_state();
        let mut value = pb.initial_value();
        let mut decs: Vec<isize> = vec![];
        ev.push(format!("pv {} : {} :", st(&s), value));
        for d in 0..n {
            let (dec, cost, s2) = match step(&pb, &s, d, &mut ev, rng) { Some(x) => x, None => break };
            value += cost;
            decs.push(dec.value);
            ev.push(format!("pv {} : {} : {}", st(&s2), value, ints(&mut decs.iter())));
            ev.push(format!("rub {} : {}", st(&s2), rlx.fast_upper_bound(&s2)));
            by_depth[d + 1].push(Node { parent: s.clone(), dec, cost, state: s2.clone(), value });
            s = s2;
        }
    }
    // per depth: merges of 2–5 states (walk states, earlier merged walks, now and then an arbitrary state), the relaxed
    // cost of the arc into each, ranking, dominance; then a walk from the merged state
    for d in 1..=n {
        if by_depth[d].is_empty() { continue; }
        if rng.chance(1, 3) {
            let s = arbitrary_state(&pb, d, rng);
            ev.push(format!("rub {} : {}", st(&s), rlx.fast_upper_bound(&s)));
            let p = rng.pick(&by_depth[d]).clone();
            by_depth[d].push(Node { state: s, value: rng.range(-20, 0) as isize, ..p });
        }
        let l = by_depth[d].clone();
        // dominance: pairs of states of this depth; a state against itself with later / earlier times
        for _ in 0..2 {
            let (a, b) = (rng.pick(&l), rng.pick(&l));
            dom_state(&a.state, &mut ev);
            dom_pair(&a.state, a.value, &b.state, b.value, &mut ev);
            let mut c = a.state.clone();
            for i in c.info.iter_mut() { if rng.chance(1, 2) { i.prev_time += rng.range(0, 4) as isize; } }
            if rng.chance(1, 2) { c.info.sort_unstable(); }
            let vc = a.value + rng.range(-2, 1) as isize;
            if rng.chance(1, 2) { dom_pair(&a.state, a.value, &c, vc, &mut ev); } else { dom_pair(&c, vc, &a.state, a.value, &mut ev); }
        }
        if l.len() < 2 && !rng.chance(1, 4) { continue; }
        let cnt = rng.range(2, 5) as usize;
        let pick: Vec<&Node> = (0..cnt).map(|_| rng.pick(&l)).collect();
        let m = rlx.merge(&mut pick.iter().map(|p| &p.state));
        ev.push(format!("mg {} : {}", pick.iter().map(|p| st(&p.state)).collect::<Vec<_>>().join(" , "), st(&m)));
        for p in pick.iter() {
            let c = if rng.chance(1, 4) { rng.range(-30, 9) as isize } else { p.cost };
            ev.push(format!("rx {} : {} : {} : {} {} : {} : {}", st(&p.parent), st(&p.state), st(&m), p.dec.variable.id(), p.dec.value, c, rlx.relax(&p.parent, &p.state, &m, p.dec, c)));
        }
        ev.push(format!("rk {} : {} : {}", st(&pick[0].state), st(&pick[1].state), ord(AlpRanking.compare(&pick[0].state, &pick[1].state))));
        ev.push(format!("rk {} : {} : {}", st(&m), st(&pick[0].state), ord(AlpRanking.compare(&m, &pick[0].state))));
        ev.push(format!("rub {} : {}", st(&m), rlx.fast_upper_bound(&m)));
        dom_pair(&m, pick[0].value, &pick[0].state, pick[0].value, &mut ev);
        let mut s = m;
        let mut value = pick.iter().map(|p| p.value).max().unwrap();
        for dd in d..n {
            let (dec, cost, s2) = match step(&pb, &s, dd, &mut ev, rng) { Some(x) => x, None => break };
            value += cost;
            ev.push(format!("rub {} : {}", st(&s2), rlx.fast_upper_bound(&s2)));
            by_depth[dd + 1].push(Node { parent: s.clone(), dec, cost, state: s2.clone(), value });
            s = s2;
        }
    }
    // the merge of no state at all
    if rng.chance(1, 20) { ev.push(format!("mg : {}", st(&rlx.merge(&mut empty.iter())))); }
    ev.join(" ; ")
}

/// random small instances.  In the domain of the example unless tagged `ood_…`: within a class targets and latest times
/// non-decreasing in file order, triangle inequality on the separations.
fn gen(rng: &mut Rng) -> (Spec, Vec<String>) {
    let mut tags: Vec<String> = vec![];
    let join_tags = |t: &mut Vec<String>, s: &str| t.push(s.to_string());
    if rng.chance(1, 5) {
        // row-dominated: the rows of the separation matrix differ markedly (row minimum far from column minimum),
        // aircraft in small bunches, loose or medium latest times
        let k = 3usize;
        let r = *rng.pick(&[1usize, 1, 2]);
        let n = rng.range(4, if r == 1 { 8 } else { 6 }) as usize;
        let mut rows: Vec<Vec<i64>> = vec![(0..3).map(|_| rng.range(1, 2)).collect(), (0..3).map(|_| rng.range(8, 9)).collect(), (0..3).map(|_| rng.range(5, 6)).collect()];
        for i in (1..3).rev() { let j = rng.below(i as u64 + 1) as usize; rows.swap(i, j); }
        let dgap = rng.range(7, 9);
        let loose = rng.chance(2, 3);
        join_tags(&mut tags, "row_dominated_separation");
        join_tags(&mut tags, if loose { "loose_latest" } else { "medium_latest" });
        let mut ac: Vec<(i64, i64, usize)> = (0..n).map(|i| { let t = (i as i64 / 2 % 2) + (i as i64 / 4) * dgap + (i as i64 / 4); (t, t + if loose { 100 } else { rng.range(8, 30) }, rng.below(k as u64) as usize) }).collect();
        let mut last = vec![0i64; k];
        for a in ac.iter_mut() { a.1 = a.1.max(last[a.2]); last[a.2] = a.1; }
        if r > 1 { join_tags(&mut tags, "several_runways"); }
        return (Spec { k, r, ac, sep: rows }, tags);
    }
    let r = *rng.pick(&[1usize, 1, 2, 2, 3]);
    let nmax = [8, 7, 6][r - 1];
    let n = if rng.chance(1, 30) { 1 } else { rng.range(2, nmax) as usize };
    let k = rng.range(1, 3) as usize;
    let smax = *rng.pick(&[2i64, 8, 15]);
    let gap = *rng.pick(&[0i64, 3, 10]);
    if gap == 0 { join_tags(&mut tags, "equal_targets"); }
    let mut sep = vec![vec![0i64; k]; k];
    for x in 0..k { for y in 0..k { sep[x][y] = rng.range(0, smax); } }
    let symmetric = rng.chance(1, 3);
    if symmetric { for x in 0..k { for y in 0..x { sep[x][y] = sep[y][x]; } } }
    let tri = |s: &Vec<Vec<i64>>| (0..k).all(|x| (0..k).all(|y| (0..k).all(|z| s[x][z] <= s[x][y] + s[y][z])));
    let mode = rng.below(100);
    if (80..86).contains(&mode) && !tri(&sep) { join_tags(&mut tags, "ood_no_triangle"); }
    else { while !tri(&sep) { for x in 0..k { for y in 0..k { for z in 0..k { if sep[x][y] + sep[y][z] < sep[x][z] { sep[x][z] = sep[x][y] + sep[y][z]; } } } } } }
    if (0..k).all(|x| (0..k).all(|y| sep[x][y] == sep[y][x])) { join_tags(&mut tags, "symmetric_separation"); } else { join_tags(&mut tags, "asymmetric_separation"); }
    if sep.iter().flatten().any(|x| *x == 0) { join_tags(&mut tags, "zero_separation"); }
    let mut ac: Vec<(i64, i64, usize)> = vec![];
    let mut t = rng.range(0, 5);
    let slack = *rng.pick(&[1i64, 3, 3, 100]);
    join_tags(&mut tags, match slack { 1 => "tight_latest", 3 => "medium_latest", _ => "loose_latest" });
    for _ in 0..n {
        let latest = t + if slack == 100 { 100 } else { rng.range(0, slack * smax) };
        ac.push((t, latest, rng.below(k as u64) as usize));
        t += rng.range(0, gap);
    }
    let sorted_latest = |ac: &Vec<(i64, i64, usize)>| (0..k).all(|c| { let v: Vec<i64> = ac.iter().filter(|a| a.2 == c).map(|a| a.1).collect(); v.windows(2).all(|w| w[0] <= w[1]) });
    let sorted_target = |ac: &Vec<(i64, i64, usize)>| (0..k).all(|c| { let v: Vec<i64> = ac.iter().filter(|a| a.2 == c).map(|a| a.0).collect(); v.windows(2).all(|w| w[0] <= w[1]) });
    if (86..93).contains(&mode) && !sorted_latest(&ac) { join_tags(&mut tags, "ood_unsorted_latest"); }
    else {
        let mut last = vec![0i64; k];
        for a in ac.iter_mut() { a.1 = a.1.max(last[a.2]); last[a.2] = a.1; }
    }
    if (93..100).contains(&mode) {
        for i in (1..ac.len()).rev() { let j = rng.below(i as u64 + 1) as usize; ac.swap(i, j); }
        if !sorted_target(&ac) { join_tags(&mut tags, "ood_unsorted_targets"); } else if !sorted_latest(&ac) { join_tags(&mut tags, "ood_unsorted_latest"); }
    }
    // an aircraft that cannot land at all: the first of its class (the latest times of the class stay sorted)
    if (0..6).contains(&mode) {
        for a in ac.iter_mut() { a.0 += 1; a.1 += 1; }
        let c = ac[rng.below(n as u64) as usize].2;
        let first = ac.iter().position(|a| a.2 == c).unwrap();
        ac[first].1 = ac[first].0 - 1;
        join_tags(&mut tags, "latest_before_target");
    }
    if n == 1 { join_tags(&mut tags, "single_aircraft"); }
    if r > 1 { join_tags(&mut tags, "several_runways"); }
    (Spec { k, r, ac, sep }, tags)
}

fn case_of(sp: &Spec, walks: u64, wseed: u64, reader: bool) -> String {
    format!("alp | {} {} {} {} {} | {} {} {}", sp.ac.len(), sp.k, sp.r, sp.ac.iter().map(|a| format!("{} {} {}", a.0, a.1, a.2)).collect::<Vec<_>>().join(" "),
        ints(&mut sp.sep.iter().flatten()), walks, wseed, reader as u8)
}

/// replay of one case: "alp | n k r (target latest class)*n sep… | walks seed reader"
pub fn replay(parts: &[&str]) -> String {
    let t: Vec<i64> = parts[1].split_whitespace().map(|x| x.parse().unwrap()).collect();
    let (n, k, r) = (t[0] as usize, t[1] as usize, t[2] as usize);
    let ac: Vec<(i64, i64, usize)> = (0..n).map(|a| (t[3 + 3 * a], t[4 + 3 * a], t[5 + 3 * a] as usize)).collect();
    let sep: Vec<Vec<i64>> = (0..k).map(|x| t[3 + 3 * n + x * k..3 + 3 * n + (x + 1) * k].to_vec()).collect();
    let u: Vec<u64> = parts[2].split_whitespace().map(|x| x.parse().unwrap()).collect();
    let mut r2 = Rng::new(u[1]);
    crate::out::catch(|| run_one(&Spec { k, r, ac, sep }, u[0], u[2] == 1, &mut r2)).unwrap_or("panic".into())
}
/// the generated cases of the family
pub fn generate(out: &mut Out, rng: &mut Rng, ninst: usize) {
    for _ in 0..ninst {
        let (sp, mut tags) = gen(rng);
        let walks = rng.range(1, 5) as u64; let wseed = rng.next() >> 1;
        let reader = rng.chance(1, 2);
        if reader { tags.push("through_reader".into()); }
        let mut r2 = Rng::new(wseed);
        let imp = crate::out::catch(|| run_one(&sp, walks, reader, &mut r2)).unwrap_or("panic".into());
        if imp.contains(" mg ") { tags.push("merged".into()); }
        if imp.contains("panic") { tags.push("panic_outside_domain".into()); }
        if imp.contains(" : 0 0 :  ;") || imp.contains(": 0 0 : ;") { tags.push("empty_root_domain".into()); }
        out.case_tagged(&case_of(&sp, walks, wseed, reader), &imp, &tags.join(" "));
    }
}
