//! Engine `cachedom` (C09 / C10: threshold cache AND dominance checker together): the counter-examples `Ddo.C10c.Twin`,
//! `CrossSim` and `Cross` of the Lean development run through the real solvers.  Each model: 6 binary variables in static order,
//! states 0..k, tables below; merge = largest state, relax = cost unchanged, constant rough upper bound, state ranking = larger
//! state better, FixedWidth(1), MaxUB.  Every model is solved correctly with the cache alone and with the checker alone.
use crate::{out::{catch, Out}, Args};
use ddo::*;
use std::sync::Arc;

type Row = ((isize, isize), (isize, isize));
struct Model { name: &'static str, tab: Vec<Vec<Row>>, rub: isize, key: fn(isize) -> Option<usize>, coord: fn(isize) -> isize, opt: isize }
fn models() -> Vec<Model> {
    let r = |a: isize, b: isize, c: isize, d: isize| ((a, b), (c, d));
    vec![
        // Twin: states 0 and 1 have identical rows at every depth; the rule says 0 dominates 1 (simulation for ALL pairs)
        Model { name: "twin", rub: 30, opt: 10, key: |s| match s { 0 | 1 => Some(0), _ => None }, coord: |s| if s == 0 { 1 } else { 0 }, tab: vec![
            vec![r(2, 2, 3, 1); 5],
            vec![r(2, -2, 2, -2), r(2, -2, 2, -2), r(2, -2, 2, -2), r(3, -1, 3, -1), r(3, -1, 3, -1)],
            vec![r(4, 0, 4, 0), r(4, 0, 4, 0), r(4, 0, 4, 0), r(2, 1, 3, 0), r(2, 1, 3, 0)],
            vec![r(0, -1, 0, -1), r(0, -1, 0, -1), r(0, -1, 0, -1), r(1, -1, 1, -1), r(1, 0, 1, 0)],
            vec![r(3, 0, 2, 5); 5],
            vec![r(2, 0, 2, 0), r(2, 0, 2, 0), r(2, 0, 2, 0), r(2, 10, 2, 0), r(2, 10, 2, 0)],
        ] },
        // CrossSim: simulation-admissible rule, static order, unique optimal solution
        Model { name: "crosssim", rub: 30, opt: 15, key: |s| match s { 0 | 1 => Some(0), 2 | 3 => Some(1), _ => None }, coord: |s| if s == 0 || s == 2 { 1 } else { 0 }, tab: vec![
            vec![r(4, 0, 5, 0); 7],
            vec![r(4, 5, 4, 5), r(4, 5, 4, 5), r(4, 5, 4, 5), r(4, 5, 4, 5), r(4, 5, 4, 5), r(6, 0, 5, 1), r(6, 0, 5, 1)],
            vec![r(4, 0, 4, 0), r(4, 0, 4, 0), r(4, 0, 4, 0), r(4, 0, 4, 0), r(4, 0, 4, 0), r(6, -1, 6, -1), r(5, 5, 5, 5)],
            vec![r(0, 0, 1, -5), r(0, 0, 1, -5), r(0, 0, 1, -5), r(0, 0, 1, -5), r(0, 0, 1, -5), r(4, 0, 4, 0), r(1, 0, 1, 0)],
            vec![r(2, 0, 2, 0), r(3, 0, 3, 0), r(4, 0, 4, 0), r(4, 0, 4, 0), r(4, 0, 4, 0), r(4, 0, 4, 0), r(4, 0, 4, 0)],
            vec![r(4, 5, 4, 0), r(4, 5, 4, 0), r(4, 5, 4, 0), r(4, 10, 4, 0), r(4, 10, 4, 0), r(4, 10, 4, 0), r(4, 10, 4, 0)],
        ] },
        // Cross: value-admissible rule with a protected optimal strategy (the hypothesis of dominance_solver_optimal)
        Model { name: "cross", rub: 20, opt: 10, key: |s| match s { 0 | 1 => Some(0), 2 | 3 => Some(1), _ => None }, coord: |s| s, tab: vec![
            vec![r(4, 1, 5, 0); 6],
            vec![r(4, -1, 5, -1), r(4, -1, 5, -1), r(4, -1, 5, -1), r(4, -1, 5, -1), r(4, -1, 5, -1), r(0, 1, 0, 1)],
            vec![r(2, -1, 2, -1), r(2, -1, 2, -1), r(2, -1, 2, -1), r(2, -1, 2, -1), r(4, 0, 4, 0), r(5, 0, 5, 0)],
            vec![r(4, 0, 4, 0), r(4, 0, 4, 0), r(1, 0, 0, 0), r(4, 0, 4, 0), r(4, 0, 4, 0), r(0, 0, 0, 0)],
            vec![r(3, 0, 0, 5), r(2, 0, 2, 0), r(4, 0, 4, 0), r(4, 0, 4, 0), r(4, 0, 4, 0), r(4, 0, 4, 0)],
            vec![r(0, 0, 0, 0), r(0, 0, 0, 0), r(0, 10, 0, 0), r(0, 10, 0, 0), r(0, 10, 0, 0), r(0, 10, 0, 0)],
        ] },
    ]
}
struct Pb<'a>(&'a Model);
impl Problem for Pb<'_> {
    type State = isize;
    fn nb_variables(&self) -> usize { self.0.tab.len() }
    fn initial_state(&self) -> isize { 0 }
    fn initial_value(&self) -> isize { 0 }
    fn transition(&self, s: &isize, d: Decision) -> isize { let e = self.0.tab[d.variable.id()][*s as usize]; if d.value == 0 { e.0 .0 } else { e.1 .0 } }
    fn transition_cost(&self, s: &isize, _n: &isize, d: Decision) -> isize { let e = self.0.tab[d.variable.id()][*s as usize]; if d.value == 0 { e.0 .1 } else { e.1 .1 } }
    fn next_variable(&self, depth: usize, _: &mut dyn Iterator<Item = &isize>) -> Option<Variable> { if depth < self.0.tab.len() { Some(Variable(depth)) } else { None } }
    fn for_each_in_domain(&self, variable: Variable, _s: &isize, f: &mut dyn DecisionCallback) {
        f.apply(Decision { variable, value: 0 }); f.apply(Decision { variable, value: 1 });
    }
}
struct Rlx(isize);
impl Relaxation for Rlx {
    type State = isize;
    fn merge(&self, states: &mut dyn Iterator<Item = &isize>) -> isize { states.copied().max().unwrap() }
    fn relax(&self, _s: &isize, _d: &isize, _m: &isize, _dec: Decision, cost: isize) -> isize { cost }
    fn fast_upper_bound(&self, _s: &isize) -> isize { self.0 }
}
struct Rank;
impl StateRanking for Rank { type State = isize; fn compare(&self, a: &isize, b: &isize) -> std::cmp::Ordering { a.cmp(b) } }
struct Dom { key: fn(isize) -> Option<usize>, coord: fn(isize) -> isize }
impl Dominance for Dom {
    type State = isize;
    type Key = usize;
    fn get_key(&self, s: Arc<isize>) -> Option<usize> { (self.key)(*s) }
    fn nb_dimensions(&self, _s: &isize) -> usize { 1 }
    fn get_coordinate(&self, s: &isize, _i: usize) -> isize { (self.coord)(*s) }
    fn use_value(&self) -> bool { true }
}

pub fn run_cachedom(a: &Args) {
    let mut out = Out::new(&a.out, "cachedom");
    for m in models() {
        let problem = Pb(&m); let relax = Rlx(m.rub); let rank = Rank; let width = FixedWidth(1); let cutoff = NoCutoff;
        let n = m.tab.len();
        let mut runs: Vec<String> = vec![];
        let show = |name: &str, r: Option<Completion>| match r { Some(c) => format!("{} {} {}", name, c.is_exact as u8, c.best_value.map(|v| v.to_string()).unwrap_or("none".into())), None => format!("{} panic", name) };
        macro_rules! seq { ($name:expr, $solver:ty, $dom:expr, $fringe:expr) => {{
            let dominance = $dom; let mut fringe = $fringe;
            let r = catch(|| { let mut s = <$solver>::custom(&problem, &relax, &rank, &width, &dominance, &cutoff, &mut fringe); s.maximize() });
            runs.push(show($name, r));
        }}; }
        macro_rules! par { ($name:expr, $solver:ty, $dom:expr, $n:expr) => {{
            let dominance = $dom; let mut fringe = SimpleFringe::new(MaxUB::new(&rank));
            let r = catch(|| { let mut s = <$solver>::custom(&problem, &relax, &rank, &width, &dominance, &cutoff, &mut fringe, $n); s.maximize() });
            runs.push(show($name, r));
        }}; }
        let dom = || SimpleDominanceChecker::new(Dom { key: m.key, coord: m.coord }, n);
        seq!("seq_lel_nocache_nodom", SeqNoCachingSolverLel<isize>, EmptyDominanceChecker::default(), SimpleFringe::new(MaxUB::new(&rank)));
        seq!("seq_lel_cache_nodom", SeqCachingSolverLel<isize>, EmptyDominanceChecker::default(), SimpleFringe::new(MaxUB::new(&rank)));
        seq!("seq_fc_cache_nodom", SeqCachingSolverFc<isize>, EmptyDominanceChecker::default(), SimpleFringe::new(MaxUB::new(&rank)));
        seq!("seq_lel_nocache_dom", SeqNoCachingSolverLel<isize>, dom(), SimpleFringe::new(MaxUB::new(&rank)));
        seq!("seq_fc_nocache_dom", SeqNoCachingSolverFc<isize>, dom(), SimpleFringe::new(MaxUB::new(&rank)));
        seq!("seq_lel_cache_dom", SeqCachingSolverLel<isize>, dom(), SimpleFringe::new(MaxUB::new(&rank)));
        seq!("seq_fc_cache_dom", SeqCachingSolverFc<isize>, dom(), SimpleFringe::new(MaxUB::new(&rank)));
        seq!("seq_lel_cache_dom_nodup", SeqCachingSolverLel<isize>, dom(), NoDupFringe::new(MaxUB::new(&rank)));
        seq!("seq_fc_cache_dom_nodup", SeqCachingSolverFc<isize>, dom(), NoDupFringe::new(MaxUB::new(&rank)));
        par!("par1_lel_cache_dom", ParCachingSolverLel<isize>, dom(), 1);
        par!("par1_fc_cache_dom", ParCachingSolverFc<isize>, dom(), 1);
        par!("par1_lel_nocache_dom", ParNoCachingSolverLel<isize>, dom(), 1);
        par!("default_caching_solver", DefaultCachingSolver<isize>, dom(), 1);
        out.case_tagged(&format!("{} {}", m.name, m.opt), &runs.join(" ; "), "cache_and_dominance");
    }
    out.finish();
}
