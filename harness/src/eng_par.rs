//! Engine `par` (C03, C04, C05-par, C02-par, C09-par): the real `ParallelSolver` under a controlled scheduler.
//! Hook H1 (`ddo::verif_hooks`, feature `xgillard_ddo_verif`) reports every acquisition of the critical mutex,
//! the condvar wait, `notify_all`, worker start / exit; the scheduler below lets exactly one worker run between
//! two events and chooses, at quiescence, which worker enters its next critical section.  The choice sequence
//! is the schedule (replayable); the linearised trace (worker, section, every call to fringe / cache / diagram
//! made meanwhile) is validated by the Lean model of the parallel solver.
use crate::{eng_mdd::{CountCutoff, new_dom}, eng_seq::{WE, SCfg, random_cfg, random_solution}, fam::*, out::{Out, catch}, rng::Rng, Args};
use ddo::verif_hooks::{self, Event};
use ddo::*;
use std::sync::{Arc, Condvar, Mutex, atomic::{AtomicUsize, Ordering as AO}};

// ---------------------------------------------------------------------------------------------- global tape
static GTAPE: Mutex<Vec<String>> = Mutex::new(vec![]);
thread_local! { static WID: std::cell::Cell<i64> = std::cell::Cell::new(-1); }
fn wid() -> i64 { WID.with(|w| w.get()) }
fn rec(s: String) { GTAPE.lock().unwrap().push(format!("w{} {}", wid(), s)); }
fn take_gtape() -> Vec<String> { std::mem::take(&mut *GTAPE.lock().unwrap()) }
fn decs(v: &[Decision]) -> String { if v.is_empty() { "e".into() } else { v.iter().map(|d| format!("{} {}", d.variable.id(), d.value)).collect::<Vec<_>>().join(" ") } }
fn sub_tok(n: &SubProblem<i64>) -> String { format!("{} {} {} {} {}", n.state, n.depth, n.value, n.ub, n.path.len()) }

#[derive(Default)]
pub struct PTapeDD<D: DecisionDiagram<State = i64> + Default> { inner: D }
impl<D: DecisionDiagram<State = i64> + Default> DecisionDiagram for PTapeDD<D> {
    type State = i64;
    fn compile(&mut self, input: &CompilationInput<i64>) -> Result<Completion, Reason> {
        let r = self.inner.compile(input);
        let ct = match input.comp_type { CompilationType::Exact => 0, CompilationType::Relaxed => 1, CompilationType::Restricted => 2 };
        let res = match &r { Ok(c) => format!("ok {} {}", c.is_exact as u8, c.best_value.map(|v| v.to_string()).unwrap_or("none".into())), Err(_) => "cut".into() };
        rec(format!("DC {} {} {} {} > {}", ct, input.max_width, sub_tok(input.residual), input.best_lb, res));
        r
    }
    fn is_exact(&self) -> bool { self.inner.is_exact() }
    fn best_value(&self) -> Option<isize> { self.inner.best_value() }
    fn best_solution(&self) -> Option<Solution> { self.inner.best_solution() }
    fn best_exact_value(&self) -> Option<isize> { let v = self.inner.best_exact_value(); rec(format!("DV {}", v.map(|x| x.to_string()).unwrap_or("none".into()))); v }
    fn best_exact_solution(&self) -> Option<Solution> {
        // stress mode: rebuilding the path is made slow, which widens any window between reading / publishing the
        // incumbent value and storing its solution (real threads, no scheduler)
        if STRESS.load(AO::SeqCst) == 1 { std::thread::sleep(std::time::Duration::from_micros(150)); }
        let s = self.inner.best_exact_solution(); rec(format!("DS {}", s.as_ref().map(|x| decs(x)).unwrap_or("none".into()))); s
    }
    fn drain_cutset<F>(&mut self, mut func: F) where F: FnMut(SubProblem<i64>) {
        let mut v = vec![];
        self.inner.drain_cutset(|n| v.push(n));
        rec(format!("DD {} {}", v.len(), v.iter().map(sub_tok).collect::<Vec<_>>().join(" ")));
        for n in v { func(n); }
    }
}
pub struct PTapeFringe<'a> { pub inner: Box<dyn Fringe<State = i64> + Send + Sync + 'a>, pub pops: usize, pub cap: usize }
impl Fringe for PTapeFringe<'_> {
    type State = i64;
    fn push(&mut self, n: SubProblem<i64>) { rec(format!("FP {}", sub_tok(&n))); self.inner.push(n) }
    fn pop(&mut self) -> Option<SubProblem<i64>> { self.pops += 1; if self.pops > self.cap { panic!("POP-CAP"); } let r = self.inner.pop(); rec(format!("FO {}", r.as_ref().map(sub_tok).unwrap_or("none".into()))); r }
    fn clear(&mut self) { rec("FC".into()); self.inner.clear() }
    fn len(&self) -> usize { let n = self.inner.len(); rec(format!("FL {}", n)); n }
}
/// recording cache; `yield_points`: every get / update is a scheduling point (interleaves layer filtering with
/// the finalisation of other workers' diagrams)
#[derive(Default)]
pub struct PTapeCache<C: Cache<State = i64> + Default> { inner: C }
/// gap() of the last solver run (C17 is also evaluated on the solvers' own gap(): a solver may override the default method)
pub static LAST_GAP: Mutex<String> = Mutex::new(String::new());
pub static CACHE_YIELD: AtomicUsize = AtomicUsize::new(0);
pub static STRESS: AtomicUsize = AtomicUsize::new(0);
impl<C: Cache<State = i64> + Default> Cache for PTapeCache<C> {
    type State = i64;
    fn must_explore(&self, s: &SubProblem<i64>) -> bool { let b = self.inner.must_explore(s); rec(format!("CM {} > {}", sub_tok(s), b as u8)); b }
    fn initialize(&mut self, p: &dyn Problem<State = i64>) { rec("CI".into()); self.inner.initialize(p) }
    fn get_threshold(&self, s: &i64, d: usize) -> Option<Threshold> {
        // outside the critical sections (layer filtering inside a compilation) a read is a scheduling point
        if CACHE_YIELD.load(AO::SeqCst) == 1 && wid() >= 0 && !in_section() { let _g = verif_hooks::SectionGuard::new("cache_get"); return self.inner.get_threshold(s, d); }
        self.inner.get_threshold(s, d)
    }
    fn update_threshold(&self, s: Arc<i64>, d: usize, v: isize, e: bool) {
        if in_section() { rec(format!("CU {} {} {} {}", s, d, v, e as u8)); }       // the pop-time write of get_workload
        else if CACHE_YIELD.load(AO::SeqCst) == 1 && wid() >= 0 { let _g = verif_hooks::SectionGuard::new("cache_upd"); self.inner.update_threshold(s, d, v, e); return; }
        self.inner.update_threshold(s, d, v, e)
    }
    fn clear_layer(&self, d: usize) { rec(format!("CL {}", d)); self.inner.clear_layer(d) }
    fn clear(&self) { rec("CC".into()); self.inner.clear() }
}
thread_local! { static IN_SEC: std::cell::Cell<bool> = std::cell::Cell::new(false); }
pub fn in_section() -> bool { IN_SEC.with(|x| x.get()) }

// ---------------------------------------------------------------------------------------------- scheduler
#[derive(Debug, Clone, Copy, PartialEq)]
enum W { NotStarted, AtLock(&'static str), Running, Parked, Woken, Exited }
struct SState { w: Vec<W>, granted: Option<usize>, trace: Vec<(usize, &'static str)>, deadlock: bool, steps: usize, crashed: Vec<usize>, overrun: bool, silent: bool }
pub struct Sched { st: Mutex<SState>, cv: Condvar, max_steps: usize }
impl Sched {
    fn new(t: usize, max_steps: usize) -> Arc<Sched> {
        Arc::new(Sched { st: Mutex::new(SState { w: vec![W::NotStarted; t], granted: None, trace: vec![], deadlock: false, steps: 0, crashed: vec![], overrun: false, silent: false }), cv: Condvar::new(), max_steps })
    }
    fn callback(self: &Arc<Self>) -> verif_hooks::Callback {
        let me = self.clone();
        Arc::new(move |w: Option<usize>, ev: Event| {
            let Some(i) = w else { return; };
            WID.with(|x| x.set(i as i64));
            let mut st = me.st.lock().unwrap();
            if i >= st.w.len() { return; }
            match ev {
                Event::WorkerStart | Event::BeforeLock(_) => {
                    let label = if let Event::BeforeLock(l) = ev { l } else { "start" };
                    st.w[i] = W::AtLock(label);
                    me.cv.notify_all();
                    while st.granted != Some(i) { st = me.cv.wait(st).unwrap(); }
                    st.granted = None; st.w[i] = W::Running;
                    if !label.starts_with("cache_") && label != "start" { IN_SEC.with(|x| x.set(true)); }
                    drop(st);
                    GTAPE.lock().unwrap().push(format!("w{} @ {}", i, label));
                }
                Event::AfterUnlock(l) => { if !l.starts_with("cache_") { IN_SEC.with(|x| x.set(false)); } }
                Event::BeforeWait => { GTAPE.lock().unwrap().push(format!("w{} WAIT", i)); st.w[i] = W::Parked; me.cv.notify_all(); }
                Event::AfterNotifyAll => { for x in st.w.iter_mut() { if *x == W::Parked { *x = W::Woken; } } }
                Event::WorkerExit => {
                    if std::thread::panicking() { st.crashed.push(i); drop(st); GTAPE.lock().unwrap().push(format!("w{} CRASH", i)); st = me.st.lock().unwrap(); }
                    else { drop(st); GTAPE.lock().unwrap().push(format!("w{} EXIT", i)); st = me.st.lock().unwrap(); }
                    st.w[i] = W::Exited; me.cv.notify_all();
                }
            }
        })
    }
    /// scheduler loop; returns when every worker exited, on deadlock, or when the step bound is exceeded
    fn run(self: &Arc<Self>, mut policy: impl FnMut(&[usize], usize, &[(usize, &'static str)]) -> usize) {
        loop {
            let mut st = self.st.lock().unwrap();
            loop {
                let quiescent = st.granted.is_none() && st.w.iter().all(|x| matches!(x, W::AtLock(_) | W::Parked | W::Exited));
                if quiescent { break; }
                let (g, to) = self.cv.wait_timeout(st, std::time::Duration::from_secs(8)).unwrap(); st = g;
                // a worker that neither reaches an event nor exits for seconds is blocked where the hooks do not see
                if to.timed_out() { let mut any = false; for x in st.w.iter_mut() { if matches!(*x, W::Running | W::Woken | W::NotStarted) { *x = W::Exited; any = true; } } if any { st.silent = true; } }
            }
            if st.w.iter().all(|x| *x == W::Exited) { return; }
            let cands: Vec<usize> = st.w.iter().enumerate().filter(|(_, x)| matches!(x, W::AtLock(_))).map(|(i, _)| i).collect();
            if cands.is_empty() { st.deadlock = true; return; }
            if st.steps >= self.max_steps { st.overrun = true; return; }
            let step = st.steps; st.steps += 1;
            let labels: Vec<(usize, &'static str)> = cands.iter().map(|&c| (c, if let W::AtLock(l) = st.w[c] { l } else { "?" })).collect();
            let pick = cands[policy(&cands, step, &labels) % cands.len()];
            let label = if let W::AtLock(l) = st.w[pick] { l } else { "?" };
            st.trace.push((pick, label));
            st.granted = Some(pick);
            self.cv.notify_all();
        }
    }
}

#[derive(Clone, Debug)]
pub struct PCfg { pub s: SCfg, pub threads: usize, pub built_with: usize, pub policy: u64, pub choices: Option<Vec<usize>>, pub cache_yield: bool }
impl PCfg {
    pub fn tokens(&self) -> String { format!("{} | {} {} {} {} | {}", self.s.tokens(), self.threads, self.built_with, self.policy, self.cache_yield as u8, self.choices.as_ref().map(|c| c.iter().map(|x| x.to_string()).collect::<Vec<_>>().join(" ")).unwrap_or("-".into())) }
    pub fn parse(parts: &[&str]) -> PCfg {
        let s = SCfg::parse(&parts[0..4]);
        let a: Vec<&str> = parts[4].split_whitespace().collect();
        let ch = parts.get(5).map(|c| c.trim()).unwrap_or("-");
        PCfg { s, threads: a[0].parse().unwrap(), built_with: a[1].parse().unwrap(), policy: a[2].parse().unwrap(), cache_yield: a[3] == "1",
               choices: if ch == "-" || ch.is_empty() { None } else { Some(ch.split_whitespace().map(|x| x.parse().unwrap()).collect()) } }
    }
}
pub struct PRun { pub fin: Option<(bool, Option<isize>, isize, isize, usize, Option<Vec<Decision>>)>, pub deadlock: bool, pub overrun: bool, pub crashed: Vec<usize>, pub tape: Vec<String>, pub choices: Vec<usize>, pub polls: usize, pub hung_pops: bool }

/// one scheduled run, on a helper thread that is abandoned on deadlock
pub fn run_scheduled(fam: &Fam, cfg: &PCfg) -> PRun {
    take_gtape();
    CACHE_YIELD.store(cfg.cache_yield as usize, AO::SeqCst);
    let sched = Sched::new(cfg.threads, 40_000);
    verif_hooks::set_callback(Some(sched.callback()));
    let fam2: &'static Fam = Box::leak(Box::new(fam.clone()));
    let cfg2 = cfg.clone();
    let result: Arc<Mutex<Option<Option<(bool, Option<isize>, isize, isize, usize, Option<Vec<Decision>>)>>>> = Arc::new(Mutex::new(None));
    let polls = Arc::new(AtomicUsize::new(0));
    let (r2, p2) = (result.clone(), polls.clone());
    let hung = Arc::new(AtomicUsize::new(0)); let h2 = hung.clone();
    let handle = std::thread::spawn(move || {
        std::panic::set_hook(Box::new(|_| {}));
        let fam = fam2; let cfg = cfg2;
        let dom = new_dom(fam);
        let cutoff = CountCutoff { count: AtomicUsize::new(0), stop_at: cfg.s.stop_at };
        let w = cfg.s.w.build();
        let inner: Box<dyn Fringe<State = i64> + Send + Sync> = if cfg.s.nodup { Box::new(NoDupFringe::new(MaxUB::new(fam))) } else { Box::new(SimpleFringe::new(MaxUB::new(fam))) };
        let mut fringe = PTapeFringe { inner, pops: 0, cap: 20_000 };
        fn go<D: DecisionDiagram<State = i64> + Default, C: Cache<State = i64> + Default + Send + Sync>(fam: &'static Fam, cfg: &PCfg, w: &(dyn WidthHeuristic<i64> + Send + Sync), dom: &(dyn DominanceChecker<State = i64> + Send + Sync), cutoff: &CountCutoff, fringe: &mut PTapeFringe) -> Option<(bool, Option<isize>, isize, isize, usize, Option<Vec<Decision>>)> {
            catch(|| {
                let mut s = ParallelSolver::<i64, PTapeDD<D>, PTapeCache<C>>::custom(fam, fam, fam, w, dom, cutoff, fringe, cfg.built_with).with_nb_threads(cfg.threads);
                if let Some((v, p)) = &cfg.s.primal {
                s.set_primal(*v, p.iter().map(|(a, b)| Decision { variable: Variable(*a), value: *b }).collect());
                // an equal and a smaller primal afterwards must not replace the incumbent (marker solutions)
                s.set_primal(*v, vec![Decision { variable: Variable(0), value: 77 }]);
                s.set_primal(*v - 1, vec![Decision { variable: Variable(0), value: 78 }]);
            }
                let c = s.maximize();
                *LAST_GAP.lock().unwrap() = crate::out::catch(|| crate::eng_small::f32_tokens(s.gap())).unwrap_or("panic".into());
                (c.is_exact, c.best_value, s.best_lower_bound(), s.best_upper_bound(), s.explored(), s.best_solution())
            })
        }
        let r = match (cfg.s.kind, cfg.s.cache) {
            (0, false) => go::<DefaultMDDLEL<i64>, EmptyCache<i64>>(fam, &cfg, w.as_ref(), &dom, &cutoff, &mut fringe),
            (0, true) => go::<DefaultMDDLEL<i64>, SimpleCache<i64>>(fam, &cfg, w.as_ref(), &dom, &cutoff, &mut fringe),
            (1, false) => go::<DefaultMDDFC<i64>, EmptyCache<i64>>(fam, &cfg, w.as_ref(), &dom, &cutoff, &mut fringe),
            (1, true) => go::<DefaultMDDFC<i64>, SimpleCache<i64>>(fam, &cfg, w.as_ref(), &dom, &cutoff, &mut fringe),
            (_, false) => go::<Pooled<i64>, EmptyCache<i64>>(fam, &cfg, w.as_ref(), &dom, &cutoff, &mut fringe),
            (_, true) => go::<Pooled<i64>, SimpleCache<i64>>(fam, &cfg, w.as_ref(), &dom, &cutoff, &mut fringe),
        };
        if fringe.pops > fringe.cap { h2.store(1, AO::SeqCst); }
        p2.store(cutoff.count.load(AO::SeqCst), AO::SeqCst);
        *r2.lock().unwrap() = Some(r);
    });
    // the policy: replay of explicit choices, else pseudo-random with PCT-like priorities
    let mut rng = Rng::new(cfg.policy);
    let prio: Vec<u64> = (0..cfg.threads).map(|_| rng.next()).collect();
    let mut prio = prio;
    let change_points: Vec<usize> = (0..3).map(|_| rng.below(60) as usize).collect();
    let choices = cfg.choices.clone();
    let mode = cfg.policy % 3;
    let delay_pub = DELAY_PUB.load(AO::SeqCst) == 1 && cfg.choices.is_none() && (cfg.policy >> 3) % 2 == 0;
    let mut made: Vec<usize> = vec![];
    {
        let made_ref = &mut made;
        sched.run(|cands, step, labels| {
            let pick = if let Some(ch) = &choices { if step < ch.len() { cands.iter().position(|c| *c == ch[step]).unwrap_or(0) } else { 0 } }
            // "late publishers": a worker that has a value to publish (waiting at `update_best`) is held back as long as another
            // worker can move - the window in which an abort records its bound while a found value is still unpublished
            else if delay_pub {
                let others: Vec<usize> = (0..cands.len()).filter(|j| labels[*j].1 != "update_best").collect();
                if others.is_empty() || rng.chance(1, 12) { rng.below(cands.len() as u64) as usize } else { others[rng.below(others.len() as u64) as usize] }
            }
            else if mode == 0 { rng.below(cands.len() as u64) as usize }
            else {
                if change_points.contains(&step) { let k = rng.below(prio.len() as u64) as usize; prio[k] = rng.next() >> 8; }
                let mut best = 0; for (j, c) in cands.iter().enumerate() { if prio[*c] > prio[cands[best]] { best = j; } } best
            };
            made_ref.push(cands[pick % cands.len()]);
            pick
        });
    }
    let (deadlock, overrun, crashed) = { let st = sched.st.lock().unwrap(); (st.deadlock || st.silent, st.overrun, st.crashed.clone()) };
    let mut deadlock = deadlock;
    let fin = if deadlock || overrun {
        // the workers are parked inside thread::scope: the run cannot be joined; abandon it
        None
    } else {
        // every worker reported its exit: maximize() must return promptly; if it does not, a worker is blocked
        // somewhere the hooks do not see (e.g. a wait without event): count it as a deadlock and abandon the run
        let t0 = std::time::Instant::now();
        loop {
            if let Some(r) = result.lock().unwrap().take() { let _ = handle.join(); break r; }
            if t0.elapsed().as_secs() >= 8 { deadlock = true; break None; }
            std::thread::sleep(std::time::Duration::from_millis(1));
        }
    };
    verif_hooks::set_callback(None);
    PRun { fin, deadlock, overrun, crashed, tape: take_gtape(), choices: made, polls: polls.load(AO::SeqCst), hung_pops: hung.load(AO::SeqCst) == 1 }
}
fn prun_tok(r: &PRun) -> String {
    let status = if r.deadlock { "deadlock".to_string() } else if r.overrun || r.hung_pops { "overrun".into() } else if r.fin.is_none() { "panic".into() } else { "done".into() };
    let fin = match &r.fin { Some((e, v, lb, ub, ex, sol)) => format!("{} {} {} {} {} {} g {} | {}", *e as u8, v.map(|x| x.to_string()).unwrap_or("none".into()), lb, ub, ex, r.polls, LAST_GAP.lock().unwrap().clone(), sol.as_ref().map(|s| decs(s)).unwrap_or("none".into())), None => "- | none".into() };
    format!("{} {} | {} | {} | {}", status, r.crashed.len(), fin, r.choices.iter().map(|c| c.to_string()).collect::<Vec<_>>().join(" "), r.tape.join(" ; "))
}
pub fn run_par(a: &Args) {
    let mut out = Out::new(&a.out, "par");
    if let Some(r) = &a.replay {
        let parts: Vec<&str> = r.split('|').collect();
        let ft: Vec<&str> = parts[0].split_whitespace().collect();
        let (fam, _) = Fam::parse(&ft);
        let cfg = PCfg::parse(&parts[1..]);
        let pr = run_scheduled(&fam, &cfg);
        out.case_tagged(&format!("{} | {}", fam.tokens(), cfg.tokens()), &prun_tok(&pr), "replay");
        out.finish(); return;
    }
    let resize = a.extra.iter().any(|x| x == "--resize");     // thread counts different from the construction-time count
    let cutoff = a.extra.iter().any(|x| x == "--cutoff");
    let long_arcs = a.extra.iter().any(|x| x == "--long-arcs");
    let focus_cache = a.extra.iter().any(|x| x == "--focus-cache");
    let focus_dom = a.extra.iter().any(|x| x == "--focus-dominance");
    // `--focus-dedup`: duplicate-free fringe, no cache, heavily re-convergent instances at widths 2..3: the same (state, depth)
    // is pushed again and again with other bounds and path lengths (where the heap order of NoDupFringe matters for the
    // parallel solver's "top bound <= incumbent => drop the fringe")
    let focus_dedup = a.extra.iter().any(|x| x == "--focus-dedup");
    if a.extra.iter().any(|x| x == "--delay-publishers") { DELAY_PUB.store(1, AO::SeqCst); }
    let mut rng = Rng::new(a.seed);
    let ninst = if focus_dedup { if a.thorough { 24000 } else { 3000 } } else if a.thorough { 12000 } else { 1000 };
    let mut bad = 0;
    for _ in 0..ninst {
        let fam = if focus_dedup { if rng.chance(1, 6) { Fam::Knap(Knap::random(&mut rng)) } else { let mut t = TableDP::random(&mut rng, false); if rng.chance(1, 2) { t.rub_mode = 0; } Fam::Table(t) } }
                  else { crate::eng_seq::pick_fam(&mut rng, long_arcs, focus_cache, focus_dom) };
        // cutoff runs: some instances whose costs are all <= 0 with a zero-cost route (optimum 0, bounds meeting at 0:
        // where a gap computed as 0/0 would show)
        let fam = if cutoff && rng.chance(1, 5) { if let Fam::Table(mut t) = fam { for e in t.tab.iter_mut() { if let Some((_, c)) = e { if *c > 0 { *c = 0; } } } t.init_val = 0; t.compute_hstar(); Fam::Table(t) } else { fam } } else { fam };
        let kinds: Vec<usize> = if long_arcs { vec![2] } else { vec![0, 1, 2] };
        let mut s = random_cfg(&fam, &mut rng, &kinds);
        if focus_cache { s.cache = true; s.w = WE::F(*rng.pick(&[1usize, 1, 2])); if rng.chance(3, 4) { s.nodup = false; } }
        if focus_dom { s.w = WE::F(*rng.pick(&[1usize, 2, 2])); }
        if focus_dedup { s.nodup = true; s.cache = false; s.kind = *rng.pick(&[0usize, 1, 1, 1, 2]); s.w = WE::F(*rng.pick(&[1usize, 2, 2, 2, 3])); }
        if rng.chance(1, 6) { if let Some(p) = random_solution(&fam, &mut rng) { s.primal = Some(p); } }
        // focus-dedup: often start from a good incumbent (the best of 40 random solutions), so that "top bound <= incumbent =>
        // drop the fringe" fires early, with a non-empty fringe, while other workers still hold nodes
        if focus_dedup && rng.chance(1, 2) {
            let mut best: Option<(isize, Vec<(usize, isize)>)> = None;
            for _ in 0..40 { if let Some(p) = random_solution(&fam, &mut rng) { if best.as_ref().map_or(true, |b| p.0 > b.0) { best = Some(p); } } }
            if best.is_some() { s.primal = best; }
        }
        // cutoffs: early ones (the first compilations) and late ones (several workers hold nodes, the incumbent has moved
        // since they read it: the abort bound must still cover the optimum)
        if cutoff { s.stop_at = Some(if rng.chance(1, 2) { rng.range(1, 14) } else { rng.range(10, 40) } as usize); }
        let threads = if cutoff { *rng.pick(&[1usize, 2, 2, 3, 3, 4, 4]) } else { *rng.pick(&[1usize, 2, 2, 2, 3, 3, 4]) };
        let built_with = if resize { *rng.pick(&[1usize, 2, 4, 8]) } else { threads };
        let cfg = PCfg { s, threads, built_with, policy: rng.next() >> 1, choices: None, cache_yield: if focus_cache { rng.chance(2, 3) } else { rng.chance(1, 3) } };
        // late cutoffs: the same schedule is first run uninterrupted (K polls), then cut at each of its last polls - where
        // the incumbent is (nearly) final and the workers hold nodes whose bounds it has overtaken
        let mut variants: Vec<(PCfg, bool)> = vec![];
        if cutoff && rng.chance(1, 2) {
            let mut c0 = cfg.clone(); c0.s.stop_at = None;
            let p0 = run_scheduled(&fam, &c0);
            if p0.fin.is_some() && !p0.deadlock && p0.polls >= 2 {
                for back in 0..(p0.polls - 1).min(10) {
                    let mut c = cfg.clone(); c.choices = Some(p0.choices.clone()); c.s.stop_at = Some(p0.polls - back);
                    variants.push((c, true));
                }
            }
        }
        if variants.is_empty() { variants.push((cfg, false)); }
        for (cfg, late) in variants {
        let pr = run_scheduled(&fam, &cfg);
        let mut tags = vec![format!("threads{}", threads), ["lel", "frontier", "pooled"][cfg.s.kind].to_string(), if cfg.s.cache { "cache".into() } else { "nocache".into() }];
        if pr.tape.iter().any(|e| e.ends_with(" WAIT")) { tags.push("wait".into()); }
        if pr.tape.iter().filter(|e| e.contains(" DC ")).count() > 2 { tags.push("branching".into()); }
        if pr.deadlock { tags.push("deadlock".into()); bad += 1; }
        if !pr.crashed.is_empty() { tags.push("crash".into()); }
        if cfg.s.stop_at.is_some() && pr.fin.as_ref().map_or(false, |f| !f.0) { tags.push("cutoff".into()); }
        if cfg.built_with != cfg.threads { tags.push("resized".into()); }
        if cfg.cache_yield { tags.push("cache_yield".into()); }
        if late { tags.push("late_cutoff".into()); }
        // the replayable configuration carries the explicit choice sequence
        let mut rcfg = cfg.clone(); rcfg.choices = Some(pr.choices.clone());
        out.case_tagged(&format!("{} | {}", fam.tokens(), rcfg.tokens()), &prun_tok(&pr), &tags.join(" "));
        }
        if bad > 40 { break; } // abandoned runs leak parked threads: bound them per process
    }
    out.finish();
}

/// `parstress`: free-running real threads (no scheduler), 2..8 workers, slowed `best_exact_solution()`; only the
/// final outcome is observed (phi: optimum, solution replay, bounds)
/// watchdog of the free-running engine: a run that does not return within `HANG_MS` (normal runs take milliseconds) is
/// reported as the case `hang` and the process ends (its blocked threads cannot be recovered)
static STRESS_CUR: Mutex<Option<(std::time::Instant, String, String)>> = Mutex::new(None);
const HANG_MS: u128 = 60_000;
/// `--delay-publishers`: half of the scheduled runs hold back the workers waiting at `update_best`
pub static DELAY_PUB: AtomicUsize = AtomicUsize::new(0);
pub fn run_parstress(a: &Args) {
    let out = Arc::new(Mutex::new(Some(Out::new(&a.out, "parstress"))));
    {
        let out = out.clone();
        std::thread::spawn(move || loop {
            std::thread::sleep(std::time::Duration::from_millis(250));
            let cur = STRESS_CUR.lock().unwrap().clone();
            if let Some((t0, case, tags)) = cur {
                if t0.elapsed().as_millis() > HANG_MS {
                    if let Some(mut o) = out.lock().unwrap().take() { o.case_tagged(&case, "hang", &tags); o.finish(); }
                    std::process::exit(0);
                }
            }
        });
    }
    struct OutH(Arc<Mutex<Option<Out>>>);
    impl OutH {
        fn case_tagged(&mut self, c: &str, i: &str, t: &str) { if let Some(o) = self.0.lock().unwrap().as_mut() { o.case_tagged(c, i, t); } }
        fn finish(self) { if let Some(o) = self.0.lock().unwrap().take() { o.finish(); } }
    }
    let mut out = OutH(out);
    verif_hooks::set_callback(None);
    STRESS.store(1, AO::SeqCst); CACHE_YIELD.store(0, AO::SeqCst);
    let mut rng = Rng::new(a.seed);
    let run = |fam: &Fam, cfg: &PCfg| -> String {
        take_gtape();
        let dom = new_dom(fam);
        let cutoff = CountCutoff { count: AtomicUsize::new(0), stop_at: cfg.s.stop_at };
        let w = cfg.s.w.build();
        let inner: Box<dyn Fringe<State = i64> + Send + Sync + '_> = if cfg.s.nodup { Box::new(NoDupFringe::new(MaxUB::new(fam))) } else { Box::new(SimpleFringe::new(MaxUB::new(fam))) };
        let mut fringe = PTapeFringe { inner, pops: 0, cap: 50_000 };
        fn go<D: DecisionDiagram<State = i64> + Default, C: Cache<State = i64> + Default + Send + Sync>(fam: &Fam, cfg: &PCfg, w: &(dyn WidthHeuristic<i64> + Send + Sync), dom: &(dyn DominanceChecker<State = i64> + Send + Sync), cutoff: &CountCutoff, fringe: &mut PTapeFringe) -> Option<(bool, Option<isize>, isize, isize, usize, Option<Vec<Decision>>)> {
            catch(|| {
                let mut s = ParallelSolver::<i64, PTapeDD<D>, PTapeCache<C>>::custom(fam, fam, fam, w, dom, cutoff, fringe, cfg.threads);
                let c = s.maximize();
                *LAST_GAP.lock().unwrap() = crate::out::catch(|| crate::eng_small::f32_tokens(s.gap())).unwrap_or("panic".into());
                (c.is_exact, c.best_value, s.best_lower_bound(), s.best_upper_bound(), s.explored(), s.best_solution())
            })
        }
        let r = match (cfg.s.kind, cfg.s.cache) {
            (0, false) => go::<DefaultMDDLEL<i64>, EmptyCache<i64>>(fam, cfg, w.as_ref(), &dom, &cutoff, &mut fringe),
            (0, true) => go::<DefaultMDDLEL<i64>, SimpleCache<i64>>(fam, cfg, w.as_ref(), &dom, &cutoff, &mut fringe),
            (1, false) => go::<DefaultMDDFC<i64>, EmptyCache<i64>>(fam, cfg, w.as_ref(), &dom, &cutoff, &mut fringe),
            (1, true) => go::<DefaultMDDFC<i64>, SimpleCache<i64>>(fam, cfg, w.as_ref(), &dom, &cutoff, &mut fringe),
            (_, false) => go::<Pooled<i64>, EmptyCache<i64>>(fam, cfg, w.as_ref(), &dom, &cutoff, &mut fringe),
            (_, true) => go::<Pooled<i64>, SimpleCache<i64>>(fam, cfg, w.as_ref(), &dom, &cutoff, &mut fringe),
        };
        take_gtape();
        match r { Some((e, v, lb, ub, ex, sol)) => format!("{} {} {} {} {} 0 g {} | {}", e as u8, v.map(|x| x.to_string()).unwrap_or("none".into()), lb, ub, ex, LAST_GAP.lock().unwrap().clone(), sol.as_ref().map(|s| decs(s)).unwrap_or("none".into())), None => "panic".into() }
    };
    if let Some(r) = &a.replay {
        let parts: Vec<&str> = r.split('|').collect();
        let (fam, _) = Fam::parse(&parts[0].split_whitespace().collect::<Vec<_>>());
        let cfg = PCfg::parse(&parts[1..]);
        for _ in 0..200 { *STRESS_CUR.lock().unwrap() = Some((std::time::Instant::now(), r.clone(), "replay".into())); let imp = run(&fam, &cfg); *STRESS_CUR.lock().unwrap() = None; out.case_tagged(r, &imp, "replay"); }
        out.finish(); return;
    }
    let ninst = if a.thorough { 20000 } else { 1500 };
    for _ in 0..ninst {
        // instances on which the incumbent improves several times: no rough bound, width 1..2, a few layers
        let mut t = TableDP::random(&mut rng, false); t.rub_mode = 0; t.compute_hstar();
        let fam = Fam::Table(t);
        let mut s = random_cfg(&fam, &mut rng, &[0, 1, 2]);
        s.w = WE::F(*rng.pick(&[1usize, 1, 2]));
        let threads = *rng.pick(&[2usize, 2, 3, 4, 8]);
        let cfg = PCfg { s, threads, built_with: threads, policy: 0, choices: None, cache_yield: false };
        let case = format!("{} | {}", fam.tokens(), cfg.tokens()); let tags = format!("threads{} stress", threads);
        *STRESS_CUR.lock().unwrap() = Some((std::time::Instant::now(), case.clone(), tags.clone()));
        let imp = run(&fam, &cfg);
        *STRESS_CUR.lock().unwrap() = None;
        out.case_tagged(&case, &imp, &tags);
    }
    STRESS.store(0, AO::SeqCst);
    out.finish();
}
