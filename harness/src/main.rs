//! Correspondence harness: drives the real `ddo` code (path dependency on /repo/ddo, built from the
//! current working tree) and writes cases + observations in the line protocol of `ddo_model`.
mod rng;
mod out;
mod eng_small;
mod eng_store;
mod eng_fringe;
mod fam;
mod eng_mdd;
mod eng_seq;
mod eng_par;
mod eng_viz;
mod eng_ex;
mod eng_exmodel;
mod exm_max2sat;
// the modules of the max2sat example (compiled in by `eng_exmodel`) name one another `crate::model`, `crate::data`, …
#[allow(unused_imports)]
use exm_max2sat::ex_max2sat::{data, errors, heuristics, model, relax};
mod exm_psp;
mod exm_mcp;
mod exm_golomb;
mod exm_srflp;
mod exm_talentsched;
mod exm_lcs;
mod exm_tsptw;
mod exm_sop;
mod exm_alp;
// `model.rs` of the alp example (compiled in by `exm_alp`) names its reader's module `crate::io_utils`
#[allow(unused_imports)]
use exm_alp::ex_alp::io_utils;
mod eng_domcyc;
mod eng_cacheorder;
mod eng_cachedom;
mod eng_cachecut;
mod exgen;
mod exgen_b;

pub struct Args {
    pub engine: String,
    pub seed: u64,
    pub thorough: bool,
    pub out: String,
    pub replay: Option<String>,
    pub extra: Vec<String>,
    pub prop: String,
}

fn main() {
    let argv: Vec<String> = std::env::args().collect();
    let mut a = Args { engine: argv.get(1).cloned().unwrap_or_default(), seed: 1, thorough: false, out: "/dev/stdout".into(), replay: None, extra: vec![], prop: String::new() };
    let mut i = 2;
    while i < argv.len() {
        match argv[i].as_str() {
            "--seed" => { a.seed = argv[i + 1].parse().expect("seed"); i += 2; }
            "--tier" => { a.thorough = argv[i + 1] == "thorough"; i += 2; }
            "--out" => { a.out = argv[i + 1].clone(); i += 2; }
            "--prop" => { a.prop = argv[i + 1].clone(); i += 2; }
            "--replay" => { a.replay = Some(argv[i + 1].clone()); i += 2; }
            x => { a.extra.push(x.to_string()); i += 1; }
        }
    }
    // panics inside the code under test are observations, not noise
    std::panic::set_hook(Box::new(|_| {}));
    match a.engine.as_str() {
        "gap" => eng_small::run_gap(&a),
        "width" => eng_small::run_width(&a),
        "cache" => eng_store::run_cache(&a),
        "dom" => eng_store::run_dom(&a),
        "fringe" => eng_fringe::run_fringe(&a),
        "mdd" => eng_mdd::run_mdd(&a),
        "seq" => eng_seq::run_seq(&a),
        "seqorder" => eng_seq::run_seqorder(&a),
        "seqcut" => eng_seq::run_seqcut(&a),
        "par" => eng_par::run_par(&a),
        "parstress" => eng_par::run_parstress(&a),
        "viz" => eng_viz::run_viz(&a),
        "ex" => eng_ex::run_ex(&a),
        "exmodel" => eng_exmodel::run_exmodel(&a),
        "domcyc" => eng_domcyc::run_domcyc(&a),
        "cacheorder" => eng_cacheorder::run_cacheorder(&a),
        "cachedom" => eng_cachedom::run_cachedom(&a),
        "cachecut" => eng_cachecut::run_cachecut(&a),
        e => { eprintln!("unknown engine {}", e); std::process::exit(2); }
    }
}
