//! Engines `seq` and `seqcut` (C01, C02, C05, C09, C10, C11, C14, C15, C19): the real `SequentialSolver`
//! with recording wrappers around the real diagram, cache and fringe.  The *tape* (every call the solver
//! makes to them, with arguments and answers) is validated step by step by the Lean solver model.
use crate::{eng_mdd::{CountCutoff, new_dom}, eng_small, fam::*, out::{Out, catch}, rng::Rng, Args};
use ddo::*;
use std::cell::RefCell;
use std::sync::{Arc, atomic::AtomicUsize};

thread_local! { pub static TAPE: RefCell<Vec<String>> = RefCell::new(vec![]); pub static TAPE_ON: RefCell<bool> = RefCell::new(true); }
pub fn rec(s: String) { if TAPE_ON.with(|t| *t.borrow()) { TAPE.with(|t| t.borrow_mut().push(s)); } }
pub fn take_tape() -> Vec<String> { TAPE.with(|t| std::mem::take(&mut *t.borrow_mut())) }

fn decs(v: &[Decision]) -> String { if v.is_empty() { "e".into() } else { v.iter().map(|d| format!("{} {}", d.variable.id(), d.value)).collect::<Vec<_>>().join(" ") } }
fn sub_tok(n: &SubProblem<i64>) -> String { format!("{} {} {} {} {}", n.state, n.depth, n.value, n.ub, n.path.len()) }

#[derive(Default)]
pub struct TapeDD<D: DecisionDiagram<State = i64> + Default> { inner: D }
impl<D: DecisionDiagram<State = i64> + Default> DecisionDiagram for TapeDD<D> {
    type State = i64;
    fn compile(&mut self, input: &CompilationInput<i64>) -> Result<Completion, Reason> {
        let r = self.inner.compile(input);
        let ct = match input.comp_type { CompilationType::Exact => 0, CompilationType::Relaxed => 1, CompilationType::Restricted => 2 };
        let res = match &r { Ok(c) => format!("ok {} {}", c.is_exact as u8, c.best_value.map(|v| v.to_string()).unwrap_or("none".into())), Err(_) => "cut".into() };
        rec(format!("DC {} {} {} {} > {}", ct, input.max_width, sub_tok(input.residual), input.best_lb, res));
        r
    }
    fn is_exact(&self) -> bool { self.inner.is_exact() }
    fn best_value(&self) -> Option<isize> { self.inner.best_value() }
    fn best_solution(&self) -> Option<Solution> { self.inner.best_solution() }
    fn best_exact_value(&self) -> Option<isize> { let v = self.inner.best_exact_value(); rec(format!("DV {}", v.map(|x| x.to_string()).unwrap_or("none".into()))); v }
    fn best_exact_solution(&self) -> Option<Solution> { let s = self.inner.best_exact_solution(); rec(format!("DS {}", s.as_ref().map(|x| decs(x)).unwrap_or("none".into()))); s }
    fn drain_cutset<F>(&mut self, mut func: F) where F: FnMut(SubProblem<i64>) {
        let mut v = vec![];
        self.inner.drain_cutset(|n| v.push(n));
        rec(format!("DD {} {}", v.len(), v.iter().map(sub_tok).collect::<Vec<_>>().join(" ")));
        for n in v { func(n); }
    }
}
pub struct TapeFringe<'a> { pub inner: Box<dyn Fringe<State = i64> + Send + Sync + 'a> }
impl Fringe for TapeFringe<'_> {
    type State = i64;
    fn push(&mut self, n: SubProblem<i64>) { rec(format!("FP {}", sub_tok(&n))); self.inner.push(n) }
    fn pop(&mut self) -> Option<SubProblem<i64>> { let r = self.inner.pop(); rec(format!("FO {}", r.as_ref().map(sub_tok).unwrap_or("none".into()))); r }
    fn clear(&mut self) { rec("FC".into()); self.inner.clear() }
    fn len(&self) -> usize { let n = self.inner.len(); rec(format!("FL {}", n)); n }
}
#[derive(Default)]
pub struct TapeCache<C: Cache<State = i64> + Default> { inner: C }
impl<C: Cache<State = i64> + Default> Cache for TapeCache<C> {
    type State = i64;
    fn must_explore(&self, s: &SubProblem<i64>) -> bool { let b = self.inner.must_explore(s); rec(format!("CM {} > {}", sub_tok(s), b as u8)); b }
    fn initialize(&mut self, p: &dyn Problem<State = i64>) { rec("CI".into()); self.inner.initialize(p) }
    fn get_threshold(&self, s: &i64, d: usize) -> Option<Threshold> { self.inner.get_threshold(s, d) }
    fn update_threshold(&self, s: Arc<i64>, d: usize, v: isize, e: bool) { self.inner.update_threshold(s, d, v, e) }
    fn clear_layer(&self, d: usize) { rec(format!("CL {}", d)); self.inner.clear_layer(d) }
    fn clear(&self) { rec("CC".into()); self.inner.clear() }
}

#[derive(Clone, Debug)]
pub enum WE { F(usize), N(usize), T(usize, Box<WE>), D(usize, Box<WE>) }
impl WE {
    pub fn tokens(&self) -> String { match self { WE::F(w) => format!("F {}", w), WE::N(n) => format!("N {}", n), WE::T(k, e) => format!("T {} {}", k, e.tokens()), WE::D(k, e) => format!("D {} {}", k, e.tokens()) } }
    pub fn build(&self) -> Box<dyn WidthHeuristic<i64> + Send + Sync> {
        match self {
            WE::F(w) => Box::new(FixedWidth(*w)), WE::N(n) => Box::new(NbUnassignedWidth(*n)),
            WE::T(k, e) => Box::new(Times(*k, DynW(e.build()))), WE::D(k, e) => Box::new(DivBy(*k, DynW(e.build()))),
        }
    }
    pub fn parse(t: &mut std::slice::Iter<&str>) -> WE {
        match *t.next().unwrap() {
            "F" => WE::F(t.next().unwrap().parse().unwrap()), "N" => WE::N(t.next().unwrap().parse().unwrap()),
            "T" => { let k = t.next().unwrap().parse().unwrap(); WE::T(k, Box::new(WE::parse(t))) }
            _ => { let k = t.next().unwrap().parse().unwrap(); WE::D(k, Box::new(WE::parse(t))) }
        }
    }
    pub fn random(rng: &mut Rng, n: usize) -> WE {
        match rng.below(10) { 0 => WE::N(n), 1 => WE::T(2, Box::new(WE::F(1))), 2 => WE::D(2, Box::new(WE::N(n))), _ => WE::F(*rng.pick(&[1usize, 1, 1, 2, 2, 3])) }
    }
}
pub struct DynW(pub Box<dyn WidthHeuristic<i64> + Send + Sync>);
impl WidthHeuristic<i64> for DynW { fn max_width(&self, s: &SubProblem<i64>) -> usize { self.0.max_width(s) } }

#[derive(Clone, Debug)]
pub struct SCfg { pub kind: usize, pub cache: bool, pub nodup: bool, pub w: WE, pub primal: Option<(isize, Vec<(usize, isize)>)>, pub stop_at: Option<usize> }
impl SCfg {
    pub fn tokens(&self) -> String {
        format!("{} {} {} | {} | {} | {}", self.kind, self.cache as u8, self.nodup as u8, self.w.tokens(),
            match &self.primal { None => "none".into(), Some((v, p)) => format!("{} {}", v, if p.is_empty() { "e".into() } else { p.iter().map(|(a, b)| format!("{} {}", a, b)).collect::<Vec<_>>().join(" ") }) },
            self.stop_at.map(|k| k as i64).unwrap_or(-1))
    }
    pub fn parse(parts: &[&str]) -> SCfg {
        let a: Vec<&str> = parts[0].split_whitespace().collect();
        let wt: Vec<&str> = parts[1].split_whitespace().collect();
        let pt: Vec<&str> = parts[2].split_whitespace().collect();
        let primal = if pt[0] == "none" { None } else {
            let v: isize = pt[0].parse().unwrap();
            let mut p = vec![]; if pt[1] != "e" { let mut i = 1; while i + 1 < pt.len() { p.push((pt[i].parse().unwrap(), pt[i + 1].parse().unwrap())); i += 2; } }
            Some((v, p))
        };
        let sa: i64 = parts[3].trim().parse().unwrap();
        SCfg { kind: a[0].parse().unwrap(), cache: a[1] == "1", nodup: a[2] == "1", w: WE::parse(&mut wt.iter()), primal, stop_at: if sa < 0 { None } else { Some(sa as usize) } }
    }
}
pub struct RunOut { pub exact: bool, pub value: Option<isize>, pub lb: isize, pub ub: isize, pub explored: usize, pub sol: Option<Vec<Decision>>, pub polls: usize, pub gap: String, pub hung: bool, pub panicked: bool }

/// a fringe that unwinds past a generous number of pops: deterministic hang detection (no wall clock)
pub struct CapFringe<'a> { pub inner: TapeFringe<'a>, pub pops: usize, pub cap: usize }
impl Fringe for CapFringe<'_> {
    type State = i64;
    fn push(&mut self, n: SubProblem<i64>) { self.inner.push(n) }
    fn pop(&mut self) -> Option<SubProblem<i64>> { self.pops += 1; if self.pops > self.cap { panic!("POP-CAP"); } self.inner.pop() }
    fn clear(&mut self) { self.inner.clear() }
    fn len(&self) -> usize { self.inner.len() }
}

/// custom sub-problem rankings for the any-order engine (`seqorder`): the library lets the user hand any `SubProblemRanking` to
/// the fringes; branch-and-bound with (or without) the threshold cache must reach the optimum in whatever order nodes are popped
pub static ORDER_MODE: AtomicUsize = AtomicUsize::new(0);
pub struct OrderRank { pub mode: usize }
impl SubProblemRanking for OrderRank {
    type State = i64;
    fn compare(&self, a: &SubProblem<i64>, b: &SubProblem<i64>) -> std::cmp::Ordering {
        let h = |x: &SubProblem<i64>| { let mut z = (*x.state as u64).wrapping_mul(0x9E3779B97F4A7C15) ^ ((x.depth as u64) << 17) ^ (x.value as u64).wrapping_mul(0xD1B54A32D192ED03); z ^= z >> 29; z.wrapping_mul(0xBF58476D1CE4E5B9) };
        match self.mode {
            1 => b.ub.cmp(&a.ub).then(b.value.cmp(&a.value)),                       // smallest bound first
            2 => a.depth.cmp(&b.depth).then(a.ub.cmp(&b.ub)),                       // deepest first
            3 => b.depth.cmp(&a.depth).then(a.value.cmp(&b.value)),                 // shallowest first
            4 => a.value.cmp(&b.value).then(b.ub.cmp(&a.ub)),                       // largest value first
            _ => h(a).cmp(&h(b)),                                                   // pseudo-random
        }
    }
}
pub fn run_seq_once(fam: &Fam, cfg: &SCfg, tape: bool) -> RunOut {
    TAPE_ON.with(|t| *t.borrow_mut() = tape);
    take_tape();
    let dom = new_dom(fam);
    let cutoff = CountCutoff { count: AtomicUsize::new(0), stop_at: cfg.stop_at };
    let w = cfg.w.build();
    let om = ORDER_MODE.load(std::sync::atomic::Ordering::SeqCst);
    let inner: Box<dyn Fringe<State = i64> + Send + Sync + '_> = match (om, cfg.nodup) {
        (0, true) => Box::new(NoDupFringe::new(MaxUB::new(fam))), (0, false) => Box::new(SimpleFringe::new(MaxUB::new(fam))),
        (m, true) => Box::new(NoDupFringe::new(OrderRank { mode: m })), (m, false) => Box::new(SimpleFringe::new(OrderRank { mode: m })),
    };
    let mut fringe = CapFringe { inner: TapeFringe { inner }, pops: 0, cap: 50_000 };
    fn go<D: DecisionDiagram<State = i64> + Default, C: Cache<State = i64> + Default>(fam: &Fam, cfg: &SCfg, w: &(dyn WidthHeuristic<i64> + Send + Sync), dom: &dyn DominanceChecker<State = i64>, cutoff: &CountCutoff, fringe: &mut CapFringe) -> RunOut {
        let res = catch(|| {
            let mut s = SequentialSolver::<i64, TapeDD<D>, TapeCache<C>>::custom(fam, fam, fam, w, dom, cutoff, fringe);
            if let Some((v, p)) = &cfg.primal {
                s.set_primal(*v, p.iter().map(|(a, b)| Decision { variable: Variable(*a), value: *b }).collect());
                // an equal and a smaller primal afterwards must not replace the incumbent (marker solutions)
                s.set_primal(*v, vec![Decision { variable: Variable(0), value: 77 }]);
                s.set_primal(*v - 1, vec![Decision { variable: Variable(0), value: 78 }]);
            }
            let c = s.maximize();
            (c.is_exact, c.best_value, s.best_value(), s.best_lower_bound(), s.best_upper_bound(), s.explored(), s.best_solution(), eng_small::f32_tokens(s.gap()))
        });
        let polls = cutoff.count.load(std::sync::atomic::Ordering::SeqCst);
        match res {
            Some((e, cv, bv, lb, ub, ex, sol, gap)) => RunOut { exact: e, value: if cv == bv { cv } else { Some(isize::MIN + 7) }, lb, ub, explored: ex, sol, polls, gap, hung: false, panicked: false },
            None => RunOut { exact: false, value: None, lb: 0, ub: 0, explored: 0, sol: None, polls, gap: "nan".into(), hung: false, panicked: true },
        }
    }
    let mut r = match (cfg.kind, cfg.cache) {
        (0, false) => go::<DefaultMDDLEL<i64>, EmptyCache<i64>>(fam, cfg, w.as_ref(), &dom, &cutoff, &mut fringe),
        (0, true) => go::<DefaultMDDLEL<i64>, SimpleCache<i64>>(fam, cfg, w.as_ref(), &dom, &cutoff, &mut fringe),
        (1, false) => go::<DefaultMDDFC<i64>, EmptyCache<i64>>(fam, cfg, w.as_ref(), &dom, &cutoff, &mut fringe),
        (1, true) => go::<DefaultMDDFC<i64>, SimpleCache<i64>>(fam, cfg, w.as_ref(), &dom, &cutoff, &mut fringe),
        (_, false) => go::<Pooled<i64>, EmptyCache<i64>>(fam, cfg, w.as_ref(), &dom, &cutoff, &mut fringe),
        (_, true) => go::<Pooled<i64>, SimpleCache<i64>>(fam, cfg, w.as_ref(), &dom, &cutoff, &mut fringe),
    };
    if r.panicked && fringe.pops > fringe.cap { r.hung = true; }
    r
}
fn out_tok(r: &RunOut) -> String {
    if r.hung { return "hang".into(); }
    if r.panicked { return "panic".into(); }
    format!("{} {} {} {} {} {} | {} | {}", r.exact as u8, r.value.map(|v| v.to_string()).unwrap_or("none".into()), r.lb, r.ub, r.explored, r.polls, r.sol.as_ref().map(|s| decs(s)).unwrap_or("none".into()), r.gap)
}
/// a genuinely feasible complete solution obtained by a random walk (None when the walk dead-ends)
pub fn random_solution(fam: &Fam, rng: &mut Rng) -> Option<(isize, Vec<(usize, isize)>)> {
    for _ in 0..20 {
        let r = crate::eng_mdd::random_root(fam, rng, fam.n());
        if r.2 == fam.n() { return Some((r.1, r.3)); }
    }
    None
}
pub fn random_cfg(fam: &Fam, rng: &mut Rng, kinds: &[usize]) -> SCfg {
    SCfg { kind: *rng.pick(kinds), cache: rng.chance(1, 2), nodup: rng.chance(1, 2), w: WE::random(rng, fam.n()), primal: None, stop_at: None }
}
fn tags_of(fam: &Fam, cfg: &SCfg, r: &RunOut, tape: &[String]) -> String {
    let mut t = vec![["lel", "frontier", "pooled"][cfg.kind].to_string(), if cfg.cache { "cache".into() } else { "nocache".into() }, if cfg.nodup { "nodup".into() } else { "simple".into() }];
    if r.explored > 1 { t.push("branching".into()); }
    if r.explored > 5 { t.push("deep_search".into()); }
    if tape.iter().any(|e| e.starts_with("CM ") && e.ends_with("> 0")) { t.push("cache_skip".into()); }
    if cfg.stop_at.is_some() && !r.exact { t.push("cutoff".into()); }
    if cfg.primal.is_some() { t.push("primal".into()); }
    if r.value.is_none() { t.push("no_value".into()); }
    if fam.has_dominance() { t.push("dominance".into()); }
    if matches!(fam, Fam::Knap(_)) { t.push("knapsack".into()); }
    if r.hung { t.push("hang".into()); }
    t.join(" ")
}
/// instance generator shared by the solver engines
pub fn pick_fam(rng: &mut Rng, long_arcs: bool, focus_cache: bool, focus_dom: bool) -> Fam {
    if focus_dom { return Fam::Knap(Knap::random_dominance(rng)); }
    if focus_cache {
        let mut t = TableDP::random_saturating(rng, long_arcs);
        if rng.chance(2, 3) { t.rub_mode = 0; }
        if rng.chance(1, 3) { t.dom_mode = 1; }
        return Fam::Table(t);
    }
    if long_arcs && rng.chance(1, 3) { return Fam::Knap(Knap::random_long(rng)); }
    if rng.chance(1, 5) && !long_arcs { Fam::Knap(Knap::random(rng)) } else { Fam::Table(TableDP::random(rng, long_arcs)) }
}
/// `seqorder`: the sequential solver with custom sub-problem rankings (any processing order); only the outcome is observed
pub fn run_seqorder(a: &Args) {
    let mut out = Out::new(&a.out, "seqorder");
    if let Some(r) = &a.replay {
        let parts: Vec<&str> = r.split('|').collect();
        let (fam, _) = Fam::parse(&parts[0].split_whitespace().collect::<Vec<_>>());
        let cfg = SCfg::parse(&parts[1..5]);
        let mode: usize = parts[5].trim().parse().unwrap();
        ORDER_MODE.store(mode, std::sync::atomic::Ordering::SeqCst);
        let ro = run_seq_once(&fam, &cfg, false);
        ORDER_MODE.store(0, std::sync::atomic::Ordering::SeqCst);
        out.case_tagged(r, &out_tok(&ro), "replay");
        out.finish(); return;
    }
    let mut rng = Rng::new(a.seed);
    let ninst = if a.thorough { 12000 } else { 1200 };
    // `--no-cache`: plain B&B with a custom processing order (C01: correct for every pop order, `Props/C01t.lean`)
    let no_cache = a.extra.iter().any(|x| x == "--no-cache");
    for _ in 0..ninst {
        let focus_cache = !no_cache && rng.chance(2, 3);
        let fd = !focus_cache && rng.chance(1, 4);
        let fam = pick_fam(&mut rng, false, focus_cache, fd);
        let mut cfg = random_cfg(&fam, &mut rng, &[0, 1, 2]);
        cfg.cache = !no_cache && rng.chance(3, 4);
        if focus_cache { cfg.w = WE::F(*rng.pick(&[1usize, 1, 2])); }
        let mode = rng.range(1, 5) as usize;
        ORDER_MODE.store(mode, std::sync::atomic::Ordering::SeqCst);
        let ro = run_seq_once(&fam, &cfg, false);
        ORDER_MODE.store(0, std::sync::atomic::Ordering::SeqCst);
        let tags = format!("{} order{} {}", ["lel", "frontier", "pooled"][cfg.kind], mode, if cfg.cache { "cache" } else { "nocache" });
        out.case_tagged(&format!("{} | {} | {}", fam.tokens(), cfg.tokens(), mode), &out_tok(&ro), &tags);
    }
    out.finish();
}
pub fn run_seq(a: &Args) {
    let mut out = Out::new(&a.out, "seq");
    if let Some(r) = &a.replay {
        let parts: Vec<&str> = r.split('|').collect();
        let ft: Vec<&str> = parts[0].split_whitespace().collect();
        let (fam, _) = Fam::parse(&ft);
        let cfg = SCfg::parse(&parts[1..]);
        let ro = run_seq_once(&fam, &cfg, true);
        let tape = take_tape();
        out.case_tagged(&format!("{} | {}", fam.tokens(), cfg.tokens()), &format!("{} | {}", out_tok(&ro), tape.join(" ; ")), "replay");
        out.finish(); return;
    }
    let long_arcs = a.extra.iter().any(|x| x == "--long-arcs");
    let focus_cache = a.extra.iter().any(|x| x == "--focus-cache");
    let focus_dom = a.extra.iter().any(|x| x == "--focus-dominance");
    let kinds: Vec<usize> = if a.extra.iter().any(|x| x == "--pooled") { vec![2] } else if long_arcs || focus_cache || focus_dom { vec![0, 1, 2] } else { vec![0, 1] };
    let mut rng = Rng::new(a.seed);
    let ninst = if a.thorough { 6000 } else { 500 };
    for _ in 0..ninst {
        let fam = pick_fam(&mut rng, long_arcs, focus_cache, focus_dom);
        for j in 0..3 {
            let mut cfg = random_cfg(&fam, &mut rng, &kinds);
            if focus_cache { cfg.cache = true; cfg.w = WE::F(*rng.pick(&[1usize, 1, 2])); }
            if focus_dom { cfg.w = WE::F(*rng.pick(&[1usize, 2, 2])); }
            if j == 1 { if let Some(p) = random_solution(&fam, &mut rng) { cfg.primal = Some(p); } }
            if j == 2 { cfg.stop_at = Some(rng.range(1, 12) as usize); }
            let ro = run_seq_once(&fam, &cfg, true);
            let tape = take_tape();
            let tags = tags_of(&fam, &cfg, &ro, &tape);
            out.case_tagged(&format!("{} | {}", fam.tokens(), cfg.tokens()), &format!("{} | {}", out_tok(&ro), tape.join(" ; ")), &tags);
        }
    }
    out.finish();
}
/// `seqcut`: for one instance / configuration, the outcome for every cutoff index k = 1..K+1 (K = polls of the full run)
pub fn run_seqcut(a: &Args) {
    let mut out = Out::new(&a.out, "seqcut");
    let emit = |out: &mut Out, fam: &Fam, cfg: &SCfg, tag: &str| {
        let mut c0 = cfg.clone(); c0.stop_at = None;
        let full = run_seq_once(fam, &c0, false);
        if full.hung || full.panicked { out.case_tagged(&format!("{} | {}", fam.tokens(), c0.tokens()), &out_tok(&full), &format!("{} hang_or_panic", tag)); return; }
        let k_max = full.polls;
        let mut rows = vec![];
        for k in 1..=k_max + 1 {
            let mut c = c0.clone(); c.stop_at = if k <= k_max { Some(k) } else { None };
            let r = run_seq_once(fam, &c, false);
            rows.push(out_tok(&r));
        }
        let mut tags = vec![tag.to_string(), ["lel", "frontier", "pooled"][cfg.kind].to_string()];
        if k_max >= 4 { tags.push("many_polls".into()); }
        if full.explored > 1 { tags.push("branching".into()); }
        out.case_tagged(&format!("{} | {}", fam.tokens(), c0.tokens()), &format!("{} ;; {}", k_max, rows.join(" ;; ")), &tags.join(" "));
    };
    if let Some(r) = &a.replay {
        let parts: Vec<&str> = r.split('|').collect();
        let ft: Vec<&str> = parts[0].split_whitespace().collect();
        let (fam, _) = Fam::parse(&ft);
        let cfg = SCfg::parse(&parts[1..]);
        emit(&mut out, &fam, &cfg, "replay");
        out.finish(); return;
    }
    let mut rng = Rng::new(a.seed);
    let ninst = if a.thorough { 4000 } else { 300 };
    for _ in 0..ninst {
        let fam = if rng.chance(1, 5) { Fam::Knap(Knap::random(&mut rng)) } else { Fam::Table(TableDP::random(&mut rng, false)) };
        let mut cfg = random_cfg(&fam, &mut rng, &[0, 1, 2]);
        if rng.chance(1, 4) { if let Some(p) = random_solution(&fam, &mut rng) { cfg.primal = Some(p); } }
        emit(&mut out, &fam, &cfg, "random");
    }
    out.finish();
}
