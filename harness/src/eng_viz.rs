//! Engine `viz` (C20): `as_graphviz` of compiled diagrams for sampled visualisation configurations, together with
//! the dump of hook H2 (`verif_dump`), from which the Lean model re-renders the DOT text (byte equality).
use crate::{eng_mdd::*, fam::*, out::{Out, catch}, rng::Rng, Args};
use ddo::*;
use std::sync::{Arc, atomic::AtomicUsize};

fn hex(s: &str) -> String { s.bytes().map(|b| format!("{:02x}", b)).collect() }
fn cfg_of(bits: u32) -> VizConfig {
    VizConfigBuilder::default().show_value(bits & 1 != 0).show_locb(bits & 2 != 0).show_rub(bits & 4 != 0)
        .show_threshold(bits & 8 != 0).show_deleted(bits & 16 != 0).group_merged(bits & 32 != 0).build().unwrap()
}
fn compile_for_viz<D: DecisionDiagram<State = i64> + Default>(fam: &Fam, req: &Req) -> (D, bool) {
    let mut dd = D::default();
    let cache = RecCache::new(fam.n(), req.use_cache);
    for (s, d, v, e) in &req.cache { if *d <= fam.n() { cache.inner.update_threshold(Arc::new(*s), *d, *v, *e); } }
    let dom = new_dom(fam);
    let cutoff = CountCutoff { count: AtomicUsize::new(0), stop_at: None };
    let residual = SubProblem { state: Arc::new(req.root.0), value: req.root.1, path: req.root.3.iter().map(|(v, x)| Decision { variable: Variable(*v), value: *x }).collect(), ub: isize::MAX, depth: req.root.2 };
    let ok = catch(|| {
        let input = CompilationInput { comp_type: match req.ctype { 0 => CompilationType::Exact, 1 => CompilationType::Relaxed, _ => CompilationType::Restricted },
            problem: fam, relaxation: fam, ranking: fam, cutoff: &cutoff, max_width: req.width, residual: &residual, best_lb: req.lb, cache: &cache, dominance: &dom };
        dd.compile(&input).is_ok()
    }).unwrap_or(false);
    (dd, ok)
}
pub fn run_viz(a: &Args) {
    let mut out = Out::new(&a.out, "viz");
    let emit = |out: &mut Out, fam: &Fam, req: &Req, cfgs: &[u32], tag: &str| {
        let (dump, dots, has_value): (String, Vec<Option<String>>, bool) = match req.kind {
            0 => { let (dd, ok) = compile_for_viz::<DefaultMDDLEL<i64>>(fam, req); if !ok { return; } (dd.verif_dump(), cfgs.iter().map(|c| catch(|| dd.as_graphviz(&cfg_of(*c)))).collect(), dd.best_value().is_some()) }
            1 => { let (dd, ok) = compile_for_viz::<DefaultMDDFC<i64>>(fam, req); if !ok { return; } (dd.verif_dump(), cfgs.iter().map(|c| catch(|| dd.as_graphviz(&cfg_of(*c)))).collect(), dd.best_value().is_some()) }
            _ => { let (dd, ok) = compile_for_viz::<Pooled<i64>>(fam, req); if !ok { return; } (dd.verif_dump(), cfgs.iter().map(|c| catch(|| dd.as_graphviz(&cfg_of(*c)))).collect(), dd.best_value().is_some()) }
        };
        for (c, d) in cfgs.iter().zip(dots.iter()) {
            let mut tags = vec![tag.to_string(), ["lel", "frontier", "pooled"][req.kind].to_string(), ["exact", "relaxed", "restricted"][req.ctype].to_string()];
            if !has_value { tags.push("infeasible".into()); }
            if dump.contains(" L ;") || dump.ends_with(" L ;") { tags.push("empty_layer".into()); }
            if c & 16 != 0 { tags.push("show_deleted".into()); }
            if c & 48 == 48 { tags.push("group_merged".into()); }
            out.case_tagged(&format!("{} | {} | {} @ {} @ {}", dump, c, fam.tokens(), req.tokens(), has_value as u8), &d.as_ref().map(|s| hex(s)).unwrap_or("panic".into()), &tags.join(" "));
        }
    };
    if let Some(r) = &a.replay {
        // replay: "<dump> | cfg | fam @ req @ hv": recompile from fam / req and render the same configuration
        let parts: Vec<&str> = r.split('|').collect();
        let cfg: u32 = parts[parts.len() - 2].trim().parse().unwrap();
        let rest: Vec<&str> = parts[parts.len() - 1].split('@').collect();
        let (fam, _) = Fam::parse(&rest[0].split_whitespace().collect::<Vec<_>>());
        let req = Req::parse(&rest[1].split_whitespace().collect::<Vec<_>>());
        emit(&mut out, &fam, &req, &[cfg], "replay");
        out.finish(); return;
    }
    let mut rng = Rng::new(a.seed);
    let ninst = if a.thorough { 3000 } else { 250 };
    let mut next_cfg = 0u32;
    for _ in 0..ninst {
        let long_arcs = rng.chance(1, 4);
        let fam = if rng.chance(1, 5) && !long_arcs { Fam::Knap(Knap::random(&mut rng)) } else { Fam::Table(TableDP::random(&mut rng, long_arcs)) };
        let kinds: Vec<usize> = if long_arcs { vec![2] } else { vec![0, 1, 2] };
        let mut req = random_req(&fam, &mut rng, &kinds, true);
        req.stop_at = None;
        if rng.chance(1, 3) { req.ctype = 1; req.width = *rng.pick(&[1usize, 2, 2]); }
        // all 64 configurations are visited round-robin, 3 per diagram, plus one random
        let cfgs = [next_cfg % 64, (next_cfg + 1) % 64, (next_cfg + 2) % 64, rng.below(64) as u32];
        next_cfg += 3;
        emit(&mut out, &fam, &req, &cfgs, "random");
    }
    out.finish();
}
