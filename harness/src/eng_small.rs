//! Engines `gap` (C17) and `width` (C13, combinators).
use crate::{out::{Out, catch}, rng::Rng, Args};
use ddo::*;
use std::sync::Arc;

struct Stub { lb: isize, ub: isize }
impl Solver for Stub {
    fn maximize(&mut self) -> Completion { Completion { is_exact: false, best_value: None } }
    fn best_value(&self) -> Option<isize> { None }
    fn best_solution(&self) -> Option<Solution> { None }
    fn best_lower_bound(&self) -> isize { self.lb }
    fn best_upper_bound(&self) -> isize { self.ub }
    fn set_primal(&mut self, _: isize, _: Solution) {}
    fn explored(&self) -> usize { 0 }
}

pub fn f32_tokens(x: f32) -> String {
    let bits = x.to_bits();
    let sign = (bits >> 31) & 1;
    let ef = ((bits >> 23) & 0xff) as i32;
    let frac = bits & 0x7fffff;
    if ef == 255 {
        if frac != 0 { "nan".to_string() } else { format!("inf {}", sign) }
    } else if ef == 0 {
        format!("fin {} {} {}", sign, frac, -149)
    } else {
        format!("fin {} {} {}", sign, frac | (1 << 23), ef - 150)
    }
}

pub fn gap_of(lb: isize, ub: isize) -> String {
    match catch(|| Stub { lb, ub }.gap()) {
        Some(g) => f32_tokens(g),
        None => "panic".to_string(),
    }
}

pub fn run_gap(a: &Args) {
    let mut out = Out::new(&a.out, "gap");
    if let Some(r) = &a.replay {
        let t: Vec<isize> = r.split_whitespace().map(|x| x.parse().unwrap()).collect();
        out.case(&format!("{} {}", t[0], t[1]), &gap_of(t[0], t[1]));
        out.finish();
        return;
    }
    let mut grid: Vec<isize> = vec![0, 1, 2, 3, 5, 7, 100, 220, 1 << 24, (1 << 24) + 1, 1 << 31, (1 << 31) + 1, 1 << 62, isize::MAX - 1, isize::MAX];
    let neg: Vec<isize> = grid.iter().map(|x| -x).collect();
    grid.extend(neg);
    grid.push(isize::MIN); grid.push(isize::MIN + 1);
    grid.sort(); grid.dedup();
    for &lb in &grid { for &ub in &grid { if lb <= ub {
        out.case_tagged(&format!("{} {}", lb, ub), &gap_of(lb, ub), &gap_tags(lb, ub));
    }}}
    let mut rng = Rng::new(a.seed);
    let n = if a.thorough { 200_000 } else { 5_000 };
    for _ in 0..n {
        let mag = |r: &mut Rng| -> isize {
            let bits = r.below(63) as u32;
            let v = (r.next() >> (63 - bits).min(63)) as i64 as isize;
            if r.chance(1, 2) { v } else { -v }
        };
        let (x, y) = (mag(&mut rng), mag(&mut rng));
        let (lb, ub) = if rng.chance(1, 10) { (x, x) } else { (x.min(y), x.max(y)) };
        out.case_tagged(&format!("{} {}", lb, ub), &gap_of(lb, ub), &gap_tags(lb, ub));
    }
    out.finish();
}
fn gap_tags(lb: isize, ub: isize) -> String {
    let mut t = vec![];
    if ub == isize::MAX || lb == isize::MIN { t.push("sentinel"); } else {
        if lb == ub { t.push("equal"); }
        if lb == 0 || ub == 0 { t.push("zero"); }
        if (lb < 0) != (ub < 0) && lb != 0 && ub != 0 { t.push("mixed_sign"); } else { t.push("same_sign"); }
        if lb < 0 && ub < 0 { t.push("negative"); }
        if lb.unsigned_abs() > (1 << 53) || ub.unsigned_abs() > (1 << 53) { t.push("huge"); }
    }
    t.join(" ")
}

// ------------------------------------------------------------------------------------------
enum W { F(usize), N(usize), T(usize, Box<W>), D(usize, Box<W>) }
impl W {
    fn tokens(&self) -> String {
        match self {
            W::F(w) => format!("F {}", w),
            W::N(n) => format!("N {}", n),
            W::T(k, e) => format!("T {} {}", k, e.tokens()),
            W::D(k, e) => format!("D {} {}", k, e.tokens()),
        }
    }
    fn build(&self) -> Box<dyn WidthHeuristic<usize>> {
        match self {
            W::F(w) => Box::new(FixedWidth(*w)),
            W::N(n) => Box::new(NbUnassignedWidth(*n)),
            W::T(k, e) => Box::new(Times(*k, Dyn(e.build()))),
            W::D(k, e) => Box::new(DivBy(*k, Dyn(e.build()))),
        }
    }
}
struct Dyn(Box<dyn WidthHeuristic<usize>>);
impl WidthHeuristic<usize> for Dyn {
    fn max_width(&self, s: &SubProblem<usize>) -> usize { self.0.max_width(s) }
}
fn parse_w(t: &mut std::slice::Iter<&str>) -> W {
    match *t.next().unwrap() {
        "F" => W::F(t.next().unwrap().parse().unwrap()),
        "N" => W::N(t.next().unwrap().parse().unwrap()),
        "T" => { let k = t.next().unwrap().parse().unwrap(); W::T(k, Box::new(parse_w(t))) }
        "D" => { let k = t.next().unwrap().parse().unwrap(); W::D(k, Box::new(parse_w(t))) }
        x => panic!("bad width token {}", x),
    }
}
fn width_of(pl: usize, e: &W) -> String {
    let sub = SubProblem { state: Arc::new(0usize), value: 0, path: vec![Decision { variable: Variable(0), value: 0 }; pl], ub: 0, depth: pl };
    match catch(|| e.build().max_width(&sub)) { Some(w) => w.to_string(), None => "panic".into() }
}
pub fn run_width(a: &Args) {
    let mut out = Out::new(&a.out, "width");
    if let Some(r) = &a.replay {
        let t: Vec<&str> = r.split_whitespace().collect();
        let pl: usize = t[0].parse().unwrap();
        let e = parse_w(&mut t[1..].iter());
        out.case(&format!("{} {}", pl, e.tokens()), &width_of(pl, &e));
        out.finish();
        return;
    }
    let ks: [usize; 9] = [0, 1, 2, 3, 7, 1 << 32, (1 << 32) + 1, usize::MAX / 2 + 1, usize::MAX];
    let ws: [usize; 8] = [0, 1, 2, 5, 100, 1 << 32, usize::MAX - 1, usize::MAX];
    for &k in &ks { for &w in &ws {
        for e in [W::T(k, Box::new(W::F(w))), W::D(k, Box::new(W::F(w)))] {
            let o = width_of(0, &e);
            let tg = if o == "panic" { "panic" } else if o == "1" { "clamped" } else { "plain" };
            out.case_tagged(&format!("0 {}", e.tokens()), &o, tg);
        }
    }}
    for n in 0..5usize { for pl in 0..6usize {
        for e in [W::N(n), W::T(2, Box::new(W::N(n))), W::D(2, Box::new(W::N(n))), W::D(0, Box::new(W::N(n)))] {
            let o = width_of(pl, &e);
            let tg = if o == "panic" { "panic" } else if o == "1" { "clamped" } else { "plain" };
            out.case_tagged(&format!("{} {}", pl, e.tokens()), &o, tg);
        }
    }}
    let mut rng = Rng::new(a.seed);
    let n = if a.thorough { 100_000 } else { 3_000 };
    fn gen(r: &mut Rng, d: u32) -> W {
        let small = |r: &mut Rng| -> usize { if r.chance(1, 8) { (r.next() >> r.below(64)) as usize } else { r.below(6) as usize } };
        match if d == 0 { r.below(2) } else { r.below(4) } {
            0 => W::F(small(r)),
            1 => W::N(r.below(8) as usize),
            2 => W::T(small(r), Box::new(gen(r, d - 1))),
            _ => W::D(small(r), Box::new(gen(r, d - 1))),
        }
    }
    for _ in 0..n {
        let e = gen(&mut rng, 3);
        let pl = rng.below(9) as usize;
        let o = width_of(pl, &e);
        let tg = if o == "panic" { "panic" } else if o == "1" { "clamped" } else { "plain" };
        out.case_tagged(&format!("{} {}", pl, e.tokens()), &o, tg);
    }
    out.finish();
}
