//! Instance generators of the remaining examples (one `gen_<name>` per example; see `eng_ex.rs` for the contract).
//!
//! Conventions shared by the generators below:
//!  * every instance is tiny (the Lean specifications enumerate permutations / assignments exhaustively);
//!  * instances outside the domain assumed by an example's model are produced only with a tag starting with `ood_`;
//!    every other tag describes an edge case INSIDE the domain (`ties`, `infeasible_by_construction`, …);
//!  * all the randomness comes from the `Rng` handed to the generator.
use crate::eng_ex::*;
#[allow(unused_imports)]
use crate::rng::Rng;

pub fn more_examples() -> Vec<Example> {
    vec![
        Example { name: "sop", gen: gen_sop, args: std_args, parse: std_parse, threads: true },
        Example { name: "tsptw", gen: gen_tsptw, args: std_args, parse: tsptw_parse, threads: true },
        Example { name: "srflp", gen: gen_srflp, args: std_args, parse: srflp_parse, threads: true },
        Example { name: "talentsched", gen: gen_talentsched, args: std_args, parse: std_parse, threads: true },
        Example { name: "alp", gen: gen_alp, args: std_args, parse: std_parse, threads: true },
    ]
}

fn join<T: std::fmt::Display>(xs: &[T], sep: &str) -> String { xs.iter().map(|x| x.to_string()).collect::<Vec<_>>().join(sep) }
/// a size in lo..=hi, biased towards the large end (relaxations only kick in on the larger instances)
fn size(rng: &mut Rng, lo: i64, hi: i64) -> usize { let a = rng.range(lo, hi); let b = rng.range(lo, hi); a.max(b) as usize }
fn shuffle<T>(rng: &mut Rng, xs: &mut [T]) { for i in (1..xs.len()).rev() { let j = rng.below(i as u64 + 1) as usize; xs.swap(i, j); } }
/// shortest-path closure: afterwards `d[i][j] <= d[i][k] + d[k][j]` for all i, j, k
fn metric_closure(d: &mut [Vec<i64>]) {
    let n = d.len();
    for k in 0..n { for i in 0..n { for j in 0..n { if i != j && d[i][k] + d[k][j] < d[i][j] { d[i][j] = d[i][k] + d[k][j]; } } } }
}
fn is_metric(d: &[Vec<i64>]) -> bool {
    let n = d.len();
    for k in 0..n { for i in 0..n { for j in 0..n { if i != j && i != k && j != k && d[i][k] + d[k][j] < d[i][j] { return false; } } } }
    true
}

// ------------------------------------------------------------------------------------------------ sop
/// Known counterexamples of the sop example at width factor 1 (found by random search, see REPORT.md): the generator
/// re-emits them scaled / slightly perturbed under the tag `near_known_counterexample`, because the natural hit rate
/// of the purely random instances is below 1 %.
const SOP_SEEDS: &[(usize, &[i64])] = &[
    (6, &[0, 3, 3, 2, 2, 2, -1, 0, 1, 2, 2, 1, -1, 1, 0, -1, 1, 3, -1, 2, 2, 0, 3, 3, -1, 2, 0, 3, 0, 2, -1, -1, -1, -1, -1, 0]),
    (6, &[0, 6, 0, 6, 1, 1, -1, 0, 0, 6, 9, 7, -1, 9, 0, -1, 0, 6, -1, 7, 2, 0, 4, 2, -1, 9, 3, 7, 0, 7, -1, -1, -1, -1, -1, 0]),
    (7, &[0, 0, 2, 7, 4, 0, 1, -1, 0, 9, 9, 1, 4, 1, -1, 7, 0, 8, -1, 7, 0, -1, 9, 5, 0, 0, 9, 8, -1, 5, 0, 6, 0, 5, 2, -1, 8, 0, 9, 9, 0, 6, -1, -1, -1, -1, -1, -1, 0]),
    (8, &[0, 1, 1, 0, 2, 1, 3, 2, -1, 0, 0, 2, 1, 0, 2, 2, -1, 0, 0, 1, 2, 0, -1, 0, -1, 3, 2, 0, 1, 2, 0, 1, -1, 3, 3, -1, 0, -1, 0, 3, -1, 0, 1, 3, 2, 0, 3, 2, -1, 3, 0, 2, 2, 3, 0, 3, -1, -1, -1, -1, -1, -1, -1, 0]),
];
/// Sequential ordering problem, TSPLIB format: header lines up to `EDGE_WEIGHT_SECTION`, `n`, then the n x n matrix;
/// `d[i][j] == -1` means "job j must precede job i".  In-domain instances follow the TSPLIB conventions: job 0
/// precedes every job (`d[i][0] = -1`), every job precedes job n-1 (`d[n-1][j] = -1`), all other entries are
/// distances >= 0 or precedence marks.  Tokens: `n` and the matrix, row by row.
pub fn gen_sop(rng: &mut Rng) -> ExInst {
    let mut tags: Vec<&'static str> = vec![];
    let mode = rng.below(100);
    let mut n = match rng.below(40) { 0 => 1, 1 | 2 => 2, _ => size(rng, 3, 10) };
    let wmax = *rng.pick(&[1i64, 3, 9, 9, 100]);
    let mut d: Vec<Vec<i64>>;
    if mode >= 94 {
        // a known counterexample: positive distances scaled by c, up to 3 distances redrawn
        let (sn, flat) = *rng.pick(SOP_SEEDS);
        n = sn;
        d = (0..n).map(|i| flat[i * n..(i + 1) * n].to_vec()).collect();
        let smax = *flat.iter().max().unwrap();
        for _ in 0..rng.below(4) {
            let (i, j) = (rng.below(n as u64 - 1) as usize, rng.range(1, n as i64 - 1) as usize);
            if i != j && d[i][j] >= 0 { d[i][j] = rng.range(0, smax); }
        }
        let c = rng.range(1, 4);
        for row in d.iter_mut() { for x in row.iter_mut() { if *x > 0 { *x *= c; } } }
        tags.push("near_known_counterexample");
        tags.push("precedences");
    } else {
        if wmax == 1 && n > 2 { tags.push("ties"); }
        d = vec![vec![0i64; n]; n];
        for i in 0..n { for j in 0..n { if i != j { d[i][j] = rng.range(0, wmax); } } }
        let unmarked = n >= 3 && (84..89).contains(&mode);
        if n >= 2 && !unmarked {
            for i in 1..n { d[i][0] = -1; }
            for j in 0..n - 1 { d[n - 1][j] = -1; }
            if n >= 3 && rng.chance(1, 2) { d[0][n - 1] = 1_000_000; }
        }
        if unmarked { tags.push("ood_unmarked_ends"); }
        // precedences among the inner jobs, consistent with a hidden random order (hence satisfiable)
        if n >= 4 {
            let mut order: Vec<usize> = (1..n - 1).collect();
            shuffle(rng, &mut order);
            let density = *rng.pick(&[0u64, 5, 10, 15, 30, 60]);
            let mut before = vec![vec![false; n]; n]; // before[j][i]: j must precede i
            for a in 0..order.len() { for b in a + 1..order.len() { if rng.below(100) < density { before[order[a]][order[b]] = true; } } }
            if rng.chance(1, 2) {
                for k in 1..n - 1 { for i in 1..n - 1 { for j in 1..n - 1 { if before[i][k] && before[k][j] { before[i][j] = true; } } } }
                if density > 0 { tags.push("transitively_closed"); }
            }
            for j in 1..n - 1 { for i in 1..n - 1 { if before[j][i] { d[i][j] = -1; } } }
            // a precedence cycle among inner jobs: no solution, the program must print -1
            if (78..84).contains(&mode) {
                let i = rng.range(1, n as i64 - 2) as usize;
                let mut j = rng.range(1, n as i64 - 2) as usize;
                if j == i { j = if i + 1 < n - 1 { i + 1 } else { i - 1 }; }
                d[i][j] = -1; d[j][i] = -1;
                tags.push("infeasible_by_construction");
            }
            let any = (1..n - 1).any(|i| (1..n - 1).any(|j| i != j && d[i][j] == -1));
            tags.push(if any { "precedences" } else { "no_precedences" });
        }
        if n >= 3 && (89..94).contains(&mode) {
            let mut any = false;
            for i in 0..n { for j in 0..n { if i != j && d[i][j] >= 0 && d[i][j] < 1_000_000 && rng.chance(1, 3) { d[i][j] = -rng.range(2, 9); any = true; } } }
            if any { tags.push("ood_negative_weights"); }
        }
    }
    if n == 1 { tags.push("single_job"); }
    if n == 2 { tags.push("two_jobs"); }
    let mut file = String::new();
    if rng.chance(1, 2) {
        file.push_str(&format!("NAME: rnd.sop\nTYPE: SOP\nCOMMENT: generated\nDIMENSION: {}\nEDGE_WEIGHT_TYPE: EXPLICIT\nEDGE_WEIGHT_FORMAT: FULL_MATRIX\n", n));
    }
    file.push_str("EDGE_WEIGHT_SECTION\n");
    file.push_str(&format!("{}\n", n));
    let wide = rng.chance(1, 2);
    for row in &d {
        let cells: Vec<String> = row.iter().map(|x| if wide { format!("{:5}", x) } else { x.to_string() }).collect();
        file.push_str(&format!("{}\n", cells.join(" ")));
    }
    if rng.chance(1, 2) { file.push_str("EOF\n"); }
    let flat: Vec<i64> = d.iter().flatten().copied().collect();
    ExInst { file, tokens: format!("{} {}", n, join(&flat, " ")), tags }
}

// ---------------------------------------------------------------------------------------------- tsptw
/// formats a time given in hundredths (a multiple of 25) the way the benchmark files do: `12`, `12.0`, `12.5`, `12.25`
fn dec(rng: &mut Rng, h: i64) -> String {
    if h % 100 == 0 { if rng.chance(1, 4) { format!("{}.0", h / 100) } else { format!("{}", h / 100) } }
    else if h % 50 == 0 { format!("{}.5", h / 100) }
    else { format!("{}.{:02}", h / 100, h % 100) }
}
/// Known counterexamples of the tsptw example at width factor 1 (n, travel times, windows; found by random search, see
/// REPORT.md); re-emitted scaled / slightly perturbed (and metric-closed again) under the tag `near_known_counterexample`.
const TSPTW_SEEDS: &[(usize, &[i64], &[i64])] = &[
    (5, &[0, 1, 1, 1, 2, 2, 0, 2, 2, 2, 1, 1, 0, 0, 1, 1, 2, 2, 0, 1, 0, 1, 1, 1, 0], &[0, 1000, 0, 1000, 0, 1000, 0, 1000, 0, 1000]),
    (7, &[0, 4, 7, 6, 6, 9, 8, 4, 0, 3, 2, 6, 5, 5, 7, 3, 0, 1, 4, 4, 4, 6, 2, 1, 0, 4, 3, 3, 6, 6, 4, 4, 0, 6, 7, 9, 5, 4, 3, 6, 0, 3, 8, 5, 4, 3, 7, 3, 0], &[0, 1000, 27, 93, 29, 76, 33, 90, 31, 46, 14, 79, 2, 54]),
    // on this one the example panics (debug build): `complete_tour -= 1` underflows in fast_upper_bound
    (8, &[0, 3, 2, 3, 3, 3, 3, 4, 6, 0, 5, 4, 5, 7, 4, 5, 2, 4, 0, 4, 2, 4, 4, 3, 2, 0, 1, 0, 1, 3, 0, 1, 2, 2, 0, 2, 0, 2, 2, 1, 3, 2, 1, 3, 1, 0, 2, 2, 4, 0, 3, 3, 3, 4, 0, 3, 1, 1, 0, 1, 0, 2, 1, 0], &[0, 1000, 0, 1000, 0, 1000, 0, 1000, 0, 1000, 0, 1000, 0, 1000, 0, 1000]),
];
/// TSP with time windows: `n`, the n x n travel times, then `earliest latest` per node (node 0 = depot).
/// In-domain: travel times satisfy the triangle inequality (the model prunes a state as soon as one unvisited node
/// cannot be reached DIRECTLY in time), `earliest <= latest`; numbers are integers or multiples of 0.25 (exactly
/// representable: the reader goes through f32).  Tokens: everything in hundredths.
pub fn gen_tsptw(rng: &mut Rng) -> ExInst {
    let mut tags: Vec<&'static str> = vec![];
    let mut n = match rng.below(40) { 0 => 1, 1 => 2, _ => size(rng, 3, 9) };
    // unit: all the numbers are multiples of `unit` hundredths
    let unit = *rng.pick(&[100i64, 100, 100, 100, 50, 25]);
    if unit != 100 { tags.push("fractional"); }
    let horizon = 1000 * 100;
    let mode = rng.below(100);
    let mut d: Vec<Vec<i64>>;
    let mut tw: Vec<(i64, i64)>;
    if mode < 6 {
        let (sn, flat, win) = *rng.pick(TSPTW_SEEDS);
        n = sn;
        let c = *rng.pick(&[1i64, 1, 2, 3]) * unit;
        d = (0..n).map(|i| flat[i * n..(i + 1) * n].to_vec()).collect();
        let smax = *flat.iter().max().unwrap();
        for _ in 0..rng.below(3) { let (i, j) = (rng.below(n as u64) as usize, rng.below(n as u64) as usize); if i != j { d[i][j] = rng.range(0, smax); } }
        metric_closure(&mut d);
        for row in d.iter_mut() { for x in row.iter_mut() { *x *= c; } }
        tw = (0..n).map(|i| (win[2 * i] * c, if win[2 * i + 1] >= 1000 { horizon } else { win[2 * i + 1] * c })).collect();
        tags.push("near_known_counterexample");
    } else {
        let r = *rng.pick(&[3i64, 10, 10, 30]);
        if r == 3 { tags.push("ties"); }
        d = vec![vec![0i64; n]; n];
        match rng.below(3) {
            0 => { for i in 0..n { for j in 0..n { if i != j { d[i][j] = rng.range(0, r) * unit; } } } tags.push("asymmetric"); }
            1 => { for i in 0..n { for j in i + 1..n { let x = rng.range(0, r) * unit; d[i][j] = x; d[j][i] = x; } } }
            _ => { // manhattan distances between grid points
                let pts: Vec<(i64, i64)> = (0..n).map(|_| (rng.range(0, r), rng.range(0, r))).collect();
                for i in 0..n { for j in 0..n { d[i][j] = ((pts[i].0 - pts[j].0).abs() + (pts[i].1 - pts[j].1).abs()) * unit; } }
            }
        }
        if mode >= 90 && !is_metric(&d) { tags.push("ood_nonmetric"); } else { metric_closure(&mut d); }
        // time windows
        tw = vec![(0i64, horizon); n];
        let wmode = rng.below(10);
        if wmode < 3 { tags.push("no_windows"); }
        else if wmode < 7 {
            // windows around the visit times of a hidden tour: feasible by construction
            let mut tour: Vec<usize> = (1..n).collect();
            shuffle(rng, &mut tour);
            let spread = *rng.pick(&[0i64, 2, 5, 20]);
            let (mut t, mut cur) = (0i64, 0usize);
            for &j in &tour {
                let arr = t + d[cur][j];
                let e = (arr + rng.range(-spread, spread) * unit).max(0);
                let l = arr.max(e) + rng.range(0, spread) * unit;
                tw[j] = (e, l);
                t = arr.max(e); cur = j;
            }
            if rng.chance(1, 3) { tw[0].1 = t + d[cur][0] + rng.range(0, spread) * unit; tags.push("tight_depot"); }
            tags.push("windows_around_a_tour");
        } else {
            // arbitrary windows: possibly no feasible tour (narrow ones: most often none)
            let span = (n as i64) * r / *rng.pick(&[1i64, 2, 4]);
            let width = *rng.pick(&[span, span, span / 2, span / 4]);
            for j in 1..n { let e = rng.range(0, span) * unit; let l = e + rng.range(0, width.max(1)) * unit; tw[j] = (e, l); }
            if rng.chance(1, 3) { tw[0].1 = rng.range(span, 2 * span + 1) * unit; tags.push("tight_depot"); }
            tags.push("random_windows");
        }
        if rng.chance(1, 12) { tw[0].0 = rng.range(1, 20) * unit; tw[0].1 = tw[0].1.max(tw[0].0); tags.push("depot_opens_late"); }
    }
    if n == 1 { tags.push("single_node"); }
    let mut file = String::new();
    if rng.chance(1, 3) { file.push_str("# generated instance\n"); }
    file.push_str(&format!("{}\n", n));
    for row in &d { let cells: Vec<String> = row.iter().map(|x| dec(rng, *x)).collect(); file.push_str(&format!("{}\n", cells.join(" "))); }
    if rng.chance(1, 4) { file.push_str("\n"); }
    for (e, l) in &tw { let (a, b) = (dec(rng, *e), dec(rng, *l)); file.push_str(&format!("{}   {}\n", a, b)); }
    let mut flat: Vec<i64> = d.iter().flatten().copied().collect();
    for (e, l) in &tw { flat.push(*e); flat.push(*l); }
    ExInst { file, tokens: format!("{} {}", n, join(&flat, " ")), tags }
}
/// tsptw prints no `Objective:` line but
/// `status   : Proved|Timeout`, `lower bnd: <best tour cost, 2 decimals | +inf>`, `upper bnd: …`.
/// Mapping: `obj` = the `lower bnd` value in hundredths ("12.50" -> 1250, "-0.00" -> 0), `+inf` (no feasible tour) -> -1;
/// `aborted` = 0 iff status is `Proved`.  When the two bounds differ although the status is `Proved`, the
/// token `bounds_differ` is appended (which the Lean engine reports as unreadable output).
pub fn tsptw_parse(stdout: &str) -> String {
    let (mut lb, mut ub, mut st) = ("missing".to_string(), "missing".to_string(), "?".to_string());
    for l in stdout.lines() {
        if let Some(r) = l.strip_prefix("lower bnd:") { lb = r.trim().to_string(); }
        if let Some(r) = l.strip_prefix("upper bnd:") { ub = r.trim().to_string(); }
        if let Some(r) = l.strip_prefix("status   :") { st = if r.trim() == "Proved" { "0".into() } else { "1".into() }; }
    }
    let hundredths = |s: &str| -> String {
        if s == "+inf" { return "-1".into(); }
        let (neg, body) = match s.strip_prefix('-') { Some(b) => (true, b), None => (false, s) };
        let mut it = body.split('.');
        match (it.next().and_then(|a| a.parse::<i64>().ok()), it.next().filter(|f| f.len() == 2).and_then(|f| f.parse::<i64>().ok())) {
            (Some(a), Some(f)) => { let v = a * 100 + f; (if neg { -v } else { v }).to_string() }
            _ => s.to_string(),
        }
    };
    let mut s = format!("obj {} aborted {}", hundredths(&lb), st);
    if st == "0" && lb != ub { s.push_str(" bounds_differ"); }
    s
}

// ---------------------------------------------------------------------------------------------- srflp
/// Single-row facility layout: `n`, a line with the n lengths, n rows of n flows; separators: commas and/or blanks.
/// In-domain: lengths >= 1, flows >= 0, symmetric flow matrix (the diagonal is irrelevant, kept 0).
/// Tokens: `n`, the lengths, the matrix row by row.
pub fn gen_srflp(rng: &mut Rng) -> ExInst {
    let mut tags: Vec<&'static str> = vec![];
    let n = match rng.below(30) { 0 => 1, 1 => 2, _ => size(rng, 3, 8) };
    let lmax = *rng.pick(&[1i64, 5, 5, 20]);
    let fmax = *rng.pick(&[1i64, 5, 10]);
    let zero_pct = *rng.pick(&[0u64, 30, 60]);
    if lmax == 1 { tags.push("equal_lengths"); }
    if fmax == 1 { tags.push("ties"); }
    let mut l: Vec<i64> = (0..n).map(|_| rng.range(1, lmax)).collect();
    let mut c = vec![vec![0i64; n]; n];
    for i in 0..n { for j in i + 1..n { let x = if rng.below(100) < zero_pct { 0 } else { rng.range(0, fmax) }; c[i][j] = x; c[j][i] = x; } }
    if n > 1 && c.iter().flatten().all(|x| *x == 0) { tags.push("no_flow"); }
    let mode = rng.below(100);
    if n >= 2 && (85..90).contains(&mode) { let i = rng.below(n as u64) as usize; l[i] = 0; tags.push("ood_zero_length"); }
    if n >= 2 && (90..95).contains(&mode) {
        let mut any = false;
        for i in 0..n { for j in i + 1..n { if rng.chance(1, 3) { let x = -rng.range(1, fmax); c[i][j] = x; c[j][i] = x; any = true; } } }
        if any { tags.push("ood_negative_flows"); }
    }
    if n >= 2 && (95..100).contains(&mode) {
        let mut any = false;
        for i in 0..n { for j in 0..n { if i != j && rng.chance(1, 3) { let x = rng.range(0, fmax); if x != c[j][i] { any = true; } c[i][j] = x; } } }
        if any { tags.push("ood_asymmetric"); }
    }
    if n == 1 { tags.push("single_department"); }
    let sep = *rng.pick(&[",", " ", ", ", "  "]);
    let mut file = String::new();
    if rng.chance(1, 3) { file.push_str("\n"); }
    file.push_str(&format!("{}\n{}\n", n, join(&l, sep)));
    for row in &c { file.push_str(&format!("{}\n", join(row, sep))); }
    let flat: Vec<i64> = c.iter().flatten().copied().collect();
    ExInst { file, tokens: format!("{} {} {}", n, join(&l, " "), join(&flat, " ")), tags }
}
/// srflp prints `Objective:` as a float which is an integer or a half-integer ("1100", "27.5"): `obj` is TWICE that value
/// (the Lean specification computes twice the cost); anything else is passed through unchanged (hence unreadable).
pub fn srflp_parse(stdout: &str) -> String {
    let mut obj = "missing".to_string(); let mut ab = "?".to_string();
    for l in stdout.lines() {
        if let Some(r) = l.strip_prefix("Objective:") {
            let r = r.trim();
            obj = match r.parse::<f64>() { Ok(x) if (2.0 * x).fract() == 0.0 && x.abs() < 1e15 => format!("{}", (2.0 * x) as i64), _ => r.to_string() };
        }
        if let Some(r) = l.strip_prefix("Aborted:") { ab = if r.trim() == "true" { "1".into() } else { "0".into() }; }
    }
    format!("obj {} aborted {}", obj, ab)
}

// ---------------------------------------------------------------------------------------- talentsched
/// Talent scheduling: a name line, `n_scenes`, `n_actors` (on one or two lines), one line per actor (n_scenes flags and
/// the actor's daily cost), a line with the n_scenes durations; empty lines are skipped.
/// In-domain: flags in {0,1}, costs >= 1, durations >= 0 (zero durations tagged).  Tokens: all the numbers, in file order.
pub fn gen_talentsched(rng: &mut Rng) -> ExInst {
    let mut tags: Vec<&'static str> = vec![];
    let n = match rng.below(30) { 0 => 1, 1 => 2, _ => size(rng, 3, 8) };
    // a third of the instances: many actors playing in most scenes, unit costs and durations (the family on which the
    // example's floating point bound goes wrong most often, see REPORT.md)
    let dense_unit = rng.chance(1, 3);
    let k = if dense_unit { rng.range(3, 8) } else { rng.range(1, 8) } as usize;
    let dens = if dense_unit { 75 } else { *rng.pick(&[25u64, 50, 50, 75]) };
    let cmax = if dense_unit { 1 } else { *rng.pick(&[1i64, 5, 20]) };
    let dmax = if dense_unit { 1 } else { *rng.pick(&[1i64, 3, 9]) };
    if dense_unit { tags.push("dense_unit"); }
    if cmax == 1 && dmax == 1 { tags.push("ties"); }
    let mut plays: Vec<Vec<i64>> = (0..k).map(|_| (0..n).map(|_| (rng.below(100) < dens) as i64).collect()).collect();
    if n >= 2 && rng.chance(1, 5) { let s = rng.below(n as u64) as usize; let t = rng.below(n as u64) as usize; if s != t { for a in 0..k { plays[a][t] = plays[a][s]; } tags.push("duplicate_scenes"); } }
    let mut cost: Vec<i64> = (0..k).map(|_| rng.range(1, cmax)).collect();
    let mut dur: Vec<i64> = (0..n).map(|_| rng.range(1, dmax)).collect();
    let mode = rng.below(100);
    if (88..94).contains(&mode) { let s = rng.below(n as u64) as usize; dur[s] = 0; tags.push("zero_duration"); }
    if (94..100).contains(&mode) { let a = rng.below(k as u64) as usize; cost[a] = 0; tags.push("ood_zero_cost"); }
    if plays.iter().any(|p| p.iter().all(|x| *x == 0)) { tags.push("actor_without_scene"); }
    if plays.iter().any(|p| p.iter().all(|x| *x == 1)) { tags.push("actor_in_all_scenes"); }
    if (0..n).any(|s| plays.iter().all(|p| p[s] == 0)) { tags.push("scene_without_actor"); }
    if n == 1 { tags.push("single_scene"); }
    let blank = |rng: &mut Rng| if rng.chance(1, 3) { "\n" } else { "" };
    let mut file = String::from("generated\n");
    if rng.chance(1, 2) { file.push_str(&format!("{}\n{}\n", n, k)); } else { file.push_str(&format!("{} {}\n", n, k)); tags.push("sizes_on_one_line"); }
    file.push_str(blank(rng));
    for a in 0..k { file.push_str(&format!("{}   {}\n", join(&plays[a], " "), cost[a])); }
    file.push_str(blank(rng));
    file.push_str(&format!("{}\n", join(&dur, " ")));
    let mut toks = vec![n as i64, k as i64];
    for a in 0..k { toks.extend(plays[a].iter().copied()); toks.push(cost[a]); }
    toks.extend(dur.iter().copied());
    ExInst { file, tokens: join(&toks, " "), tags }
}

// ------------------------------------------------------------------------------------------------ alp
/// Aircraft landing: `n n_classes n_runways`, `target latest class` per aircraft, the class separation matrix.
/// In-domain (what the benchmark instances satisfy and the model relies on): within each class the aircraft are listed
/// by non-decreasing target and non-decreasing latest time; the separations satisfy the triangle inequality.
/// Tokens: the same numbers as the file.
/// one runway, three classes whose separation ROWS differ markedly (row minimum far from column minimum), loose deadlines,
/// aircraft arriving in small bunches: merged states (previous class unknown) then decide whether the optimum survives,
/// and the bound on the separation after an unknown predecessor must be the column minimum
fn gen_alp_row_dominated(rng: &mut Rng) -> ExInst {
    let k = 3usize; let n = 8usize;
    let mut rows: Vec<Vec<i64>> = vec![(0..3).map(|_| rng.range(1, 2)).collect(), (0..3).map(|_| rng.range(8, 9)).collect(), (0..3).map(|_| rng.range(5, 6)).collect()];
    for i in (1..3).rev() { let j = rng.below(i as u64 + 1) as usize; rows.swap(i, j); }
    let sep = rows;      // entries of a row within 1 of each other and rows >= 1: the triangle inequality holds
    let d = rng.range(7, 9);
    let tg: Vec<i64> = vec![0, 0, 1, 1, d + 1, d + 1, 2 * d + 1, 2 * d + 1];
    let ac: Vec<(i64, i64, usize)> = tg.iter().map(|t| (*t, *t + 100, rng.below(k as u64) as usize)).collect();
    let mut file = format!("{} {} {}\n", n, k, 1);
    for a in &ac { file.push_str(&format!("{} {} {}\n", a.0, a.1, a.2)); }
    for row in &sep { file.push_str(&format!("{}\n", join(row, " "))); }
    let mut toks = vec![n as i64, k as i64, 1];
    for a in &ac { toks.push(a.0); toks.push(a.1); toks.push(a.2 as i64); }
    toks.extend(sep.iter().flatten().copied());
    ExInst { file, tokens: join(&toks, " "), tags: vec!["row_dominated_separation", "loose_latest", "force_w2"] }
}
pub fn gen_alp(rng: &mut Rng) -> ExInst {
    if rng.chance(1, 4) { return gen_alp_row_dominated(rng); }
    let mut tags: Vec<&'static str> = vec![];
    let r = *rng.pick(&[1usize, 1, 2, 2, 3]);
    let nmax = [7, 6, 5][r - 1];
    let n = if rng.chance(1, 30) { 1 } else { size(rng, 2, nmax) };
    let k = rng.range(1, 3) as usize;
    let smax = *rng.pick(&[2i64, 8, 15]);
    let gap = *rng.pick(&[0i64, 3, 10]);
    if gap == 0 { tags.push("equal_targets"); }
    let mut sep = vec![vec![0i64; k]; k];
    for x in 0..k { for y in 0..k { sep[x][y] = rng.range(0, smax); } }
    let tri = |s: &Vec<Vec<i64>>| (0..k).all(|x| (0..k).all(|y| (0..k).all(|z| s[x][z] <= s[x][y] + s[y][z])));
    let mode = rng.below(100);
    if (80..86).contains(&mode) && !tri(&sep) { tags.push("ood_no_triangle"); }
    else { while !tri(&sep) { for x in 0..k { for y in 0..k { for z in 0..k { if sep[x][y] + sep[y][z] < sep[x][z] { sep[x][z] = sep[x][y] + sep[y][z]; } } } } } }
    if sep.iter().flatten().any(|x| *x == 0) { tags.push("zero_separation"); }
    let mut ac: Vec<(i64, i64, usize)> = vec![];
    let mut t = rng.range(0, 5);
    let slack = *rng.pick(&[1i64, 3, 3, 100]);
    tags.push(match slack { 1 => "tight_latest", 3 => "medium_latest", _ => "loose_latest" });
    for _ in 0..n {
        let latest = t + if slack == 100 { 100 } else { rng.range(0, slack * smax) };
        ac.push((t, latest, rng.below(k as u64) as usize));
        t += rng.range(0, gap);
    }
    let sorted_latest = |ac: &Vec<(i64, i64, usize)>| (0..k).all(|c| { let v: Vec<i64> = ac.iter().filter(|a| a.2 == c).map(|a| a.1).collect(); v.windows(2).all(|w| w[0] <= w[1]) });
    let sorted_target = |ac: &Vec<(i64, i64, usize)>| (0..k).all(|c| { let v: Vec<i64> = ac.iter().filter(|a| a.2 == c).map(|a| a.0).collect(); v.windows(2).all(|w| w[0] <= w[1]) });
    if (86..93).contains(&mode) && !sorted_latest(&ac) { tags.push("ood_unsorted_latest"); }
    else {
        let mut last = vec![0i64; k];
        for a in ac.iter_mut() { a.1 = a.1.max(last[a.2]); last[a.2] = a.1; }
    }
    if (93..100).contains(&mode) {
        shuffle(rng, &mut ac);
        if !sorted_target(&ac) { tags.push("ood_unsorted_targets"); } else if !sorted_latest(&ac) { tags.push("ood_unsorted_latest"); }
    }
    if n == 1 { tags.push("single_aircraft"); }
    if r > 1 { tags.push("several_runways"); }
    let mut file = format!("{} {} {}\n", n, k, r);
    for a in &ac { file.push_str(&format!("{} {} {}\n", a.0, a.1, a.2)); }
    for row in &sep { file.push_str(&format!("{}\n", join(row, " "))); }
    let mut toks = vec![n as i64, k as i64, r as i64];
    for a in &ac { toks.push(a.0); toks.push(a.1); toks.push(a.2 as i64); }
    toks.extend(sep.iter().flatten().copied());
    ExInst { file, tokens: join(&toks, " "), tags }
}
