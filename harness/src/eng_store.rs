//! Engines `cache` (C18, C09) and `dom` (C10, C18): operation sequences against the real
//! `SimpleCache` / `SimpleDominanceChecker` through their public traits, sequentially (exhaustive
//! short sequences + random long ones) and in concurrent phases with real threads.
use crate::{out::{Out, catch}, rng::Rng, Args};
use ddo::*;
use std::sync::{Arc, Barrier};
use std::hash::{Hash, Hasher};

/// A state whose `Hash` is deliberately slow: widens the window between the read and the write of
/// a non-atomic read-modify-write so that real-thread phases can observe lost updates.
#[derive(Clone, Debug, PartialEq, Eq)]
pub struct SlowKey(pub i64, pub u32);
impl Hash for SlowKey {
    fn hash<H: Hasher>(&self, h: &mut H) {
        let mut x = self.0 as u64;
        for _ in 0..self.1 { x = std::hint::black_box(x.wrapping_mul(6364136223846793005).wrapping_add(1442695040888963407)); }
        std::hint::black_box(x);
        self.0.hash(h)
    }
}

struct NVars(usize);
impl Problem for NVars {
    type State = SlowKey;
    fn nb_variables(&self) -> usize { self.0 }
    fn initial_state(&self) -> SlowKey { SlowKey(0, 0) }
    fn initial_value(&self) -> isize { 0 }
    fn transition(&self, s: &SlowKey, _: Decision) -> SlowKey { s.clone() }
    fn transition_cost(&self, _: &SlowKey, _: &SlowKey, _: Decision) -> isize { 0 }
    fn next_variable(&self, _: usize, _: &mut dyn Iterator<Item = &SlowKey>) -> Option<Variable> { None }
    fn for_each_in_domain(&self, _: Variable, _: &SlowKey, _: &mut dyn DecisionCallback) {}
}

#[derive(Clone, Debug)]
pub enum COp { Get(i64, usize), Upd(i64, usize, isize, bool), Must(i64, usize, isize), ClearLayer(usize), Clear }
impl COp {
    fn tok(&self) -> String {
        match self {
            COp::Get(s, d) => format!("g {} {}", s, d),
            COp::Upd(s, d, v, e) => format!("u {} {} {} {}", s, d, v, *e as u8),
            COp::Must(s, d, v) => format!("m {} {} {}", s, d, v),
            COp::ClearLayer(d) => format!("l {}", d),
            COp::Clear => "c".into(),
        }
    }
}
fn thr_tok(t: Option<Threshold>) -> String {
    match t { None => "none".into(), Some(t) => format!("t {} {}", t.value, t.explored as u8) }
}
fn apply_cache(c: &SimpleCache<SlowKey>, op: &COp, slow: u32) -> String {
    let r = catch(|| match op {
        COp::Get(s, d) => thr_tok(c.get_threshold(&SlowKey(*s, slow), *d)),
        COp::Upd(s, d, v, e) => { c.update_threshold(Arc::new(SlowKey(*s, slow)), *d, *v, *e); "-".into() }
        COp::Must(s, d, v) => {
            let sub = SubProblem { state: Arc::new(SlowKey(*s, slow)), value: *v, path: vec![], ub: isize::MAX, depth: *d };
            format!("b {}", c.must_explore(&sub) as u8)
        }
        COp::ClearLayer(d) => { c.clear_layer(*d); "-".into() }
        COp::Clear => { c.clear(); "-".into() }
    });
    r.unwrap_or_else(|| "panic".into())
}
fn new_cache(n: usize) -> SimpleCache<SlowKey> {
    let mut c = SimpleCache::default();
    c.initialize(&NVars(n));
    c
}
fn run_cache_seq(out: &mut Out, n: usize, ops: &[COp], tag: &str) {
    let c = new_cache(n);
    let outs: Vec<String> = ops.iter().map(|o| apply_cache(&c, o, 0)).collect();
    let case = format!("seq {} ; {}", n, ops.iter().map(|o| o.tok()).collect::<Vec<_>>().join(" ; "));
    let mut tags = vec![tag.to_string()];
    if ops.iter().any(|o| matches!(o, COp::ClearLayer(_) | COp::Clear)) { tags.push("clear".into()); }
    if outs.iter().any(|o| o == "panic") { tags.push("panic".into()); }
    if ops.iter().filter(|o| matches!(o, COp::Upd(..))).count() >= 2 { tags.push("multi_update".into()); }
    out.case_tagged(&case, &outs.join(" ; "), &tags.join(" "));
}
/// concurrent phase: `threads[i]` is a list of (state, depth, value, explored) updates, each followed by a get
fn run_cache_conc(out: &mut Out, n: usize, pre: &[COp], threads: &[Vec<(i64, usize, isize, bool)>], keys: &[(i64, usize)], slow: u32) {
    let c = new_cache(n);
    for o in pre { apply_cache(&c, o, slow); }
    let bar = Barrier::new(threads.len());
    let obs: Vec<Vec<String>> = std::thread::scope(|sc| {
        let hs: Vec<_> = threads.iter().map(|ops| {
            let c = &c; let bar = &bar;
            sc.spawn(move || {
                bar.wait();
                ops.iter().map(|(s, d, v, e)| {
                    c.update_threshold(Arc::new(SlowKey(*s, slow)), *d, *v, *e);
                    thr_tok(c.get_threshold(&SlowKey(*s, slow), *d))
                }).collect::<Vec<_>>()
            })
        }).collect();
        hs.into_iter().map(|h| h.join().unwrap()).collect()
    });
    let fin: Vec<String> = keys.iter().map(|(s, d)| thr_tok(c.get_threshold(&SlowKey(*s, slow), *d))).collect();
    let case = format!("conc {} ; {} | {} | {}", n,
        pre.iter().map(|o| o.tok()).collect::<Vec<_>>().join(" ; "),
        threads.iter().map(|t| t.iter().map(|(s, d, v, e)| format!("{} {} {} {}", s, d, v, *e as u8)).collect::<Vec<_>>().join(" ; ")).collect::<Vec<_>>().join(" / "),
        keys.iter().map(|(s, d)| format!("{} {}", s, d)).collect::<Vec<_>>().join(" ; "));
    let imp = format!("{} | {}", obs.iter().map(|t| t.join(" ; ")).collect::<Vec<_>>().join(" / "), fin.join(" ; "));
    out.case_tagged(&case, &imp, &format!("concurrent threads{}", threads.len()));
}

pub fn run_cache(a: &Args) {
    let mut out = Out::new(&a.out, "cache");
    if let Some(r) = &a.replay { replay_cache(&mut out, r); out.finish(); return; }
    // exhaustive: all sequences of length <= L over the alphabet below
    let mut alpha: Vec<COp> = vec![];
    for s in 0..2i64 { for d in 0..2usize {
        for v in 0..2isize { for e in [false, true] { alpha.push(COp::Upd(s, d, v, e)); } }
        alpha.push(COp::Get(s, d));
    }}
    alpha.push(COp::Must(0, 0, 1)); alpha.push(COp::Must(1, 1, 0));
    alpha.push(COp::ClearLayer(0)); alpha.push(COp::ClearLayer(1)); alpha.push(COp::Clear);
    alpha.push(COp::Get(0, 2)); // out of range for n = 1
    let maxlen = if a.thorough { 4 } else { 3 };
    for len in 1..=maxlen {
        let mut idx = vec![0usize; len];
        'outer: loop {
            let ops: Vec<COp> = idx.iter().map(|&i| alpha[i].clone()).collect();
            // skip sequences that cannot observe anything (no get / must at the end)
            if matches!(ops[len - 1], COp::Get(..) | COp::Must(..)) { run_cache_seq(&mut out, 1, &ops, "exhaustive"); }
            let mut k = len;
            loop { if k == 0 { break 'outer; } k -= 1; idx[k] += 1; if idx[k] < alpha.len() { break; } idx[k] = 0; }
        }
    }
    let mut rng = Rng::new(a.seed);
    let nrand = if a.thorough { 4000 } else { 300 };
    for _ in 0..nrand {
        let n = rng.range(0, 3) as usize;
        let len = rng.range(5, 120) as usize;
        let ops: Vec<COp> = (0..len).map(|_| {
            let s = rng.range(0, 3); let d = if rng.chance(1, 40) { n + 1 } else { rng.range(0, n as i64) as usize };
            let v = if rng.chance(1, 20) { *rng.pick(&[isize::MIN, isize::MAX, isize::MAX - 1]) } else { rng.range(-3, 3) as isize };
            match rng.below(20) {
                0 => COp::ClearLayer(d), 1 => if rng.chance(1, 3) { COp::Clear } else { COp::ClearLayer(d) },
                2..=9 => COp::Upd(s, d, v, rng.chance(1, 2)),
                10..=14 => COp::Get(s, d),
                _ => COp::Must(s, d, v),
            }
        }).collect();
        run_cache_seq(&mut out, n, &ops, "random");
    }
    // concurrent phases
    let nconc = if a.thorough { 400 } else { 60 };
    for i in 0..nconc {
        let t = [2usize, 3, 4, 8, 16][i % 5];
        let nkeys = rng.range(1, 3) as usize;
        let keys: Vec<(i64, usize)> = (0..nkeys).map(|k| (k as i64, (k % 2) as usize)).collect();
        let per = rng.range(3, 40) as usize;
        let threads: Vec<Vec<(i64, usize, isize, bool)>> = (0..t).map(|_| (0..per).map(|_| {
            let (s, d) = *rng.pick(&keys);
            (s, d, rng.range(0, 60) as isize, rng.chance(1, 2))
        }).collect()).collect();
        let pre = if rng.chance(1, 2) { vec![COp::Upd(0, 0, rng.range(0, 30) as isize, false)] } else { vec![] };
        run_cache_conc(&mut out, 1, &pre, &threads, &keys, 400);
    }
    out.finish();
}

fn parse_cop(t: &[&str]) -> COp {
    match t[0] {
        "g" => COp::Get(t[1].parse().unwrap(), t[2].parse().unwrap()),
        "u" => COp::Upd(t[1].parse().unwrap(), t[2].parse().unwrap(), t[3].parse().unwrap(), t[4] == "1"),
        "m" => COp::Must(t[1].parse().unwrap(), t[2].parse().unwrap(), t[3].parse().unwrap()),
        "l" => COp::ClearLayer(t[1].parse().unwrap()),
        "c" => COp::Clear,
        x => panic!("bad cache op {}", x),
    }
}
fn replay_cache(out: &mut Out, r: &str) {
    let t: Vec<&str> = r.split_whitespace().collect();
    let n: usize = t[1].parse().unwrap();
    if t[0] == "seq" {
        let ops: Vec<COp> = r.splitn(2, ';').nth(1).unwrap_or("").split(';').filter(|s| !s.trim().is_empty()).map(|s| parse_cop(&s.split_whitespace().collect::<Vec<_>>())).collect();
        run_cache_seq(out, n, &ops, "replay");
    } else {
        let body = r.splitn(2, ';').nth(1).unwrap();
        let parts: Vec<&str> = body.split('|').collect();
        let pre: Vec<COp> = parts[0].split(';').filter(|s| !s.trim().is_empty()).map(|s| parse_cop(&s.split_whitespace().collect::<Vec<_>>())).collect();
        let threads: Vec<Vec<(i64, usize, isize, bool)>> = parts[1].split('/').map(|th| th.split(';').filter(|s| !s.trim().is_empty()).map(|s| {
            let x: Vec<&str> = s.split_whitespace().collect();
            (x[0].parse().unwrap(), x[1].parse().unwrap(), x[2].parse().unwrap(), x[3] == "1")
        }).collect()).collect();
        let keys: Vec<(i64, usize)> = parts[2].split(';').filter(|s| !s.trim().is_empty()).map(|s| { let x: Vec<&str> = s.split_whitespace().collect(); (x[0].parse().unwrap(), x[1].parse().unwrap()) }).collect();
        // a race may need several attempts to show: repeat the phase
        for _ in 0..20 { run_cache_conc(out, n, &pre, &threads, &keys, 400); }
    }
}

// ============================================================================================
// dominance
#[derive(Clone, Debug, PartialEq, Eq, Hash)]
pub struct DState { pub key: Option<i64>, pub coords: Vec<isize> }
pub struct Rule { pub use_value: bool, pub slow: u32 }
impl Dominance for Rule {
    type State = DState;
    type Key = SlowKey;
    fn get_key(&self, s: Arc<DState>) -> Option<SlowKey> { s.key.map(|k| SlowKey(k, self.slow)) }
    fn nb_dimensions(&self, s: &DState) -> usize { s.coords.len() }
    fn get_coordinate(&self, s: &DState, i: usize) -> isize { s.coords[i] }
    fn use_value(&self) -> bool { self.use_value }
}
#[derive(Clone, Debug)]
pub enum DOp { Q(DState, usize, isize), ClearLayer(usize) }
fn dstate_tok(s: &DState) -> String {
    format!("{} {} {}", s.key.map(|k| k.to_string()).unwrap_or("n".into()), s.coords.len(), s.coords.iter().map(|c| c.to_string()).collect::<Vec<_>>().join(" "))
}
impl DOp {
    fn tok(&self) -> String {
        match self {
            DOp::Q(s, d, v) => format!("q {} {} {}", d, v, dstate_tok(s)),
            DOp::ClearLayer(d) => format!("l {}", d),
        }
    }
}
fn res_tok(r: DominanceCheckResult) -> String {
    format!("{} {}", r.dominated as u8, r.threshold.map(|t| t.to_string()).unwrap_or("none".into()))
}
fn apply_dom(c: &SimpleDominanceChecker<Rule>, op: &DOp) -> String {
    catch(|| match op {
        DOp::Q(s, d, v) => res_tok(c.is_dominated_or_insert(Arc::new(s.clone()), *d, *v)),
        DOp::ClearLayer(d) => { c.clear_layer(*d); "-".into() }
    }).unwrap_or_else(|| "panic".into())
}
fn ord_tok(o: std::cmp::Ordering) -> &'static str { match o { std::cmp::Ordering::Less => "lt", std::cmp::Ordering::Equal => "eq", std::cmp::Ordering::Greater => "gt" } }
fn run_dom_seq(out: &mut Out, n: usize, uv: bool, ops: &[DOp], tag: &str) {
    let c = SimpleDominanceChecker::new(Rule { use_value: uv, slow: 0 }, n);
    let outs: Vec<String> = ops.iter().map(|o| apply_dom(&c, o)).collect();
    // comparator on all pairs of presented entries (first 6)
    let qs: Vec<(&DState, isize)> = ops.iter().filter_map(|o| if let DOp::Q(s, _, v) = o { Some((s, *v)) } else { None }).take(6).collect();
    let mut cmps = vec![];
    for (a, va) in &qs { for (b, vb) in &qs { if a.coords.len() == b.coords.len() { cmps.push(ord_tok(c.cmp(a, *va, b, *vb))); } else { cmps.push("x"); } } }
    let case = format!("seq {} {} ; {}", n, uv as u8, ops.iter().map(|o| o.tok()).collect::<Vec<_>>().join(" ; "));
    let mut tags = vec![tag.to_string()];
    if outs.iter().any(|o| o.starts_with("1 ")) { tags.push("dominated".into()); }
    if outs.iter().any(|o| o == "panic") { tags.push("panic".into()); }
    if ops.iter().any(|o| matches!(o, DOp::ClearLayer(_))) { tags.push("clear".into()); }
    if uv { tags.push("with_value".into()); }
    out.case_tagged(&case, &format!("{} | {}", outs.join(" ; "), cmps.join(" ")), &tags.join(" "));
}
fn run_dom_conc(out: &mut Out, n: usize, uv: bool, threads: &[Vec<(DState, usize, isize)>], probes: &[(DState, usize, isize)], slow: u32) {
    let c = SimpleDominanceChecker::new(Rule { use_value: uv, slow }, n);
    let bar = Barrier::new(threads.len());
    // when all threads have equally many operations they re-synchronise before each one, so that the
    // k-th operations of all threads race with each other (first insertions for a fresh key!)
    let lockstep = threads.iter().all(|t| t.len() == threads[0].len());
    std::thread::scope(|sc| {
        for ops in threads {
            let c = &c; let bar = &bar;
            sc.spawn(move || { bar.wait(); for (s, d, v) in ops { if lockstep { bar.wait(); } c.is_dominated_or_insert(Arc::new(s.clone()), *d, *v); } });
        }
    });
    let fin: Vec<String> = probes.iter().map(|(s, d, v)| res_tok(c.is_dominated_or_insert(Arc::new(s.clone()), *d, *v))).collect();
    let case = format!("conc {} {} ; {} | {}", n, uv as u8,
        threads.iter().map(|t| t.iter().map(|(s, d, v)| format!("{} {} {}", d, v, dstate_tok(s))).collect::<Vec<_>>().join(" ; ")).collect::<Vec<_>>().join(" / "),
        probes.iter().map(|(s, d, v)| format!("{} {} {}", d, v, dstate_tok(s))).collect::<Vec<_>>().join(" ; "));
    out.case_tagged(&case, &fin.join(" ; "), &format!("concurrent threads{}", threads.len()));
}
/// order independence on the implementation itself (C18): the same multiset of states is recorded, single-threaded, in two
/// different orders on two fresh checkers; the same probes afterwards must get the same answers, thresholds included
fn run_dom_perm(out: &mut Out, n: usize, uv: bool, phase: &[(DState, usize, isize)], order_b: &[usize], probes: &[(DState, usize, isize)]) {
    let run = |order: &mut dyn Iterator<Item = usize>| -> Vec<String> {
        let c = SimpleDominanceChecker::new(Rule { use_value: uv, slow: 0 }, n);
        for i in order { let (s, d, v) = &phase[i]; c.is_dominated_or_insert(Arc::new(s.clone()), *d, *v); }
        probes.iter().map(|(s, d, v)| res_tok(c.is_dominated_or_insert(Arc::new(s.clone()), *d, *v))).collect()
    };
    let a = run(&mut (0..phase.len()));
    let b = run(&mut order_b.iter().copied());
    let case = format!("perm {} {} ; {} | {}", n, uv as u8,
        phase.iter().map(|(s, d, v)| format!("{} {} {}", d, v, dstate_tok(s))).collect::<Vec<_>>().join(" ; "),
        probes.iter().map(|(s, d, v)| format!("{} {} {}", d, v, dstate_tok(s))).collect::<Vec<_>>().join(" ; "));
    out.case_tagged(&case, &format!("{} / {}", a.join(" ; "), b.join(" ; ")), if uv { "permuted with_value" } else { "permuted" });
}
pub fn run_dom(a: &Args) {
    let mut out = Out::new(&a.out, "dom");
    if let Some(r) = &a.replay { replay_dom(&mut out, r); out.finish(); return; }
    // exhaustive: all query sequences of length <= L over a small alphabet, with and without value
    let mut alpha: Vec<DOp> = vec![];
    for c0 in 0..3isize { for c1 in 0..2isize { for v in 0..3isize {
        alpha.push(DOp::Q(DState { key: Some(0), coords: vec![c0, c1] }, 0, v));
    }}}
    alpha.push(DOp::Q(DState { key: None, coords: vec![1, 1] }, 0, 1));
    alpha.push(DOp::Q(DState { key: Some(1), coords: vec![1, 0] }, 0, 1));
    alpha.push(DOp::Q(DState { key: Some(0), coords: vec![1, 0] }, 1, 1));
    alpha.push(DOp::ClearLayer(0));
    let maxlen = if a.thorough { 4 } else { 3 };
    for uv in [false, true] { for len in 1..=maxlen {
        let mut idx = vec![0usize; len];
        'outer: loop {
            let ops: Vec<DOp> = idx.iter().map(|&i| alpha[i].clone()).collect();
            if matches!(ops[len - 1], DOp::Q(..)) { run_dom_seq(&mut out, 1, uv, &ops, "exhaustive"); }
            let mut k = len;
            loop { if k == 0 { break 'outer; } k -= 1; idx[k] += 1; if idx[k] < alpha.len() { break; } idx[k] = 0; }
        }
    }}
    let mut rng = Rng::new(a.seed);
    let nrand = if a.thorough { 3000 } else { 250 };
    for _ in 0..nrand {
        let n = rng.range(0, 2) as usize; let uv = rng.chance(1, 2);
        let dims = rng.range(0, 3) as usize;
        let len = rng.range(4, 150) as usize;
        let ops: Vec<DOp> = (0..len).map(|_| {
            let d = if rng.chance(1, 60) { n + 1 } else { rng.range(0, n as i64) as usize };
            if rng.chance(1, 25) { DOp::ClearLayer(d) } else {
                let key = match rng.below(8) { 0 => None, 1 => Some(1), _ => Some(0) };
                let coords = (0..dims).map(|_| rng.range(-2, 3) as isize).collect();
                let v = if rng.chance(1, 30) { *rng.pick(&[isize::MIN, isize::MIN + 1, isize::MAX]) } else { rng.range(-3, 4) as isize };
                DOp::Q(DState { key, coords }, d, v)
            }
        }).collect();
        run_dom_seq(&mut out, n, uv, &ops, "random");
    }
    let nconc = if a.thorough { 300 } else { 50 };
    for i in 0..nconc {
        let t = [2usize, 3, 4, 8, 16][i % 5]; let uv = rng.chance(1, 2);
        let nkeys = rng.range(1, 3);
        let per = rng.range(1, 12) as usize;
        let mk = |rng: &mut Rng| (DState { key: Some(rng.range(0, nkeys - 1)), coords: vec![rng.range(0, 5) as isize, rng.range(0, 5) as isize] }, rng.range(0, 1) as usize, rng.range(0, 4) as isize);
        let threads: Vec<Vec<(DState, usize, isize)>> = (0..t).map(|_| (0..per).map(|_| mk(&mut rng)).collect()).collect();
        let probes: Vec<(DState, usize, isize)> = (0..12).map(|_| mk(&mut rng)).collect();
        run_dom_conc(&mut out, 1, uv, &threads, &probes, 400);
    }
    // permuted recording orders (single-threaded): several incomparable dominators of the same probe, in both orders
    let nperm = if a.thorough { 4000 } else { 400 };
    for _ in 0..nperm {
        let uv = rng.chance(3, 4);
        let nkeys = rng.range(1, 2);
        let mk = |rng: &mut Rng| (DState { key: Some(rng.range(0, nkeys - 1)), coords: vec![rng.range(0, 4) as isize, rng.range(0, 4) as isize] }, rng.range(0, 1) as usize, rng.range(0, 9) as isize);
        let phase: Vec<(DState, usize, isize)> = (0..rng.range(2, 8)).map(|_| mk(&mut rng)).collect();
        let mut order: Vec<usize> = (0..phase.len()).collect();
        if rng.chance(1, 2) { order.reverse(); } else { for i in (1..order.len()).rev() { let j = rng.below(i as u64 + 1) as usize; order.swap(i, j); } }
        // probes weak in every coordinate and in value: dominated by several recorded states
        let probes: Vec<(DState, usize, isize)> = (0..6).map(|_| (DState { key: Some(rng.range(0, nkeys - 1)), coords: vec![rng.range(0, 2) as isize, rng.range(0, 2) as isize] }, rng.range(0, 1) as usize, rng.range(0, 3) as isize)).collect();
        run_dom_perm(&mut out, 1, uv, &phase, &order, &probes);
    }
    // fresh-key races: every thread brings the *first* state of each key at the same moment; the states
    // of different threads are incomparable, so all of them must be recorded and each probe below is
    // dominated by exactly one of them
    for i in 0..nconc {
        let t = [2usize, 3, 4, 8, 16][i % 5]; let uv = i % 2 == 0;
        let nkeys = rng.range(4, 16);
        let threads: Vec<Vec<(DState, usize, isize)>> = (0..t).map(|ti| (0..nkeys).map(|k|
            (DState { key: Some(k), coords: vec![2 * ti as isize, 2 * (t - ti) as isize] }, (k % 2) as usize, 1)).collect()).collect();
        let mut probes = vec![];
        for k in 0..nkeys { for ti in 0..t { if rng.chance(1, 2) || ti == 0 {
            probes.push((DState { key: Some(k), coords: vec![2 * ti as isize - 1, 2 * (t - ti) as isize - 1] }, (k % 2) as usize, 0));
        }}}
        run_dom_conc(&mut out, 1, uv, &threads, &probes, 400);
    }
    out.finish();
}
fn parse_q(x: &[&str]) -> (DState, usize, isize) {
    let d: usize = x[0].parse().unwrap(); let v: isize = x[1].parse().unwrap();
    let key = if x[2] == "n" { None } else { Some(x[2].parse().unwrap()) };
    let nd: usize = x[3].parse().unwrap();
    let coords = (0..nd).map(|i| x[4 + i].parse().unwrap()).collect();
    (DState { key, coords }, d, v)
}
fn replay_dom(out: &mut Out, r: &str) {
    let t: Vec<&str> = r.split_whitespace().collect();
    let n: usize = t[1].parse().unwrap(); let uv = t[2] == "1";
    let body = r.splitn(2, ';').nth(1).unwrap_or("");
    if t[0] == "seq" {
        let ops: Vec<DOp> = body.split(';').filter(|s| !s.trim().is_empty()).map(|s| {
            let x: Vec<&str> = s.split_whitespace().collect();
            if x[0] == "l" { DOp::ClearLayer(x[1].parse().unwrap()) } else { let (s, d, v) = parse_q(&x[1..]); DOp::Q(s, d, v) }
        }).collect();
        run_dom_seq(out, n, uv, &ops, "replay");
    } else if t[0] == "perm" {
        // the second order is not part of the case text: replay tries the reverse and every rotation
        let parts: Vec<&str> = body.split('|').collect();
        let phase: Vec<(DState, usize, isize)> = parts[0].split(';').filter(|s| !s.trim().is_empty()).map(|s| parse_q(&s.split_whitespace().collect::<Vec<_>>())).collect();
        let probes: Vec<(DState, usize, isize)> = parts[1].split(';').filter(|s| !s.trim().is_empty()).map(|s| parse_q(&s.split_whitespace().collect::<Vec<_>>())).collect();
        let k = phase.len();
        let rev: Vec<usize> = (0..k).rev().collect();
        run_dom_perm(out, n, uv, &phase, &rev, &probes);
        for r in 1..k { let o: Vec<usize> = (0..k).map(|i| (i + r) % k).collect(); run_dom_perm(out, n, uv, &phase, &o, &probes); let o2: Vec<usize> = o.iter().rev().copied().collect(); run_dom_perm(out, n, uv, &phase, &o2, &probes); }
    } else {
        let parts: Vec<&str> = body.split('|').collect();
        let threads: Vec<Vec<(DState, usize, isize)>> = parts[0].split('/').map(|th| th.split(';').filter(|s| !s.trim().is_empty()).map(|s| parse_q(&s.split_whitespace().collect::<Vec<_>>())).collect()).collect();
        let probes: Vec<(DState, usize, isize)> = parts[1].split(';').filter(|s| !s.trim().is_empty()).map(|s| parse_q(&s.split_whitespace().collect::<Vec<_>>())).collect();
        for _ in 0..20 { run_dom_conc(out, n, uv, &threads, &probes, 400); }
    }
}
