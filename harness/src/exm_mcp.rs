//! Family `mcp` of engine `exmodel` (C16): pointwise correspondence between the DP model, relaxation (merge, relax, rough
//! bound with its precomputed tables) and ranking of the shipped mcp example (maximum cut) and the Lean model
//! `DdoModel/Examples/McpDp.lean`.  The example's own source files are compiled in (see `build.rs`: copies made at build time
//! from the working tree, with `crate::` re-rooted and nothing else changed).  The instance always goes through the
//! example's own reader (`Graph::from(File)`, as its `main` does); recorded are the adjacency matrix the reader built, the
//! private tables of `McpRelax::new` (`vr`, `nk`, `estimates`, read from the `Debug` text of the value), `next_variable` on
//! every depth, and — along random walks, on the states of the exact layers (breadth first), on merged states and on
//! arbitrary reachable-looking states — every `for_each_in_domain`, `transition`, `transition_cost`, `fast_upper_bound`,
//! `merge` (2–5 states, IN THE ORDER GIVEN), `relax`, `compare`; a few calls outside the domain (panics are answers).
//!
//! A state in full: `depth benef_0 … benef_{n-1}`.  Events (separated by `;`):
//!   `nv n` · `adj row , row , …` (the `Graph` value the reader built) · `tab vr : nk_0 … nk_n : est_0 … est_n` (`McpRelax::new`)
//!   `ord v_0 … v_{n+1}` (`next_variable(depth)`, `n` = None) · `init S : value` · `rub S : bound`
//!   `pv S : value : decisions of the prefix (values, vertices 0, 1, …)` · `dom S : var : values in call order`
//!   `tr S : var val : S' : cost` · `mg S_1 , … , S_k : M` · `rx SRC : DST : M : var val : cost : relaxed cost`
//!   `rk A : B : lt|eq|gt`;  a call that panics answers `panic`; a reader that panics makes the whole answer `panic`.
#[allow(dead_code, unused_imports, clippy::all)]
pub mod ex_mcp {
    include!(concat!(env!("OUT_DIR"), "/ex_mcp.rs"));
}
use crate::{out::Out, rng::Rng};
use ddo::*;
use ex_mcp::{graph::Graph, model::{Mcp, McpRanking, McpState}, relax::McpRelax};

fn join<T: ToString>(v: &[T]) -> String { v.iter().map(|x| x.to_string()).collect::<Vec<_>>().join(" ") }
fn mst(s: &McpState) -> String { if s.benef.is_empty() { s.depth.to_string() } else { format!("{} {}", s.depth, join(&s.benef)) } }
fn mord(o: std::cmp::Ordering) -> &'static str { match o { std::cmp::Ordering::Less => "lt", std::cmp::Ordering::Equal => "eq", _ => "gt" } }
fn or_panic<T: ToString>(x: Option<T>) -> String { x.map(|x| x.to_string()).unwrap_or("panic".into()) }
fn mrub(rlx: &McpRelax, s: &McpState) -> String { or_panic(crate::out::catch(|| rlx.fast_upper_bound(s))) }
fn mdom(pb: &Mcp, var: Variable, s: &McpState) -> Option<Vec<isize>> {
    crate::out::catch(|| { let mut dom: Vec<isize> = vec![]; pb.for_each_in_domain(var, s, &mut |x: Decision| dom.push(x.value)); dom })
}
/// the numbers of one field of the `Debug` text of `McpRelax` (`vr`, `nk`, `estimates` are private; they come after `pb`)
fn debug_field(txt: &str, name: &str) -> Vec<i64> {
    let key = format!(", {}: ", name);
    let at = txt.rfind(&key).expect("field of McpRelax") + key.len();
    let rest = &txt[at..];
    let end = if rest.starts_with('[') { rest.find(']').unwrap() + 1 } else { rest.find(|c: char| c == ',' || c == ' ' || c == '}').unwrap() };
    rest[..end].split(|c: char| !(c.is_ascii_digit() || c == '-')).filter(|x| !x.is_empty()).map(|x| x.parse().unwrap()).collect()
}
/// the instance file; `style` bits: 1 = a comment line first, 2 = several blanks between numbers, 4 = indented lines and
/// blank lines, 8 = a comment line between the edges
fn mfile(n: usize, edges: &[(usize, usize, i64)], style: u64) -> String {
    let sep = if style & 2 != 0 { "   " } else { " " };
    let ind = if style & 4 != 0 { "  " } else { "" };
    let mut f = String::new();
    if style & 1 != 0 { f.push_str("c random instance of the ddo verification harness\n"); }
    f.push_str(&format!("{}{}{}{}\n", ind, n, sep, edges.len()));
    if style & 4 != 0 { f.push('\n'); }
    for (k, (u, v, w)) in edges.iter().enumerate() {
        if style & 8 != 0 && k == 1 { f.push_str("c 1 2 99\n"); }
        f.push_str(&format!("{}{}{}{}{}{}{}\n", ind, u, sep, v, sep, w, if style & 4 != 0 { " " } else { "" }));
    }
    f
}
/// one step from `s` on the variable of its depth: domain, random decision, transition, cost; events `dom`, `tr`
fn mstep(pb: &Mcp, s: &McpState, ev: &mut Vec<String>, rng: &mut Rng) -> Option<(Decision, isize, McpState)> {
    let var = pb.next_variable(s.depth as usize, &mut std::iter::once(s))?;
    let dom = match mdom(pb, var, s) { Some(d) => d, None => { ev.push(format!("dom {} : {} : panic", mst(s), var.id())); return None; } };
    ev.push(format!("dom {} : {} : {}", mst(s), var.id(), join(&dom)));
    if dom.is_empty() { return None; }
    let val = *rng.pick(&dom);
    let dec = Decision { variable: var, value: val };
    let s2 = pb.transition(s, dec);
    let cost = pb.transition_cost(s, &s2, dec);
    ev.push(format!("tr {} : {} {} : {} : {}", mst(s), var.id(), val, mst(&s2), cost));
    Some((dec, cost, s2))
}
/// a transition that the domain may forbid (panics are answers)
fn mtr_any(pb: &Mcp, s: &McpState, dec: Decision, ev: &mut Vec<String>) {
    let s2 = crate::out::catch(|| pb.transition(s, dec));
    let cost = crate::out::catch(|| pb.transition_cost(s, s2.as_ref().unwrap_or(s), dec));
    ev.push(format!("tr {} : {} {} : {} : {}", mst(s), dec.variable.id(), dec.value, s2.as_ref().map(mst).unwrap_or("panic".into()), or_panic(cost)));
}
/// a node of a layer: the state, the arc it was first reached by, the value and the decisions of that path (exact nodes)
#[derive(Clone)]
struct Node { state: McpState, parent: McpState, dec: Decision, cost: isize, value: isize, decs: Vec<isize>, exact: bool }

fn run_one_mcp(n: usize, edges: &[(usize, usize, i64)], walks: u64, style: u64, rng: &mut Rng) -> String {
    static CNT: std::sync::atomic::AtomicUsize = std::sync::atomic::AtomicUsize::new(0);
    let path = std::env::temp_dir().join(format!("ddo_verif_exmodel_mcp_{}_{}.txt", std::process::id(), CNT.fetch_add(1, std::sync::atomic::Ordering::Relaxed)));
    std::fs::write(&path, mfile(n, edges, style)).expect("cannot write the instance file");
    // as the example's `main`: Graph::from(File), Mcp::from(graph), McpRelax::new(&problem)
    let g = crate::out::catch(|| Graph::from(std::fs::File::open(&path).expect("could not open file")));
    let _ = std::fs::remove_file(&path);
    let g = match g { Some(g) => g, None => return "panic".into() };
    let pb = Mcp::from(g);
    let rlx = McpRelax::new(&pb);
    let rk = McpRanking;
    let nv = pb.nb_variables();
    let mut ev: Vec<String> = vec![];
    ev.push(format!("nv {}", nv));
    ev.push(format!("adj {}", (0..pb.graph.nb_vertices).map(|x| join(&(0..pb.graph.nb_vertices).map(|y| pb.graph[(x, y)]).collect::<Vec<_>>())).collect::<Vec<_>>().join(" , ")));
    let dbg = format!("{:?}", rlx);
    ev.push(format!("tab {} : {} : {}", join(&debug_field(&dbg, "vr")), join(&debug_field(&dbg, "nk")), join(&debug_field(&dbg, "estimates"))));
    let root = pb.initial_state();
    let ord: Vec<String> = (0..=nv + 1).map(|k| pb.next_variable(k, &mut std::iter::once(&root)).map(|v| v.id().to_string()).unwrap_or("n".into())).collect();
    ev.push(format!("ord {}", ord.join(" ")));
    ev.push(format!("init {} : {}", mst(&root), pb.initial_value()));
    ev.push(format!("rub {} : {}", mst(&root), mrub(&rlx, &root)));
    // random walks from the root; `pv` = value and decisions of the prefix
    for _ in 0..walks {
        let mut s = pb.initial_state();
        let mut value = pb.initial_value();
        let mut decs: Vec<isize> = vec![];
        ev.push(format!("pv {} : {} :", mst(&s), value));
        for _ in 0..nv {
            let (dec, cost, s2) = match mstep(&pb, &s, &mut ev, rng) { Some(x) => x, None => break };
            value += cost;
            decs.push(dec.value);
            ev.push(format!("pv {} : {} : {}", mst(&s2), value, join(&decs)));
            ev.push(format!("rub {} : {}", mst(&s2), mrub(&rlx, &s2)));
            ev.push(format!("rk {} : {} : {}", mst(&s), mst(&s2), mord(rk.compare(&s, &s2))));
            s = s2;
        }
    }
    // the exact layers, breadth first through the example's own functions (not recorded: what is used below is)
    let mut layers: Vec<Vec<Node>> = vec![vec![]; nv + 1];
    {
        let mut cur: Vec<(McpState, isize, Vec<isize>)> = vec![(root.clone(), pb.initial_value(), vec![])];
        for depth in 0..nv {
            let var = pb.next_variable(depth, &mut cur.iter().map(|x| &x.0)).expect("next_variable");
            let mut next: Vec<Node> = vec![];
            for (s, v, decs) in cur.iter() {
                let dom = mdom(&pb, var, s).expect("for_each_in_domain panics on a reachable state");
                for val in dom {
                    let dec = Decision { variable: var, value: val };
                    let s2 = pb.transition(s, dec);
                    if next.iter().any(|x| x.state == s2) { continue; }
                    let cost = pb.transition_cost(s, &s2, dec);
                    let mut decs2 = decs.clone(); decs2.push(val);
                    next.push(Node { state: s2, parent: s.clone(), dec, cost, value: v + cost, decs: decs2, exact: true });
                }
            }
            next.truncate(200);
            cur = next.iter().map(|x| (x.state.clone(), x.value, x.decs.clone())).collect();
            layers[depth + 1] = next;
            if cur.is_empty() { break; }
        }
    }
    // merges of 2..=5 states of a layer in a recorded order (exact states, and states reached from merged states of the
    // layers above), the relaxed cost of the arc into each merged-away state, ranking, bound; then a walk from the merged state
    let mut extra: Vec<Vec<Node>> = vec![vec![]; nv + 1];
    for depth in 1..=nv {
        let mut pool: Vec<Node> = layers[depth].clone();
        pool.extend(extra[depth].iter().cloned());
        if pool.len() < 2 { continue; }
        let kmax = (pool.len() as i64).min(5);
        let k = if kmax >= 3 && rng.chance(2, 3) { rng.range(3, kmax) } else { rng.range(2, kmax) } as usize;
        let mut idx: Vec<usize> = (0..pool.len()).collect();
        for i in (1..idx.len()).rev() { let j = rng.below(i as u64 + 1) as usize; idx.swap(i, j); }
        let mut pick: Vec<usize> = idx[..k].to_vec();
        if rng.chance(1, 10) { let dup = pick[0]; pick.push(dup); }
        let pick: Vec<&Node> = pick.iter().map(|i| &pool[*i]).collect();
        // what the merged-away states are: the arc into each of them, and (exact ones) the value of a path to it
        for p in pick.iter() {
            ev.push(format!("tr {} : {} {} : {} : {}", mst(&p.parent), p.dec.variable.id(), p.dec.value, mst(&p.state), p.cost));
            if p.exact { ev.push(format!("pv {} : {} : {}", mst(&p.state), p.value, join(&p.decs))); }
            ev.push(format!("rub {} : {}", mst(&p.state), mrub(&rlx, &p.state)));
        }
        let m = rlx.merge(&mut pick.iter().map(|p| &p.state));
        ev.push(format!("mg {} : {}", pick.iter().map(|p| mst(&p.state)).collect::<Vec<_>>().join(" , "), mst(&m)));
        for p in pick.iter() {
            let c = if rng.chance(1, 4) { rng.range(-30, 30) as isize } else { p.cost };
            ev.push(format!("rx {} : {} : {} : {} {} : {} : {}", mst(&p.parent), mst(&p.state), mst(&m), p.dec.variable.id(), p.dec.value, c, rlx.relax(&p.parent, &p.state, &m, p.dec, c)));
        }
        ev.push(format!("rk {} : {} : {}", mst(&pick[0].state), mst(&pick[1].state), mord(rk.compare(&pick[0].state, &pick[1].state))));
        ev.push(format!("rk {} : {} : {}", mst(&m), mst(&pick[0].state), mord(rk.compare(&m, &pick[0].state))));
        ev.push(format!("rub {} : {}", mst(&m), mrub(&rlx, &m)));
        let mut s = m;
        for dd in depth..nv {
            let (dec, cost, s2) = match mstep(&pb, &s, &mut ev, rng) { Some(x) => x, None => break };
            ev.push(format!("rub {} : {}", mst(&s2), mrub(&rlx, &s2)));
            if extra[dd + 1].len() < 6 && !extra[dd + 1].iter().any(|x| x.state == s2) {
                extra[dd + 1].push(Node { state: s2.clone(), parent: s.clone(), dec, cost, value: 0, decs: vec![], exact: false });
            }
            s = s2;
        }
    }
    // arbitrary reachable-looking states (any depth; the benefits of the free vertices, and the stale one of the vertex
    // decided last, are signed sums of the weights towards the decided vertices, or small random numbers): bound, domain on
    // the variable of their depth and on another one, one step, ranking; merges of 2..=4 of them (same depth), relaxed cost
    // of an arc into each, bound of the merged state, a walk from it
    if nv >= 1 {
        let depth = rng.range(0, nv as i64) as usize;
        let k = rng.range(1, 4) as usize;
        let sts: Vec<McpState> = (0..k).map(|_| {
            let free_form = rng.chance(1, 3);
            let signs: Vec<isize> = (0..depth).map(|u| if u == 0 || rng.chance(1, 2) { 1 } else { -1 }).collect();
            let benef: Vec<isize> = (0..nv).map(|l| {
                if l + 1 < depth { 0 }
                else if free_form { rng.range(-9, 9) as isize }
                else { (0..depth.min(l)).map(|u| signs[u] * pb.graph[(u, l)]).sum() }
            }).collect();
            McpState { depth: depth as u16, benef }
        }).collect();
        for s in sts.iter() { ev.push(format!("rub {} : {}", mst(s), mrub(&rlx, s))); }
        let other = Variable(rng.below(nv as u64 + 1) as usize);
        ev.push(format!("dom {} : {} : {}", mst(&sts[0]), other.id(), mdom(&pb, other, &sts[0]).map(|x| join(&x)).unwrap_or("panic".into())));
        if let Some((_, _, s2)) = mstep(&pb, &sts[0], &mut ev, rng) {
            ev.push(format!("rub {} : {}", mst(&s2), mrub(&rlx, &s2)));
            ev.push(format!("rk {} : {} : {}", mst(&sts[0]), mst(&s2), mord(rk.compare(&sts[0], &s2))));
        }
        if k >= 2 {
            let m = rlx.merge(&mut sts.iter());
            ev.push(format!("mg {} : {}", sts.iter().map(mst).collect::<Vec<_>>().join(" , "), mst(&m)));
            for s in sts.iter() {
                let c = rng.range(-30, 30) as isize;
                let dec = Decision { variable: Variable(depth.saturating_sub(1)), value: if rng.chance(1, 2) { 1 } else { -1 } };
                ev.push(format!("rx {} : {} : {} : {} {} : {} : {}", mst(&root), mst(s), mst(&m), dec.variable.id(), dec.value, c, rlx.relax(&root, s, &m, dec, c)));
            }
            ev.push(format!("rk {} : {} : {}", mst(&sts[0]), mst(&sts[1]), mord(rk.compare(&sts[0], &sts[1]))));
            ev.push(format!("rub {} : {}", mst(&m), mrub(&rlx, &m)));
            let mut s = m;
            loop {
                let (_, _, s2) = match mstep(&pb, &s, &mut ev, rng) { Some(x) => x, None => break };
                ev.push(format!("rub {} : {}", mst(&s2), mrub(&rlx, &s2)));
                s = s2;
            }
        }
    }
    // calls outside the domain: a value that is neither S nor T, a variable that does not exist, a decision on a variable
    // other than the one of the depth, a state deeper than the last layer, a benefit vector that is too short, the merge of
    // no state at all, the merge of states of different depths (the depth of the first one is kept)
    if rng.chance(1, 3) {
        let depth = rng.range(0, nv as i64 + 2) as usize;
        let len = if rng.chance(1, 4) { rng.below(nv as u64 + 1) as usize } else { nv };
        let s = McpState { depth: depth as u16, benef: (0..len).map(|_| rng.range(-6, 6) as isize).collect() };
        let var = Variable(rng.below(nv as u64 + 2) as usize);
        let val = *rng.pick(&[1isize, -1, 0, 2, -3]);
        mtr_any(&pb, &s, Decision { variable: var, value: val }, &mut ev);
        ev.push(format!("rub {} : {}", mst(&s), mrub(&rlx, &s)));
        ev.push(format!("rk {} : {} : {}", mst(&s), mst(&root), mord(rk.compare(&s, &root))));
        ev.push(format!("dom {} : {} : {}", mst(&s), var.id(), mdom(&pb, var, &s).map(|x| join(&x)).unwrap_or("panic".into())));
        let none: Vec<McpState> = vec![];
        ev.push(format!("mg : {}", crate::out::catch(|| rlx.merge(&mut none.iter())).as_ref().map(mst).unwrap_or("panic".into())));
        if len == nv {
            let two = [s.clone(), root.clone()];
            ev.push(format!("mg {} , {} : {}", mst(&two[0]), mst(&two[1]), crate::out::catch(|| rlx.merge(&mut two.iter())).as_ref().map(mst).unwrap_or("panic".into())));
            let c = rng.range(-9, 9) as isize;
            ev.push(format!("rx {} : {} : {} : 0 1 : {} : {}", mst(&root), mst(&s), mst(&root), c, or_panic(crate::out::catch(|| rlx.relax(&root, &s, &root, Decision { variable: Variable(0), value: 1 }, c)))));
        }
    }
    ev.join(" ; ")
}

/// random small instance: 0–9 vertices (the specification enumerates `2^n` sides), weights of any sign; vertices 1-based
/// as in the file.  In the domain of the format: every edge listed once, two distinct end points in `1..=n`.
fn gen_mcp(rng: &mut Rng) -> (usize, Vec<(usize, usize, i64)>, Vec<String>) {
    let mut tags: Vec<String> = vec![];
    let n = if rng.chance(1, 60) { 0 } else if rng.chance(1, 30) { 1 } else { *rng.pick(&[2usize, 3, 3, 4, 4, 5, 5, 6, 6, 6, 7, 7, 7, 8, 8, 9]) };
    // weights: positive / tiny (ties) / zeros included / mixed signs / all negative / unit / large mixed
    let mode = *rng.pick(&[0u64, 0, 1, 2, 3, 3, 3, 4, 5, 6]);
    let num = *rng.pick(&[1u64, 2, 2, 3, 3, 4, 4, 4]);
    let mut edges: Vec<(usize, usize, i64)> = vec![];
    for u in 0..n { for v in (u + 1)..n { if rng.below(4) < num {
        let w = match mode { 0 => rng.range(1, 9), 1 => rng.range(1, 2), 2 => rng.range(0, 4), 3 => rng.range(-5, 9), 4 => rng.range(-9, -1), 5 => 1, _ => rng.range(-40, 40) };
        edges.push(if rng.chance(1, 2) { (u + 1, v + 1, w) } else { (v + 1, u + 1, w) });
    } } }
    for i in (1..edges.len()).rev() { let j = rng.below(i as u64 + 1) as usize; edges.swap(i, j); }
    tags.push(["w_positive", "w_tiny", "w_zero_incl", "w_mixed_sign", "w_all_negative", "unweighted", "w_large_mixed"][mode as usize].into());
    if edges.iter().any(|e| e.2 < 0) { tags.push("negative_weights".into()); }
    if edges.iter().any(|e| e.2 == 0) { tags.push("zero_weight".into()); }
    if num == 4 && n >= 2 { tags.push("complete_graph".into()); }
    if n == 0 { tags.push("empty_graph".into()); }
    if n == 1 { tags.push("single_vertex".into()); }
    if n > 1 && edges.is_empty() { tags.push("no_edges".into()); }
    // outside the domain of the format (the model mirrors the reader all the same): a repeated edge (the last weight is
    // kept), a self-loop (lands on the diagonal of the matrix), an end point outside 1..=n (the reader panics)
    if !edges.is_empty() && rng.chance(1, 40) {
        let (u, v, _) = *rng.pick(&edges);
        let at = rng.below(edges.len() as u64 + 1) as usize;
        edges.insert(at, if rng.chance(1, 2) { (v, u, rng.range(-9, 9)) } else { (u, v, rng.range(-9, 9)) });
        tags.push("ood_duplicate_edges".into());
    }
    if n >= 1 && rng.chance(1, 60) {
        let v = rng.range(1, n as i64) as usize;
        let at = rng.below(edges.len() as u64 + 1) as usize;
        edges.insert(at, (v, v, rng.range(-9, 9)));
        tags.push("ood_self_loop".into());
    }
    if n >= 1 && rng.chance(1, 80) {
        let v = rng.range(1, n as i64) as usize;
        let bad = if rng.chance(1, 3) { 0 } else { n + rng.range(1, 2) as usize };
        let at = rng.below(edges.len() as u64 + 1) as usize;
        edges.insert(at, if rng.chance(1, 2) { (v, bad, rng.range(-9, 9)) } else { (bad, v, rng.range(-9, 9)) });
        tags.push("ood_vertex_out_of_range".into());
    }
    (n, edges, tags)
}
fn mcase(n: usize, edges: &[(usize, usize, i64)], walks: u64, wseed: u64, style: u64) -> String {
    format!("mcp | {} {} {} | {} {} {}", n, edges.len(), edges.iter().map(|(u, v, w)| format!("{} {} {}", u, v, w)).collect::<Vec<_>>().join(" "), walks, wseed, style)
}

/// replay of one case: "mcp | n m (u v w)*m | walks seed style"
pub fn replay(parts: &[&str]) -> String {
    let t: Vec<i64> = parts[1].split_whitespace().map(|x| x.parse().unwrap()).collect();
    let (n, m) = (t[0] as usize, t[1] as usize);
    let edges: Vec<(usize, usize, i64)> = (0..m).map(|i| (t[2 + 3 * i] as usize, t[3 + 3 * i] as usize, t[4 + 3 * i])).collect();
    let u: Vec<u64> = parts[2].split_whitespace().map(|x| x.parse().unwrap()).collect();
    let mut r2 = Rng::new(u[1]);
    crate::out::catch(|| run_one_mcp(n, &edges, u[0], u[2], &mut r2)).unwrap_or("panic".into())
}
/// the generated cases of the family
pub fn generate(out: &mut Out, rng: &mut Rng, ninst: usize) {
    for _ in 0..ninst {
        let (n, edges, mut tags) = gen_mcp(rng);
        let walks = rng.range(1, 3) as u64; let wseed = rng.next() >> 1;
        let style = rng.below(16);
        let mut r2 = Rng::new(wseed);
        let imp = crate::out::catch(|| run_one_mcp(n, &edges, walks, style, &mut r2)).unwrap_or("panic".into());
        let big = imp.split(" ; ").filter(|e| e.starts_with("mg ")).any(|e| e.matches(" , ").count() >= 2);
        if big { tags.push("merge_of_3_or_more".into()); }
        if imp == "panic" { tags.push("reader_panics".into()); }
        out.case_tagged(&mcase(n, &edges, walks, wseed, style), &imp, &tags.join(" "));
    }
}
