//! Engine `ex` (C16): black-box runs of the shipped example programs (built from /repo's working tree with
//! `cargo build --offline --examples`) on randomly generated small instance files, for widths {1,2,3,default} and
//! threads {1,2,4}.  The printed objective is compared by the Lean driver with an independent exhaustive
//! specification of the underlying combinatorial problem (`DdoModel/Examples/*.lean`).
//! One generator per example lives in `ex_<name>.rs`-style functions below / in `exgen.rs`.
use crate::{out::Out, rng::Rng, Args};
use std::io::Read;
use std::process::{Command, Stdio};

/// a generated instance: the text of the instance file, the integer tokens handed to the Lean specification,
/// and tags describing what is special about it
pub struct ExInst { pub file: String, pub tokens: String, pub tags: Vec<&'static str> }

pub struct Example {
    pub name: &'static str,
    pub gen: fn(&mut Rng) -> ExInst,
    /// command line for (instance path, width or None for the default, threads)
    pub args: fn(&str, Option<usize>, usize) -> Vec<String>,
    /// extracts `obj <int|none> aborted <0/1>` (or another canonical token list) from the program's stdout
    pub parse: fn(&str) -> String,
    /// does the example accept a thread count?
    pub threads: bool,
}

pub fn std_parse(stdout: &str) -> String {
    let mut obj = "missing".to_string(); let mut ab = "?".to_string();
    for l in stdout.lines() {
        if let Some(r) = l.strip_prefix("Objective:") { obj = r.trim().to_string(); }
        if let Some(r) = l.strip_prefix("Aborted:") { ab = if r.trim() == "true" { "1".into() } else { "0".into() }; }
    }
    format!("obj {} aborted {}", obj, ab)
}
pub fn std_args(f: &str, w: Option<usize>, t: usize) -> Vec<String> {
    let mut a = vec![f.to_string(), "-t".into(), t.to_string()];
    if let Some(w) = w { a.push("-w".into()); a.push(w.to_string()); }
    a
}

// ------------------------------------------------------------------------------------------ knapsack
/// (capacity, weight, profit) with capacity < weight on which `floor((capacity as f64 / weight as f64) * profit as f64)` is one
/// less than the exact `floor(capacity * profit / weight)` (an integer reached from below by the rounded product)
fn float_traps() -> Vec<(i64, i64, i64)> {
    let mut v = vec![];
    for w in 1..60i64 { for c in 1..w { for p in 1..60i64 {
        if ((c as f64 / w as f64) * p as f64).floor() as i64 != (c * p).div_euclid(w) { v.push((c, w, p)); }
    }}}
    v
}
/// instances built around a fractional item whose exact Dantzig share is an integer: the rough upper bound must not lose it
fn gen_knapsack_ratio_ties(rng: &mut Rng) -> ExInst {
    let traps = float_traps();
    let (c, w, p) = *rng.pick(&traps);
    let n = rng.range(3, 7) as usize;
    let mut items: Vec<(i64, i64)> = vec![(p, w)];
    for _ in 1..n {
        let ww = rng.range(1, (c + 3).max(2));
        let pp = if rng.chance(1, 2) { ((ww * p) / w).max(1) } else { rng.range(1, 60) };
        items.push((pp, ww));
    }
    for i in (1..items.len()).rev() { let j = rng.below(i as u64 + 1) as usize; items.swap(i, j); }
    let extra = rng.range(0, 20);
    let cap = c + *rng.pick(&[0, 0, 1, 2, extra]) + if rng.chance(1, 2) { 0 } else { items[0].1 + items[1].1 };
    let mut file = format!("{} {}\n", items.len(), cap);
    for (pp, ww) in &items { file.push_str(&format!("{} {}\n", pp, ww)); }
    ExInst { file, tokens: format!("{} {} {}", items.len(), cap, items.iter().map(|(pp, ww)| format!("{} {}", pp, ww)).collect::<Vec<_>>().join(" ")), tags: vec!["ratio_ties"] }
}
/// the sharpest form: capacity c; G = (k-1, .) of ratio >= p/w found first by the restricted diagram (incumbent k-1);
/// X = (p, w) does not fit (c < w) and its exact Dantzig share is the integer k = c*p/w; Y = (k, c) of the same ratio
/// comes after X: the optimum k is reached by leaving G out, through a node whose rough bound must be at least k
fn gen_knapsack_trap(rng: &mut Rng) -> ExInst {
    let traps: Vec<(i64, i64, i64)> = float_traps().into_iter().filter(|(c, w, p)| (c * p) % w == 0 && (c * p) / w >= 2).collect();
    let (c, w, p) = *rng.pick(&traps);
    let k = c * p / w;
    let gw = (((k - 1) * w) / p).max(1).min(c);
    let mut items: Vec<(i64, i64)> = vec![(k - 1, gw), (p, w), (k, c)];
    if rng.chance(1, 3) { items.push((rng.range(1, 3), c + rng.range(1, 9))); }      // never fits
    if rng.chance(1, 4) { items.swap(1, 2); }
    let mut file = format!("{} {}\n", items.len(), c);
    for (pp, ww) in &items { file.push_str(&format!("{} {}\n", pp, ww)); }
    ExInst { file, tokens: format!("{} {} {}", items.len(), c, items.iter().map(|(pp, ww)| format!("{} {}", pp, ww)).collect::<Vec<_>>().join(" ")), tags: vec!["ratio_ties", "integer_share"] }
}
pub fn gen_knapsack(rng: &mut Rng) -> ExInst {
    match rng.below(3) { 0 => return gen_knapsack_ratio_ties(rng), 1 => return gen_knapsack_trap(rng), _ => {} }
    let n = rng.range(1, 9) as usize;
    let w: Vec<i64> = (0..n).map(|_| rng.range(0, 12)).collect();
    let p: Vec<i64> = (0..n).map(|_| rng.range(0, 20)).collect();
    let cap = rng.range(0, w.iter().sum::<i64>().max(1));
    let mut file = format!("{} {}\n", n, cap);
    for i in 0..n { file.push_str(&format!("{} {}\n", p[i], w[i])); }
    let mut tags = vec![];
    if w.iter().any(|x| *x == 0) { tags.push("zero_weight"); }
    if cap == 0 { tags.push("zero_capacity"); }
    ExInst { file, tokens: format!("{} {} {}", n, cap, (0..n).map(|i| format!("{} {}", p[i], w[i])).collect::<Vec<_>>().join(" ")), tags }
}

pub fn examples() -> Vec<Example> {
    let mut v = vec![
        Example { name: "knapsack", gen: gen_knapsack, args: std_args, parse: std_parse, threads: true },
    ];
    v.extend(crate::exgen::more_examples());
    v.extend(crate::exgen_b::more_examples());
    v
}

/// CPU time (user + system, all threads) consumed so far by the process `pid`, in seconds (`/proc/<pid>/stat`, 100 ticks/s)
fn cpu_seconds(pid: u32) -> Option<f64> {
    let s = std::fs::read_to_string(format!("/proc/{}/stat", pid)).ok()?;
    let rest = &s[s.rfind(')')? + 1..];
    let f: Vec<&str> = rest.split_whitespace().collect();
    let (ut, st): (f64, f64) = (f.get(11)?.parse().ok()?, f.get(12)?.parse().ok()?);
    Some((ut + st) / 100.0)
}
/// Runs an example binary under a watchdog that does not depend on how loaded the machine is: the run is declared hung
/// ("timeout") when, past `timeout_s` seconds of wall time, it has either burnt `timeout_s` seconds of CPU (an endless
/// computation) or made no CPU progress at all during the last 20 seconds (a deadlock: the process sleeps); a process that
/// is merely starved of CPU by other jobs keeps advancing slowly and is given up to 15 minutes.
fn run_bin(bin: &str, args: &[String], timeout_s: u64) -> Result<String, String> {
    let mut child = Command::new(bin).args(args).stdout(Stdio::piped()).stderr(Stdio::null()).spawn().map_err(|e| format!("spawn {}", e))?;
    let pid = child.id();
    let t0 = std::time::Instant::now();
    let mut last_probe = 0u64; let mut cpu_then = 0.0f64; let mut idle_since: Option<u64> = None;
    loop {
        match child.try_wait() {
            Ok(Some(st)) => {
                let mut s = String::new(); child.stdout.take().unwrap().read_to_string(&mut s).ok();
                return if st.success() { Ok(s) } else { Err(format!("crash {}", st.code().map(|c| c.to_string()).unwrap_or("signal".into()))) };
            }
            Ok(None) => {
                let wall = t0.elapsed().as_secs();
                if wall > last_probe {
                    last_probe = wall;
                    let cpu = cpu_seconds(pid).unwrap_or(0.0);
                    if cpu > cpu_then + 0.005 { idle_since = None; } else if idle_since.is_none() { idle_since = Some(wall); }
                    cpu_then = cpu;
                    let stalled = idle_since.map_or(false, |t| wall - t >= 20);
                    if wall > timeout_s && (cpu >= timeout_s as f64 || stalled || wall > 900) { let _ = child.kill(); let _ = child.wait(); return Err("timeout".into()); }
                }
                std::thread::sleep(std::time::Duration::from_millis(2));
            }
            Err(e) => return Err(format!("wait {}", e)),
        }
    }
}

pub fn run_ex(a: &Args) {
    let mut out = Out::new(&a.out, "ex");
    let bindir = std::env::var("VERIF_EXAMPLES_DIR").unwrap_or("/verif/.build/cargo_repo/debug/examples".into());
    let work = format!("{}.work", a.out);
    std::fs::create_dir_all(format!("{}/d", work)).ok();
    let exs = examples();
    let only: Vec<String> = a.extra.iter().filter(|x| !x.starts_with("--")).cloned().collect();
    if let Some(r) = &a.replay {
        // "<name> <width|-1> <threads> | <tokens> | <hex of the instance file>"
        let parts: Vec<&str> = r.split('|').collect();
        let h: Vec<&str> = parts[0].split_whitespace().collect();
        let ex = exs.iter().find(|e| e.name == h[0]).expect("unknown example");
        let file: String = String::from_utf8((0..parts[2].trim().len() / 2).map(|i| u8::from_str_radix(&parts[2].trim()[2 * i..2 * i + 2], 16).unwrap()).collect()).unwrap();
        let path = format!("{}/d/replay_{}.txt", work, ex.name);
        std::fs::write(&path, &file).unwrap();
        let w: i64 = h[1].parse().unwrap(); let t: usize = h[2].parse().unwrap();
        let res = run_bin(&format!("{}/{}", bindir, ex.name), &(ex.args)(&path, if w < 0 { None } else { Some(w as usize) }, t), 60);
        let imp = match res { Ok(s) => (ex.parse)(&s), Err(e) => e };
        out.case_tagged(r, &imp, "replay");
        out.finish(); return;
    }
    let mut rng = Rng::new(a.seed);
    // `--per=<quick>,<thorough>`: instances per example (two width x thread combinations each)
    let per = a.extra.iter().find_map(|x| x.strip_prefix("--per=").map(|v| { let t: Vec<usize> = v.split(',').map(|y| y.parse().unwrap()).collect(); if a.thorough { t[1] } else { t[0] } })).unwrap_or(if a.thorough { 400 } else { 24 });
    // the corpus of minimised past failures runs first (same line format as a replay)
    let corpus = std::fs::read_to_string(std::env::var("VERIF_C16_CORPUS").unwrap_or("/verif/corpus/C16/cases.txt".into())).unwrap_or_default();
    for ex in exs.iter().filter(|e| only.is_empty() || only.iter().any(|o| o == e.name)) {
        let bin = format!("{}/{}", bindir, ex.name);
        for (k, line) in corpus.lines().filter(|l| !l.starts_with('#') && l.split_whitespace().next() == Some(ex.name)).enumerate() {
            let parts: Vec<&str> = line.split('|').collect();
            let h: Vec<&str> = parts[0].split_whitespace().collect();
            let file: String = String::from_utf8((0..parts[2].trim().len() / 2).map(|i| u8::from_str_radix(&parts[2].trim()[2 * i..2 * i + 2], 16).unwrap()).collect()).unwrap();
            let path = format!("{}/d/corpus_{}_{}.txt", work, ex.name, k);
            std::fs::write(&path, &file).unwrap();
            let w: i64 = h[1].parse().unwrap(); let t: usize = h[2].parse().unwrap();
            let res = run_bin(&bin, &(ex.args)(&path, if w < 0 { None } else { Some(w as usize) }, t), 60);
            let imp = match res { Ok(s) => (ex.parse)(&s), Err(e) => e };
            out.case_tagged(line.trim(), &imp, &format!("{} corpus", ex.name));
            std::fs::remove_file(&path).ok();
        }
        for k in 0..per {
            let inst = (ex.gen)(&mut rng);
            // instances outside the documented input domain of the example (tags `ood_*`) are not part of the property
            if inst.tags.iter().any(|t| t.starts_with("ood_")) { continue; }
            let path = format!("{}/d/{}_{}.txt", work, ex.name, k);
            std::fs::write(&path, &inst.file).unwrap();
            // widths {1,2,3,default} x threads {1,2,4}: two combinations per instance, all of them over the run
            let combos: Vec<(Option<usize>, usize)> = vec![([Some(1), Some(2), Some(3), None][k % 4], [1usize, 2, 4][k % 3]), ([Some(1), Some(2), Some(3), None][(k + 1 + k / 4) % 4], [1usize, 2, 4][(k + 1) % 3])];
            // a generator may ask for a particular width (tag `force_w<k>`): families built around a width-specific mechanism
            let combos: Vec<(Option<usize>, usize)> = match inst.tags.iter().find_map(|t| t.strip_prefix("force_w").and_then(|x| x.parse::<usize>().ok())) {
                Some(fw) => vec![(Some(fw), combos[0].1), (combos[1].0, combos[1].1)],
                None => combos,
            };
            for (w, t) in combos {
                let t = if ex.threads { t } else { 1 };
                let res = run_bin(&bin, &(ex.args)(&path, w, t), 60);
                let imp = match res { Ok(s) => (ex.parse)(&s), Err(e) => e };
                let hexfile: String = inst.file.bytes().map(|b| format!("{:02x}", b)).collect();
                let mut tags: Vec<String> = vec![ex.name.to_string(), format!("w{}", w.map(|x| x.to_string()).unwrap_or("default".into())), format!("t{}", t)];
                tags.extend(inst.tags.iter().map(|s| s.to_string()));
                out.case_tagged(&format!("{} {} {} | {} | {}", ex.name, w.map(|x| x as i64).unwrap_or(-1), t, inst.tokens, hexfile), &imp, &tags.join(" "));
            }
            std::fs::remove_file(&path).ok();
        }
    }
    std::fs::remove_dir_all(&work).ok();
    out.finish();
}
