//! Family `psp` of engine `exmodel` (C16): pointwise correspondence between the DP model, relaxation (merge, relax, rough
//! bound with its spanning-tree table) and ranking of the shipped psp example and the Lean model `DdoModel/Examples/PspDp.lean`.
//! The example's own source files are compiled in (see `build.rs`: copies made at build time from the working tree, with
//! `crate::` re-rooted and nothing else changed).  The instance always goes through the example's own reader (a file: `Psp` has
//! no constructor, its tables are built by `read_instance`); recorded are the public tables of the `Psp` value, the table of
//! `ub_utils::all_mst`, `next_variable` on every depth, and — along random walks, on the states of the exact layers (breadth
//! first), on merged states and on arbitrary reachable-looking states — every `for_each_in_domain`, `transition`,
//! `transition_cost`, `fast_upper_bound`, `merge` (2–5 states, IN THE ORDER GIVEN), `relax`, `compare`.
//!
//! A state in full: `time next pd_0 … pd_{n-1}`.  Events (separated by `;`):
//!   `dims n_items horizon` · `stk h…` · `chg row , row , …` · `pdt row , …` · `rdt row , …` (the `Psp` value the reader built)
//!   `mst v_0 … v_{2^n-1}` (`all_mst(&pb.changeover)`) · `nv k` · `ord v_0 … ` (`next_variable(depth)`, depth 0..=horizon+1, `n` = None)
//!   `init S : value` · `rub S : bound` · `pv S : value : decisions of the prefix (values, periods horizon-1, horizon-2, …)`
//!   `dom S : var : values in call order` · `tr S : var val : S' : cost` · `mg S_1 , … , S_k : M`
//!   `rx SRC : DST : M : var val : cost : relaxed cost` · `rk A : B : lt|eq|gt`;  a call that panics answers `panic`.
#[allow(dead_code, unused_imports, clippy::all)]
pub mod ex_psp {
    include!(concat!(env!("OUT_DIR"), "/ex_psp.rs"));
}
use crate::{out::Out, rng::Rng};
use ddo::*;
use ex_psp::{io_utils::read_instance, model::{Psp, PspRanking, PspRelax, PspState, IDLE}, ub_utils::all_mst};

fn join<T: ToString>(v: &[T]) -> String { v.iter().map(|x| x.to_string()).collect::<Vec<_>>().join(" ") }
fn rows<T: ToString>(v: &[Vec<T>]) -> String { v.iter().map(|r| join(r)).collect::<Vec<_>>().join(" , ") }
fn pst(s: &PspState) -> String { format!("{} {} {}", s.time, s.next, join(&s.prev_demands)) }
fn pord(o: std::cmp::Ordering) -> &'static str { match o { std::cmp::Ordering::Less => "lt", std::cmp::Ordering::Equal => "eq", _ => "gt" } }
fn prub(rlx: &PspRelax, s: &PspState) -> String {
    crate::out::catch(|| rlx.fast_upper_bound(s)).map(|x| x.to_string()).unwrap_or("panic".into())
}
fn pdom(pb: &Psp, var: Variable, s: &PspState) -> Option<Vec<isize>> {
    crate::out::catch(|| { let mut dom: Vec<isize> = vec![]; pb.for_each_in_domain(var, s, &mut |x: Decision| dom.push(x.value)); dom })
}
/// the instance file; `style` bits: 1 = trailing optimum, 2 = trailing blanks on matrix rows, 4 = several blanks between numbers
fn pfile(t_hor: usize, n: usize, q: &[Vec<i64>], h: &[i64], d: &[Vec<i64>], style: u64) -> String {
    let sep = if style & 4 != 0 { "  " } else { " " };
    let row = |r: &[i64]| -> String { let mut s = r.iter().map(|x| x.to_string()).collect::<Vec<_>>().join(sep); if style & 2 != 0 { s.push(' '); } s };
    let total: i64 = d.iter().flatten().sum();
    let mut f = format!("{}\n{}\n{}\n\n", t_hor, n, total);
    for a in 0..n { f.push_str(&row(&q[a])); f.push('\n'); }
    f.push('\n');
    f.push_str(&row(h)); f.push_str("\n\n");
    for i in 0..n { f.push_str(&row(&d[i])); f.push('\n'); }
    if style & 1 != 0 { f.push_str("\n0\n"); }
    f
}
/// one step from `s` on the variable of depth `horizon - s.time`: domain, random decision, transition, cost; events `dom`, `tr`
fn pstep(pb: &Psp, s: &PspState, ev: &mut Vec<String>, rng: &mut Rng) -> Option<(Decision, isize, PspState)> {
    if s.time > pb.horizon { return None; }
    let var = pb.next_variable(pb.horizon - s.time, &mut std::iter::once(s))?;
    let dom = match pdom(pb, var, s) { Some(d) => d, None => { ev.push(format!("dom {} : {} : panic", pst(s), var.id())); return None; } };
    ev.push(format!("dom {} : {} : {}", pst(s), var.id(), join(&dom)));
    if dom.is_empty() { return None; }
    let val = *rng.pick(&dom);
    let dec = Decision { variable: var, value: val };
    let s2 = pb.transition(s, dec);
    let cost = pb.transition_cost(s, &s2, dec);
    ev.push(format!("tr {} : {} {} : {} : {}", pst(s), var.id(), val, pst(&s2), cost));
    Some((dec, cost, s2))
}
/// a transition that the domain may forbid (panics are answers)
fn ptr_any(pb: &Psp, s: &PspState, dec: Decision, ev: &mut Vec<String>) {
    let s2 = crate::out::catch(|| pb.transition(s, dec));
    let cost = crate::out::catch(|| pb.transition_cost(s, s2.as_ref().unwrap_or(s), dec));
    ev.push(format!("tr {} : {} {} : {} : {}", pst(s), dec.variable.id(), dec.value,
        s2.as_ref().map(pst).unwrap_or("panic".into()), cost.map(|c| c.to_string()).unwrap_or("panic".into())));
}
/// a node of an exact layer: the state, the arc it was first reached by, the value and the decisions of that path
#[derive(Clone)]
struct Node { state: PspState, parent: PspState, dec: Decision, cost: isize, value: isize, decs: Vec<isize>, exact: bool }

fn run_one_psp(t_hor: usize, n: usize, q: &[Vec<i64>], h: &[i64], d: &[Vec<i64>], walks: u64, style: u64, rng: &mut Rng) -> String {
    let path = std::env::temp_dir().join(format!("ddo_verif_exmodel_psp_{}.txt", std::process::id()));
    std::fs::write(&path, pfile(t_hor, n, q, h, d, style)).expect("cannot write the instance file");
    let r = read_instance(&path);
    let _ = std::fs::remove_file(&path);
    let pb: Psp = r.expect("the example's reader rejects the instance");
    let rlx = PspRelax::new(&pb);
    let rk = PspRanking;
    let hor = pb.horizon;
    let mut ev: Vec<String> = vec![];
    // the value the reader built, the spanning-tree table of the bound
    ev.push(format!("dims {} {}", pb.n_items, pb.horizon));
    ev.push(format!("stk {}", join(&pb.stocking)));
    ev.push(format!("chg {}", rows(&pb.changeover)));
    ev.push(format!("pdt {}", rows(&pb.prev_demands)));
    ev.push(format!("rdt {}", rows(&pb.rem_demands)));
    ev.push(format!("mst {}", join(&all_mst(&pb.changeover))));
    ev.push(format!("nv {}", pb.nb_variables()));
    let root = pb.initial_state();
    let ord: Vec<String> = (0..=hor + 1).map(|k| pb.next_variable(k, &mut std::iter::once(&root)).map(|v| v.id().to_string()).unwrap_or("n".into())).collect();
    ev.push(format!("ord {}", ord.join(" ")));
    ev.push(format!("init {} : {}", pst(&root), pb.initial_value()));
    ev.push(format!("rub {} : {}", pst(&root), prub(&rlx, &root)));
    // random walks from the root; `pv` = value and decisions of the prefix
    for _ in 0..walks {
        let mut s = pb.initial_state();
        let mut value = pb.initial_value();
        let mut decs: Vec<isize> = vec![];
        ev.push(format!("pv {} : {} :", pst(&s), value));
        for _ in 0..hor {
            let (dec, cost, s2) = match pstep(&pb, &s, &mut ev, rng) { Some(x) => x, None => break };
            value += cost;
            decs.push(dec.value);
            ev.push(format!("pv {} : {} : {}", pst(&s2), value, join(&decs)));
            ev.push(format!("rub {} : {}", pst(&s2), prub(&rlx, &s2)));
            s = s2;
        }
    }
    // the exact layers, breadth first through the example's own functions (not recorded: what is used below is)
    let mut layers: Vec<Vec<Node>> = vec![vec![]; hor + 1];
    {
        let mut cur: Vec<(PspState, isize, Vec<isize>)> = vec![(root.clone(), pb.initial_value(), vec![])];
        for depth in 0..hor {
            let var = pb.next_variable(depth, &mut cur.iter().map(|x| &x.0)).expect("next_variable");
            let mut next: Vec<Node> = vec![];
            for (s, v, decs) in cur.iter() {
                let dom = pdom(&pb, var, s).expect("for_each_in_domain panics on a reachable state");
                for val in dom {
                    let dec = Decision { variable: var, value: val };
                    let s2 = pb.transition(s, dec);
                    if next.iter().any(|x| x.state == s2) { continue; }
                    let cost = pb.transition_cost(s, &s2, dec);
                    let mut decs2 = decs.clone(); decs2.push(val);
                    next.push(Node { state: s2, parent: s.clone(), dec, cost, value: v + cost, decs: decs2, exact: true });
                }
            }
            next.truncate(300);
            cur = next.iter().map(|x| (x.state.clone(), x.value, x.decs.clone())).collect();
            layers[depth + 1] = next;
            if cur.is_empty() { break; }
        }
    }
    // merges of 2..=5 states of a layer in a recorded order (exact states, and states reached from merged states of the
    // layers above), the relaxed cost of the arc into each merged-away state, ranking, bound; then a walk from the merged state
    let mut extra: Vec<Vec<Node>> = vec![vec![]; hor + 1];
    for depth in 1..=hor {
        let mut pool: Vec<Node> = layers[depth].clone();
        pool.extend(extra[depth].iter().cloned());
        if pool.len() < 2 { continue; }
        let nmerge = if pool.len() >= 4 { rng.range(1, 3) } else { 1 };
        for _ in 0..nmerge {
            let kmax = (pool.len() as i64).min(5);
            let k = if kmax >= 3 && rng.chance(2, 3) { rng.range(3, kmax) } else { rng.range(2, kmax) } as usize;
            // distinct states in a random order; two times out of three the picks favour differing `next` items
            let mut idx: Vec<usize> = (0..pool.len()).collect();
            for i in (1..idx.len()).rev() { let j = rng.below(i as u64 + 1) as usize; idx.swap(i, j); }
            let mut pick: Vec<usize> = vec![];
            if rng.chance(2, 3) {
                for i in idx.iter() { if pick.len() < k && !pick.iter().any(|p| pool[*p].state.next == pool[*i].state.next) { pick.push(*i); } }
            }
            for i in idx.iter() { if pick.len() < k && !pick.contains(i) { pick.push(*i); } }
            if rng.chance(1, 2) { for i in (1..pick.len()).rev() { let j = rng.below(i as u64 + 1) as usize; pick.swap(i, j); } }
            if rng.chance(1, 10) { let dup = pick[0]; pick.push(dup); }
            let pick: Vec<&Node> = pick.iter().map(|i| &pool[*i]).collect();
            // what the merged-away states are: the arc into each of them, and (exact ones) the value of a path to it
            for p in pick.iter() {
                ev.push(format!("tr {} : {} {} : {} : {}", pst(&p.parent), p.dec.variable.id(), p.dec.value, pst(&p.state), p.cost));
                if p.exact { ev.push(format!("pv {} : {} : {}", pst(&p.state), p.value, join(&p.decs))); }
                ev.push(format!("rub {} : {}", pst(&p.state), prub(&rlx, &p.state)));
            }
            let m = rlx.merge(&mut pick.iter().map(|p| &p.state));
            ev.push(format!("mg {} : {}", pick.iter().map(|p| pst(&p.state)).collect::<Vec<_>>().join(" , "), pst(&m)));
            for p in pick.iter() {
                let c = if rng.chance(1, 4) { rng.range(-30, 9) as isize } else { p.cost };
                ev.push(format!("rx {} : {} : {} : {} {} : {} : {}", pst(&p.parent), pst(&p.state), pst(&m), p.dec.variable.id(), p.dec.value, c, rlx.relax(&p.parent, &p.state, &m, p.dec, c)));
            }
            ev.push(format!("rk {} : {} : {}", pst(&pick[0].state), pst(&pick[1].state), pord(rk.compare(&pick[0].state, &pick[1].state))));
            ev.push(format!("rk {} : {} : {}", pst(&m), pst(&pick[0].state), pord(rk.compare(&m, &pick[0].state))));
            ev.push(format!("rub {} : {}", pst(&m), prub(&rlx, &m)));
            let mut s = m;
            for dd in depth..hor {
                let (dec, cost, s2) = match pstep(&pb, &s, &mut ev, rng) { Some(x) => x, None => break };
                ev.push(format!("rub {} : {}", pst(&s2), prub(&rlx, &s2)));
                if extra[dd + 1].len() < 6 && !extra[dd + 1].iter().any(|x| x.state == s2) {
                    extra[dd + 1].push(Node { state: s2.clone(), parent: s.clone(), dec, cost, value: 0, decs: vec![], exact: false });
                }
                s = s2;
            }
        }
    }
    // arbitrary reachable-looking states (any time, any `next`, each `prev_demands[i]` one of the due dates of item i or -1):
    // bound, domain on the variable of their depth and on another one, one step, ranking; merges of 2..=4 of them (same
    // time), relaxed cost of an arc into each, bound of the merged state, a walk from it
    for _ in 0..2 {
        let time = rng.range(0, hor as i64) as usize;
        let k = rng.range(1, 4) as usize;
        let sts: Vec<PspState> = (0..k).map(|_| {
            let pd: Vec<isize> = (0..pb.n_items).map(|i| {
                let mut dues: Vec<isize> = vec![-1];
                for t in 0..hor { if d[i][t] > 0 { dues.push(t as isize); } }
                if rng.chance(1, 2) { *dues.last().unwrap() } else { *rng.pick(&dues) }
            }).collect();
            PspState { time, next: rng.range(-1, pb.n_items as i64 - 1) as isize, prev_demands: pd }
        }).collect();
        for s in sts.iter() { ev.push(format!("rub {} : {}", pst(s), prub(&rlx, s))); }
        let other = Variable(rng.below(hor as u64) as usize);
        ev.push(format!("dom {} : {} : {}", pst(&sts[0]), other.id(), pdom(&pb, other, &sts[0]).map(|x| join(&x)).unwrap_or("panic".into())));
        if let Some((_, _, s2)) = pstep(&pb, &sts[0], &mut ev, rng) {
            ev.push(format!("rub {} : {}", pst(&s2), prub(&rlx, &s2)));
            ev.push(format!("rk {} : {} : {}", pst(&sts[0]), pst(&s2), pord(rk.compare(&sts[0], &s2))));
        }
        if k >= 2 {
            let m = rlx.merge(&mut sts.iter());
            ev.push(format!("mg {} : {}", sts.iter().map(pst).collect::<Vec<_>>().join(" , "), pst(&m)));
            for s in sts.iter() {
                let c = rng.range(-30, 9) as isize;
                let dec = Decision { variable: Variable(time.min(hor - 1)), value: s.next };
                ev.push(format!("rx {} : {} : {} : {} {} : {} : {}", pst(&root), pst(s), pst(&m), dec.variable.id(), dec.value, c, rlx.relax(&root, s, &m, dec, c)));
            }
            ev.push(format!("rk {} : {} : {}", pst(&sts[0]), pst(&sts[1]), pord(rk.compare(&sts[0], &sts[1]))));
            ev.push(format!("rub {} : {}", pst(&m), prub(&rlx, &m)));
            let mut s = m;
            loop {
                let (_, _, s2) = match pstep(&pb, &s, &mut ev, rng) { Some(x) => x, None => break };
                ev.push(format!("rub {} : {}", pst(&s2), prub(&rlx, &s2)));
                s = s2;
            }
        }
    }
    // calls outside the domain: an item without remaining demand (index -1), a decision on a terminal state (`time -= 1`
    // underflows: a panic under the overflow checks of the harness profile), the idle decision anywhere
    if rng.chance(1, 3) {
        let var = Variable(rng.below(hor as u64) as usize);
        let i = rng.below(pb.n_items as u64) as isize;
        let mut s = root.clone();
        if rng.chance(1, 2) { s.prev_demands[i as usize] = -1; }
        if rng.chance(1, 3) { s.time = 0; }
        ptr_any(&pb, &s, Decision { variable: var, value: if rng.chance(1, 4) { IDLE } else { i } }, &mut ev);
    }
    ev.join(" ; ")
}

/// `q[a][c] <= q[a][b] + q[b][c]` for all a, b, c (equal indices included)
fn triangle(q: &[Vec<i64>]) -> bool {
    let n = q.len();
    (0..n).all(|a| (0..n).all(|b| (0..n).all(|c| q[a][c] <= q[a][b] + q[b][c])))
}
/// random small instance: 1–4 items, 2–7 periods; `tri` = the changeover costs satisfy the triangle inequality (the
/// CSPLib 058 setting), else they are raw random numbers that violate it
fn gen_psp(rng: &mut Rng, tri: bool) -> (usize, usize, Vec<Vec<i64>>, Vec<i64>, Vec<Vec<i64>>, Vec<String>) {
    let mut tags: Vec<String> = vec![];
    let heavy = rng.chance(1, 3);
    let n = if !tri { *rng.pick(&[3usize, 3, 3, 4]) } else if heavy { *rng.pick(&[2usize, 2, 3, 3, 4]) } else { *rng.pick(&[1usize, 2, 2, 3, 3, 3, 4, 4]) };
    let tmax = [0i64, 7, 7, 6, 5][n];
    let t_hor = if heavy { rng.range(4.min(tmax), tmax) } else { rng.range(2, tmax) } as usize;
    let mut d = vec![vec![0i64; t_hor]; n];
    let dmode = if heavy { 3 } else { rng.below(6) };
    if dmode == 0 { // raw random demands: possibly infeasible
        let num = rng.range(1, 3) as u64;
        for i in 0..n { for t in 0..t_hor { if rng.below(2 * n as u64 + 2) < num { d[i][t] = 1; } } }
    } else { // feasible by construction: draw a plan, then a due date not before each production
        let busy = if dmode == 1 { (1, 1) } else if heavy { (4, 5) } else { (rng.range(1, 4) as u64, 4) };
        for s in 0..t_hor {
            if !rng.chance(busy.0, busy.1) { continue; }
            let i = rng.below(n as u64) as usize;
            let free: Vec<usize> = (s..t_hor).filter(|t| d[i][*t] == 0).collect();
            if free.is_empty() { continue; }
            let t = if !heavy && rng.chance(1, 3) { free[0] } else { *rng.pick(&free) };
            d[i][t] = 1;
        }
    }
    let mut cum = 0i64; let mut feasible = true;
    for t in 0..t_hor { for i in 0..n { cum += d[i][t]; } if cum > t as i64 + 1 { feasible = false; } }
    if heavy { tags.push("merge_heavy".into()); }
    if !feasible { tags.push("infeasible".into()); }
    if cum == 0 { tags.push("no_demand".into()); }
    if feasible && cum == t_hor as i64 { tags.push("all_periods_busy".into()); }
    if n == 1 { tags.push("single_item".into()); }
    if (0..n).any(|i| d[i].iter().all(|x| *x == 0)) && cum > 0 { tags.push("item_without_demand".into()); }
    // changeover costs
    let mut q = vec![vec![0i64; n]; n];
    loop {
        // without the inequality, every other instance has a few very expensive direct changeovers (cheap detours exist)
        let qmode = if !tri && rng.chance(1, 2) { 6 } else if heavy { 4 } else { rng.below(6) };
        for a in 0..n { for b in 0..n { if a != b {
            q[a][b] = match qmode { 0 => 0, 1 => rng.range(1, 2), 2 => if a < b { rng.range(0, 9) } else { q[b][a] }, 3 => rng.range(10, 40),
                                    6 => *rng.pick(&[0i64, 0, 1, 3, 20, 50]), _ => rng.range(0, 9) };
        } } }
        if tri {
            // shortest-path closure: the least costs satisfying the triangle inequality below the drawn ones (asymmetry is kept)
            for b in 0..n { for a in 0..n { for c in 0..n { if a != c && q[a][b] + q[b][c] < q[a][c] { q[a][c] = q[a][b] + q[b][c]; } } } }
        }
        if tri == triangle(&q) { break; }
    }
    if q.iter().flatten().all(|x| *x == 0) && n > 1 { tags.push("zero_changeover".into()); }
    if n > 1 && (0..n).all(|a| (0..n).all(|b| q[a][b] == q[b][a])) { tags.push("symmetric_changeover".into()); }
    if tri && n > 1 && rng.chance(1, 40) {
        // a nonzero diagonal (out of the format's domain; the model and the specification charge it alike) that keeps the inequality
        for a in 0..n { q[a][a] = (0..n).filter(|b| *b != a).map(|b| q[a][b] + q[b][a]).min().unwrap().min(rng.range(1, 5)); }
        if q.iter().enumerate().any(|(a, r)| r[a] != 0) && triangle(&q) { tags.push("ood_nonzero_diagonal".into()); } else { for a in 0..n { q[a][a] = 0; } }
    }
    tags.push(if tri { "triangle".into() } else { "no_triangle".into() });
    let hmode = rng.below(5);
    let h: Vec<i64> = (0..n).map(|_| match hmode { 0 => 0, 1 => 1, 2 => rng.range(5, 20), _ => rng.range(0, 5) }).collect();
    if h.iter().all(|x| *x == 0) { tags.push("zero_stocking".into()); }
    (t_hor, n, q, h, d, tags)
}
fn pcase(t_hor: usize, n: usize, q: &[Vec<i64>], h: &[i64], d: &[Vec<i64>], walks: u64, wseed: u64, style: u64) -> String {
    format!("psp | {} {} {} {} {} | {} {} {}", t_hor, n, q.iter().map(|r| join(r)).collect::<Vec<_>>().join(" "), join(h), d.iter().map(|r| join(r)).collect::<Vec<_>>().join(" "), walks, wseed, style)
}

/// replay of one case: "psp | T n q(n*n) h(n) d(n*T) | walks seed style"
pub fn replay(parts: &[&str]) -> String {
    let t: Vec<i64> = parts[1].split_whitespace().map(|x| x.parse().unwrap()).collect();
    let (t_hor, n) = (t[0] as usize, t[1] as usize);
    let q: Vec<Vec<i64>> = t[2..2 + n * n].chunks(n).map(|c| c.to_vec()).collect();
    let h: Vec<i64> = t[2 + n * n..2 + n * n + n].to_vec();
    let d: Vec<Vec<i64>> = t[2 + n * n + n..].chunks(t_hor).map(|c| c.to_vec()).collect();
    let u: Vec<u64> = parts[2].split_whitespace().map(|x| x.parse().unwrap()).collect();
    let mut r2 = Rng::new(u[1]);
    crate::out::catch(|| run_one_psp(t_hor, n, &q, &h, &d, u[0], u[2], &mut r2)).unwrap_or("panic".into())
}
/// the generated cases of the family: `ninst` instances whose changeover costs satisfy the triangle inequality (the setting
/// of the problem, CSPLib 058), then `ninst / 10` instances that violate it (tag `no_triangle`)
pub fn generate(out: &mut Out, rng: &mut Rng, ninst: usize) {
    // the recorded witness of open finding D15 first (merge is not a relaxation without the triangle inequality)
    {
        let case = "psp | 6 3 0 50 0 50 0 1 1 1 0 0 1 1 0 0 0 1 0 1 0 0 0 1 0 0 0 0 0 0 1 1 | 4 11 1";
        let parts: Vec<&str> = case.split('|').collect();
        let imp = replay(&parts);
        out.case_tagged(case, &imp, "no_triangle corpus");
    }
    for k in 0..ninst + ninst / 10 {
        let (t_hor, n, q, h, d, mut tags) = gen_psp(rng, k < ninst);
        let walks = rng.range(1, 4) as u64; let wseed = rng.next() >> 1;
        let style = rng.below(8);
        let mut r2 = Rng::new(wseed);
        let imp = crate::out::catch(|| run_one_psp(t_hor, n, &q, &h, &d, walks, style, &mut r2)).unwrap_or("panic".into());
        let big = imp.split(" ; ").filter(|e| e.starts_with("mg ")).any(|e| e.matches(" , ").count() >= 2);
        if big { tags.push("merge_of_3_or_more".into()); }
        out.case_tagged(&pcase(t_hor, n, &q, &h, &d, walks, wseed, style), &imp, &tags.join(" "));
    }
}
