//! Family `sop` of engine `exmodel` (C16): pointwise correspondence between the DP model, relaxation (merge, relax, rough
//! bound with its cheapest-edge tables), ranking and width heuristic of the shipped sop example (sequential ordering
//! problem) and the Lean model `DdoModel/Examples/SopDp.lean`.  The example's own source files are compiled in (see
//! `build.rs`: copies made at build time from the working tree, with `crate::` re-rooted and nothing else changed; the type
//! alias `BitSet = Set256` of the example's `main.rs` is repeated in the wrapper module below).  The instance always goes
//! through the example's own reader (`read_instance` on a temporary file, then `Sop::new`, as its `main` does); recorded are
//! the `SopInstance` the reader built, the table `cheapest_edges` of `Sop::new`, `next_variable` on every depth, and — along
//! random walks, on the states of the exact layers (breadth first), on merged states and on arbitrary reachable-looking
//! states — every `for_each_in_domain`, `transition`, `transition_cost`, `fast_upper_bound`, `merge` (2–5 states, or a whole
//! layer, IN THE ORDER GIVEN), `relax`, `compare`, `max_width`; a few calls outside the domain (panics are answers).
//!
//! A set of jobs is ONE token: its members in increasing order separated by `,`, `-` = the empty set.
//! A state in full (5 tokens): `j <job>` or `v <set>` (previous) · `<set>` (must_schedule) · `n` (None) or `<set>` (maybe_schedule) · depth.
//! Events (separated by `;`):
//!   `nv k` · `inst n : row , row , … : pred_0 … pred_{n-1} : npred_0 …` (the `SopInstance` value the reader built)
//!   `tab c j c j … , c j … , …` (`cheapest_edges`: one row per job, pairs `(cost, from)`) · `ord v_0 … v_{nv+1}` (`next_variable(depth)`, `n` = None)
//!   `init S : value` · `rub S : bound` · `pv S : value : decisions of the prefix (jobs)` · `dom S : var : values in call order`
//!   `tr S : var val : S' : cost` · `mg S_1 , … , S_k : M` · `rx SRC : DST : M : var val : cost : relaxed cost`
//!   `rk A : B : lt|eq|gt` · `wd nb_vars factor depth : width`;  a call that panics answers `panic`; a reader or a
//!   constructor that panics makes the whole answer `panic`.
#[allow(dead_code, unused_imports, clippy::all)]
pub mod ex_sop {
    /// `type BitSet = Set256;` of the example's `main.rs` (its modules say `crate::BitSet`)
    pub type BitSet = smallbitset::Set256;
    include!(concat!(env!("OUT_DIR"), "/ex_sop.rs"));
}
use crate::{out::Out, rng::Rng};
use ddo::*;
use ex_sop::{BitSet, heuristics::{SopRanking, SopWidth}, io_utils::read_instance, model::Sop, relax::SopRelax, state::{Previous, SopState}};
use std::sync::Arc;

fn join<T: ToString>(v: &[T]) -> String { v.iter().map(|x| x.to_string()).collect::<Vec<_>>().join(" ") }
fn bs(b: &BitSet) -> String { if b.is_empty() { "-".into() } else { b.iter().map(|x| x.to_string()).collect::<Vec<_>>().join(",") } }
fn set_of(xs: &[usize]) -> BitSet { let mut b = BitSet::empty(); for x in xs { b.add_inplace(*x); } b }
fn sst(s: &SopState) -> String {
    format!("{} {} {} {}",
        match &s.previous { Previous::Job(j) => format!("j {}", j), Previous::Virtual(v) => format!("v {}", bs(v)) },
        bs(&s.must_schedule),
        match &s.maybe_schedule { None => "n".to_string(), Some(m) => bs(m) },
        s.depth)
}
fn sord(o: std::cmp::Ordering) -> &'static str { match o { std::cmp::Ordering::Less => "lt", std::cmp::Ordering::Equal => "eq", _ => "gt" } }
fn or_panic<T: ToString>(x: Option<T>) -> String { x.map(|x| x.to_string()).unwrap_or("panic".into()) }
fn srub(rlx: &SopRelax, s: &SopState) -> String { or_panic(crate::out::catch(|| rlx.fast_upper_bound(s))) }
fn sdom(pb: &Sop, var: Variable, s: &SopState) -> Option<Vec<isize>> {
    crate::out::catch(|| { let mut dom: Vec<isize> = vec![]; pb.for_each_in_domain(var, s, &mut |x: Decision| dom.push(x.value)); dom })
}
fn snext(pb: &Sop, depth: usize, s: &SopState) -> Option<Option<Variable>> { crate::out::catch(|| pb.next_variable(depth, &mut std::iter::once(s))) }
fn smerge(rlx: &SopRelax, sts: &[SopState]) -> String { crate::out::catch(|| rlx.merge(&mut sts.iter())).as_ref().map(sst).unwrap_or("panic".into()) }

/// the instance file; `style` bits: 1 = TSPLIB header lines, 2 = right-aligned cells (several blanks), 4 = an `EOF` line,
/// 8 = further lines after the matrix (ignored by the reader); (16 = whole-layer merges, see `run_one_sop`)
fn sfile(n: usize, d: &[Vec<i64>], style: u64) -> String {
    let mut f = String::new();
    if style & 1 != 0 { f.push_str(&format!("NAME: rnd.sop\nTYPE: SOP\nCOMMENT: generated\nDIMENSION: {}\nEDGE_WEIGHT_TYPE: EXPLICIT\nEDGE_WEIGHT_FORMAT: FULL_MATRIX\n", n)); }
    f.push_str("EDGE_WEIGHT_SECTION\n");
    f.push_str(&format!("{}\n", n));
    for row in d {
        let cells: Vec<String> = row.iter().map(|x| if style & 2 != 0 { format!("{:5}", x) } else { x.to_string() }).collect();
        f.push_str(&format!("{}\n", cells.join(" ")));
    }
    if style & 4 != 0 { f.push_str("EOF\n"); }
    if style & 8 != 0 { f.push_str("7 7 7\n\n-1 -1\n"); }
    f
}
/// one step from `s` on the variable of its depth: domain, random decision, transition, cost; events `dom`, `tr`
fn sstep(pb: &Sop, s: &SopState, ev: &mut Vec<String>, rng: &mut Rng) -> Option<(Decision, isize, SopState)> {
    let var = snext(pb, s.depth, s)??;
    let dom = match sdom(pb, var, s) { Some(d) => d, None => { ev.push(format!("dom {} : {} : panic", sst(s), var.id())); return None; } };
    ev.push(format!("dom {} : {} : {}", sst(s), var.id(), join(&dom)));
    if dom.is_empty() { return None; }
    let val = *rng.pick(&dom);
    let dec = Decision { variable: var, value: val };
    let s2 = crate::out::catch(|| pb.transition(s, dec));
    let cost = crate::out::catch(|| pb.transition_cost(s, s2.as_ref().unwrap_or(s), dec));
    ev.push(format!("tr {} : {} {} : {} : {}", sst(s), var.id(), val, s2.as_ref().map(sst).unwrap_or("panic".into()), or_panic(cost)));
    Some((dec, cost?, s2?))
}
/// a transition that the domain may forbid (panics are answers)
fn str_any(pb: &Sop, s: &SopState, dec: Decision, ev: &mut Vec<String>) {
    let s2 = crate::out::catch(|| pb.transition(s, dec));
    let cost = crate::out::catch(|| pb.transition_cost(s, s2.as_ref().unwrap_or(s), dec));
    ev.push(format!("tr {} : {} {} : {} : {}", sst(s), dec.variable.id(), dec.value, s2.as_ref().map(sst).unwrap_or("panic".into()), or_panic(cost)));
}
fn swidth(nbv: usize, factor: usize, s: &SopState, depth: usize, ev: &mut Vec<String>) {
    let w = crate::out::catch(|| SopWidth::new(nbv, factor).max_width(&SubProblem { state: Arc::new(*s), value: 0, path: vec![], ub: 0, depth }));
    ev.push(format!("wd {} {} {} : {}", nbv, factor, depth, or_panic(w)));
}
/// a node of a layer: the state, the arc it was first reached by, the value and the decisions of that path (exact nodes)
#[derive(Clone)]
struct Node { state: SopState, parent: SopState, dec: Decision, cost: isize, value: isize, decs: Vec<isize>, exact: bool }

fn run_one_sop(n: usize, d: &[Vec<i64>], walks: u64, style: u64, rng: &mut Rng) -> String {
    static CNT: std::sync::atomic::AtomicUsize = std::sync::atomic::AtomicUsize::new(0);
    let path = std::env::temp_dir().join(format!("ddo_verif_exmodel_sop_{}_{}.sop", std::process::id(), CNT.fetch_add(1, std::sync::atomic::Ordering::Relaxed)));
    std::fs::write(&path, sfile(n, d, style)).expect("cannot write the instance file");
    // as the example's `main`: read_instance(fname).unwrap(), Sop::new(instance), SopRelax::new(&problem)
    let pb = crate::out::catch(|| Sop::new(read_instance(&path).unwrap()));
    let _ = std::fs::remove_file(&path);
    let pb = match pb { Some(p) => p, None => return "panic".into() };
    let rlx = SopRelax::new(&pb);
    let rk = SopRanking;
    let mut ev: Vec<String> = vec![];
    let nv = match crate::out::catch(|| pb.nb_variables()) { Some(k) => k, None => { ev.push("nv panic".into()); return ev.join(" ; "); } };
    ev.push(format!("nv {}", nv));
    ev.push(format!("inst {} : {} : {} : {}", pb.instance.nb_jobs,
        pb.instance.distances.iter().map(|r| join(r)).collect::<Vec<_>>().join(" , "),
        pb.instance.predecessors.iter().map(bs).collect::<Vec<_>>().join(" "), join(&pb.instance.n_predecessors)));
    ev.push(format!("tab {}", pb.cheapest_edges.iter().map(|r| r.iter().map(|(c, j)| format!("{} {}", c, j)).collect::<Vec<_>>().join(" ")).collect::<Vec<_>>().join(" , ")));
    let root = pb.initial_state();
    let ord: Vec<String> = (0..=nv + 1).map(|k| pb.next_variable(k, &mut std::iter::once(&root)).map(|v| v.id().to_string()).unwrap_or("n".into())).collect();
    ev.push(format!("ord {}", ord.join(" ")));
    ev.push(format!("init {} : {}", sst(&root), pb.initial_value()));
    ev.push(format!("rub {} : {}", sst(&root), srub(&rlx, &root)));
    swidth(nv, rng.range(1, 4) as usize, &root, 0, &mut ev);
    // random walks from the root; `pv` = value and decisions of the prefix
    for _ in 0..walks {
        let mut s = pb.initial_state();
        let mut value = pb.initial_value();
        let mut decs: Vec<isize> = vec![];
        ev.push(format!("pv {} : {} :", sst(&s), value));
        for _ in 0..nv {
            let (dec, cost, s2) = match sstep(&pb, &s, &mut ev, rng) { Some(x) => x, None => break };
            value = match value.checked_add(cost) { Some(v) => v, None => break };
            decs.push(dec.value);
            ev.push(format!("pv {} : {} : {}", sst(&s2), value, join(&decs)));
            ev.push(format!("rub {} : {}", sst(&s2), srub(&rlx, &s2)));
            ev.push(format!("rk {} : {} : {}", sst(&s), sst(&s2), sord(rk.compare(&s, &s2))));
            s = s2;
        }
        swidth(nv, rng.range(1, 3) as usize, &s, rng.range(0, nv as i64) as usize, &mut ev);
    }
    // the exact layers, breadth first through the example's own functions (not recorded: what is used below is)
    let mut layers: Vec<Vec<Node>> = vec![vec![]; nv + 1];
    {
        let mut cur: Vec<(SopState, isize, Vec<isize>)> = vec![(root, pb.initial_value(), vec![])];
        for depth in 0..nv {
            let var = match pb.next_variable(depth, &mut cur.iter().map(|x| &x.0)) { Some(v) => v, None => break };
            let mut next: Vec<Node> = vec![];
            for (s, v, decs) in cur.iter() {
                let dom = match sdom(&pb, var, s) { Some(d) => d, None => continue };
                for val in dom {
                    let dec = Decision { variable: var, value: val };
                    let s2 = match crate::out::catch(|| pb.transition(s, dec)) { Some(x) => x, None => continue };
                    if next.iter().any(|x| x.state == s2) { continue; }
                    let cost = match crate::out::catch(|| pb.transition_cost(s, &s2, dec)) { Some(x) => x, None => continue };
                    let value = match v.checked_add(cost) { Some(x) => x, None => continue };
                    let mut decs2 = decs.clone(); decs2.push(val);
                    next.push(Node { state: s2, parent: *s, dec, cost, value, decs: decs2, exact: true });
                }
            }
            next.truncate(120);
            cur = next.iter().map(|x| (x.state, x.value, x.decs.clone())).collect();
            layers[depth + 1] = next;
            if cur.is_empty() { break; }
        }
    }
    // merges of 2..=5 states of a layer in a recorded order (exact states, and states reached from merged states of the
    // layers above), the relaxed cost of the arc into each merged-away state, ranking, bound; then a walk from the merged
    // state.  With style bit 16: before that, the merge of the WHOLE exact layer (breadth-first order), as a relaxed
    // compilation of width 1 would do.
    let mut extra: Vec<Vec<Node>> = vec![vec![]; nv + 1];
    for depth in 1..=nv {
        let mut pool: Vec<Node> = layers[depth].clone();
        pool.extend(extra[depth].iter().cloned());
        if pool.len() < 2 { continue; }
        let mut rounds: Vec<Vec<usize>> = vec![];
        if style & 16 != 0 && layers[depth].len() >= 2 { rounds.push((0..layers[depth].len().min(24)).collect()); }
        if style & 16 == 0 || rng.chance(1, 2) {
            let kmax = (pool.len() as i64).min(5);
            let k = if kmax >= 3 && rng.chance(2, 3) { rng.range(3, kmax) } else { rng.range(2, kmax) } as usize;
            let mut idx: Vec<usize> = (0..pool.len()).collect();
            for i in (1..idx.len()).rev() { let j = rng.below(i as u64 + 1) as usize; idx.swap(i, j); }
            let mut pick: Vec<usize> = idx[..k].to_vec();
            if rng.chance(1, 10) { let dup = pick[0]; pick.push(dup); }
            rounds.push(pick);
        }
        for pick in rounds {
            let pick: Vec<&Node> = pick.iter().map(|i| &pool[*i]).collect();
            // what the merged-away states are: the arc into each of them, and (exact ones) the value of a path to it
            for p in pick.iter() {
                ev.push(format!("tr {} : {} {} : {} : {}", sst(&p.parent), p.dec.variable.id(), p.dec.value, sst(&p.state), p.cost));
                if p.exact && pick.len() <= 5 { ev.push(format!("pv {} : {} : {}", sst(&p.state), p.value, join(&p.decs))); }
                ev.push(format!("rub {} : {}", sst(&p.state), srub(&rlx, &p.state)));
            }
            let sts: Vec<SopState> = pick.iter().map(|p| p.state).collect();
            let m = match crate::out::catch(|| rlx.merge(&mut sts.iter())) { Some(m) => m, None => { ev.push(format!("mg {} : panic", sts.iter().map(sst).collect::<Vec<_>>().join(" , "))); continue; } };
            ev.push(format!("mg {} : {}", sts.iter().map(sst).collect::<Vec<_>>().join(" , "), sst(&m)));
            for p in pick.iter() {
                let c = if rng.chance(1, 5) { rng.range(-30, 30) as isize } else { p.cost };
                ev.push(format!("rx {} : {} : {} : {} {} : {} : {}", sst(&p.parent), sst(&p.state), sst(&m), p.dec.variable.id(), p.dec.value, c, or_panic(crate::out::catch(|| rlx.relax(&p.parent, &p.state, &m, p.dec, c)))));
            }
            ev.push(format!("rk {} : {} : {}", sst(&pick[0].state), sst(&pick[1].state), sord(rk.compare(&pick[0].state, &pick[1].state))));
            ev.push(format!("rk {} : {} : {}", sst(&m), sst(&pick[0].state), sord(rk.compare(&m, &pick[0].state))));
            ev.push(format!("rub {} : {}", sst(&m), srub(&rlx, &m)));
            let mut s = m;
            for dd in depth..nv {
                let (dec, cost, s2) = match sstep(&pb, &s, &mut ev, rng) { Some(x) => x, None => break };
                ev.push(format!("rub {} : {}", sst(&s2), srub(&rlx, &s2)));
                if dd + 1 <= nv && extra[dd + 1].len() < 6 && !extra[dd + 1].iter().any(|x| x.state == s2) {
                    extra[dd + 1].push(Node { state: s2, parent: s, dec, cost, value: 0, decs: vec![], exact: false });
                }
                s = s2;
            }
        }
    }
    // arbitrary reachable-looking states: `depth` inner jobs taken out of `must_schedule` (whatever the precedences), the
    // previous job one of them (exact-looking), or a set of them with some of the other jobs demoted to `maybe_schedule`
    // (relaxed-looking, the counts being those of a merge); bound, domain on the variable of their depth and on another one,
    // one step, ranking; merges of 2..=4 of them (same depth), relaxed cost of an arc into each, bound of the merged state,
    // a walk from it
    if nv >= 2 {
        let depth = rng.range(1, nv as i64 - 1) as usize;
        let k = rng.range(1, 4) as usize;
        let sts: Vec<SopState> = (0..k).map(|_| {
            let mut inner: Vec<usize> = (1..n - 1).collect();
            for i in (1..inner.len()).rev() { let j = rng.below(i as u64 + 1) as usize; inner.swap(i, j); }
            let done: Vec<usize> = inner[..depth.min(inner.len())].to_vec();
            let mut rest: Vec<usize> = inner[depth.min(inner.len())..].to_vec();
            rest.push(n - 1);
            if done.is_empty() || rng.chance(1, 2) {
                SopState { previous: Previous::Job(if done.is_empty() { 0 } else { *rng.pick(&done) }), must_schedule: set_of(&rest), maybe_schedule: None, depth }
            } else {
                // `x` jobs that are done here become "maybe" together with `x` jobs that are not: nv - depth jobs remain in all
                let x = rng.range(0, (done.len().min(rest.len() - 1)) as i64) as usize;
                let mut maybe: Vec<usize> = done[..x].to_vec();
                maybe.extend(rest[..x].iter().copied());
                let must: Vec<usize> = rest[x..].to_vec();
                let prev: Vec<usize> = done.iter().copied().filter(|_| rng.chance(2, 3)).collect();
                let prev = if prev.is_empty() { vec![done[0]] } else { prev };
                SopState { previous: Previous::Virtual(set_of(&prev)), must_schedule: set_of(&must), maybe_schedule: if x == 0 && rng.chance(1, 2) { None } else { Some(set_of(&maybe)) }, depth }
            }
        }).collect();
        for s in sts.iter() { ev.push(format!("rub {} : {}", sst(s), srub(&rlx, s))); }
        let other = Variable(rng.below(nv as u64 + 1) as usize);
        ev.push(format!("dom {} : {} : {}", sst(&sts[0]), other.id(), sdom(&pb, other, &sts[0]).map(|x| join(&x)).unwrap_or("panic".into())));
        if let Some((_, _, s2)) = sstep(&pb, &sts[0], &mut ev, rng) {
            ev.push(format!("rub {} : {}", sst(&s2), srub(&rlx, &s2)));
            ev.push(format!("rk {} : {} : {}", sst(&sts[0]), sst(&s2), sord(rk.compare(&sts[0], &s2))));
        }
        if k >= 2 {
            ev.push(format!("mg {} : {}", sts.iter().map(sst).collect::<Vec<_>>().join(" , "), smerge(&rlx, &sts)));
            if let Some(m) = crate::out::catch(|| rlx.merge(&mut sts.iter())) {
                for s in sts.iter() {
                    let c = rng.range(-30, 30) as isize;
                    let dec = Decision { variable: Variable(depth - 1), value: match s.previous { Previous::Job(j) => j as isize, Previous::Virtual(_) => 1 } };
                    ev.push(format!("rx {} : {} : {} : {} {} : {} : {}", sst(&root), sst(s), sst(&m), dec.variable.id(), dec.value, c, rlx.relax(&root, s, &m, dec, c)));
                }
                ev.push(format!("rk {} : {} : {}", sst(&sts[0]), sst(&sts[1]), sord(rk.compare(&sts[0], &sts[1]))));
                ev.push(format!("rub {} : {}", sst(&m), srub(&rlx, &m)));
                let mut s = m;
                for _ in 0..nv + 1 {
                    let (_, _, s2) = match sstep(&pb, &s, &mut ev, rng) { Some(x) => x, None => break };
                    ev.push(format!("rub {} : {}", sst(&s2), srub(&rlx, &s2)));
                    s = s2;
                }
            }
        }
    }
    // calls outside the domain: a job that is not to be scheduled any more / that does not exist / negative, a variable that
    // does not exist, a state deeper than the last layer, jobs beyond the instance in the sets, an empty pool of previous
    // jobs, `Some(empty)`, the merge of no state at all, the merge of states of different depths
    if rng.chance(1, 3) {
        let depth = rng.range(0, nv as i64 + 2) as usize;
        let hi = (n + 2) as u64;
        let rnd_set = |rng: &mut Rng| -> BitSet { let mut b = BitSet::empty(); for x in 0..hi { if rng.chance(1, 3) { b.add_inplace(x as usize); } } b };
        let s = SopState {
            previous: if rng.chance(1, 2) { Previous::Job(rng.below(hi) as usize) } else { Previous::Virtual(if rng.chance(1, 4) { BitSet::empty() } else { rnd_set(&mut *rng) }) },
            must_schedule: rnd_set(&mut *rng),
            maybe_schedule: match rng.below(3) { 0 => None, 1 => Some(BitSet::empty()), _ => Some(rnd_set(&mut *rng)) },
            depth };
        let var = Variable(rng.below(nv as u64 + 2) as usize);
        let val = *rng.pick(&[0isize, 1, 2, -1, n as isize - 1, n as isize, n as isize + 1, 300]);
        str_any(&pb, &s, Decision { variable: var, value: val }, &mut ev);
        ev.push(format!("rub {} : {}", sst(&s), srub(&rlx, &s)));
        ev.push(format!("rk {} : {} : {}", sst(&s), sst(&root), sord(rk.compare(&s, &root))));
        ev.push(format!("dom {} : {} : {}", sst(&s), var.id(), sdom(&pb, var, &s).map(|x| join(&x)).unwrap_or("panic".into())));
        if rng.chance(1, 8) { ev.push(format!("mg : {}", smerge(&rlx, &[]))); }
        let two = [s, root];
        ev.push(format!("mg {} , {} : {}", sst(&two[0]), sst(&two[1]), smerge(&rlx, &two)));
        let c = rng.range(-9, 9) as isize;
        ev.push(format!("rx {} : {} : {} : 0 1 : {} : {}", sst(&root), sst(&s), sst(&root), c, or_panic(crate::out::catch(|| rlx.relax(&root, &s, &root, Decision { variable: Variable(0), value: 1 }, c)))));
        swidth(nv, rng.range(0, 3) as usize, &s, depth, &mut ev);
    }
    ev.join(" ; ")
}

/// the recorded witness of D12 (`/verif/corpus/C16/cases.txt`, `/verif/KNOWN_FINDINGS.txt`): 6 jobs, one precedence
/// "3 before 2"; the example prints 8 with `-w 1`, the optimum is 7 (the corpus holds this matrix, and the same scaled by 2)
const D12_WITNESS: (usize, &[i64]) = (6, &[0, 3, 3, 2, 2, 2, -1, 0, 1, 2, 2, 1, -1, 1, 0, -1, 1, 3, -1, 2, 2, 0, 3, 3, -1, 2, 0, 3, 0, 2, -1, -1, -1, -1, -1, 0]);

/// random small instance (the specification enumerates the permutations of the `n - 2` inner jobs).  In the domain of the
/// format (TSPLIB conventions, as `exgen_b::gen_sop`): job 0 precedes every job (`d[i][0] = -1`), every job precedes job
/// `n-1` (`d[n-1][j] = -1`), the diagonal is 0, all other entries are distances `>= 0` or precedence marks `-1`; the
/// precedences among the inner jobs may be cyclic (no solution) and need not be transitively closed.
fn gen_sop(rng: &mut Rng) -> (usize, Vec<Vec<i64>>, Vec<String>) {
    let mut tags: Vec<String> = vec![];
    let mode = rng.below(100);
    let n = match rng.below(60) { 0 => 0, 1 => 1, 2 | 3 => 2, 4 | 5 => 3, _ => *rng.pick(&[4usize, 5, 5, 6, 6, 6, 6, 7, 7, 7, 8]) };
    let wmax = *rng.pick(&[1i64, 3, 9, 9, 30]);
    let mut d = vec![vec![0i64; n]; n];
    for i in 0..n { for j in 0..n { if i != j { d[i][j] = rng.range(0, wmax); } } }
    let unmarked = n >= 3 && (90..93).contains(&mode);
    if n >= 2 && !unmarked {
        for i in 1..n { d[i][0] = -1; }
        for j in 0..n - 1 { d[n - 1][j] = -1; }
        if n >= 3 && rng.chance(1, 2) { d[0][n - 1] = 1_000_000; }
    }
    if unmarked { tags.push("ood_unmarked_ends".into()); }
    if wmax == 1 && n > 2 { tags.push("ties".into()); }
    if n >= 4 {
        // precedences among the inner jobs, consistent with a hidden random order (hence satisfiable)
        let mut order: Vec<usize> = (1..n - 1).collect();
        for i in (1..order.len()).rev() { let j = rng.below(i as u64 + 1) as usize; order.swap(i, j); }
        let density = *rng.pick(&[0u64, 10, 20, 30, 30, 50, 70]);
        let mut before = vec![vec![false; n]; n]; // before[j][i]: j must precede i
        for a in 0..order.len() { for b in a + 1..order.len() { if rng.below(100) < density { before[order[a]][order[b]] = true; } } }
        if rng.chance(1, 2) {
            for k in 1..n - 1 { for i in 1..n - 1 { for j in 1..n - 1 { if before[i][k] && before[k][j] { before[i][j] = true; } } } }
            if density > 0 { tags.push("transitively_closed".into()); }
        }
        for j in 1..n - 1 { for i in 1..n - 1 { if before[j][i] { d[i][j] = -1; } } }
        // a precedence cycle among inner jobs: no solution
        if (80..86).contains(&mode) {
            let i = rng.range(1, n as i64 - 2) as usize;
            let mut j = rng.range(1, n as i64 - 2) as usize;
            if j == i { j = if i + 1 < n - 1 { i + 1 } else { i - 1 }; }
            d[i][j] = -1; d[j][i] = -1;
            tags.push("infeasible_by_construction".into());
        }
        let any = (1..n - 1).any(|i| (1..n - 1).any(|j| i != j && d[i][j] == -1));
        tags.push(if any { "precedences" } else { "no_precedences" }.into());
    }
    // outside the domain of the format (the model mirrors the code all the same): negative distances other than -1, a
    // `-1` on the diagonal (the job is its own predecessor)
    if n >= 3 && (93..97).contains(&mode) {
        let mut any = false;
        for i in 0..n { for j in 0..n { if i != j && d[i][j] >= 0 && d[i][j] < 1_000_000 && rng.chance(1, 3) { d[i][j] = -rng.range(2, 9); any = true; } } }
        if any { tags.push("ood_negative_weights".into()); }
    }
    if n >= 2 && (97..99).contains(&mode) { let i = rng.below(n as u64) as usize; d[i][i] = if rng.chance(1, 2) { -1 } else { rng.range(1, 5) }; tags.push("ood_diagonal".into()); }
    if n == 0 { tags.push("ood_no_job".into()); }
    if n == 1 { tags.push("single_job".into()); }
    if n == 2 { tags.push("two_jobs".into()); }
    (n, d, tags)
}
fn scase(n: usize, d: &[Vec<i64>], walks: u64, wseed: u64, style: u64) -> String {
    format!("sop | {} {} | {} {} {}", n, d.iter().map(|r| join(r)).collect::<Vec<_>>().join(" "), walks, wseed, style).replace("  ", " ")
}

/// replay of one case: "sop | n d[0][0] … d[n-1][n-1] | walks seed style"
pub fn replay(parts: &[&str]) -> String {
    let t: Vec<i64> = parts[1].split_whitespace().map(|x| x.parse().unwrap()).collect();
    let n = t[0] as usize;
    let d: Vec<Vec<i64>> = (0..n).map(|i| t[1 + i * n..1 + (i + 1) * n].to_vec()).collect();
    let u: Vec<u64> = parts[2].split_whitespace().map(|x| x.parse().unwrap()).collect();
    let mut r2 = Rng::new(u[1]);
    crate::out::catch(|| run_one_sop(n, &d, u[0], u[2], &mut r2)).unwrap_or("panic".into())
}
/// the generated cases of the family: the D12 witness first (whole-layer merges), then random instances
pub fn generate(out: &mut Out, rng: &mut Rng, ninst: usize) {
    for k in 0..ninst {
        let (n, d, mut tags) = if k == 0 {
            let (n, flat) = D12_WITNESS;
            (n, (0..n).map(|i| flat[i * n..(i + 1) * n].to_vec()).collect::<Vec<_>>(), vec!["d12_witness".to_string(), "precedences".to_string()])
        } else { gen_sop(rng) };
        let walks = rng.range(1, 3) as u64; let wseed = rng.next() >> 1;
        let mut style = rng.below(16);
        if k == 0 || (n <= 7 && rng.chance(1, 6)) { style |= 16; tags.push("whole_layer_merges".into()); }
        let mut r2 = Rng::new(wseed);
        let imp = crate::out::catch(|| run_one_sop(n, &d, walks, style, &mut r2)).unwrap_or("panic".into());
        let big = imp.split(" ; ").filter(|e| e.starts_with("mg ")).any(|e| e.matches(" , ").count() >= 2);
        if big { tags.push("merge_of_3_or_more".into()); }
        if imp == "panic" { tags.push("reader_panics".into()); }
        out.case_tagged(&scase(n, &d, walks, wseed, style), &imp, &tags.join(" "));
    }
}
