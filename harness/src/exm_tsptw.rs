//! Family `tsptw` of engine `exmodel` (C16): pointwise correspondence between the DP model, relaxation (merge, relax, rough
//! bound with its cheapest-edge table), ranking, width heuristic and dominance rule of the shipped tsptw example (travelling
//! salesman with time windows, makespan objective) and the Lean model `DdoModel/Examples/TsptwDp.lean`.  The example's own
//! source files are compiled in (see `build.rs`: copies made at build time from the working tree, with `crate::` re-rooted
//! and nothing else changed).  The instance always goes through the example's own reader (`TsptwInstance::from(File)`, as its
//! `main` does); recorded are the integers the reader built (distances and windows, 1/10000 of a time unit), `next_variable`
//! on every depth, and — along random walks, on the states of the exact layers (breadth first), on merged states and on
//! arbitrary reachable-looking states — every `for_each_in_domain`, `transition`, `transition_cost`, `is_impacted_by`,
//! `fast_upper_bound`, `merge` (2–5 states, IN THE ORDER GIVEN), `relax`, `compare`, `max_width`, the dominance rule (key
//! equality through `==` and through a recording hasher, `nb_dimensions`, `get_coordinate`, `use_value`, the inherited
//! `partial_cmp` / `cmp`); a few calls outside the domain (panics are answers).  The table `cheapest_edge` of `TsptwRelax` is
//! private (no `Debug`): it is observed through the bounds only.
//!
//! A state in full: `depth / n i | v i j … / f t | z e l / must … / - | s maybe …` (position: a node or a set; elapsed: fixed
//! or an interval; `-` = `None`).  Events (separated by `;`):
//!   `nv n` · `inst n : d_00 … d_{n-1 n-1} : e_0 l_0 … e_{n-1} l_{n-1}` (the `TsptwInstance` the reader built)
//!   `ord v_0 … v_{n+1}` (`next_variable(depth)`, `n` = None) · `init S : value` · `rub S : bound` (`-inf` = `isize::MIN`)
//!   `pv S : value : decisions of the prefix (cities)` · `dom S : var : values in call order` · `imp S : var : 0|1`
//!   `tr S : var val : S' : cost` · `mg S_1 , … , S_k : M` · `rx SRC : DST : M : var val : cost : relaxed cost`
//!   `rk A : B : lt|eq|gt` · `wd nb_vars factor depth : width` · `uv 0|1` · `dc S : dims : coord_0 coord_1`
//!   `dm A : va : B : vb : key== hash== : none | lt|eq|gt only_val_diff` · `cm A : va : B : vb : lt|eq|gt`;
//!   a call that panics answers `panic`; a reader that panics makes the whole answer `panic`.
#[allow(dead_code, unused_imports, clippy::all)]
pub mod ex_tsptw {
    include!(concat!(env!("OUT_DIR"), "/ex_tsptw.rs"));
}
use crate::{out::Out, rng::Rng};
use ddo::*;
use ex_tsptw::{dominance::TsptwDominance, heuristics::{TsptwRanking, TsptwWidth}, instance::TsptwInstance, model::Tsptw, relax::TsptwRelax, state::{ElapsedTime, Position, TsptwState}};
use smallbitset::Set256;
use std::sync::Arc;

fn join<T: ToString>(v: &[T]) -> String { v.iter().map(|x| x.to_string()).collect::<Vec<_>>().join(" ") }
fn set(s: &Set256) -> String { join(&s.iter().collect::<Vec<_>>()) }
fn mkset(xs: &[usize]) -> Set256 { let mut s = Set256::default(); for x in xs { s.add_inplace(*x); } s }
fn tst(s: &TsptwState) -> String {
    let p = match &s.position { Position::Node(i) => format!("n {}", i), Position::Virtual(v) => format!("v {}", set(v)) };
    let e = match s.elapsed { ElapsedTime::FixedAmount { duration } => format!("f {}", duration), ElapsedTime::FuzzyAmount { earliest, latest } => format!("z {} {}", earliest, latest) };
    let y = match &s.maybe_visit { None => "-".to_string(), Some(m) => format!("s {}", set(m)) };
    format!("{} / {} / {} / {} / {}", s.depth, p, e, set(&s.must_visit), y)
}
fn tord(o: std::cmp::Ordering) -> &'static str { match o { std::cmp::Ordering::Less => "lt", std::cmp::Ordering::Equal => "eq", _ => "gt" } }
fn or_panic<T: ToString>(x: Option<T>) -> String { x.map(|x| x.to_string()).unwrap_or("panic".into()) }
fn trub(rlx: &TsptwRelax, s: &TsptwState) -> String {
    match crate::out::catch(|| rlx.fast_upper_bound(s)) { None => "panic".into(), Some(isize::MIN) => "-inf".into(), Some(x) => x.to_string() }
}
fn tdom(pb: &Tsptw, var: Variable, s: &TsptwState) -> Option<Vec<isize>> {
    crate::out::catch(|| { let mut dom: Vec<isize> = vec![]; pb.for_each_in_domain(var, s, &mut |x: Decision| dom.push(x.value)); dom })
}
/// a hasher that records what it is fed: `TsptwKey::hash` observed exactly
struct Rec(Vec<u8>);
impl std::hash::Hasher for Rec {
    fn finish(&self) -> u64 { 0 }
    fn write(&mut self, bytes: &[u8]) { self.0.extend_from_slice(bytes); }
}
fn key_bytes(s: &TsptwState) -> Option<Vec<u8>> {
    use std::hash::Hash;
    TsptwDominance.get_key(Arc::new(s.clone())).map(|k| { let mut h = Rec(vec![]); k.hash(&mut h); h.0 })
}
fn key_eq(a: &TsptwState, b: &TsptwState) -> String {
    match (TsptwDominance.get_key(Arc::new(a.clone())), TsptwDominance.get_key(Arc::new(b.clone()))) {
        (Some(x), Some(y)) => format!("{} {}", (x == y) as u8, (key_bytes(a) == key_bytes(b)) as u8),
        _ => "none".into(),
    }
}
fn dom_state(s: &TsptwState, ev: &mut Vec<String>) {
    ev.push(format!("dc {} : {} : {} {}", tst(s), TsptwDominance.nb_dimensions(s), TsptwDominance.get_coordinate(s, 0), TsptwDominance.get_coordinate(s, 1)));
}
fn dom_pair(a: &TsptwState, va: isize, b: &TsptwState, vb: isize, ev: &mut Vec<String>) {
    let pc = match TsptwDominance.partial_cmp(a, va, b, vb) { None => "none".to_string(), Some(r) => format!("{} {}", tord(r.ordering), r.only_val_diff as u8) };
    ev.push(format!("dm {} : {} : {} : {} : {} : {}", tst(a), va, tst(b), vb, key_eq(a, b), pc));
    ev.push(format!("cm {} : {} : {} : {} : {}", tst(a), va, tst(b), vb, tord(TsptwDominance.cmp(a, va, b, vb))));
}
/// a time given in hundredths (a multiple of 25) the way the benchmark files write them: `12`, `12.0`, `12.5`, `12.25`
fn dec(h: i64, style: u64, k: usize) -> String {
    if h < 0 { return format!("-{}", dec(-h, style, k)); }
    if h % 100 == 0 { if style & 2 != 0 && k % 3 == 0 { format!("{}.0", h / 100) } else { format!("{}", h / 100) } }
    else if h % 50 == 0 { format!("{}.5", h / 100) }
    else { format!("{}.{:02}", h / 100, h % 100) }
}
/// the instance file; `style` bits: 1 = a comment line first, 2 = some integers written `x.0`, 4 = indented lines and a blank
/// line between the matrix and the windows, 8 = a comment line inside the matrix
fn tfile(n: usize, d: &[Vec<i64>], tw: &[(i64, i64)], style: u64) -> String {
    let ind = if style & 4 != 0 { "  " } else { "" };
    let mut f = String::new();
    if style & 1 != 0 { f.push_str("# random instance of the ddo verification harness\n"); }
    f.push_str(&format!("{}{}\n", ind, n));
    for (i, row) in d.iter().enumerate() {
        if style & 8 != 0 && i == 1 { f.push_str("# 1 2 3\n"); }
        f.push_str(&format!("{}{}\n", ind, row.iter().enumerate().map(|(j, x)| dec(*x, style, i + j)).collect::<Vec<_>>().join(if style & 4 != 0 { "   " } else { " " })));
    }
    if style & 4 != 0 { f.push('\n'); }
    for (i, (e, l)) in tw.iter().enumerate() { f.push_str(&format!("{}{}   {}\n", ind, dec(*e, style, i), dec(*l, style, i + 1))); }
    f
}
/// one step from `s` on the variable of its depth: domain, random decision, transition, cost; events `dom`, `imp`, `tr`
fn tstep(pb: &Tsptw, s: &TsptwState, ev: &mut Vec<String>, rng: &mut Rng) -> Option<(Decision, isize, TsptwState)> {
    let var = pb.next_variable(s.depth as usize, &mut std::iter::once(s))?;
    let dom = match tdom(pb, var, s) { Some(d) => d, None => { ev.push(format!("dom {} : {} : panic", tst(s), var.id())); return None; } };
    ev.push(format!("dom {} : {} : {}", tst(s), var.id(), join(&dom)));
    if dom.is_empty() { return None; }
    let val = *rng.pick(&dom);
    let dec = Decision { variable: var, value: val };
    let s2 = pb.transition(s, dec);
    let cost = pb.transition_cost(s, &s2, dec);
    ev.push(format!("tr {} : {} {} : {} : {}", tst(s), var.id(), val, tst(&s2), cost));
    Some((dec, cost, s2))
}
/// a transition that the domain may forbid (panics are answers)
fn ttr_any(pb: &Tsptw, s: &TsptwState, dec: Decision, ev: &mut Vec<String>) {
    let s2 = crate::out::catch(|| pb.transition(s, dec));
    let cost = crate::out::catch(|| pb.transition_cost(s, s2.as_ref().unwrap_or(s), dec));
    ev.push(format!("tr {} : {} {} : {} : {}", tst(s), dec.variable.id(), dec.value, s2.as_ref().map(tst).unwrap_or("panic".into()), or_panic(cost)));
}
fn width(nv: usize, factor: usize, s: &TsptwState, depth: usize, ev: &mut Vec<String>) {
    let w = crate::out::catch(|| TsptwWidth::new(nv, factor).max_width(&SubProblem { state: Arc::new(s.clone()), value: 0, path: vec![], ub: 0, depth }));
    ev.push(format!("wd {} {} {} : {}", nv, factor, depth, or_panic(w)));
}
/// a node of a layer: the state, the arc it was first reached by, the value and the decisions of that path (exact nodes)
#[derive(Clone)]
struct Node { state: TsptwState, parent: TsptwState, dec: Decision, cost: isize, value: isize, decs: Vec<isize>, exact: bool }

/// an arbitrary reachable-looking state of the given depth
fn arbitrary(pb: &Tsptw, depth: usize, rng: &mut Rng) -> TsptwState {
    let n = pb.nb_variables();
    if depth >= n {
        // the last layer: back at the depot (in time), nothing left
        return TsptwState { position: Position::Node(0), elapsed: ElapsedTime::FixedAmount { duration: (rng.range(0, 40) as usize * 2500).min(pb.instance.timewindows[0].latest) }, must_visit: Set256::default(), maybe_visit: if rng.chance(1, 2) { None } else { Some(Set256::default()) }, depth: depth as u16 };
    }
    let tmax = pb.instance.timewindows.iter().map(|t| t.latest.min(600_000)).max().unwrap_or(0) as i64;
    let nodes: Vec<usize> = (0..n).collect();
    let subset = |rng: &mut Rng, from: &[usize], num: u64| -> Vec<usize> { from.iter().copied().filter(|_| rng.below(4) < num).collect() };
    let position = if rng.chance(1, 2) { Position::Node(rng.below(n as u64) as u16) } else {
        let mut v = subset(rng, &nodes, 2); if v.is_empty() { v.push(rng.below(n as u64) as usize); } Position::Virtual(mkset(&v)) };
    let t = rng.range(0, tmax / 2500) as usize * 2500;
    let elapsed = if rng.chance(1, 2) { ElapsedTime::FixedAmount { duration: t } } else { ElapsedTime::FuzzyAmount { earliest: t, latest: t + rng.range(1, 40) as usize * 2500 } };
    // the cities still to visit: none of those the salesman may stand on
    let cities: Vec<usize> = (1..n).filter(|c| match &position { Position::Node(i) => *i as usize != *c, Position::Virtual(v) => !v.contains(*c) }).collect();
    let left = n.saturating_sub(depth + 1);
    let mut pool = cities.clone();
    for i in (1..pool.len()).rev() { let j = rng.below(i as u64 + 1) as usize; pool.swap(i, j); }
    let (must, maybe): (Vec<usize>, Option<Vec<usize>>) = if rng.chance(1, 2) {
        // exact-looking: as many cities to visit as steps left (but the return to the depot)
        (pool.iter().copied().take(left).collect(), None)
    } else {
        let k = rng.below(left as u64 + 1) as usize;
        let must: Vec<usize> = pool.iter().copied().take(k).collect();
        let rest: Vec<usize> = pool.iter().copied().skip(k).collect();
        (must, Some(subset(rng, &rest, 3)))
    };
    TsptwState { position, elapsed, must_visit: mkset(&must), maybe_visit: maybe.map(|m| mkset(&m)), depth: depth as u16 }
}

fn run_one_tsptw(n: usize, d: &[Vec<i64>], tw: &[(i64, i64)], walks: u64, style: u64, rng: &mut Rng) -> String {
    static CNT: std::sync::atomic::AtomicUsize = std::sync::atomic::AtomicUsize::new(0);
    let path = std::env::temp_dir().join(format!("ddo_verif_exmodel_tsptw_{}_{}.txt", std::process::id(), CNT.fetch_add(1, std::sync::atomic::Ordering::Relaxed)));
    std::fs::write(&path, tfile(n, d, tw, style)).expect("cannot write the instance file");
    // as the example's `main`: TsptwInstance::from(File), Tsptw::new(inst), TsptwRelax::new(&pb)
    let inst = crate::out::catch(|| TsptwInstance::from(std::fs::File::open(&path).expect("could not open file")));
    let _ = std::fs::remove_file(&path);
    let inst = match inst { Some(g) => g, None => return "panic".into() };
    let pb = Tsptw::new(inst);
    let rlx = TsptwRelax::new(&pb);
    let rk = TsptwRanking;
    let nv = pb.nb_variables();
    let mut ev: Vec<String> = vec![];
    ev.push(format!("nv {}", nv));
    ev.push(format!("inst {} : {} : {}", pb.instance.nb_nodes, join(&pb.instance.distances.iter().flatten().copied().collect::<Vec<_>>()),
        pb.instance.timewindows.iter().map(|t| format!("{} {}", t.earliest, t.latest)).collect::<Vec<_>>().join(" ")));
    let root = pb.initial_state();
    let ord: Vec<String> = (0..=nv + 1).map(|k| pb.next_variable(k, &mut std::iter::once(&root)).map(|v| v.id().to_string()).unwrap_or("n".into())).collect();
    ev.push(format!("ord {}", ord.join(" ")));
    ev.push(format!("init {} : {}", tst(&root), pb.initial_value()));
    ev.push(format!("rub {} : {}", tst(&root), trub(&rlx, &root)));
    ev.push(format!("uv {}", TsptwDominance.use_value() as u8));
    dom_state(&root, &mut ev);
    width(nv, 1, &root, 0, &mut ev);
    width(nv, rng.range(0, 5) as usize, &root, rng.range(0, nv as i64) as usize, &mut ev);
    // random walks from the root; `pv` = value and decisions of the prefix
    for _ in 0..walks {
        let mut s = pb.initial_state();
        let mut value = pb.initial_value();
        let mut decs: Vec<isize> = vec![];
        ev.push(format!("pv {} : {} :", tst(&s), value));
        for _ in 0..nv {
            let (dec, cost, s2) = match tstep(&pb, &s, &mut ev, rng) { Some(x) => x, None => break };
            ev.push(format!("imp {} : {} : {}", tst(&s), dec.variable.id(), pb.is_impacted_by(dec.variable, &s) as u8));
            value += cost;
            decs.push(dec.value);
            ev.push(format!("pv {} : {} : {}", tst(&s2), value, join(&decs)));
            ev.push(format!("rub {} : {}", tst(&s2), trub(&rlx, &s2)));
            ev.push(format!("rk {} : {} : {}", tst(&s), tst(&s2), tord(rk.compare(&s, &s2))));
            s = s2;
        }
    }
    // the exact layers, breadth first through the example's own functions (not recorded: what is used below is)
    let mut layers: Vec<Vec<Node>> = vec![vec![]; nv + 1];
    {
        let mut cur: Vec<(TsptwState, isize, Vec<isize>)> = vec![(root.clone(), pb.initial_value(), vec![])];
        for depth in 0..nv {
            let var = pb.next_variable(depth, &mut cur.iter().map(|x| &x.0)).expect("next_variable");
            let mut next: Vec<Node> = vec![];
            for (s, v, decs) in cur.iter() {
                let dom = tdom(&pb, var, s).expect("for_each_in_domain panics on a reachable state");
                for val in dom {
                    let dec = Decision { variable: var, value: val };
                    let s2 = pb.transition(s, dec);
                    if next.iter().any(|x| x.state == s2) { continue; }
                    let cost = pb.transition_cost(s, &s2, dec);
                    let mut decs2 = decs.clone(); decs2.push(val);
                    next.push(Node { state: s2, parent: s.clone(), dec, cost, value: v + cost, decs: decs2, exact: true });
                }
            }
            for i in (1..next.len()).rev() { let j = rng.below(i as u64 + 1) as usize; next.swap(i, j); }
            next.truncate(60);
            cur = next.iter().map(|x| (x.state.clone(), x.value, x.decs.clone())).collect();
            layers[depth + 1] = next;
            if cur.is_empty() { break; }
        }
    }
    // merges of 2..=5 states of a layer in a recorded order (exact states, and states reached from merged states of the
    // layers above), the relaxed cost of the arc into each merged-away state, ranking, bound, dominance; then a walk from
    // the merged state
    let mut extra: Vec<Vec<Node>> = vec![vec![]; nv + 1];
    for depth in 1..=nv {
        // dominance: pairs of exact states of this depth with the same key first, then any pair
        let l = &layers[depth];
        if l.len() >= 2 {
            let mut found = 0;
            for _ in 0..30 {
                let (a, b) = (rng.pick(l), rng.pick(l));
                if a.state != b.state && a.state.position == b.state.position && a.state.must_visit == b.state.must_visit {
                    dom_pair(&a.state, a.value, &b.state, b.value, &mut ev);
                    found += 1;
                    if found == 2 { break; }
                }
            }
            let (a, b) = (rng.pick(l), rng.pick(l));
            dom_pair(&a.state, a.value, &b.state, b.value, &mut ev);
            if rng.chance(1, 4) { dom_pair(&a.state, a.value, &a.state, a.value + rng.range(-1, 1) as isize * 2500, &mut ev); }
        }
        let mut pool: Vec<Node> = layers[depth].clone();
        pool.extend(extra[depth].iter().cloned());
        if pool.len() < 2 { continue; }
        let kmax = (pool.len() as i64).min(5);
        let k = if kmax >= 3 && rng.chance(2, 3) { rng.range(3, kmax) } else { rng.range(2, kmax) } as usize;
        let mut idx: Vec<usize> = (0..pool.len()).collect();
        for i in (1..idx.len()).rev() { let j = rng.below(i as u64 + 1) as usize; idx.swap(i, j); }
        let mut pick: Vec<usize> = idx[..k].to_vec();
        if rng.chance(1, 10) { let dup = pick[0]; pick.push(dup); }
        let pick: Vec<&Node> = pick.iter().map(|i| &pool[*i]).collect();
        // what the merged-away states are: the arc into each of them, and (exact ones) the value of a path to it
        for p in pick.iter() {
            ev.push(format!("tr {} : {} {} : {} : {}", tst(&p.parent), p.dec.variable.id(), p.dec.value, tst(&p.state), p.cost));
            if p.exact { ev.push(format!("pv {} : {} : {}", tst(&p.state), p.value, join(&p.decs))); }
            ev.push(format!("rub {} : {}", tst(&p.state), trub(&rlx, &p.state)));
        }
        let m = rlx.merge(&mut pick.iter().map(|p| &p.state));
        ev.push(format!("mg {} : {}", pick.iter().map(|p| tst(&p.state)).collect::<Vec<_>>().join(" , "), tst(&m)));
        for p in pick.iter() {
            let c = if rng.chance(1, 4) { rng.range(-30, 30) as isize * 2500 } else { p.cost };
            ev.push(format!("rx {} : {} : {} : {} {} : {} : {}", tst(&p.parent), tst(&p.state), tst(&m), p.dec.variable.id(), p.dec.value, c, rlx.relax(&p.parent, &p.state, &m, p.dec, c)));
        }
        ev.push(format!("rk {} : {} : {}", tst(&pick[0].state), tst(&pick[1].state), tord(rk.compare(&pick[0].state, &pick[1].state))));
        ev.push(format!("rk {} : {} : {}", tst(&m), tst(&pick[0].state), tord(rk.compare(&m, &pick[0].state))));
        ev.push(format!("rub {} : {}", tst(&m), trub(&rlx, &m)));
        dom_pair(&m, pick[0].value, &pick[0].state, pick[0].value, &mut ev);
        if rng.chance(1, 3) { width(nv, rng.range(1, 3) as usize, &m, depth, &mut ev); }
        let mut s = m;
        for dd in depth..nv {
            let (dec, cost, s2) = match tstep(&pb, &s, &mut ev, rng) { Some(x) => x, None => break };
            ev.push(format!("rub {} : {}", tst(&s2), trub(&rlx, &s2)));
            if extra[dd + 1].len() < 6 && !extra[dd + 1].iter().any(|x| x.state == s2) {
                extra[dd + 1].push(Node { state: s2.clone(), parent: s.clone(), dec, cost, value: 0, decs: vec![], exact: false });
            }
            s = s2;
        }
    }
    // arbitrary reachable-looking states (any depth, node or set position, fixed or fuzzy time, with or without optional
    // cities): bound, domain on the variable of their depth and on another one, one step, ranking; merges of 2..=4 of them
    // (same depth), relaxed cost of an arc into each, bound of the merged state, a walk from it
    if nv >= 1 {
        let depth = rng.range(0, nv as i64) as usize;
        let k = rng.range(1, 4) as usize;
        let sts: Vec<TsptwState> = (0..k).map(|_| arbitrary(&pb, depth, rng)).collect();
        for s in sts.iter() { ev.push(format!("rub {} : {}", tst(s), trub(&rlx, s))); }
        let other = Variable(rng.below(nv as u64 + 1) as usize);
        ev.push(format!("dom {} : {} : {}", tst(&sts[0]), other.id(), tdom(&pb, other, &sts[0]).map(|x| join(&x)).unwrap_or("panic".into())));
        ev.push(format!("imp {} : {} : {}", tst(&sts[0]), other.id(), pb.is_impacted_by(other, &sts[0]) as u8));
        if let Some((_, _, s2)) = tstep(&pb, &sts[0], &mut ev, rng) {
            ev.push(format!("rub {} : {}", tst(&s2), trub(&rlx, &s2)));
            ev.push(format!("rk {} : {} : {}", tst(&sts[0]), tst(&s2), tord(rk.compare(&sts[0], &s2))));
        }
        if k >= 2 {
            let m = rlx.merge(&mut sts.iter());
            ev.push(format!("mg {} : {}", sts.iter().map(tst).collect::<Vec<_>>().join(" , "), tst(&m)));
            for s in sts.iter() {
                let c = rng.range(-30, 0) as isize * 2500;
                let dec = Decision { variable: Variable(depth.saturating_sub(1)), value: rng.below(nv as u64) as isize };
                ev.push(format!("rx {} : {} : {} : {} {} : {} : {}", tst(&root), tst(s), tst(&m), dec.variable.id(), dec.value, c, rlx.relax(&root, s, &m, dec, c)));
            }
            ev.push(format!("rk {} : {} : {}", tst(&sts[0]), tst(&sts[1]), tord(rk.compare(&sts[0], &sts[1]))));
            ev.push(format!("rub {} : {}", tst(&m), trub(&rlx, &m)));
            dom_pair(&sts[0], rng.range(-9, 0) as isize * 2500, &sts[1], rng.range(-9, 0) as isize * 2500, &mut ev);
            let mut s = m;
            loop {
                let (_, _, s2) = match tstep(&pb, &s, &mut ev, rng) { Some(x) => x, None => break };
                ev.push(format!("rub {} : {}", tst(&s2), trub(&rlx, &s2)));
                s = s2;
            }
        }
    }
    // calls outside the domain: a city that does not exist, the depot or a missing city among the cities to visit, a state
    // deeper than the last layer, an empty set of positions, the merge of no state at all, the merge of states of different
    // depths (the largest depth is kept)
    if nv >= 2 && rng.chance(1, 3) {
        let depth = rng.range(0, nv as i64 + 1) as usize;
        let mut s = arbitrary(&pb, depth.min(nv), rng);
        s.depth = depth as u16;
        match rng.below(5) {
            0 => { s.position = Position::Virtual(Set256::default()); }
            1 => { s.position = Position::Node(nv as u16 + rng.below(2) as u16); }
            2 => { s.must_visit.add_inplace(nv + rng.below(2) as usize); }
            3 => { s.must_visit.add_inplace(0); }
            _ => { let mut m = s.maybe_visit.unwrap_or_default(); m.add_inplace(if rng.chance(1, 2) { 0 } else { nv }); s.maybe_visit = Some(m); }
        }
        let var = Variable(rng.below(nv as u64 + 2) as usize);
        let val = rng.range(-1, nv as i64 + 1) as isize;
        ttr_any(&pb, &s, Decision { variable: var, value: val }, &mut ev);
        ev.push(format!("rub {} : {}", tst(&s), trub(&rlx, &s)));
        ev.push(format!("rk {} : {} : {}", tst(&s), tst(&root), tord(rk.compare(&s, &root))));
        ev.push(format!("dom {} : {} : {}", tst(&s), var.id(), tdom(&pb, var, &s).map(|x| join(&x)).unwrap_or("panic".into())));
        let none: Vec<TsptwState> = vec![];
        ev.push(format!("mg : {}", crate::out::catch(|| rlx.merge(&mut none.iter())).as_ref().map(tst).unwrap_or("panic".into())));
        let two = [s.clone(), root.clone()];
        ev.push(format!("mg {} , {} : {}", tst(&two[0]), tst(&two[1]), crate::out::catch(|| rlx.merge(&mut two.iter())).as_ref().map(tst).unwrap_or("panic".into())));
        let c = rng.range(-9, 9) as isize;
        ev.push(format!("rx {} : {} : {} : 0 1 : {} : {}", tst(&root), tst(&s), tst(&root), c, or_panic(crate::out::catch(|| rlx.relax(&root, &s, &root, Decision { variable: Variable(0), value: 1 }, c)))));
    }
    ev.join(" ; ")
}

/// shortest-path closure: afterwards `d[i][j] <= d[i][k] + d[k][j]` for all i, j, k
fn metric_closure(d: &mut [Vec<i64>]) {
    let n = d.len();
    for k in 0..n { for i in 0..n { for j in 0..n { if i != j && d[i][k] + d[k][j] < d[i][j] { d[i][j] = d[i][k] + d[k][j]; } } } }
}
fn is_metric(d: &[Vec<i64>]) -> bool {
    let n = d.len();
    for k in 0..n { for i in 0..n { for j in 0..n { if d[i][k] + d[k][j] < d[i][j] { return false; } } } }
    true
}
/// random small instance: 1–7 nodes (the specification enumerates `(n-1)!` tours); everything in HUNDREDTHS of a time unit,
/// multiples of 25 (exactly representable: the reader goes through `f32`).  In the domain: travel times satisfy the
/// triangle inequality, zero diagonal, `earliest <= latest`.
fn gen_tsptw(rng: &mut Rng) -> (usize, Vec<Vec<i64>>, Vec<(i64, i64)>, Vec<String>) {
    let mut tags: Vec<String> = vec![];
    let n = if rng.chance(1, 50) { 1 } else if rng.chance(1, 40) { 2 } else { *rng.pick(&[3usize, 3, 4, 4, 4, 5, 5, 5, 5, 6, 6, 6, 7]) };
    let unit = *rng.pick(&[100i64, 100, 100, 50, 25]);
    if unit != 100 { tags.push("fractional".into()); }
    let horizon = 1000 * 100;
    let r = *rng.pick(&[3i64, 10, 10, 30]);
    if r == 3 { tags.push("ties".into()); }
    let mut d = vec![vec![0i64; n]; n];
    match rng.below(3) {
        0 => { for i in 0..n { for j in 0..n { if i != j { d[i][j] = rng.range(0, r) * unit; } } } tags.push("asymmetric".into()); }
        1 => { for i in 0..n { for j in i + 1..n { let x = rng.range(0, r) * unit; d[i][j] = x; d[j][i] = x; } } tags.push("symmetric".into()); }
        _ => {
            let pts: Vec<(i64, i64)> = (0..n).map(|_| (rng.range(0, r), rng.range(0, r))).collect();
            for i in 0..n { for j in 0..n { d[i][j] = ((pts[i].0 - pts[j].0).abs() + (pts[i].1 - pts[j].1).abs()) * unit; } }
            tags.push("manhattan".into());
        }
    }
    if rng.chance(1, 12) && !is_metric(&d) { tags.push("ood_nonmetric".into()); } else { metric_closure(&mut d); }
    let mut tw = vec![(0i64, horizon); n];
    let wmode = rng.below(10);
    if wmode < 2 { tags.push("no_windows".into()); }
    else if wmode < 7 {
        // windows around the visit times of a hidden tour: feasible by construction, waiting likely
        let mut tour: Vec<usize> = (1..n).collect();
        for i in (1..tour.len()).rev() { let j = rng.below(i as u64 + 1) as usize; tour.swap(i, j); }
        let spread = *rng.pick(&[0i64, 2, 5, 5, 20]);
        let (mut t, mut cur) = (0i64, 0usize);
        for &j in &tour {
            let arr = t + d[cur][j];
            let e = (arr + rng.range(-spread, spread) * unit).max(0);
            let l = arr.max(e) + rng.range(0, spread) * unit;
            tw[j] = (e, l);
            t = arr.max(e); cur = j;
        }
        if rng.chance(1, 3) { tw[0].1 = t + d[cur][0] + rng.range(0, spread) * unit; tags.push("tight_depot".into()); }
        tags.push("windows_around_a_tour".into());
    } else {
        let span = (n as i64) * r / *rng.pick(&[1i64, 2, 4]);
        let width = *rng.pick(&[span, span, span / 2, span / 4]);
        for j in 1..n { let e = rng.range(0, span.max(1)) * unit; let l = e + rng.range(0, width.max(1)) * unit; tw[j] = (e, l); }
        if rng.chance(1, 3) { tw[0].1 = rng.range(span, 2 * span + 1) * unit; tags.push("tight_depot".into()); }
        tags.push("random_windows".into());
    }
    if rng.chance(1, 12) { tw[0].0 = rng.range(1, 20) * unit; tw[0].1 = tw[0].1.max(tw[0].0); tags.push("depot_opens_late".into()); }
    if n >= 2 && rng.chance(1, 50) { let j = rng.range(1, n as i64 - 1) as usize; tw[j] = (tw[j].0 + 5 * unit, tw[j].0); tags.push("ood_inverted_window".into()); }
    if n >= 2 && rng.chance(1, 60) { let j = rng.below(n as u64) as usize; d[j][j] = rng.range(1, 3) * unit; tags.push("ood_nonzero_diagonal".into()); }
    if n == 1 { tags.push("single_node".into()); }
    (n, d, tw, tags)
}
fn tcase(n: usize, d: &[Vec<i64>], tw: &[(i64, i64)], walks: u64, wseed: u64, style: u64) -> String {
    format!("tsptw | {} {} {} | {} {} {}", n, join(&d.iter().flatten().copied().collect::<Vec<_>>()), tw.iter().map(|(e, l)| format!("{} {}", e, l)).collect::<Vec<_>>().join(" "), walks, wseed, style)
}

/// replay of one case: "tsptw | n d_00 … d_{n-1 n-1} e_0 l_0 … (hundredths) | walks seed style"
pub fn replay(parts: &[&str]) -> String {
    let t: Vec<i64> = parts[1].split_whitespace().map(|x| x.parse().unwrap()).collect();
    let n = t[0] as usize;
    let d: Vec<Vec<i64>> = (0..n).map(|i| t[1 + i * n..1 + (i + 1) * n].to_vec()).collect();
    let tw: Vec<(i64, i64)> = (0..n).map(|i| (t[1 + n * n + 2 * i], t[2 + n * n + 2 * i])).collect();
    let u: Vec<u64> = parts[2].split_whitespace().map(|x| x.parse().unwrap()).collect();
    let mut r2 = Rng::new(u[1]);
    crate::out::catch(|| run_one_tsptw(n, &d, &tw, u[0], u[2], &mut r2)).unwrap_or("panic".into())
}
/// the generated cases of the family
pub fn generate(out: &mut Out, rng: &mut Rng, ninst: usize) {
    for _ in 0..ninst {
        let (n, d, tw, mut tags) = gen_tsptw(rng);
        let walks = rng.range(1, 2) as u64; let wseed = rng.next() >> 1;
        let style = rng.below(16);
        let mut r2 = Rng::new(wseed);
        let imp = crate::out::catch(|| run_one_tsptw(n, &d, &tw, walks, style, &mut r2)).unwrap_or("panic".into());
        let big = imp.split(" ; ").filter(|e| e.starts_with("mg ")).any(|e| e.matches(" , ").count() >= 2);
        if big { tags.push("merge_of_3_or_more".into()); }
        if imp.contains("-inf") { tags.push("bound_says_infeasible".into()); }
        if imp == "panic" { tags.push("reader_panics".into()); }
        out.case_tagged(&tcase(n, &d, &tw, walks, wseed, style), &imp, &tags.join(" "));
    }
}
