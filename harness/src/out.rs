//! Output of cases: one `C <engine> <id> …` line followed by one `I <id> …` line.
use std::io::Write;
pub struct Out {
    w: std::io::BufWriter<std::fs::File>,
    t: std::io::BufWriter<std::fs::File>,
    pub engine: &'static str,
    pub n: usize,
}
impl Out {
    pub fn new(path: &str, engine: &'static str) -> Self {
        let f = std::fs::File::create(path).expect("cannot create output file");
        let t = std::fs::File::create(format!("{}.tags", path)).expect("cannot create tags file");
        Out { w: std::io::BufWriter::new(f), t: std::io::BufWriter::new(t), engine, n: 0 }
    }
    /// writes one case; returns its id
    pub fn case(&mut self, case: &str, imp: &str) -> usize {
        let id = self.n;
        self.n += 1;
        writeln!(self.w, "C {} {} {}", self.engine, id, case).unwrap();
        writeln!(self.w, "I {} {}", id, imp).unwrap();
        id
    }
    /// same, with event tags (what happened in this case: used for the coverage histogram)
    pub fn case_tagged(&mut self, case: &str, imp: &str, tags: &str) -> usize {
        let id = self.case(case, imp);
        writeln!(self.t, "{} {}", id, tags).unwrap();
        id
    }
    pub fn finish(mut self) { self.w.flush().unwrap(); self.t.flush().unwrap(); }
}
/// run `f`, mapping a panic to `None` (the panic message is suppressed by the hook installed in main)
pub fn catch<T>(f: impl FnOnce() -> T) -> Option<T> {
    std::panic::catch_unwind(std::panic::AssertUnwindSafe(f)).ok()
}
