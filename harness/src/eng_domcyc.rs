//! Engine `domcyc` (C10, sentence 1): the counter-example `Ddo.C10.Cyc` of the Lean development run through the real solvers.
//! Four binary variables; two optimal paths 0 -> 1 -> 11 -> 21 -> 30 and 0 -> 2 -> 12 -> 22 -> 30 of value 10, a decoy
//! 12 -> 23 (gain 5).  The rule: 11 dominates 12 (depth 2), 22 dominates 21 (depth 3); all four have value-to-go 10, so every
//! dominated state has a dominator with an at-least-as-good best completion (admissible in the potential form), but the two
//! verdicts cross: the dominator's child is the dominated one of the next layer.
use crate::{out::{catch, Out}, Args};
use ddo::*;
use std::sync::Arc;

struct Cyc;
impl Problem for Cyc {
    type State = isize;
    fn nb_variables(&self) -> usize { 4 }
    fn initial_state(&self) -> isize { 0 }
    fn initial_value(&self) -> isize { 0 }
    fn transition(&self, s: &isize, d: Decision) -> isize {
        match *s { 0 => if d.value == 0 { 1 } else { 2 }, 1 => 11, 2 => 12, 11 => 21, 12 => if d.value == 0 { 22 } else { 23 }, 21 | 22 | 23 => 30, x => x }
    }
    fn transition_cost(&self, s: &isize, _n: &isize, d: Decision) -> isize {
        match *s { 12 => if d.value == 0 { 0 } else { 5 }, 21 | 22 => 10, 99 => if d.variable.id() == 3 { 10 } else { 0 }, _ => 0 }
    }
    fn next_variable(&self, depth: usize, _: &mut dyn Iterator<Item = &isize>) -> Option<Variable> { if depth < 4 { Some(Variable(depth)) } else { None } }
    fn for_each_in_domain(&self, variable: Variable, _s: &isize, f: &mut dyn DecisionCallback) {
        f.apply(Decision { variable, value: 0 }); f.apply(Decision { variable, value: 1 });
    }
}
struct Rlx;
impl Relaxation for Rlx {
    type State = isize;
    fn merge(&self, _states: &mut dyn Iterator<Item = &isize>) -> isize { 99 }
    fn relax(&self, _s: &isize, _d: &isize, _m: &isize, _dec: Decision, cost: isize) -> isize { cost }
    fn fast_upper_bound(&self, _s: &isize) -> isize { 10 }
}
struct Rank;
impl StateRanking for Rank { type State = isize; fn compare(&self, a: &isize, b: &isize) -> std::cmp::Ordering { a.cmp(b) } }
struct Dom;
impl Dominance for Dom {
    type State = isize;
    type Key = usize;
    fn get_key(&self, s: Arc<isize>) -> Option<usize> { match *s { 11 | 12 => Some(2), 21 | 22 => Some(3), _ => None } }
    fn nb_dimensions(&self, _s: &isize) -> usize { 1 }
    fn get_coordinate(&self, s: &isize, _i: usize) -> isize { if *s == 11 || *s == 22 { 1 } else { 0 } }
    fn use_value(&self) -> bool { true }
}

pub fn run_domcyc(a: &Args) {
    let mut out = Out::new(&a.out, "domcyc");
    let problem = Cyc; let relax = Rlx; let rank = Rank; let width = FixedWidth(1); let cutoff = NoCutoff;
    let mut runs: Vec<String> = vec![];
    let show = |name: &str, r: Option<Completion>| match r { Some(c) => format!("{} {} {}", name, c.is_exact as u8, c.best_value.map(|v| v.to_string()).unwrap_or("none".into())), None => format!("{} panic", name) };
    macro_rules! seq { ($name:expr, $solver:ty, $dom:expr) => {{
        let dominance = $dom; let mut fringe = SimpleFringe::new(MaxUB::new(&rank));
        let r = catch(|| { let mut s = <$solver>::custom(&problem, &relax, &rank, &width, &dominance, &cutoff, &mut fringe); s.maximize() });
        runs.push(show($name, r));
    }}; }
    macro_rules! par { ($name:expr, $solver:ty, $dom:expr, $n:expr) => {{
        let dominance = $dom; let mut fringe = SimpleFringe::new(MaxUB::new(&rank));
        let r = catch(|| { let mut s = <$solver>::custom(&problem, &relax, &rank, &width, &dominance, &cutoff, &mut fringe, $n); s.maximize() });
        runs.push(show($name, r));
    }}; }
    seq!("seq_lel_nodom", SeqNoCachingSolverLel<isize>, EmptyDominanceChecker::default());
    seq!("seq_lel_dom", SeqNoCachingSolverLel<isize>, SimpleDominanceChecker::new(Dom, 4));
    seq!("seq_fc_dom", SeqNoCachingSolverFc<isize>, SimpleDominanceChecker::new(Dom, 4));
    seq!("seq_pooled_dom", SeqNoCachingSolverPooled<isize>, SimpleDominanceChecker::new(Dom, 4));
    seq!("seq_lel_cache_dom", SeqCachingSolverLel<isize>, SimpleDominanceChecker::new(Dom, 4));
    seq!("seq_fc_cache_dom", SeqCachingSolverFc<isize>, SimpleDominanceChecker::new(Dom, 4));
    par!("par1_lel_dom", ParNoCachingSolverLel<isize>, SimpleDominanceChecker::new(Dom, 4), 1);
    par!("par4_lel_dom", ParNoCachingSolverLel<isize>, SimpleDominanceChecker::new(Dom, 4), 4);
    par!("par4_fc_cache_dom", ParCachingSolverFc<isize>, SimpleDominanceChecker::new(Dom, 4), 4);
    out.case_tagged("cyc", &runs.join(" ; "), "cyclic_ties");
    out.finish();
}
