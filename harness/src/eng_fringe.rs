//! Engine `fringe` (C11): push / pop / clear / len sequences against `NoDupFringe` and `SimpleFringe`
//! (public `Fringe` trait, `MaxUB` ranking over a total or a coarse state ranking).
use crate::{out::{Out, catch}, rng::Rng, Args};
use ddo::*;
use std::sync::Arc;

#[derive(Clone, Copy)]
pub struct Rank(pub bool); // true = total order on states, false = every state ranks equal
impl StateRanking for Rank {
    type State = i64;
    fn compare(&self, a: &i64, b: &i64) -> std::cmp::Ordering { if self.0 { a.cmp(b) } else { std::cmp::Ordering::Equal } }
}
#[derive(Clone, Debug)]
pub enum FOp { Push(i64, usize, isize, isize, isize), Pop, Clear, Len }
impl FOp {
    fn tok(&self) -> String {
        match self {
            FOp::Push(s, d, v, ub, t) => format!("p {} {} {} {} {}", s, d, v, ub, t),
            FOp::Pop => "o".into(), FOp::Clear => "c".into(), FOp::Len => "n".into(),
        }
    }
}
fn sub_of(s: i64, d: usize, v: isize, ub: isize, tag: isize) -> SubProblem<i64> {
    SubProblem { state: Arc::new(s), value: v, path: vec![Decision { variable: Variable(0), value: tag }], ub, depth: d }
}
fn apply(f: &mut dyn Fringe<State = i64>, op: &FOp) -> String {
    match op {
        FOp::Push(s, d, v, ub, t) => { f.push(sub_of(*s, *d, *v, *ub, *t)); "-".into() }
        FOp::Pop => match f.pop() {
            None => "none".into(),
            Some(n) => format!("s {} {} {} {} {}", n.state, n.depth, n.value, n.ub, n.path.first().map(|d| d.value).unwrap_or(-999)),
        },
        FOp::Clear => { f.clear(); "-".into() }
        FOp::Len => format!("len {}", f.len()),
    }
}
pub fn run_ops(nodup: bool, total: bool, ops: &[FOp]) -> Vec<String> {
    let rank = Rank(total);
    let mut outs = vec![];
    let mut dead = false;
    if nodup {
        let mut f = NoDupFringe::new(MaxUB::new(&rank));
        for op in ops { if dead { outs.push("panic".into()); continue; } match catch(|| apply(&mut f, op)) { Some(o) => outs.push(o), None => { outs.push("panic".into()); dead = true; } } }
    } else {
        let mut f = SimpleFringe::new(MaxUB::new(&rank));
        for op in ops { if dead { outs.push("panic".into()); continue; } match catch(|| apply(&mut f, op)) { Some(o) => outs.push(o), None => { outs.push("panic".into()); dead = true; } } }
    }
    outs
}
fn emit(out: &mut Out, nodup: bool, total: bool, ops: &[FOp], tag: &str) {
    let outs = run_ops(nodup, total, ops);
    let case = format!("{} {} ; {}", if nodup { "nodup" } else { "simple" }, if total { "total" } else { "coarse" }, ops.iter().map(|o| o.tok()).collect::<Vec<_>>().join(" ; "));
    let mut tags = vec![tag.to_string()];
    // events: duplicate push (same state & depth live), same state at another depth, pop after pops (recycling)
    let mut live: Vec<(i64, usize)> = vec![]; let mut popped = false;
    for (op, o) in ops.iter().zip(outs.iter()) {
        match op {
            FOp::Push(s, d, ..) => {
                if live.contains(&(*s, *d)) { tags.push("dedup".into()); }
                else { if live.iter().any(|(s2, _)| s2 == s) { tags.push("same_state_other_depth".into()); } live.push((*s, *d)); }
                if popped { tags.push("recycle".into()); }
            }
            FOp::Pop => { if o != "none" { popped = true; let t: Vec<&str> = o.split_whitespace().collect(); let (s, d): (i64, usize) = (t[1].parse().unwrap(), t[2].parse().unwrap()); if let Some(p) = live.iter().position(|x| *x == (s, d)) { live.remove(p); } } }
            FOp::Clear => { live.clear(); popped = false; }
            FOp::Len => {}
        }
    }
    tags.sort(); tags.dedup();
    out.case_tagged(&case, &outs.join(" ; "), &tags.join(" "));
}
pub fn run_fringe(a: &Args) {
    let mut out = Out::new(&a.out, "fringe");
    if let Some(r) = &a.replay {
        let t: Vec<&str> = r.split_whitespace().collect();
        let ops: Vec<FOp> = r.splitn(2, ';').nth(1).unwrap_or("").split(';').filter(|s| !s.trim().is_empty()).map(|s| {
            let x: Vec<&str> = s.split_whitespace().collect();
            match x[0] { "p" => FOp::Push(x[1].parse().unwrap(), x[2].parse().unwrap(), x[3].parse().unwrap(), x[4].parse().unwrap(), x[5].parse().unwrap()), "o" => FOp::Pop, "c" => FOp::Clear, _ => FOp::Len }
        }).collect();
        emit(&mut out, t[0] == "nodup", t[1] == "total", &ops, "replay");
        out.finish(); return;
    }
    // exhaustive: all sequences of length <= L over pushes (state in 2, depth in 2, value in 2, ub in 2) + pop + clear;
    // a `len` and a full drain are appended to every sequence so that everything left inside is observed
    let mut alpha: Vec<FOp> = vec![];
    for s in 0..2i64 { for d in 0..2usize { for v in 0..2isize { for ub in 2..4isize { alpha.push(FOp::Push(s, d, v, ub, 0)); } } } }
    alpha.push(FOp::Pop); alpha.push(FOp::Clear);
    let maxlen = if a.thorough { 5 } else { 4 };
    for len in 1..=maxlen {
        let mut idx = vec![0usize; len];
        'outer: loop {
            let mut ops: Vec<FOp> = idx.iter().enumerate().map(|(k, &i)| match &alpha[i] { FOp::Push(s, d, v, ub, _) => FOp::Push(*s, *d, *v, *ub, k as isize + 1), o => o.clone() }).collect();
            ops.push(FOp::Len);
            for _ in 0..len + 1 { ops.push(FOp::Pop); }
            // only the last length gets both fringes and both rankings; shorter prefixes are covered by nodup/total
            emit(&mut out, true, true, &ops, "exhaustive");
            if len == maxlen - 1 || len <= 2 { emit(&mut out, false, true, &ops, "exhaustive"); emit(&mut out, true, false, &ops, "exhaustive"); }
            let mut k = len;
            loop { if k == 0 { break 'outer; } k -= 1; idx[k] += 1; if idx[k] < alpha.len() { break; } idx[k] = 0; }
        }
    }
    // random long sequences, recycling-heavy push/pop mixes, small alphabets so that updates in place are frequent
    let mut rng = Rng::new(a.seed);
    let nrand = if a.thorough { 3000 } else { 300 };
    for i in 0..nrand {
        let len = if i % 10 == 0 { rng.range(200, 2000) } else { rng.range(5, 120) } as usize;
        let nstates = rng.range(1, 12); let ndepth = rng.range(1, 3); let nval = rng.range(1, 6); let nub = rng.range(1, 6);
        let push_bias = rng.range(35, 75) as u64;
        let mut ops = vec![]; let mut tag = 1isize;
        for _ in 0..len {
            let r = rng.below(100);
            if r < push_bias { ops.push(FOp::Push(rng.range(0, nstates - 1), rng.range(0, ndepth - 1) as usize, rng.range(0, nval - 1) as isize, rng.range(0, nub - 1) as isize + 10, tag)); tag += 1; }
            else if r < 96 { ops.push(FOp::Pop); }
            else if r < 98 { ops.push(FOp::Len); }
            else { ops.push(FOp::Clear); }
        }
        ops.push(FOp::Len);
        for _ in 0..(nstates * ndepth + 2).min(60) { ops.push(FOp::Pop); }
        let kind = i % 4;
        emit(&mut out, kind != 1, kind != 2, &ops, "random");
    }
    out.finish();
}
