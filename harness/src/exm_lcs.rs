//! Family `lcs` of engine `exmodel` (C16): pointwise correspondence between the DP model (long arcs: `is_impacted_by`),
//! relaxation (merge, relax, rough bound with the 2-string tables of `dp.rs`), ranking and dominance rule of the shipped
//! lcs example (longest common subsequence of several strings) and the Lean model `DdoModel/Examples/LcsDp.lean`.  The
//! example's own source files are compiled in (see `build.rs`: copies made at build time from the working tree, with
//! `crate::` re-rooted and nothing else changed).  The instance always goes through the example's own reader (a file:
//! the tables `next`, `rem` are built by `read_instance`, the 2-string tables by `Lcs::new`); recorded are the fields of
//! the `Lcs` value (the private ones from its `Debug` text), `next_variable` on every depth, and — along random walks
//! (long-arc walks: a variable is branched on only when `is_impacted_by` says so; plain walks: every variable is), on
//! the states of the exact layers (breadth first, long arcs), on merged states and on arbitrary reachable-looking states
//! — every `is_impacted_by`, `for_each_in_domain`, `transition`, `transition_cost`, `fast_upper_bound`, `merge` (2–5
//! states, IN THE ORDER GIVEN), `relax`, `compare`, and the dominance rule (`get_key`, `nb_dimensions`, `get_coordinate`,
//! `use_value`, the inherited `partial_cmp` / `cmp`); a few calls outside the domain (panics are answers).
//!
//! A state in full: `p_0 … p_{k-1}` (the position in each string, strings in the order the reader sorted them).
//! Events (separated by `;`):
//!   `dims n_strings n_chars` · `str s_0 , s_1 , …` (the mapped strings, sorted) · `chr code_0 code_1 …` (the mapping)
//!   `len l_0 …` · `nxt`/`rem`/`tab` `row , row / row , row / …` (`next[str][char][pos]`, `rem[…]`, `tables[i][pos_i][pos_i+1]`)
//!   `nv n` · `ord v_0 … v_{n+1}` (`next_variable(depth)`, `n` = None) · `init S : value` · `rub S : bound`
//!   `imp S : var : 0|1` · `dom S : var : values in call order` · `tr S : var val : S' : cost`
//!   `pv S : value : (var val)*` (value and decisions of a path from the root; the variables skipped are long arcs)
//!   `mg S_1 , … , S_k : M` · `rx SRC : DST : M : var val : cost : relaxed cost` · `rk A : B : lt|eq|gt`
//!   `uv 0|1` · `dk S : key` · `dc S : dims : coordinates` · `dm A : va : B : vb : keys equal 0|1 : none | ord only_val_diff`
//!   `cm A : va : B : vb : ord`;  a call that panics answers `panic`; a reader that panics makes the whole answer
//!   `panic`, a reader that returns an error `unreadable`.
#[allow(dead_code, unused_imports, clippy::all)]
pub mod ex_lcs {
    include!(concat!(env!("OUT_DIR"), "/ex_lcs.rs"));
}
use crate::{out::{catch, Out}, rng::Rng};
use ddo::*;
use ex_lcs::{dominance::LcsDominance, io_utils::read_instance, model::{Lcs, LcsRanking, LcsRelax, LcsState}};
use std::sync::Arc;

fn join<T: ToString>(v: &[T]) -> String { v.iter().map(|x| x.to_string()).collect::<Vec<_>>().join(" ") }
fn lst(s: &LcsState) -> String { if s.position.is_empty() { "-".into() } else { join(&s.position) } }
fn lord(o: std::cmp::Ordering) -> &'static str { match o { std::cmp::Ordering::Less => "lt", std::cmp::Ordering::Equal => "eq", _ => "gt" } }
fn or_panic<T: ToString>(x: Option<T>) -> String { x.map(|x| x.to_string()).unwrap_or("panic".into()) }
fn lrub(rlx: &LcsRelax, s: &LcsState) -> String { or_panic(catch(|| rlx.fast_upper_bound(s))) }
fn ldom(pb: &Lcs, var: Variable, s: &LcsState) -> Option<Vec<isize>> {
    catch(|| { let mut dom: Vec<isize> = vec![]; pb.for_each_in_domain(var, s, &mut |x: Decision| dom.push(x.value)); dom })
}

/// a nested list of integers read from a `Debug` text
enum J { N(i64), L(Vec<J>) }
fn parse_j(b: &[u8], at: &mut usize) -> J {
    while b[*at] == b' ' || b[*at] == b',' { *at += 1; }
    if b[*at] == b'[' {
        *at += 1;
        let mut v = vec![];
        loop {
            while b[*at] == b' ' || b[*at] == b',' { *at += 1; }
            if b[*at] == b']' { *at += 1; return J::L(v); }
            v.push(parse_j(b, at));
        }
    }
    let from = *at;
    while b[*at] == b'-' || b[*at].is_ascii_digit() { *at += 1; }
    J::N(std::str::from_utf8(&b[from..*at]).unwrap().parse().expect("number in a Debug text"))
}
/// one field of the `Debug` text of `Lcs` (`n_strings`, `n_chars`, `string_length`, `next`, `rem`, `tables` are private);
/// `tables` is the last field (the characters of `chars`, printed before it, are letters and digits)
fn debug_field(txt: &str, name: &str) -> J {
    let key = format!(", {}: ", name);
    let at = if name == "tables" { txt.rfind(&key) } else { txt.find(&key) }.expect("field of Lcs") + key.len();
    let mut i = at;
    parse_j(txt.as_bytes(), &mut i)
}
fn j1(j: &J) -> String { match j { J::N(x) => x.to_string(), J::L(v) => v.iter().map(j1).collect::<Vec<_>>().join(" ") } }
fn j2(j: &J) -> String { match j { J::N(x) => x.to_string(), J::L(v) => v.iter().map(j1).collect::<Vec<_>>().join(" , ") } }
fn j3(j: &J) -> String { match j { J::N(x) => x.to_string(), J::L(v) => v.iter().map(j2).collect::<Vec<_>>().join(" / ") } }

/// the instance file; `style` bits: 1 = tabulation between length and string, 2 = a wrong length field (it is informative),
/// 4 = a trailing token on the string lines, 8 = indented lines.  A string without character gives a line with the length
/// field only (the reader's `Format` error).
fn lfile(k: usize, declared: usize, lines: &[Vec<char>], style: u64) -> String {
    let sep = if style & 1 != 0 { "\t" } else { " " };
    let ind = if style & 8 != 0 { "  " } else { "" };
    let mut f = format!("{}{} {}\n", ind, k, declared);
    for s in lines.iter() {
        let l = if style & 2 != 0 { s.len() + 3 } else { s.len() };
        if s.is_empty() { f.push_str(&format!("{}{}\n", ind, l)); continue; }
        f.push_str(&format!("{}{}{}{}{}\n", ind, l, sep, s.iter().collect::<String>(), if style & 4 != 0 { " x" } else { "" }));
    }
    f
}

/// one branching from `s` on `var`: domain, random decision, transition, cost; events `dom`, `tr`
fn lstep(pb: &Lcs, s: &LcsState, var: Variable, ev: &mut Vec<String>, rng: &mut Rng) -> Option<(Decision, isize, LcsState)> {
    let dom = match ldom(pb, var, s) { Some(d) => d, None => { ev.push(format!("dom {} : {} : panic", lst(s), var.id())); return None; } };
    ev.push(format!("dom {} : {} : {}", lst(s), var.id(), join(&dom)));
    if dom.is_empty() { return None; }
    let val = *rng.pick(&dom);
    let dec = Decision { variable: var, value: val };
    let s2 = match catch(|| pb.transition(s, dec)) { Some(x) => x, None => { ev.push(format!("tr {} : {} {} : panic : {}", lst(s), var.id(), val, or_panic(catch(|| pb.transition_cost(s, s, dec))))); return None; } };
    let cost = pb.transition_cost(s, &s2, dec);
    ev.push(format!("tr {} : {} {} : {} : {}", lst(s), var.id(), val, lst(&s2), cost));
    Some((dec, cost, s2))
}
/// a transition that the domain may forbid (panics are answers)
fn ltr_any(pb: &Lcs, s: &LcsState, dec: Decision, ev: &mut Vec<String>) {
    let s2 = catch(|| pb.transition(s, dec));
    let cost = catch(|| pb.transition_cost(s, s2.as_ref().unwrap_or(s), dec));
    ev.push(format!("tr {} : {} {} : {} : {}", lst(s), dec.variable.id(), dec.value, s2.as_ref().map(lst).unwrap_or("panic".into()), or_panic(cost)));
}
fn limp(pb: &Lcs, var: Variable, s: &LcsState, ev: &mut Vec<String>) -> bool {
    let b = catch(|| pb.is_impacted_by(var, s));
    ev.push(format!("imp {} : {} : {}", lst(s), var.id(), b.map(|b| (b as u8).to_string()).unwrap_or("panic".into())));
    b.unwrap_or(false)
}
/// the dominance events of one state
fn dom_state(s: &LcsState, ev: &mut Vec<String>) {
    ev.push(format!("dk {} : {}", lst(s), catch(|| LcsDominance.get_key(Arc::new(s.clone()))).map(|k| k.map(|k| k.to_string()).unwrap_or("none".into())).unwrap_or("panic".into())));
    let dims = LcsDominance.nb_dimensions(s);
    ev.push(format!("dc {} : {} : {}", lst(s), dims, join(&(0..dims).map(|i| LcsDominance.get_coordinate(s, i)).collect::<Vec<_>>())));
}
/// the dominance events of a pair: key equality, `partial_cmp`, `cmp`
fn dom_pair(a: &LcsState, va: isize, b: &LcsState, vb: isize, ev: &mut Vec<String>) {
    let keq = catch(|| LcsDominance.get_key(Arc::new(a.clone())) == LcsDominance.get_key(Arc::new(b.clone())));
    let pc = catch(|| LcsDominance.partial_cmp(a, va, b, vb)).map(|r| match r { None => "none".to_string(), Some(r) => format!("{} {}", lord(r.ordering), r.only_val_diff as u8) }).unwrap_or("panic".into());
    ev.push(format!("dm {} : {} : {} : {} : {} : {}", lst(a), va, lst(b), vb, keq.map(|b| (b as u8).to_string()).unwrap_or("panic".into()), pc));
    ev.push(format!("cm {} : {} : {} : {} : {}", lst(a), va, lst(b), vb, catch(|| LcsDominance.cmp(a, va, b, vb)).map(lord).unwrap_or("panic")));
}
/// a node of a layer: the state, the arc it was first reached by, the value and the decisions of that path (exact nodes)
#[derive(Clone)]
struct Node { state: LcsState, parent: LcsState, dec: Decision, cost: isize, value: isize, decs: Vec<isize>, exact: bool }

fn run_one_lcs(k: usize, declared: usize, lines: &[Vec<char>], walks: u64, style: u64, rng: &mut Rng) -> String {
    static CNT: std::sync::atomic::AtomicUsize = std::sync::atomic::AtomicUsize::new(0);
    let path = std::env::temp_dir().join(format!("ddo_verif_exmodel_lcs_{}_{}.txt", std::process::id(), CNT.fetch_add(1, std::sync::atomic::Ordering::Relaxed)));
    std::fs::write(&path, lfile(k, declared, lines, style)).expect("cannot write the instance file");
    let r = catch(|| read_instance(&path));
    let _ = std::fs::remove_file(&path);
    let pb: Lcs = match r { None => return "panic".into(), Some(Err(_)) => return "unreadable".into(), Some(Ok(p)) => p };
    let rlx = LcsRelax::new(&pb);
    let rk = LcsRanking;
    let nv = pb.nb_variables();
    let mut ev: Vec<String> = vec![];
    // the value the reader and `Lcs::new` built
    let dbg = format!("{:?}", pb);
    let nstr = match debug_field(&dbg, "n_strings") { J::N(x) => x as usize, _ => unreachable!() };
    let nch = match debug_field(&dbg, "n_chars") { J::N(x) => x as usize, _ => unreachable!() };
    let slen: Vec<usize> = match debug_field(&dbg, "string_length") { J::L(v) => v.iter().map(|x| match x { J::N(x) => *x as usize, _ => unreachable!() }).collect(), _ => unreachable!() };
    ev.push(format!("dims {} {}", nstr, nch));
    ev.push(format!("str {}", pb.strings.iter().map(|s| join(s)).collect::<Vec<_>>().join(" , ")));
    ev.push(format!("chr {}", pb.chars.iter().map(|(i, c)| { assert!(*i < pb.chars.len()); (*c as u32).to_string() }).collect::<Vec<_>>().join(" ")));
    ev.push(format!("len {}", join(&slen)));
    ev.push(format!("nxt {}", j3(&debug_field(&dbg, "next"))));
    ev.push(format!("rem {}", j3(&debug_field(&dbg, "rem"))));
    ev.push(format!("tab {}", j3(&debug_field(&dbg, "tables"))));
    ev.push(format!("nv {}", nv));
    let root = pb.initial_state();
    let ord: Vec<String> = (0..=nv + 1).map(|d| pb.next_variable(d, &mut std::iter::once(&root)).map(|v| v.id().to_string()).unwrap_or("n".into())).collect();
    ev.push(format!("ord {}", ord.join(" ")));
    ev.push(format!("init {} : {}", lst(&root), pb.initial_value()));
    ev.push(format!("rub {} : {}", lst(&root), lrub(&rlx, &root)));
    ev.push(format!("uv {}", LcsDominance.use_value() as u8));
    dom_state(&root, &mut ev);
    // random walks from the root; `pv` = value and decisions (variable, value) of the prefix.  Long-arc walks (as the
    // pooled diagram the example's `main` uses: branch only on the variable that impacts the state) and plain walks (as
    // the other diagrams: branch on every variable)
    for w in 0..walks {
        let long = w % 2 == 0;
        let mut s = pb.initial_state();
        let mut value = pb.initial_value();
        let mut decs: Vec<isize> = vec![];
        ev.push(format!("pv {} : {} :", lst(&s), value));
        for d in 0..nv {
            let var = match pb.next_variable(d, &mut std::iter::once(&s)) { Some(v) => v, None => break };
            let imp = limp(&pb, var, &s, &mut ev);
            if long && !imp { continue; }
            let (dec, cost, s2) = match lstep(&pb, &s, var, &mut ev, rng) { Some(x) => x, None => break };
            value += cost;
            decs.push(var.id() as isize); decs.push(dec.value);
            ev.push(format!("pv {} : {} : {}", lst(&s2), value, join(&decs)));
            ev.push(format!("rub {} : {}", lst(&s2), lrub(&rlx, &s2)));
            ev.push(format!("rk {} : {} : {}", lst(&s), lst(&s2), lord(rk.compare(&s, &s2))));
            s = s2;
        }
    }
    // the exact layers, breadth first with long arcs, through the example's own functions (not recorded: what is used below is)
    let mut layers: Vec<Vec<Node>> = vec![vec![]; nv + 1];
    {
        let mut cur: Vec<Node> = vec![Node { state: root.clone(), parent: root.clone(), dec: Decision { variable: Variable(0), value: 0 }, cost: 0, value: pb.initial_value(), decs: vec![], exact: true }];
        for depth in 0..nv {
            let var = pb.next_variable(depth, &mut cur.iter().map(|x| &x.state)).expect("next_variable");
            let mut next: Vec<Node> = vec![];
            for nd in cur.iter() {
                if !pb.is_impacted_by(var, &nd.state) { if !next.iter().any(|x| x.state == nd.state) { next.push(nd.clone()); } continue; }
                let dom = ldom(&pb, var, &nd.state).expect("for_each_in_domain panics on a reachable state");
                for val in dom {
                    let dec = Decision { variable: var, value: val };
                    let s2 = pb.transition(&nd.state, dec);
                    if next.iter().any(|x| x.state == s2) { continue; }
                    let cost = pb.transition_cost(&nd.state, &s2, dec);
                    let mut decs2 = nd.decs.clone(); decs2.push(var.id() as isize); decs2.push(val);
                    next.push(Node { state: s2, parent: nd.state.clone(), dec, cost, value: nd.value + cost, decs: decs2, exact: true });
                }
            }
            next.truncate(120);
            cur = next.clone();
            layers[depth + 1] = next;
        }
    }
    // merges of 2..=5 states of a layer in a recorded order (exact states — those that wait on a long arc included — and
    // states reached from merged states of the layers above), the relaxed cost of the arc into each merged-away state,
    // ranking, dominance, bound; then a long-arc walk from the merged state
    let mut extra: Vec<Vec<Node>> = vec![vec![]; nv + 1];
    let mut budget = 4;
    for depth in 1..=nv {
        let mut pool: Vec<Node> = layers[depth].iter().filter(|x| x.decs.len() > 0).cloned().collect();
        pool.extend(extra[depth].iter().cloned());
        if pool.len() < 2 || budget == 0 { continue; }
        if depth > 1 && !rng.chance(2, 3) { continue; }
        budget -= 1;
        let kmax = (pool.len() as i64).min(5);
        let cnt = if kmax >= 3 && rng.chance(2, 3) { rng.range(3, kmax) } else { rng.range(2, kmax) } as usize;
        let mut idx: Vec<usize> = (0..pool.len()).collect();
        for i in (1..idx.len()).rev() { let j = rng.below(i as u64 + 1) as usize; idx.swap(i, j); }
        let mut pick: Vec<usize> = idx[..cnt].to_vec();
        if rng.chance(1, 10) { let dup = pick[0]; pick.push(dup); }
        let pick: Vec<&Node> = pick.iter().map(|i| &pool[*i]).collect();
        for p in pick.iter() {
            ev.push(format!("tr {} : {} {} : {} : {}", lst(&p.parent), p.dec.variable.id(), p.dec.value, lst(&p.state), p.cost));
            if p.exact { ev.push(format!("pv {} : {} : {}", lst(&p.state), p.value, join(&p.decs))); }
            ev.push(format!("rub {} : {}", lst(&p.state), lrub(&rlx, &p.state)));
        }
        let m = rlx.merge(&mut pick.iter().map(|p| &p.state));
        ev.push(format!("mg {} : {}", pick.iter().map(|p| lst(&p.state)).collect::<Vec<_>>().join(" , "), lst(&m)));
        for p in pick.iter() {
            let c = if rng.chance(1, 4) { rng.range(-9, 9) as isize } else { p.cost };
            ev.push(format!("rx {} : {} : {} : {} {} : {} : {}", lst(&p.parent), lst(&p.state), lst(&m), p.dec.variable.id(), p.dec.value, c, rlx.relax(&p.parent, &p.state, &m, p.dec, c)));
        }
        ev.push(format!("rk {} : {} : {}", lst(&pick[0].state), lst(&pick[1].state), lord(rk.compare(&pick[0].state, &pick[1].state))));
        ev.push(format!("rk {} : {} : {}", lst(&m), lst(&pick[0].state), lord(rk.compare(&m, &pick[0].state))));
        ev.push(format!("rub {} : {}", lst(&m), lrub(&rlx, &m)));
        // dominance: pairs of states of this layer, the merged state against a merged-away one
        dom_state(&pick[0].state, &mut ev);
        dom_pair(&pick[0].state, pick[0].value, &pick[1].state, pick[1].value, &mut ev);
        dom_pair(&m, pick[0].value + rng.range(-1, 1) as isize, &pick[0].state, pick[0].value, &mut ev);
        {
            // two states of the layer with the same key, if any
            let a = *rng.pick(&pick);
            if let Some(b) = pool.iter().find(|b| b.state.position[0] == a.state.position[0] && b.state != a.state) {
                dom_pair(&a.state, a.value, &b.state, b.value, &mut ev);
                dom_pair(&b.state, b.value + rng.range(-1, 1) as isize, &a.state, a.value, &mut ev);
            }
        }
        let mut s = m;
        for dd in depth..nv {
            let var = Variable(dd);
            if !limp(&pb, var, &s, &mut ev) { continue; }
            let (dec, cost, s2) = match lstep(&pb, &s, var, &mut ev, rng) { Some(x) => x, None => break };
            ev.push(format!("rub {} : {}", lst(&s2), lrub(&rlx, &s2)));
            if extra[dd + 1].len() < 6 && !extra[dd + 1].iter().any(|x| x.state == s2) {
                extra[dd + 1].push(Node { state: s2.clone(), parent: s.clone(), dec, cost, value: 0, decs: vec![], exact: false });
            }
            s = s2;
        }
    }
    // arbitrary reachable-looking states (each position anywhere in its string, or just after an occurrence of one common
    // character): bound, `is_impacted_by` on the variable of position 0 and on another one, domain, one step, ranking,
    // dominance; merges of 2..=4 of them, relaxed cost of an arc into each, bound of the merged state, a walk from it
    {
        let cnt = rng.range(1, 4) as usize;
        let sts: Vec<LcsState> = (0..cnt).map(|_| {
            let free_form = rng.chance(1, 2);
            let c = rng.below(nch.max(1) as u64) as usize;
            let position: Vec<usize> = (0..nstr).map(|i| {
                let occ: Vec<usize> = (0..slen[i]).filter(|p| pb.strings[i][*p] == c).map(|p| p + 1).collect();
                if free_form || occ.is_empty() { rng.range(0, slen[i] as i64) as usize } else { *rng.pick(&occ) }
            }).collect();
            LcsState { position }
        }).collect();
        for s in sts.iter() { ev.push(format!("rub {} : {}", lst(s), lrub(&rlx, s))); }
        let s0 = &sts[0];
        let other = Variable(rng.below(nv as u64 + 1) as usize);
        limp(&pb, other, s0, &mut ev);
        ev.push(format!("dom {} : {} : {}", lst(s0), other.id(), ldom(&pb, other, s0).map(|x| join(&x)).unwrap_or("panic".into())));
        let var0 = Variable(s0.position[0]);
        limp(&pb, var0, s0, &mut ev);
        dom_state(s0, &mut ev);
        if let Some((_, _, s2)) = lstep(&pb, s0, var0, &mut ev, rng) {
            ev.push(format!("rub {} : {}", lst(&s2), lrub(&rlx, &s2)));
            ev.push(format!("rk {} : {} : {}", lst(s0), lst(&s2), lord(rk.compare(s0, &s2))));
        }
        if cnt >= 2 {
            let m = rlx.merge(&mut sts.iter());
            ev.push(format!("mg {} : {}", sts.iter().map(lst).collect::<Vec<_>>().join(" , "), lst(&m)));
            for s in sts.iter() {
                let c = rng.range(-9, 9) as isize;
                let dec = Decision { variable: Variable(s.position[0].saturating_sub(1)), value: rng.range(-1, nch as i64 - 1) as isize };
                ev.push(format!("rx {} : {} : {} : {} {} : {} : {}", lst(&root), lst(s), lst(&m), dec.variable.id(), dec.value, c, rlx.relax(&root, s, &m, dec, c)));
            }
            ev.push(format!("rk {} : {} : {}", lst(&sts[0]), lst(&sts[1]), lord(rk.compare(&sts[0], &sts[1]))));
            ev.push(format!("rub {} : {}", lst(&m), lrub(&rlx, &m)));
            let (va, vb) = (rng.range(0, 3) as isize, rng.range(0, 3) as isize);
            dom_pair(&sts[0], va, &sts[1], vb, &mut ev);
            dom_pair(&m, va, &sts[0], vb, &mut ev);
            // the same key, by construction
            let mut t = sts[1].clone(); t.position[0] = sts[0].position[0];
            dom_pair(&sts[0], va, &t, vb, &mut ev);
            dom_pair(&t, vb, &sts[0], va, &mut ev);
            let mut s = m;
            for dd in s.position[0]..nv {
                let var = Variable(dd);
                if !limp(&pb, var, &s, &mut ev) { continue; }
                let (_, _, s2) = match lstep(&pb, &s, var, &mut ev, rng) { Some(x) => x, None => break };
                ev.push(format!("rub {} : {}", lst(&s2), lrub(&rlx, &s2)));
                s = s2;
            }
        }
    }
    // calls outside the domain: a position beyond the end of its string, a position vector that is too short or too long,
    // a character that does not exist or that does not occur any more (the position runs past the end: no panic), the
    // merge of no state at all
    if rng.chance(1, 3) {
        let mut s = LcsState { position: (0..nstr).map(|i| rng.range(0, slen[i] as i64) as usize).collect() };
        match rng.below(4) {
            0 => { let i = rng.below(nstr as u64) as usize; s.position[i] = slen[i] + rng.range(1, 2) as usize; }
            1 => { s.position.pop(); }
            2 => { s.position.push(rng.below(3) as usize); }
            _ => {}
        }
        let var = Variable(rng.below(nv as u64 + 2) as usize);
        let val = *rng.pick(&[-1isize, 0, 1, 2, nch as isize, nch as isize + 1, -2, -3]);
        ltr_any(&pb, &s, Decision { variable: var, value: val }, &mut ev);
        ev.push(format!("rub {} : {}", lst(&s), lrub(&rlx, &s)));
        ev.push(format!("dom {} : {} : {}", lst(&s), var.id(), ldom(&pb, var, &s).map(|x| join(&x)).unwrap_or("panic".into())));
        if !s.position.is_empty() { limp(&pb, var, &s, &mut ev); }
        ev.push(format!("rk {} : {} : {}", lst(&s), lst(&root), catch(|| rk.compare(&s, &root)).map(lord).unwrap_or("panic")));
        ev.push(format!("rk {} : {} : {}", lst(&root), lst(&s), catch(|| rk.compare(&root, &s)).map(lord).unwrap_or("panic")));
        let none: Vec<LcsState> = vec![];
        ev.push(format!("mg : {}", catch(|| rlx.merge(&mut none.iter())).as_ref().map(lst).unwrap_or("panic".into())));
        let two = [root.clone(), s.clone()];
        ev.push(format!("mg {} , {} : {}", lst(&two[0]), lst(&two[1]), catch(|| rlx.merge(&mut two.iter())).as_ref().map(lst).unwrap_or("panic".into())));
    }
    ev.join(" ; ")
}

/// random small instance: 1–4 strings of 1–10 characters over 1–4 characters (the specification enumerates the `2^len`
/// subsequences of the first string of the file).  In the domain of the format unless tagged `ood_…`: exactly `k ≥ 1`
/// non-empty strings, a declared alphabet size that is at least the number of distinct characters.
fn gen_lcs(rng: &mut Rng) -> (usize, usize, Vec<Vec<char>>, Vec<String>) {
    let mut tags: Vec<String> = vec![];
    let k = if rng.chance(1, 15) { 1 } else { *rng.pick(&[2usize, 2, 3, 3, 3, 4]) };
    let alpha_size = *rng.pick(&[1usize, 2, 2, 3, 3, 4]);
    let alphabet: Vec<char> = rng.pick(&["acgt", "ABCD", "tgca", "zaZ0", "0123"]).chars().take(alpha_size).collect();
    let rnd_string = |rng: &mut Rng, len: usize, al: &[char]| -> Vec<char> { (0..len).map(|_| *rng.pick(al)).collect() };
    let lmax: i64 = if k == 4 { 9 } else { 10 };
    let mode = rng.below(10);
    let mut strings: Vec<Vec<char>> = vec![];
    match mode {
        0 | 1 => { for _ in 0..k { let len = rng.range(1, lmax) as usize; strings.push(rnd_string(rng, len, &alphabet)); } }
        2 | 3 | 4 => { // long strings over a small alphabet: many incomparable partial matches
            let al = &alphabet[..alphabet.len().min(rng.range(2, 3) as usize)];
            for _ in 0..k { let len = rng.range(6, lmax) as usize; strings.push(rnd_string(rng, len, al)); }
            tags.push("long_strings".into());
        }
        5 | 6 | 7 => { // noisy copies of a common base: long common subsequences
            let blen = rng.range(2, 7) as usize; let base = rnd_string(rng, blen, &alphabet);
            for _ in 0..k {
                let mut s = base.clone();
                for _ in 0..rng.range(0, 2) { if s.len() > 1 { let p = rng.below(s.len() as u64) as usize; s.remove(p); } }
                for _ in 0..rng.range(0, 3) { if (s.len() as i64) < lmax { let p = rng.below(s.len() as u64 + 1) as usize; s.insert(p, *rng.pick(&alphabet)); } }
                strings.push(s);
            }
            tags.push("noisy_copies".into());
        }
        8 => { let len = rng.range(1, lmax) as usize; let s = rnd_string(rng, len, &alphabet); for _ in 0..k { strings.push(s.clone()); } tags.push("identical_strings".into()); }
        _ => { // string i only uses character i (mod alphabet): no common character when k >= 2 and alphabet >= 2
            for i in 0..k { let len = rng.range(1, 6) as usize; strings.push(vec![alphabet[i % alphabet.len()]; len]); }
            if k >= 2 && alphabet.len() >= 2 { tags.push("no_common_character".into()); }
        }
    }
    let mut used: Vec<char> = strings.iter().flatten().copied().collect(); used.sort(); used.dedup();
    let mut declared = used.len();
    if rng.chance(1, 6) { declared += rng.range(1, 2) as usize; tags.push("unused_alphabet".into()); }
    if k == 1 { tags.push("single_string".into()); }
    if used.len() == 1 { tags.push("single_character".into()); }
    if strings.iter().any(|s| s.len() == 1) { tags.push("length_one_string".into()); }
    { let mut l: Vec<usize> = strings.iter().map(|s| s.len()).collect(); l.sort(); l.dedup(); if k > 1 && l.len() < k { tags.push("length_ties".into()); } }
    if strings.windows(2).any(|w| w[0].len() > w[1].len()) { tags.push("reader_reorders".into()); }
    // outside the domain of the format (the model mirrors the reader all the same)
    let mut kk = k;
    match rng.below(120) {
        0 | 1 => { if used.len() >= 2 { declared = rng.range(0, used.len() as i64 - 1) as usize; tags.push("ood_alphabet_too_small".into()); } }
        2 | 3 => { let len = rng.range(1, lmax) as usize; let at = rng.below(strings.len() as u64 + 1) as usize; strings.insert(at, rnd_string(rng, len, &alphabet)); tags.push("ood_extra_line".into()); }
        4 => { if k >= 2 { strings.pop(); tags.push("ood_missing_line".into()); } }
        5 => { kk = 0; tags.push("ood_no_string".into()); }
        6 => { let at = rng.below(strings.len() as u64) as usize; strings[at].clear(); tags.push("ood_empty_string".into()); }
        _ => {}
    }
    (kk, declared, strings, tags)
}
fn lcase(k: usize, declared: usize, lines: &[Vec<char>], walks: u64, wseed: u64, style: u64) -> String {
    let body = lines.iter().map(|s| if s.is_empty() { "0".to_string() } else { format!("{} {}", s.len(), join(&s.iter().map(|c| *c as u32).collect::<Vec<_>>())) }).collect::<Vec<_>>().join(" ");
    format!("lcs | {} {} {} {} | {} {} {}", k, declared, lines.len(), body, walks, wseed, style)
}

/// replay of one case: "lcs | k declared nlines (len c_1 … c_len)*nlines | walks seed style" (characters as code points)
pub fn replay(parts: &[&str]) -> String {
    let t: Vec<i64> = parts[1].split_whitespace().map(|x| x.parse().unwrap()).collect();
    let (k, declared, nl) = (t[0] as usize, t[1] as usize, t[2] as usize);
    let mut lines: Vec<Vec<char>> = vec![];
    let mut at = 3;
    for _ in 0..nl { let len = t[at] as usize; lines.push(t[at + 1..at + 1 + len].iter().map(|c| char::from_u32(*c as u32).unwrap()).collect()); at += 1 + len; }
    let u: Vec<u64> = parts[2].split_whitespace().map(|x| x.parse().unwrap()).collect();
    let mut r2 = Rng::new(u[1]);
    catch(|| run_one_lcs(k, declared, &lines, u[0], u[2], &mut r2)).unwrap_or("panic".into())
}
/// the generated cases of the family
pub fn generate(out: &mut Out, rng: &mut Rng, ninst: usize) {
    for _ in 0..ninst {
        let (k, declared, lines, mut tags) = gen_lcs(rng);
        let walks = rng.range(1, 3) as u64; let wseed = rng.next() >> 1;
        let style = rng.below(16);
        let mut r2 = Rng::new(wseed);
        let imp = catch(|| run_one_lcs(k, declared, &lines, walks, style, &mut r2)).unwrap_or("panic".into());
        let big = imp.split(" ; ").filter(|e| e.starts_with("mg ")).any(|e| e.matches(" , ").count() >= 2);
        if big { tags.push("merge_of_3_or_more".into()); }
        if imp == "panic" { tags.push("reader_panics".into()); }
        if imp == "unreadable" { tags.push("reader_error".into()); }
        if imp.split(" ; ").any(|e| e.starts_with("imp ") && e.ends_with(": 0")) { tags.push("long_arc".into()); }
        out.case_tagged(&lcase(k, declared, &lines, walks, wseed, style), &imp, &tags.join(" "));
    }
}
