//! The single source of randomness of the harness: xorshift64* seeded from VERIF_SEED.
#[derive(Clone)]
pub struct Rng(u64);
impl Rng {
    pub fn new(seed: u64) -> Self {
        let mut r = Rng(seed.wrapping_mul(0x9E3779B97F4A7C15) ^ 0xD1B54A32D192ED03);
        if r.0 == 0 { r.0 = 0x2545F4914F6CDD1D; }
        for _ in 0..4 { r.next(); }
        r
    }
    pub fn next(&mut self) -> u64 {
        let mut x = self.0;
        x ^= x >> 12; x ^= x << 25; x ^= x >> 27;
        self.0 = x;
        x.wrapping_mul(0x2545F4914F6CDD1D)
    }
    /// uniform in 0..n (n > 0)
    pub fn below(&mut self, n: u64) -> u64 { self.next() % n }
    /// uniform in lo..=hi
    pub fn range(&mut self, lo: i64, hi: i64) -> i64 { lo + (self.below((hi - lo + 1) as u64) as i64) }
    pub fn chance(&mut self, num: u64, den: u64) -> bool { self.below(den) < num }
    pub fn pick<'a, T>(&mut self, xs: &'a [T]) -> &'a T { &xs[self.below(xs.len() as u64) as usize] }
    pub fn fork(&mut self) -> Rng { Rng::new(self.next()) }
}
