//! Family `max2sat` of engine `exmodel` (C16): pointwise correspondence between the DP model, relaxation and ranking of the
//! shipped max2sat example (its source files are compiled in by path) and the Lean model `DdoModel/Examples/Max2satDp.lean`.
//! The instance goes through the example's own reader (a file) or data structure and its constructor `Max2Sat::new`; recorded
//! are the public precomputed tables, `next_variable` on a state of every depth and on an empty layer, and along random walks
//! every `for_each_in_domain`, `transition`, `transition_cost`, `fast_upper_bound` (the private tables `nk` / `estimates` are
//! observed through it) with the value and the decisions of the prefix; merges, relaxed costs, ranking; the same on arbitrary states.
/// The modules of the shipped max2sat example, compiled in by path.  They refer to one another as `crate::model`,
/// `crate::data`, … (they are the top-level modules of the example binary): `main.rs` of the harness re-exports them
/// under these names at the crate root.
#[allow(dead_code, unused_imports, clippy::all)]
pub mod ex_max2sat {
    #[path = "/repo/ddo/examples/max2sat/errors.rs"]
    pub mod errors;
    #[path = "/repo/ddo/examples/max2sat/data.rs"]
    pub mod data;
    #[path = "/repo/ddo/examples/max2sat/model.rs"]
    pub mod model;
    #[path = "/repo/ddo/examples/max2sat/relax.rs"]
    pub mod relax;
    #[path = "/repo/ddo/examples/max2sat/heuristics.rs"]
    pub mod heuristics;
}
use crate::{out::Out, rng::Rng};
use ddo::*;
use ex_max2sat::{data::{read_instance, BinaryClause, Weighed2Sat}, heuristics::Max2SatRanking, model::{Max2Sat, State as M2State}, relax::Max2SatRelax};
// ---------------------------------------------------------------------------------------------- max2sat
/// a state in full: `depth b_0 … b_{n-1}`
fn m2st(s: &M2State) -> String {
    let mut t = s.depth.to_string();
    for b in s.substates.iter() { t.push(' '); t.push_str(&b.to_string()); }
    t
}
fn m2ord(o: std::cmp::Ordering) -> &'static str { match o { std::cmp::Ordering::Less => "lt", std::cmp::Ordering::Equal => "eq", _ => "gt" } }
/// `fast_upper_bound` through the `Relaxation` trait; the tables have `n` entries: a terminal state is out of range
fn m2rub(rlx: &Max2SatRelax, s: &M2State) -> String {
    crate::out::catch(|| rlx.fast_upper_bound(s)).map(|x| x.to_string()).unwrap_or("panic".into())
}
/// the instance file of the example's reader for the clauses `(w, x, y)` (unit clause: `x = y`), literals in the order given
fn m2file(n: usize, clauses: &[(isize, isize, isize)], rng: &mut Rng) -> String {
    let mut file = String::new();
    if rng.chance(1, 3) { file.push_str("c random instance of the ddo verification harness\n"); }
    file.push_str(&format!("p wcnf {} {}\n", n, clauses.len()));
    for (w, x, y) in clauses.iter() {
        if x == y && rng.chance(2, 3) { file.push_str(&format!("{} {} 0\n", w, x)); } else { file.push_str(&format!("{} {} {} 0\n", w, x, y)); }
        if rng.chance(1, 10) { file.push('\n'); }
    }
    file
}
/// one step of a walk: domain, random decision, transition, cost; events `dom`, `tr`
fn m2step(pb: &Max2Sat, s: &M2State, d: usize, ev: &mut Vec<String>, rng: &mut Rng) -> Option<(Decision, isize, M2State)> {
    let var = pb.next_variable(d, &mut std::iter::once(s))?;
    let mut dom: Vec<isize> = vec![];
    pb.for_each_in_domain(var, s, &mut |x: Decision| dom.push(x.value));
    ev.push(format!("dom {} : {} : {}", m2st(s), var.id(), dom.iter().map(|x| x.to_string()).collect::<Vec<_>>().join(" ")));
    if dom.is_empty() { return None; }
    let val = *rng.pick(&dom);
    let dec = Decision { variable: var, value: val };
    let s2 = pb.transition(s, dec);
    let cost = pb.transition_cost(s, &s2, dec);
    ev.push(format!("tr {} : {} {} : {} : {}", m2st(s), var.id(), val, m2st(&s2), cost));
    Some((dec, cost, s2))
}

fn run_one_max2sat(n: usize, clauses: &[(isize, isize, isize)], walks: u64, reader: bool, rng: &mut Rng) -> String {
    // the instance through the example's own reader (a file) or its own data structure, then its constructor
    let inst: Weighed2Sat = if reader {
        let path = std::env::temp_dir().join(format!("ddo_verif_exmodel_{}.wcnf", std::process::id()));
        std::fs::write(&path, m2file(n, clauses, rng)).expect("cannot write the instance file");
        let r = read_instance(&path).expect("the example's reader rejects the instance");
        let _ = std::fs::remove_file(&path);
        r
    } else {
        let mut w: Weighed2Sat = Default::default();
        w.nb_vars = n;
        for (wt, x, y) in clauses.iter() { w.weights.insert(BinaryClause::new(*x, *y), *wt); }
        w
    };
    let pb = Max2Sat::new(inst);
    let rlx = Max2SatRelax(&pb);
    let mut ev: Vec<String> = vec![];
    let list = |xs: &mut dyn Iterator<Item = String>| xs.collect::<Vec<_>>().join(" ");
    ev.push(format!("nv {}", pb.nb_variables()));
    // the precomputed tables that are public
    ev.push(format!("vbs {}", list(&mut pb.vars_by_sum_of_clause_weights.iter().map(|v| v.id().to_string()))));
    ev.push(format!("scw {}", list(&mut pb.sum_of_clause_weights.iter().map(|x| x.to_string()))));
    ev.push(format!("ini {}", pb.initial));
    ev.push(format!("wt {}", list(&mut pb.weights.iter().map(|x| x.to_string()))));
    // next_variable: on a state of every depth (it reads the depth in the state, not its argument), and on an empty layer
    let ord: Vec<String> = (0..=n).map(|d| {
        let s = M2State { depth: d, substates: vec![0; n] };
        pb.next_variable(d, &mut std::iter::once(&s)).map(|v| v.id().to_string()).unwrap_or("n".into())
    }).collect();
    ev.push(format!("ord {}", ord.join(" ")));
    let empty: Vec<M2State> = vec![];
    ev.push(format!("nve {}", pb.next_variable(0, &mut empty.iter()).map(|v| v.id().to_string()).unwrap_or("n".into())));
    let root = pb.initial_state();
    ev.push(format!("init {} : {}", m2st(&root), pb.initial_value()));
    ev.push(format!("rub {} : {}", m2st(&root), m2rub(&rlx, &root)));
    // random walks from the root: (parent, decision, cost, state) per depth; `pv` = value and decisions of the prefix
    let mut by_depth: Vec<Vec<(M2State, Decision, isize, M2State)>> = vec![vec![]; n + 1];
    for _ in 0..walks {
        let mut s = pb.initial_state();
        let mut value = pb.initial_value();
        let mut lits: Vec<String> = vec![];
        ev.push(format!("pv {} : {} :", m2st(&s), value));
        for d in 0..n {
            let (dec, cost, s2) = match m2step(&pb, &s, d, &mut ev, rng) { Some(x) => x, None => break };
            value += cost;
            lits.push(((dec.variable.id() as isize + 1) * dec.value).to_string());
            ev.push(format!("pv {} : {} : {}", m2st(&s2), value, lits.join(" ")));
            ev.push(format!("rub {} : {}", m2st(&s2), m2rub(&rlx, &s2)));
            by_depth[d + 1].push((s.clone(), dec, cost, s2.clone()));
            s = s2;
        }
    }
    // merges of states met at the same depth, the relaxed cost of the arc of each of them, ranking; then a walk from the merged state
    for d in 1..=n {
        let l = &by_depth[d];
        if l.len() < 2 { continue; }
        let k = rng.range(2, (l.len() as i64).min(4)) as usize;
        let pick: Vec<&(M2State, Decision, isize, M2State)> = (0..k).map(|_| rng.pick(l)).collect();
        let m = rlx.merge(&mut pick.iter().map(|p| &p.3));
        ev.push(format!("mg {} : {}", pick.iter().map(|p| m2st(&p.3)).collect::<Vec<_>>().join(" , "), m2st(&m)));
        for p in pick.iter() {
            let c = if rng.chance(1, 4) { rng.range(-9, 30) as isize } else { p.2 };
            ev.push(format!("rx {} : {} : {} : {} {} : {} : {}", m2st(&p.0), m2st(&p.3), m2st(&m), p.1.variable.id(), p.1.value, c, rlx.relax(&p.0, &p.3, &m, p.1, c)));
        }
        ev.push(format!("rk {} : {} : {}", m2st(&pick[0].3), m2st(&pick[1].3), m2ord(Max2SatRanking.compare(&pick[0].3, &pick[1].3))));
        ev.push(format!("rk {} : {} : {}", m2st(&m), m2st(&pick[0].3), m2ord(Max2SatRanking.compare(&m, &pick[0].3))));
        ev.push(format!("rub {} : {}", m2st(&m), m2rub(&rlx, &m)));
        let mut s = m;
        for dd in d..n {
            let (_, _, s2) = match m2step(&pb, &s, dd, &mut ev, rng) { Some(x) => x, None => break };
            ev.push(format!("rub {} : {}", m2st(&s2), m2rub(&rlx, &s2)));
            s = s2;
        }
    }
    // arbitrary states (benefits of any sign on the free variables, 0 on the decided ones): bound, one step, ranking; their
    // merge (sign conflicts, zeros first, equal states), the relaxed cost of an arc into each, the bound of the merged state
    if n >= 1 {
        for _ in 0..2 {
            let d = rng.below(n as u64) as usize;
            let amp = *rng.pick(&[1i64, 2, 3, 12, 40]);
            let k = rng.range(1, 3) as usize;
            let sts: Vec<M2State> = (0..k).map(|_| {
                let mut sub = vec![0isize; n];
                for v in pb.vars_by_sum_of_clause_weights[0..n - d].iter() { sub[v.id()] = rng.range(-amp, amp) as isize; }
                M2State { depth: d, substates: sub }
            }).collect();
            for s in sts.iter() { ev.push(format!("rub {} : {}", m2st(s), m2rub(&rlx, s))); }
            if let Some((_, _, s2)) = m2step(&pb, &sts[0], d, &mut ev, rng) {
                ev.push(format!("rub {} : {}", m2st(&s2), m2rub(&rlx, &s2)));
                ev.push(format!("rk {} : {} : {}", m2st(&sts[0]), m2st(&s2), m2ord(Max2SatRanking.compare(&sts[0], &s2))));
            }
            if k >= 2 {
                let m = rlx.merge(&mut sts.iter());
                ev.push(format!("mg {} : {}", sts.iter().map(m2st).collect::<Vec<_>>().join(" , "), m2st(&m)));
                for s in sts.iter() {
                    let c = rng.range(-9, 30) as isize;
                    let dec = Decision { variable: Variable(0), value: *rng.pick(&[1isize, -1]) };
                    ev.push(format!("rx {} : {} : {} : {} {} : {} : {}", m2st(&root), m2st(s), m2st(&m), dec.variable.id(), dec.value, c, rlx.relax(&root, s, &m, dec, c)));
                }
                ev.push(format!("rk {} : {} : {}", m2st(&sts[0]), m2st(&sts[1]), m2ord(Max2SatRanking.compare(&sts[0], &sts[1]))));
                ev.push(format!("rub {} : {}", m2st(&m), m2rub(&rlx, &m)));
                let mut s = m;
                for dd in d..n {
                    let (_, _, s2) = match m2step(&pb, &s, dd, &mut ev, rng) { Some(x) => x, None => break };
                    ev.push(format!("rub {} : {}", m2st(&s2), m2rub(&rlx, &s2)));
                    s = s2;
                }
            }
        }
    }
    ev.join(" ; ")
}

/// random small weighted 2-CNF: unit clauses, tautologies, weights of any sign, ties; every clause (as a set of
/// literals) once, except under `duplicate_clauses_last_wins` (the reader and the constructor keep the last weight: so does the model)
fn gen_max2sat(rng: &mut Rng) -> (usize, Vec<(isize, isize, isize)>, Vec<String>) {
    let mut tags: Vec<String> = vec![];
    let n = if rng.chance(1, 60) { 0 } else if rng.chance(1, 15) { 1 } else { rng.range(2, 7) } as i64;
    let mode = *rng.pick(&[0u64, 0, 1, 1, 2, 3, 3, 3, 4, 5]);
    let weight = |rng: &mut Rng| -> i64 { match mode { 0 => rng.range(1, 9), 1 => rng.range(1, 2), 2 => rng.range(0, 4), 3 => rng.range(-5, 9), 4 => rng.range(-9, -1), _ => 1 } };
    tags.push(["positive", "tiny_weights", "with_zeros", "mixed_signs", "all_negative", "unweighted"][mode as usize].to_string());
    let unit_heavy = rng.chance(1, 4);
    let taut_heavy = rng.chance(1, 4);
    let m = if n == 0 { 0 } else { rng.range(0, 3 * n + 1) };
    let mut clauses: Vec<(isize, isize, isize)> = vec![];
    let lit = |rng: &mut Rng| -> i64 { let v = rng.range(1, n); if rng.chance(1, 2) { v } else { -v } };
    for _ in 0..m {
        let k = rng.below(20);
        let (a, b) = if n < 2 || (unit_heavy && k < 10) || k < 3 { let x = lit(rng); (x, x) }
            else if k == 19 || (taut_heavy && k >= 14) { let v = rng.range(1, n); if rng.chance(1, 2) { (-v, v) } else { (v, -v) } }
            else { let x = lit(rng); let mut y = lit(rng); while y.abs() == x.abs() { y = lit(rng); } (x, y) };
        if clauses.iter().any(|c| (c.1.min(c.2), c.1.max(c.2)) == ((a.min(b)) as isize, (a.max(b)) as isize)) { continue; }
        clauses.push((weight(rng) as isize, a as isize, b as isize));
    }
    if !clauses.is_empty() && rng.chance(1, 12) {
        let (_, a, b) = *rng.pick(&clauses);
        let c = if rng.chance(1, 2) { (weight(rng) as isize, a, b) } else { (weight(rng) as isize, b, a) };
        let at = rng.below(clauses.len() as u64 + 1) as usize;
        clauses.insert(at, c);
        tags.push("duplicate_clauses_last_wins".into());
    }
    if n == 0 { tags.push("no_vars".into()); }
    if n == 1 { tags.push("single_var".into()); }
    if clauses.is_empty() { tags.push("no_clauses".into()); }
    if clauses.iter().any(|c| c.1 == c.2) { tags.push("unit_clauses".into()); }
    if clauses.iter().any(|c| c.1 == -c.2) { tags.push("tautology".into()); }
    if clauses.iter().any(|c| c.0 < 0) { tags.push("negative_weights".into()); }
    (n as usize, clauses, tags)
}
fn m2case(n: usize, clauses: &[(isize, isize, isize)], walks: u64, wseed: u64, reader: bool) -> String {
    format!("max2sat | {} {} {} | {} {} {}", n, clauses.len(), clauses.iter().map(|(w, x, y)| format!("{} {} {}", w, x, y)).collect::<Vec<_>>().join(" "), walks, wseed, reader as u8)
}


/// replay of one case: "max2sat | n m (w x y)*m | walks seed reader"
pub fn replay(parts: &[&str]) -> String {
    let t: Vec<i64> = parts[1].split_whitespace().map(|x| x.parse().unwrap()).collect();
    let clauses: Vec<(isize, isize, isize)> = t[2..].chunks(3).map(|c| (c[0] as isize, c[1] as isize, c[2] as isize)).collect();
    let u: Vec<u64> = parts[2].split_whitespace().map(|x| x.parse().unwrap()).collect();
    let mut r2 = Rng::new(u[1]);
    crate::out::catch(|| run_one_max2sat(t[0] as usize, &clauses, u[0], u[2] == 1, &mut r2)).unwrap_or("panic".into())
}
/// the generated cases of the family
pub fn generate(out: &mut Out, rng: &mut Rng, ninst: usize) {
    for _ in 0..ninst {
        let (n, clauses, mut tags) = gen_max2sat(rng);
        let walks = rng.range(1, 5) as u64; let wseed = rng.next() >> 1;
        let reader = rng.chance(1, 3);
        if reader { tags.push("through_reader".into()); }
        let mut r2 = Rng::new(wseed);
        let imp = crate::out::catch(|| run_one_max2sat(n, &clauses, walks, reader, &mut r2)).unwrap_or("panic".into());
        out.case_tagged(&m2case(n, &clauses, walks, wseed, reader), &imp, &tags.join(" "));
    }
}
