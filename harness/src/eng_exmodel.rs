//! Engine `exmodel` (C16, knapsack and misp): pointwise correspondence between the DP model, relaxation and ranking of a
//! shipped example — the example's own source file is compiled into the harness by path — and their Lean model
//! `DdoModel/Examples/KnapsackDp.lean` / `MispDp.lean` (the models the well-formedness theorems of `KnapsackModel.lean` /
//! `MispModel.lean` are about): variable order, domains, transitions, costs, rough upper bounds along random walks
//! (knapsack) or along random width-bounded layered expansions (misp: its variable order is computed from the states of
//! the layer); merges of states met at the same depth; relaxed costs; ranking.
#[path = "/repo/ddo/examples/knapsack/main.rs"]
#[allow(dead_code, unused_imports, clippy::all)]
mod ex_knapsack;

/// Back door into the misp example.  Everything that builds a `Misp` or a `MispRelax` is private to the example's
/// module (fields, `read_instance`), and the module is compiled from the example's file *verbatim* (`#[path]`), so
/// nothing can be added to it.  But an `impl` block is crate-global wherever it is written, and the body of a function
/// of the module sees the module's private items.  The example's `main` (dead code here) calls `println!`; macros
/// defined textually before a `mod` declaration shadow the prelude macros inside that module.  Hence: `println!` is
/// redefined for `ex_misp` only, ONE of the calls in `main` (`println!("Aborted:    {}", …)`) expands to the `impl` of
/// this trait, all others to `std::println!`.  No code of the model (`Problem`, `Relaxation`, `StateRanking`
/// implementations, `read_instance`) contains a `println!`: what is observed is the example's code, untouched.
pub trait MispBack: Sized {
    /// the example's own `read_instance`
    fn read(path: &std::path::Path) -> Option<Self>;
    fn weights(&self) -> Vec<isize>;
    /// the field `neighbors`: for every vertex the COMPLEMENT of its adjacency list
    fn non_neighbors(&self) -> Vec<BitSet>;
    fn relaxation(&self) -> ex_misp::MispRelax<'_>;
}
#[allow(unused_macros)]
macro_rules! println {
    ("Aborted:    {}", $e:expr) => {
        impl crate::eng_exmodel::MispBack for Misp {
            fn read(path: &std::path::Path) -> Option<Misp> { read_instance(path).ok() }
            fn weights(&self) -> Vec<isize> { self.weight.clone() }
            fn non_neighbors(&self) -> Vec<BitSet> { self.neighbors.clone() }
            fn relaxation(&self) -> MispRelax<'_> { MispRelax { pb: self } }
        }
        std::println!("Aborted:    {}", $e);
    };
    ($($t:tt)*) => { std::println!($($t)*) };
}
#[path = "/repo/ddo/examples/misp/main.rs"]
#[allow(dead_code, unused_imports, non_local_definitions, clippy::all)]
mod ex_misp;
use crate::{out::Out, rng::Rng, Args};
use ddo::*;
use bit_set::BitSet;
use ex_knapsack::{KPRanking, KPRelax, Knapsack, KnapsackState};
use ex_misp::{Misp, MispRanking};

/// `KnapsackState`'s fields are private to the example: read them from its `Debug` text
fn dc(s: &KnapsackState) -> (usize, usize) {
    let t = format!("{:?}", s);
    let nums: Vec<usize> = t.split(|c: char| !c.is_ascii_digit()).filter(|x| !x.is_empty()).map(|x| x.parse().unwrap()).collect();
    (nums[0], nums[1])
}
fn st(s: &KnapsackState) -> String { let (d, c) = dc(s); format!("{} {}", d, c) }

fn run_one(cap: usize, profit: &[isize], weight: &[usize], walks: u64, rng: &mut Rng) -> String {
    let n = profit.len();
    let pb = Knapsack::new(cap, profit.to_vec(), weight.to_vec());
    let rlx = KPRelax { pb: &pb };
    let mut ev: Vec<String> = vec![];
    // the variable order as next_variable reveals it
    let empty: Vec<KnapsackState> = vec![];
    let order: Vec<String> = (0..=n).map(|d| pb.next_variable(d, &mut empty.iter()).map(|v| v.id().to_string()).unwrap_or("n".into())).collect();
    ev.push(format!("ord {}", order.join(" ")));
    ev.push(format!("init {} {}", st(&pb.initial_state()), pb.initial_value()));
    ev.push(format!("rub {} {}", st(&pb.initial_state()), rlx.fast_upper_bound(&pb.initial_state())));
    let mut by_depth: Vec<Vec<KnapsackState>> = vec![vec![]; n + 1];
    for _ in 0..walks {
        let mut s = pb.initial_state();
        for d in 0..n {
            let var = match pb.next_variable(d, &mut std::iter::once(&s)) { Some(v) => v, None => break };
            let mut dom: Vec<isize> = vec![];
            pb.for_each_in_domain(var, &s, &mut |x: Decision| dom.push(x.value));
            ev.push(format!("dom {} {} {}", st(&s), var.id(), dom.iter().map(|x| x.to_string()).collect::<Vec<_>>().join(" ")));
            if dom.is_empty() { break; }
            let val = *rng.pick(&dom);
            let dec = Decision { variable: var, value: val };
            let s2 = pb.transition(&s, dec);
            let cost = pb.transition_cost(&s, &s2, dec);
            ev.push(format!("tr {} {} {} {} {}", st(&s), var.id(), val, st(&s2), cost));
            ev.push(format!("rub {} {}", st(&s2), rlx.fast_upper_bound(&s2)));
            by_depth[d + 1].push(s2);
            s = s2;
        }
    }
    // merges of states met at the same depth (in the order given: max_by_key keeps the last maximum), relaxed costs, ranking
    for d in 1..=n {
        let l = &by_depth[d];
        if l.len() < 2 { continue; }
        let k = rng.range(2, (l.len() as i64).min(4)) as usize;
        let pick: Vec<KnapsackState> = (0..k).map(|_| *rng.pick(l)).collect();
        let m = rlx.merge(&mut pick.iter());
        ev.push(format!("mg {} : {}", pick.iter().map(st).collect::<Vec<_>>().join(" , "), st(&m)));
        let c = rng.range(-5, 20) as isize;
        ev.push(format!("rx {} {}", c, rlx.relax(&pick[0], &pick[1], &m, Decision { variable: Variable(0), value: 1 }, c)));
        let o = KPRanking.compare(&pick[0], &pick[1]);
        ev.push(format!("rk {} , {} {}", st(&pick[0]), st(&pick[1]), match o { std::cmp::Ordering::Less => "lt", std::cmp::Ordering::Equal => "eq", _ => "gt" }));
    }
    ev.join(" ; ")
}


// ------------------------------------------------------------------------------------------------------------- misp
/// a state (`BitSet`) as the sorted list of its vertices; the empty set is `-`
fn set(s: &BitSet) -> String { if s.is_empty() { "-".into() } else { s.iter().map(|x| x.to_string()).collect::<Vec<_>>().join(" ") } }
fn sets(l: &[BitSet]) -> String { l.iter().map(set).collect::<Vec<_>>().join(" , ") }
fn var(v: Option<Variable>) -> String { v.map(|v| v.id().to_string()).unwrap_or("n".into()) }
fn ord(o: std::cmp::Ordering) -> &'static str { match o { std::cmp::Ordering::Less => "lt", std::cmp::Ordering::Equal => "eq", _ => "gt" } }

/// the instance file: `style` bit 0 = a comment line, bit 1 = `n` lines before the `e` lines, bits 2.. = the set of
/// vertices that get an `n` line (the others must weigh 1, the reader's default)
fn misp_file(n: usize, w: &[isize], edges: &[(usize, usize)], style: u64) -> String {
    let mut file = String::new();
    if style & 1 == 1 { file.push_str("c random instance of the ddo verification harness\n"); }
    file.push_str(&format!("p edge {} {}\n", n, edges.len()));
    let node_lines: String = (0..n).filter(|v| (style >> (2 + v)) & 1 == 1).map(|v| format!("n {} {}\n", v + 1, w[v])).collect();
    let edge_lines: String = edges.iter().map(|(u, v)| format!("e {} {}\n", u + 1, v + 1)).collect();
    if style & 2 == 2 { file.push_str(&node_lines); file.push_str(&edge_lines); } else { file.push_str(&edge_lines); file.push_str(&node_lines); }
    file
}

/// one misp instance (read from `file` by the example's own `read_instance`): a layered expansion from the root, the
/// layers being squashed to `width` states (deletion or merge of the worst ranked ones) as a restricted / relaxed
/// compilation would; `next_variable` is asked for the un-squashed layer, as ddo does.
fn run_misp(file: &str, width: usize, rng: &mut Rng) -> String {
    static CNT: std::sync::atomic::AtomicUsize = std::sync::atomic::AtomicUsize::new(0);
    let path = std::env::temp_dir().join(format!("ddo_verif_exmodel_{}_{}.clq", std::process::id(), CNT.fetch_add(1, std::sync::atomic::Ordering::Relaxed)));
    std::fs::write(&path, file).expect("cannot write the instance file");
    let pb = <Misp as MispBack>::read(&path);
    let _ = std::fs::remove_file(&path);
    let pb = match pb { Some(p) => p, None => return "unreadable".into() };
    let rlx = pb.relaxation();
    let n = pb.nb_variables();
    let ints = |l: &[isize]| l.iter().map(|x| x.to_string()).collect::<Vec<_>>().join(" ");
    let mut ev: Vec<String> = vec![];
    ev.push(format!("nv {}", n));
    ev.push(format!("inst {} : {}", ints(&pb.weights()), sets(&pb.non_neighbors())));
    let s0 = pb.initial_state();
    ev.push(format!("init {} : {}", set(&s0), pb.initial_value()));
    ev.push(format!("rub {} : {}", set(&s0), rlx.fast_upper_bound(&s0)));
    ev.push(format!("next 0 : : {}", var(pb.next_variable(0, &mut std::iter::empty()))));
    let mut layer: Vec<BitSet> = vec![s0];
    let mut d = 0;
    loop {
        // every branching removes the chosen vertex from all states: more than n layers would mean that next_variable never answers None
        if d > n + 1 { ev.push("runaway".into()); break; }
        let x = pb.next_variable(d, &mut layer.iter());
        ev.push(format!("next {} : {} : {}", d, sets(&layer), var(x)));
        // the same question about a random list of states of the layer (repetitions allowed)
        if layer.len() >= 2 && rng.chance(1, 2) {
            let sub: Vec<BitSet> = (0..rng.range(1, 4)).map(|_| rng.pick(&layer).clone()).collect();
            ev.push(format!("next {} : {} : {}", d, sets(&sub), var(pb.next_variable(d, &mut sub.iter()))));
        }
        let x = match x { Some(x) => x, None => break };
        if layer.len() >= 2 {
            for _ in 0..2 { let (a, b) = (rng.pick(&layer), rng.pick(&layer)); ev.push(format!("rk {} , {} : {}", set(a), set(b), ord(MispRanking.compare(a, b)))); }
        }
        // merges of arbitrary lists of states of the layer (0 to 3 states)
        if rng.chance(1, 3) {
            let pick: Vec<BitSet> = (0..rng.range(0, 3)).map(|_| rng.pick(&layer).clone()).collect();
            ev.push(format!("mg {} : {}", sets(&pick), set(&rlx.merge(&mut pick.iter()))));
        }
        // a layer that is too wide is squashed: best ranked first, then the tail is deleted (restriction) or merged (relaxation)
        if layer.len() > width {
            layer.sort_unstable_by(|a, b| MispRanking.compare(a, b).reverse());
            if rng.chance(1, 3) { layer.truncate(width); } else {
                let tail = layer.split_off(width - 1);
                let m = rlx.merge(&mut tail.iter());
                ev.push(format!("mg {} : {}", sets(&tail), set(&m)));
                let c = rng.range(-9, 9) as isize;
                ev.push(format!("rx {} : {}", c, rlx.relax(&tail[0], &tail[1], &m, Decision { variable: x, value: 1 }, c)));
                if !layer.contains(&m) { layer.push(m); }
            }
        }
        // expansion on the variable chosen for the un-squashed layer (the merged state included)
        let mut next: Vec<BitSet> = vec![];
        for s in &layer {
            ev.push(format!("imp {} : {} : {}", set(s), x.id(), pb.is_impacted_by(x, s) as u8));
            let mut dom: Vec<isize> = vec![];
            pb.for_each_in_domain(x, s, &mut |dd: Decision| dom.push(dd.value));
            ev.push(format!("dom {} : {} : {}", set(s), x.id(), ints(&dom)));
            for val in dom {
                let dec = Decision { variable: x, value: val };
                let s2 = pb.transition(s, dec);
                ev.push(format!("tr {} : {} {} : {} : {}", set(s), x.id(), val, set(&s2), pb.transition_cost(s, &s2, dec)));
                if !next.contains(&s2) { ev.push(format!("rub {} : {}", set(&s2), rlx.fast_upper_bound(&s2))); next.push(s2); }
            }
        }
        // probes off the walk: any variable, any value, on a state of the layer
        if rng.chance(1, 2) {
            let y = Variable(rng.below(n as u64) as usize);
            let s = rng.pick(&layer);
            ev.push(format!("imp {} : {} : {}", set(s), y.id(), pb.is_impacted_by(y, s) as u8));
            let mut dom: Vec<isize> = vec![];
            pb.for_each_in_domain(y, s, &mut |dd: Decision| dom.push(dd.value));
            ev.push(format!("dom {} : {} : {}", set(s), y.id(), ints(&dom)));
            let dec = Decision { variable: y, value: rng.below(2) as isize };
            let s2 = pb.transition(s, dec);
            ev.push(format!("tr {} : {} {} : {} : {}", set(s), y.id(), dec.value, set(&s2), pb.transition_cost(s, &s2, dec)));
        }
        layer = next;
        d += 1;
    }
    ev.join(" ; ")
}

/// `run_misp` in a thread of its own: the example keeps the occurrence counters of `next_variable` in a `thread_local`
/// vector that is sized by the FIRST instance the thread sees (a later, larger instance indexes it out of bounds); one
/// thread per instance = one process per instance, which is how the example binary is used.  Several instances at a
/// time (`read_instance` compiles four regular expressions per call: about 1 ms).
fn run_misp_fresh(jobs: &[(String, usize, u64)]) -> Vec<String> {
    std::thread::scope(|sc| {
        let hs: Vec<_> = jobs.iter().map(|(file, width, seed)| sc.spawn(move || { let mut r = Rng::new(*seed); crate::out::catch(|| run_misp(file, *width, &mut r)) })).collect();
        hs.into_iter().map(|h| h.join().ok().flatten().unwrap_or("panic".into())).collect()
    })
}

fn misp_case(n: usize, w: &[isize], edges: &[(usize, usize)], width: usize, seed: u64, style: u64) -> String {
    format!("misp | {} {} {} {} | {} {} {}", n, edges.len(), w.iter().map(|x| x.to_string()).collect::<Vec<_>>().join(" "),
        edges.iter().map(|(u, v)| format!("{} {}", u + 1, v + 1)).collect::<Vec<_>>().join(" "), width, seed, style)
}

fn gen_misp_cases(out: &mut Out, rng: &mut Rng, ninst: usize) {
    let mut jobs: Vec<(String, usize, u64)> = vec![];
    let mut cases: Vec<(String, Vec<String>)> = vec![];
    for _ in 0..ninst {
        let mut tags: Vec<String> = vec!["misp".into()];
        let n = if rng.chance(1, 50) { 0 } else { rng.range(1, 10) as usize };
        // weights: positive / unit and two / zero included / negative included / all negative / no `n` line at all / `n` lines for half of the vertices
        let mode = *rng.pick(&[0u64, 0, 1, 2, 3, 3, 4, 5, 5, 6]);
        let mut w = vec![1isize; n];
        let mut declared = 0u64;
        for v in 0..n {
            let decl = match mode { 5 => false, 6 => rng.chance(1, 2), _ => true };
            if decl {
                declared |= 1 << v;
                w[v] = match mode { 0 => rng.range(1, 9), 1 => rng.range(1, 2), 2 => rng.range(0, 4), 3 => rng.range(-5, 9), 4 => rng.range(-9, -1), _ => rng.range(1, 9) } as isize;
            }
        }
        tags.push(["w_positive", "w_small", "w_zero_incl", "w_mixed_sign", "w_all_negative", "unweighted", "default_weights"][mode as usize].into());
        if w.iter().any(|x| *x < 0) { tags.push("negative_weights".into()); }
        if w.iter().any(|x| *x == 0) { tags.push("zero_weight".into()); }
        // density: each unordered pair with probability num/8 (0 = no edge, 8 = complete graph), random orientation
        let num = *rng.pick(&[0u64, 1, 2, 3, 4, 6, 7, 8]);
        let mut edges: Vec<(usize, usize)> = vec![];
        for u in 0..n { for v in (u + 1)..n { if rng.below(8) < num { edges.push(if rng.chance(1, 2) { (u, v) } else { (v, u) }); } } }
        for i in (1..edges.len()).rev() { let j = rng.below(i as u64 + 1) as usize; edges.swap(i, j); }
        tags.push(format!("density_{}", num));
        if !edges.is_empty() && rng.chance(1, 5) {
            for _ in 0..rng.range(1, 3) { let (u, v) = *rng.pick(&edges); let at = rng.below(edges.len() as u64 + 1) as usize; edges.insert(at, if rng.chance(1, 2) { (u, v) } else { (v, u) }); }
            tags.push("duplicate_edges".into());
        }
        // out of the domain of the specification (a vertex with a self-loop belongs to no independent set): the model must still mirror the code
        if n >= 1 && rng.chance(1, 40) { let v = rng.below(n as u64) as usize; edges.push((v, v)); tags.push("ood_self_loop".into()); }
        if n == 0 { tags.push("empty_graph".into()); }
        let style = rng.below(4) | (declared << 2);
        let width = rng.range(1, 6) as usize;
        let seed = rng.next() >> 1;
        jobs.push((misp_file(n, &w, &edges, style), width, seed));
        cases.push((misp_case(n, &w, &edges, width, seed, style), tags));
    }
    let par = std::thread::available_parallelism().map(|x| x.get()).unwrap_or(1).min(16);
    let mut it = cases.into_iter();
    for chunk in jobs.chunks(par) {
        for imp in run_misp_fresh(chunk) {
            let (case, mut tags) = it.next().unwrap();
            if imp.contains(" mg ") { tags.push("merged".into()); }
            out.case_tagged(&case, &imp, &tags.join(" "));
        }
    }
}

/// replay of `misp | n m w.. (u v).. | width seed style`
fn replay_misp(parts: &[&str]) -> String {
    let t: Vec<i64> = parts[1].split_whitespace().map(|x| x.parse().unwrap()).collect();
    let (n, m) = (t[0] as usize, t[1] as usize);
    let w: Vec<isize> = t[2..2 + n].iter().map(|x| *x as isize).collect();
    let edges: Vec<(usize, usize)> = (0..m).map(|i| (t[2 + n + 2 * i] as usize - 1, t[3 + n + 2 * i] as usize - 1)).collect();
    let u: Vec<u64> = parts[2].split_whitespace().map(|x| x.parse().unwrap()).collect();
    run_misp_fresh(&[(misp_file(n, &w, &edges, u[2]), u[0] as usize, u[1])]).pop().unwrap()
}

pub fn run_exmodel(a: &Args) {
    let mut out = Out::new(&a.out, "exmodel");
    let mut rng = Rng::new(a.seed);
    if let Some(r) = &a.replay {
        // "knapsack | n cap p.. w.. | walks seed"  or  "misp | n m w.. (u v).. | width seed style"
        let parts: Vec<&str> = r.split('|').collect();
        if parts[0].trim() == "max2sat" {
            let imp = crate::exm_max2sat::replay(&parts);
            out.case_tagged(r, &imp, "replay");
            out.finish(); return;
        }
        if parts[0].trim() == "psp" { let imp = crate::exm_psp::replay(&parts); out.case_tagged(r, &imp, "replay"); out.finish(); return; }
        if parts[0].trim() == "mcp" { let imp = crate::exm_mcp::replay(&parts); out.case_tagged(r, &imp, "replay"); out.finish(); return; }
        if parts[0].trim() == "golomb" { let imp = crate::exm_golomb::replay(&parts); out.case_tagged(r, &imp, "replay"); out.finish(); return; }
        if parts[0].trim() == "srflp" { let imp = crate::exm_srflp::replay(&parts); out.case_tagged(r, &imp, "replay"); out.finish(); return; }
        if parts[0].trim() == "talentsched" { let imp = crate::exm_talentsched::replay(&parts); out.case_tagged(r, &imp, "replay"); out.finish(); return; }
        if parts[0].trim() == "lcs" { let imp = crate::exm_lcs::replay(&parts); out.case_tagged(r, &imp, "replay"); out.finish(); return; }
        if parts[0].trim() == "tsptw" { let imp = crate::exm_tsptw::replay(&parts); out.case_tagged(r, &imp, "replay"); out.finish(); return; }
        if parts[0].trim() == "sop" { let imp = crate::exm_sop::replay(&parts); out.case_tagged(r, &imp, "replay"); out.finish(); return; }
        if parts[0].trim() == "alp" { let imp = crate::exm_alp::replay(&parts); out.case_tagged(r, &imp, "replay"); out.finish(); return; }
        if parts[0].trim() == "misp" {
            let imp = replay_misp(&parts);
            out.case_tagged(r, &imp, "replay");
            out.finish(); return;
        }
        let t: Vec<i64> = parts[1].split_whitespace().map(|x| x.parse().unwrap()).collect();
        let n = t[0] as usize;
        let u: Vec<u64> = parts[2].split_whitespace().map(|x| x.parse().unwrap()).collect();
        let mut r2 = Rng::new(u[1]);
        let imp = crate::out::catch(|| run_one(t[1] as usize, &t[2..2 + n].iter().map(|x| *x as isize).collect::<Vec<_>>(), &t[2 + n..2 + 2 * n].iter().map(|x| *x as usize).collect::<Vec<_>>(), u[0], &mut r2)).unwrap_or("panic".into());
        out.case_tagged(r, &imp, "replay");
        out.finish(); return;
    }
    let ninst = if a.thorough { 20000 } else { 1500 };
    for _ in 0..ninst {
        let n = rng.range(1, 8) as usize;
        let mode = rng.below(4);
        // weights >= 1 (the example divides by the weight); ratio ties and fractional shares that are exact integers included
        let weight: Vec<usize> = (0..n).map(|_| if mode == 3 { *rng.pick(&[1usize, 2, 3, 7, 11, 22, 23, 33, 44, 49]) } else { rng.range(1, 12) as usize }).collect();
        let profit: Vec<isize> = (0..n).map(|i| match mode { 0 => rng.range(0, 20) as isize, 1 => weight[i] as isize * rng.range(1, 3) as isize, 3 => *rng.pick(&[weight[i] as isize, 55, 22, 44, 23, 46]), _ => rng.range(1, 60) as isize }).collect();
        let cap = rng.range(0, (weight.iter().sum::<usize>() as i64).max(1)) as usize;
        let walks = rng.range(1, 5) as u64; let wseed = rng.next() >> 1;
        let mut r2 = Rng::new(wseed);
        let imp = crate::out::catch(|| run_one(cap, &profit, &weight, walks, &mut r2)).unwrap_or("panic".into());
        let mut tags = vec![["plain", "proportional", "wide", "float_traps"][mode as usize].to_string()];
        if cap == 0 { tags.push("zero_capacity".into()); }
        out.case_tagged(&format!("knapsack | {} {} {} {} | {} {}", n, cap, profit.iter().map(|x| x.to_string()).collect::<Vec<_>>().join(" "), weight.iter().map(|x| x.to_string()).collect::<Vec<_>>().join(" "), walks, wseed), &imp, &tags.join(" "));
    }
    gen_misp_cases(&mut out, &mut rng, if a.thorough { 12000 } else { 1500 });
    crate::exm_max2sat::generate(&mut out, &mut rng, if a.thorough { 6000 } else { 600 });
    crate::exm_alp::generate(&mut out, &mut rng, if a.thorough { 6000 } else { 600 });
    crate::exm_psp::generate(&mut out, &mut rng, if a.thorough { 6000 } else { 600 });
    crate::exm_mcp::generate(&mut out, &mut rng, if a.thorough { 6000 } else { 600 });
    crate::exm_golomb::generate(&mut out, &mut rng, if a.thorough { 6000 } else { 600 });
    crate::exm_srflp::generate(&mut out, &mut rng, if a.thorough { 6000 } else { 600 });
    crate::exm_talentsched::generate(&mut out, &mut rng, if a.thorough { 6000 } else { 600 });
    crate::exm_lcs::generate(&mut out, &mut rng, if a.thorough { 6000 } else { 600 });
    crate::exm_tsptw::generate(&mut out, &mut rng, if a.thorough { 6000 } else { 600 });
    crate::exm_sop::generate(&mut out, &mut rng, if a.thorough { 6000 } else { 600 });
    out.finish();
}
