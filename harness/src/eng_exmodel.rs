//! Engine `exmodel` (C16, knapsack): pointwise correspondence between the DP model, relaxation and ranking of the shipped
//! knapsack example — the example's own source file is compiled into the harness by path — and their Lean model
//! `DdoModel/Examples/KnapsackModel.lean` (the model the well-formedness theorems are about): variable order, domains,
//! transitions, costs, rough upper bounds along random walks; merges of states met at the same depth; relaxed costs; ranking.
#[path = "/repo/ddo/examples/knapsack/main.rs"]
#[allow(dead_code, unused_imports, clippy::all)]
mod ex_knapsack;
use crate::{out::Out, rng::Rng, Args};
use ddo::*;
use ex_knapsack::{KPRanking, KPRelax, Knapsack, KnapsackState};

/// `KnapsackState`'s fields are private to the example: read them from its `Debug` text
fn dc(s: &KnapsackState) -> (usize, usize) {
    let t = format!("{:?}", s);
    let nums: Vec<usize> = t.split(|c: char| !c.is_ascii_digit()).filter(|x| !x.is_empty()).map(|x| x.parse().unwrap()).collect();
    (nums[0], nums[1])
}
fn st(s: &KnapsackState) -> String { let (d, c) = dc(s); format!("{} {}", d, c) }

fn run_one(cap: usize, profit: &[isize], weight: &[usize], walks: u64, rng: &mut Rng) -> String {
    let n = profit.len();
    let pb = Knapsack::new(cap, profit.to_vec(), weight.to_vec());
    let rlx = KPRelax { pb: &pb };
    let mut ev: Vec<String> = vec![];
    // the variable order as next_variable reveals it
    let empty: Vec<KnapsackState> = vec![];
    let order: Vec<String> = (0..=n).map(|d| pb.next_variable(d, &mut empty.iter()).map(|v| v.id().to_string()).unwrap_or("n".into())).collect();
    ev.push(format!("ord {}", order.join(" ")));
    ev.push(format!("init {} {}", st(&pb.initial_state()), pb.initial_value()));
    ev.push(format!("rub {} {}", st(&pb.initial_state()), rlx.fast_upper_bound(&pb.initial_state())));
    let mut by_depth: Vec<Vec<KnapsackState>> = vec![vec![]; n + 1];
    for _ in 0..walks {
        let mut s = pb.initial_state();
        for d in 0..n {
            let var = match pb.next_variable(d, &mut std::iter::once(&s)) { Some(v) => v, None => break };
            let mut dom: Vec<isize> = vec![];
            pb.for_each_in_domain(var, &s, &mut |x: Decision| dom.push(x.value));
            ev.push(format!("dom {} {} {}", st(&s), var.id(), dom.iter().map(|x| x.to_string()).collect::<Vec<_>>().join(" ")));
            if dom.is_empty() { break; }
            let val = *rng.pick(&dom);
            let dec = Decision { variable: var, value: val };
            let s2 = pb.transition(&s, dec);
            let cost = pb.transition_cost(&s, &s2, dec);
            ev.push(format!("tr {} {} {} {} {}", st(&s), var.id(), val, st(&s2), cost));
            ev.push(format!("rub {} {}", st(&s2), rlx.fast_upper_bound(&s2)));
            by_depth[d + 1].push(s2);
            s = s2;
        }
    }
    // merges of states met at the same depth (in the order given: max_by_key keeps the last maximum), relaxed costs, ranking
    for d in 1..=n {
        let l = &by_depth[d];
        if l.len() < 2 { continue; }
        let k = rng.range(2, (l.len() as i64).min(4)) as usize;
        let pick: Vec<KnapsackState> = (0..k).map(|_| *rng.pick(l)).collect();
        let m = rlx.merge(&mut pick.iter());
        ev.push(format!("mg {} : {}", pick.iter().map(st).collect::<Vec<_>>().join(" , "), st(&m)));
        let c = rng.range(-5, 20) as isize;
        ev.push(format!("rx {} {}", c, rlx.relax(&pick[0], &pick[1], &m, Decision { variable: Variable(0), value: 1 }, c)));
        let o = KPRanking.compare(&pick[0], &pick[1]);
        ev.push(format!("rk {} , {} {}", st(&pick[0]), st(&pick[1]), match o { std::cmp::Ordering::Less => "lt", std::cmp::Ordering::Equal => "eq", _ => "gt" }));
    }
    ev.join(" ; ")
}

pub fn run_exmodel(a: &Args) {
    let mut out = Out::new(&a.out, "exmodel");
    let mut rng = Rng::new(a.seed);
    if let Some(r) = &a.replay {
        // "knapsack | n cap p.. w.. | walks seed"
        let parts: Vec<&str> = r.split('|').collect();
        let t: Vec<i64> = parts[1].split_whitespace().map(|x| x.parse().unwrap()).collect();
        let n = t[0] as usize;
        let u: Vec<u64> = parts[2].split_whitespace().map(|x| x.parse().unwrap()).collect();
        let mut r2 = Rng::new(u[1]);
        let imp = crate::out::catch(|| run_one(t[1] as usize, &t[2..2 + n].iter().map(|x| *x as isize).collect::<Vec<_>>(), &t[2 + n..2 + 2 * n].iter().map(|x| *x as usize).collect::<Vec<_>>(), u[0], &mut r2)).unwrap_or("panic".into());
        out.case_tagged(r, &imp, "replay");
        out.finish(); return;
    }
    let ninst = if a.thorough { 20000 } else { 1500 };
    for _ in 0..ninst {
        let n = rng.range(1, 8) as usize;
        let mode = rng.below(4);
        // weights >= 1 (the example divides by the weight); ratio ties and fractional shares that are exact integers included
        let weight: Vec<usize> = (0..n).map(|_| if mode == 3 { *rng.pick(&[1usize, 2, 3, 7, 11, 22, 23, 33, 44, 49]) } else { rng.range(1, 12) as usize }).collect();
        let profit: Vec<isize> = (0..n).map(|i| match mode { 0 => rng.range(0, 20) as isize, 1 => weight[i] as isize * rng.range(1, 3) as isize, 3 => *rng.pick(&[weight[i] as isize, 55, 22, 44, 23, 46]), _ => rng.range(1, 60) as isize }).collect();
        let cap = rng.range(0, (weight.iter().sum::<usize>() as i64).max(1)) as usize;
        let walks = rng.range(1, 5) as u64; let wseed = rng.next() >> 1;
        let mut r2 = Rng::new(wseed);
        let imp = crate::out::catch(|| run_one(cap, &profit, &weight, walks, &mut r2)).unwrap_or("panic".into());
        let mut tags = vec![["plain", "proportional", "wide", "float_traps"][mode as usize].to_string()];
        if cap == 0 { tags.push("zero_capacity".into()); }
        out.case_tagged(&format!("knapsack | {} {} {} {} | {} {}", n, cap, profit.iter().map(|x| x.to_string()).collect::<Vec<_>>().join(" "), weight.iter().map(|x| x.to_string()).collect::<Vec<_>>().join(" "), walks, wseed), &imp, &tags.join(" "));
    }
    out.finish();
}
