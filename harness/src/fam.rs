//! Model families (DESIGN.md §5.4): `TableDP` (power-set relaxation of a random layered DP given by a
//! table) and `Knapsack`.  States are `i64` codes; the same instance text is parsed by the Lean side
//! (`DdoModel/Families.lean`).  Also: recording wrappers around `Problem` / `Relaxation`.
use crate::rng::Rng;
use ddo::*;
use std::sync::{Arc, Mutex};

pub const LOW: isize = -1_000_000;

#[derive(Clone, Debug)]
pub struct TableDP {
    pub n: usize, pub b: usize, pub d: usize,
    pub embed: bool, pub relax_mode: usize, pub rub_mode: usize, pub rank_mode: usize, pub dom_mode: usize,
    pub slack: isize,
    pub init_val: isize,
    pub tab: Vec<Option<(usize, isize)>>,
    pub imp: Vec<bool>,
    pub hstar: Vec<Vec<Option<isize>>>, // [k][b], k in 0..=n
}
#[derive(Clone, Debug)]
/// `free`: depth-free variant with long arcs (token `L`): the state is the capacity alone, a variable whose item does not fit does
/// not impact the state, the rough bound and the dominance key do not use the depth
pub struct Knap { pub n: usize, pub cap: usize, pub profit: Vec<isize>, pub weight: Vec<usize>, pub rub_mode: usize, pub dom_mode: usize, pub free: bool }

#[derive(Clone, Debug)]
pub enum Fam { Table(TableDP), Knap(Knap) }

fn emax(a: Option<isize>, b: Option<isize>) -> Option<isize> { match (a, b) { (None, x) => x, (x, None) => x, (Some(x), Some(y)) => Some(x.max(y)) } }

impl TableDP {
    pub fn entry(&self, k: usize, b: usize, d: usize) -> Option<(usize, isize)> { self.tab.get((k * self.b + b) * self.d + d).copied().flatten() }
    pub fn mask(code: i64) -> u64 { (code as u64) % 64 }
    pub fn depth(code: i64) -> usize { ((code as u64) / 64) as usize }
    pub fn members(&self, code: i64) -> Vec<usize> { (0..self.b).filter(|b| (Self::mask(code) >> b) & 1 == 1).collect() }
    pub fn mk(&self, mask: u64, depth: usize) -> i64 { if self.embed { (mask + 64 * depth as u64) as i64 } else { mask as i64 } }
    pub fn compute_hstar(&mut self) {
        let mut h = vec![vec![None; self.b]; self.n + 1];
        for b in 0..self.b { h[self.n][b] = Some(0); }
        for k in (0..self.n).rev() { for b in 0..self.b {
            let mut best = None;
            for d in 0..self.d { if let Some((b2, c)) = self.entry(k, b, d) { best = emax(best, h[k + 1][b2].map(|x| x + c)); } }
            h[k][b] = best;
        }}
        self.hstar = h;
    }
    pub fn hset(&self, k: usize, code: i64) -> Option<isize> {
        let k = k.min(self.n);
        self.members(code).iter().fold(None, |acc, &b| emax(acc, self.hstar[k][b]))
    }
    pub fn tokens(&self) -> String {
        let mut t = format!("T {} {} {} {} {} {} {} {} {} {}", self.n, self.b, self.d, self.embed as u8, self.relax_mode, self.rub_mode, self.rank_mode, self.dom_mode, self.slack, self.init_val);
        for e in &self.tab { match e { None => t.push_str(" -1 0"), Some((b, c)) => t.push_str(&format!(" {} {}", b, c)) } }
        for i in &self.imp { t.push_str(if *i { " 1" } else { " 0" }); }
        t
    }
    /// few base states, many layers, few dead ends: set states saturate quickly, so that the merged
    /// state often equals a kept state (the `recycled` branch of `_relax`) and states re-converge heavily
    pub fn random_saturating(rng: &mut Rng, long_arcs: bool) -> TableDP {
        let n = rng.range(4, 7) as usize; let b = rng.range(2, 3) as usize; let d = rng.range(2, 3) as usize;
        let mut imp = vec![true; n * b];
        if long_arcs { for x in imp.iter_mut() { if rng.chance(1, 3) { *x = false; } } }
        let mut tab = vec![None; n * b * d];
        for k in 0..n { for bb in 0..b {
            if !imp[k * b + bb] { tab[(k * b + bb) * d] = Some((bb, 0)); continue; }
            for dd in 0..d { if !rng.chance(1, 12) { tab[(k * b + bb) * d + dd] = Some((rng.below(b as u64) as usize, rng.range(-2, 4) as isize)); } }
        }}
        let mut t = TableDP { n, b, d, embed: !long_arcs && rng.chance(1, 2), relax_mode: rng.below(2) as usize, rub_mode: *rng.pick(&[0usize, 0, 0, 1, 2, 2]),
            rank_mode: 0, dom_mode: if rng.chance(1, 4) { 1 } else { 0 }, slack: rng.range(0, 2) as isize, init_val: if rng.chance(1, 2) { 0 } else { rng.range(-4, 9) as isize }, tab, imp, hstar: vec![] };
        t.compute_hstar();
        t
    }
    pub fn random(rng: &mut Rng, long_arcs: bool) -> TableDP {
        if rng.chance(1, 4) { return Self::random_saturating(rng, long_arcs); }
        let small = rng.chance(1, 6);
        let n = if small { rng.range(1, 3) } else { rng.range(3, 7) } as usize; let b = if small { rng.range(1, 3) } else { rng.range(3, 6) } as usize; let d = if small { rng.range(1, 2) } else { rng.range(2, 3) } as usize;
        let cost_lo = if rng.chance(1, 3) { 0 } else { -3 };
        let dead = rng.range(0, 25) as u64;
        let mut imp = vec![true; n * b];
        if long_arcs { for x in imp.iter_mut() { if rng.chance(2, 5) { *x = false; } } }
        let mut tab = vec![None; n * b * d];
        for k in 0..n { for bb in 0..b {
            if !imp[k * b + bb] { tab[(k * b + bb) * d] = Some((bb, 0)); continue; }
            for dd in 0..d { if !rng.chance(dead, 100) { tab[(k * b + bb) * d + dd] = Some((rng.below(b as u64) as usize, rng.range(cost_lo, 4) as isize)); } }
        }}
        // long arcs: sometimes a whole layer is a dead end for the states its variable impacts (all their entries are missing),
        // so that every surviving route skips that layer: bottom-up passes must not stop at a layer without a live node
        if long_arcs && n >= 3 && rng.chance(1, 4) {
            let k = rng.range(1, n as i64 - 1) as usize;
            for bb in 0..b { if imp[k * b + bb] { for dd in 0..d { tab[(k * b + bb) * d + dd] = None; } } }
        }
        let mut t = TableDP { n, b, d, embed: !long_arcs && rng.chance(1, 2), relax_mode: rng.below(2) as usize, rub_mode: *rng.pick(&[0usize, 0, 0, 1, 2, 2]),
            rank_mode: if rng.chance(1, 6) { 1 } else { 0 }, dom_mode: if rng.chance(1, 4) { 1 } else { 0 }, slack: rng.range(0, 2) as isize, init_val: if rng.chance(1, 2) { 0 } else { rng.range(-4, 9) as isize }, tab, imp, hstar: vec![] };
        t.compute_hstar();
        t
    }
}
impl Knap {
    /// larger instances with the (capacity, value) dominance rule always on
    pub fn random_dominance(rng: &mut Rng) -> Knap {
        let n = rng.range(4, 8) as usize;
        let weight: Vec<usize> = (0..n).map(|_| rng.range(1, 6) as usize).collect();
        let profit: Vec<isize> = (0..n).map(|_| rng.range(1, 9) as isize).collect();
        let cap = rng.range(3, (weight.iter().sum::<usize>() as i64 * 2 / 3).max(4)) as usize;
        Knap { n, cap, profit, weight, rub_mode: rng.below(2) as usize, dom_mode: 1, free: false }
    }
    pub fn depth(code: i64) -> usize { (code / 1000) as usize }
    pub fn cap(code: i64) -> usize { (code % 1000) as usize }
    pub fn mk(depth: usize, cap: usize) -> i64 { (depth * 1000 + cap) as i64 }
    pub fn hstar(&self, k: usize, c: usize) -> isize {
        if k >= self.n { return 0; }
        let skip = self.hstar(k + 1, c);
        if c >= self.weight[k] { skip.max(self.profit[k] + self.hstar(k + 1, c - self.weight[k])) } else { skip }
    }
    pub fn tokens(&self) -> String {
        format!("{} {} {} {} {} {} {}", if self.free { "L" } else { "K" }, self.n, self.cap, self.rub_mode, self.dom_mode,
            self.profit.iter().map(|x| x.to_string()).collect::<Vec<_>>().join(" "), self.weight.iter().map(|x| x.to_string()).collect::<Vec<_>>().join(" "))
    }
    pub fn random(rng: &mut Rng) -> Knap {
        let n = rng.range(2, 7) as usize;
        let weight: Vec<usize> = (0..n).map(|_| rng.range(0, 6) as usize).collect();
        let profit: Vec<isize> = (0..n).map(|_| { let lo = if rng.chance(1, 5) { -2 } else { 0 }; rng.range(lo, 9) as isize }).collect();
        let cap = rng.range(0, (weight.iter().sum::<usize>() as i64).max(1)) as usize;
        Knap { n, cap, profit, weight, rub_mode: rng.below(2) as usize, dom_mode: rng.below(2) as usize, free: false }
    }
    /// long arcs: positive weights, several items that do not fit once something has been taken
    pub fn random_long(rng: &mut Rng) -> Knap {
        let n = rng.range(3, 7) as usize;
        let weight: Vec<usize> = (0..n).map(|_| rng.range(1, 7) as usize).collect();
        let profit: Vec<isize> = (0..n).map(|_| rng.range(0, 9) as isize).collect();
        let cap = rng.range(2, (weight.iter().sum::<usize>() as i64 / 2).max(3)) as usize;
        Knap { n, cap, profit, weight, rub_mode: rng.below(2) as usize, dom_mode: if rng.chance(2, 3) { 1 } else { 0 }, free: true }
    }
}
impl Fam {
    pub fn tokens(&self) -> String { match self { Fam::Table(t) => t.tokens(), Fam::Knap(k) => k.tokens() } }
    pub fn n(&self) -> usize { match self { Fam::Table(t) => t.n, Fam::Knap(k) => k.n } }
    /// potential of a state at a depth (exact value-to-go for exact states)
    pub fn h(&self, depth: usize, s: i64) -> Option<isize> {
        match self { Fam::Table(t) => t.hset(depth, s), Fam::Knap(k) => Some(k.hstar(if k.free { depth } else { Knap::depth(s) }, Knap::cap(s))) }
    }
    pub fn has_dominance(&self) -> bool { match self { Fam::Table(t) => t.dom_mode != 0, Fam::Knap(k) => k.dom_mode != 0 } }
    pub fn parse(t: &[&str]) -> (Fam, usize) {
        let p = |i: usize| -> i64 { t[i].parse().unwrap() };
        if t[0] == "T" {
            let (n, b, d) = (p(1) as usize, p(2) as usize, p(3) as usize);
            let mut tab = vec![]; let mut i = 11;
            for _ in 0..n * b * d { let (x, c) = (p(i), p(i + 1)); i += 2; tab.push(if x < 0 { None } else { Some((x as usize, c as isize)) }); }
            let mut imp = vec![]; for _ in 0..n * b { imp.push(p(i) == 1); i += 1; }
            let mut tb = TableDP { n, b, d, embed: p(4) == 1, relax_mode: p(5) as usize, rub_mode: p(6) as usize, rank_mode: p(7) as usize, dom_mode: p(8) as usize, slack: p(9) as isize, init_val: p(10) as isize, tab, imp, hstar: vec![] };
            tb.compute_hstar();
            (Fam::Table(tb), i)
        } else {
            let n = p(1) as usize;
            let profit = (0..n).map(|j| p(5 + j) as isize).collect();
            let weight = (0..n).map(|j| p(5 + n + j) as usize).collect();
            (Fam::Knap(Knap { n, cap: p(2) as usize, rub_mode: p(3) as usize, dom_mode: p(4) as usize, profit, weight, free: t[0] == "L" }), 5 + 2 * n)
        }
    }
}

impl Problem for Fam {
    type State = i64;
    fn nb_variables(&self) -> usize { self.n() }
    fn initial_state(&self) -> i64 { match self { Fam::Table(t) => t.mk(1, 0), Fam::Knap(k) => Knap::mk(0, k.cap) } }
    fn initial_value(&self) -> isize { match self { Fam::Table(t) => t.init_val, Fam::Knap(_) => 0 } }
    fn transition(&self, s: &i64, d: Decision) -> i64 {
        match self {
            Fam::Table(t) => {
                let k = d.variable.id(); let mut m = 0u64;
                for b in t.members(*s) { if let Some((b2, _)) = t.entry(k, b, d.value as usize) { m |= 1 << b2; } }
                t.mk(m, TableDP::depth(*s) + 1)
            }
            Fam::Knap(k) => Knap::mk(if k.free { 0 } else { Knap::depth(*s) + 1 }, if d.value == 1 { Knap::cap(*s) - k.weight[d.variable.id()] } else { Knap::cap(*s) }),
        }
    }
    fn transition_cost(&self, s: &i64, _dst: &i64, d: Decision) -> isize {
        match self {
            Fam::Table(t) => {
                let k = d.variable.id(); let mut best: Option<isize> = None;
                for b in t.members(*s) { if let Some((_, c)) = t.entry(k, b, d.value as usize) { best = Some(best.map_or(c, |x| x.max(c))); } }
                best.unwrap_or(0)
            }
            Fam::Knap(k) => k.profit[d.variable.id()] * d.value,
        }
    }
    fn next_variable(&self, depth: usize, _: &mut dyn Iterator<Item = &i64>) -> Option<Variable> { if depth < self.n() { Some(Variable(depth)) } else { None } }
    fn for_each_in_domain(&self, var: Variable, s: &i64, f: &mut dyn DecisionCallback) {
        match self {
            Fam::Table(t) => { for d in 0..t.d { if t.members(*s).iter().any(|&b| t.entry(var.id(), b, d).is_some()) { f.apply(Decision { variable: var, value: d as isize }); } } }
            Fam::Knap(k) => { if Knap::cap(*s) >= k.weight[var.id()] { f.apply(Decision { variable: var, value: 1 }); } f.apply(Decision { variable: var, value: 0 }); }
        }
    }
    fn is_impacted_by(&self, var: Variable, s: &i64) -> bool {
        match self { Fam::Table(t) => t.members(*s).iter().any(|&b| t.imp[var.id() * t.b + b]), Fam::Knap(k) => !k.free || Knap::cap(*s) >= k.weight[var.id()] }
    }
}
impl Relaxation for Fam {
    type State = i64;
    fn merge(&self, states: &mut dyn Iterator<Item = &i64>) -> i64 {
        match self {
            Fam::Table(t) => { let v: Vec<i64> = states.copied().collect(); let m = v.iter().fold(0u64, |a, c| a | TableDP::mask(*c)); t.mk(m, v.first().map(|c| TableDP::depth(*c)).unwrap_or(0)) }
            Fam::Knap(_) => { let v: Vec<i64> = states.copied().collect(); let mut best = v[0]; for c in &v[1..] { if Knap::cap(*c) > Knap::cap(best) { best = *c; } } best }
        }
    }
    fn relax(&self, _src: &i64, dst: &i64, merged: &i64, _d: Decision, cost: isize) -> isize {
        match self {
            Fam::Table(t) => if t.relax_mode == 0 { cost } else { cost + t.slack * ((TableDP::mask(*merged) & !TableDP::mask(*dst)).count_ones() as isize) },
            Fam::Knap(_) => cost,
        }
    }
    fn fast_upper_bound(&self, s: &i64) -> isize {
        match self {
            Fam::Table(t) => {
                if t.rub_mode == 0 { return isize::MAX; }
                let ks: Vec<usize> = if t.embed { vec![TableDP::depth(*s)] } else { (0..=t.n).collect() };
                let best = ks.iter().fold(None, |acc, &k| emax(acc, t.hset(k, *s)));
                match best { None => LOW, Some(h) => if t.rub_mode == 1 { h } else { h + t.slack } }
            }
            Fam::Knap(k) => if k.rub_mode == 0 { isize::MAX } else if k.free { (0..k.n).filter(|i| k.weight[*i] <= Knap::cap(*s)).map(|i| k.profit[i].max(0)).sum() } else { (Knap::depth(*s)..k.n).map(|i| k.profit[i].max(0)).sum() },
        }
    }
}
impl StateRanking for Fam {
    type State = i64;
    fn compare(&self, a: &i64, b: &i64) -> std::cmp::Ordering {
        match self {
            Fam::Table(t) => if t.rank_mode == 0 { a.cmp(b) } else { TableDP::mask(*a).count_ones().cmp(&TableDP::mask(*b).count_ones()) },
            Fam::Knap(_) => Knap::cap(*a).cmp(&Knap::cap(*b)),
        }
    }
}
/// the dominance rule of a family (only used when `has_dominance`)
pub struct FamDom(pub Fam);
impl Dominance for FamDom {
    type State = i64;
    type Key = i64;
    fn get_key(&self, s: Arc<i64>) -> Option<i64> { match &self.0 { Fam::Table(_) => Some(*s), Fam::Knap(k) => Some(if k.free { 0 } else { Knap::depth(*s) as i64 }) } }
    fn nb_dimensions(&self, _: &i64) -> usize { match &self.0 { Fam::Table(_) => 0, Fam::Knap(_) => 1 } }
    fn get_coordinate(&self, s: &i64, _: usize) -> isize { Knap::cap(*s) as isize }
    fn use_value(&self) -> bool { true }
}

// ------------------------------------------------------------------------------------------
/// recording wrapper: every call into user code is logged (chronologically) for C12 / C13
pub struct Rec<'a> { pub inner: &'a Fam, pub log: Mutex<Vec<String>> }
impl<'a> Rec<'a> {
    pub fn new(inner: &'a Fam) -> Self { Rec { inner, log: Mutex::new(vec![]) } }
    pub fn take(&self) -> Vec<String> { std::mem::take(&mut *self.log.lock().unwrap()) }
    fn push(&self, s: String) { self.log.lock().unwrap().push(s); }
}
impl Problem for Rec<'_> {
    type State = i64;
    fn nb_variables(&self) -> usize { self.inner.nb_variables() }
    fn initial_state(&self) -> i64 { self.inner.initial_state() }
    fn initial_value(&self) -> isize { self.inner.initial_value() }
    fn transition(&self, s: &i64, d: Decision) -> i64 { self.push(format!("tr {} {} {}", s, d.variable.id(), d.value)); self.inner.transition(s, d) }
    fn transition_cost(&self, s: &i64, dst: &i64, d: Decision) -> isize { self.push(format!("co {} {} {} {}", s, dst, d.variable.id(), d.value)); self.inner.transition_cost(s, dst, d) }
    fn next_variable(&self, depth: usize, it: &mut dyn Iterator<Item = &i64>) -> Option<Variable> {
        let mut states: Vec<i64> = it.copied().collect(); states.sort();
        let ans = self.inner.next_variable(depth, &mut states.iter());
        self.push(format!("nv {} {} {}", depth, ans.map(|v| v.id() as i64).unwrap_or(-1), states.iter().map(|s| s.to_string()).collect::<Vec<_>>().join(" ")));
        ans
    }
    fn for_each_in_domain(&self, var: Variable, s: &i64, f: &mut dyn DecisionCallback) { self.push(format!("dm {} {}", var.id(), s)); self.inner.for_each_in_domain(var, s, f) }
    fn is_impacted_by(&self, var: Variable, s: &i64) -> bool { self.push(format!("im {} {}", var.id(), s)); self.inner.is_impacted_by(var, s) }
}
impl Relaxation for Rec<'_> {
    type State = i64;
    fn merge(&self, states: &mut dyn Iterator<Item = &i64>) -> i64 {
        let v: Vec<i64> = states.copied().collect();
        let r = self.inner.merge(&mut v.iter());
        self.push(format!("mg {} {}", r, v.iter().map(|s| s.to_string()).collect::<Vec<_>>().join(" ")));
        r
    }
    fn relax(&self, src: &i64, dst: &i64, merged: &i64, d: Decision, cost: isize) -> isize {
        self.push(format!("rx {} {} {} {} {} {}", src, dst, merged, d.variable.id(), d.value, cost));
        self.inner.relax(src, dst, merged, d, cost)
    }
    fn fast_upper_bound(&self, s: &i64) -> isize { self.push(format!("rb {}", s)); self.inner.fast_upper_bound(s) }
}
