//! Engine `cachecut` (C05, parallel solver + threshold cache + cut-off): the model-level witness `Ddo.ParCache.CutWitness`
//! (`Proofs/ParCacheCutWitness.lean`) replayed on the real parallel solver; the interleaving is imposed through hook H1
//! (workers are held at the entry of chosen critical sections), the cut-off through a `Cutoff` that fires inside one compilation.
//! 7 binary variables in static order, 4 states, tables below (entry `(var * 4 + state) * 2 + decision`); merge = largest
//! state, relax = cost unchanged, rough upper bound 100, larger state ranked better, width `ws[depth * 4 + state]`, optimum 6.
//! Schedule (the block structure of `CutWitness.sched`): worker 0 processes the root and the node X = (0, depth 1) up to — not
//! including — its `enqueue_cutset`; worker 1 processes Y = (1, depth 1) entirely (its cut-set: A = (0, depth 2, ub 4) and
//! B = (1, depth 2, ub 3)), pops A, compiles it (restricted: finds 6) and is held before `maybe_update_best`; worker 0 enqueues,
//! processes (3, depth 4), pops B and is cut off inside its restricted compilation; worker 1 then publishes.
use crate::{out::{catch, Out}, Args};
use ddo::verif_hooks::{self, Event};
use ddo::*;
use std::sync::atomic::{AtomicUsize, Ordering as AO};
use std::sync::Arc;

const M: usize = 4;
const TRL: [usize; 56] = [1,0, 1,0, 1,0, 1,0,   2,2, 1,0, 1,1, 1,0,   2,0, 1,1, 2,2, 2,2,   0,2, 1,3, 3,3, 3,3,   0,0, 1,1, 0,2, 0,2,
                          0,0, 2,2, 1,3, 1,3,   0,0, 0,0, 0,0, 0,0];
const CL: [isize; 56] = [0,1, 0,1, 0,1, 0,1,   0,0, 0,1, 0,1, 0,1,   0,0, 0,0, 0,0, 0,0,   1,0, 0,0, 0,0, 0,0,   0,0, 0,0, 0,0, 1,0,
                         0,0, 0,0, 1,0, 1,0,   0,0, 0,2, 3,3, 1,5];
fn wsf(depth: usize, state: usize) -> usize { let i = depth * M + state; if i < 8 { 1 } else if i == 8 { 3 } else { 2 } }
struct Pb;
impl Problem for Pb {
    type State = isize;
    fn nb_variables(&self) -> usize { 7 }
    fn initial_state(&self) -> isize { 0 }
    fn initial_value(&self) -> isize { 0 }
    fn transition(&self, s: &isize, d: Decision) -> isize { TRL[(d.variable.id() * M + (*s as usize).min(M - 1)) * 2 + (d.value == 1) as usize].min(M - 1) as isize }
    fn transition_cost(&self, s: &isize, _n: &isize, d: Decision) -> isize { CL[(d.variable.id() * M + (*s as usize).min(M - 1)) * 2 + (d.value == 1) as usize] }
    fn next_variable(&self, depth: usize, _: &mut dyn Iterator<Item = &isize>) -> Option<Variable> { if depth < 7 { Some(Variable(depth)) } else { None } }
    fn for_each_in_domain(&self, variable: Variable, _s: &isize, f: &mut dyn DecisionCallback) {
        f.apply(Decision { variable, value: 0 }); f.apply(Decision { variable, value: 1 });
    }
}
struct Rlx;
impl Relaxation for Rlx {
    type State = isize;
    fn merge(&self, states: &mut dyn Iterator<Item = &isize>) -> isize { states.copied().max().unwrap() }
    fn relax(&self, _s: &isize, _d: &isize, _m: &isize, _dec: Decision, cost: isize) -> isize { cost }
    fn fast_upper_bound(&self, _s: &isize) -> isize { 100 }
}
struct Rank;
impl StateRanking for Rank { type State = isize; fn compare(&self, a: &isize, b: &isize) -> std::cmp::Ordering { a.cmp(b) } }

thread_local! { static CUR: std::cell::Cell<(isize, usize)> = std::cell::Cell::new((-1, 0)); }
static PHASE: AtomicUsize = AtomicUsize::new(0);     // 0 = free run, 1.. = scripted
static W0_ENQ: AtomicUsize = AtomicUsize::new(0);
static LOG: std::sync::Mutex<Vec<String>> = std::sync::Mutex::new(vec![]);
fn wait_phase(p: usize) { let t0 = std::time::Instant::now(); while PHASE.load(AO::SeqCst) < p && t0.elapsed().as_secs() < 6 { std::thread::sleep(std::time::Duration::from_micros(200)); } }
struct W;
impl WidthHeuristic<isize> for W {
    fn max_width(&self, s: &SubProblem<isize>) -> usize {
        CUR.with(|c| c.set((*s.state, s.depth)));
        LOG.lock().unwrap().push(format!("{}/{}/{}/{}", s.state, s.depth, s.value, s.ub));
        wsf(s.depth, (*s.state as usize).min(M - 1))
    }
}
struct Cut;
impl Cutoff for Cut { fn must_stop(&self) -> bool { PHASE.load(AO::SeqCst) == 3 && CUR.with(|c| c.get() == (1, 2)) } }

fn scripted(threads: usize, lel: bool) -> String {
    let problem = Pb; let relax = Rlx; let rank = Rank; let width = W; let dominance = EmptyDominanceChecker::default(); let cutoff = Cut;
    PHASE.store(1, AO::SeqCst); W0_ENQ.store(0, AO::SeqCst); LOG.lock().unwrap().clear();
    verif_hooks::set_callback(Some(Arc::new(|w: Option<usize>, ev: Event| {
        if PHASE.load(AO::SeqCst) == 0 { return; }
        match (w, ev) {
            // worker 1 (and any further worker) does nothing before worker 0 stands at the enqueue_cutset of its second node
            (Some(1), Event::BeforeLock("get_workload")) if PHASE.load(AO::SeqCst) < 2 => wait_phase(2),
            // further workers stay out of the way during the whole scripted part
            (Some(i), Event::BeforeLock("get_workload")) if i >= 2 && PHASE.load(AO::SeqCst) < 4 => wait_phase(4),
            (Some(0), Event::BeforeLock("enqueue_cutset")) => {
                if W0_ENQ.fetch_add(1, AO::SeqCst) + 1 == 2 && PHASE.load(AO::SeqCst) == 1 { PHASE.store(2, AO::SeqCst); wait_phase(3); }
            }
            // worker 1 has compiled A = (0, depth 2): held before maybe_update_best; worker 0 goes on
            (Some(1), Event::BeforeLock("update_best")) if PHASE.load(AO::SeqCst) == 2 && CUR.with(|c| c.get() == (0, 2)) => { PHASE.store(3, AO::SeqCst); wait_phase(4); }
            (Some(0), Event::AfterUnlock("abort_search")) if PHASE.load(AO::SeqCst) == 3 => PHASE.store(4, AO::SeqCst),
            _ => {}
        }
    })));
    let r = catch(|| {
        let mut fringe = SimpleFringe::new(MaxUB::new(&rank));
        if lel {
            let mut s = ParallelSolver::<isize, DefaultMDDLEL<isize>, SimpleCache<isize>>::custom(&problem, &relax, &rank, &width, &dominance, &cutoff, &mut fringe, threads);
            let c = s.maximize(); (c.is_exact, c.best_value, s.best_lower_bound(), s.best_upper_bound())
        } else {
            let mut s = ParallelSolver::<isize, DefaultMDDLEL<isize>, EmptyCache<isize>>::custom(&problem, &relax, &rank, &width, &dominance, &cutoff, &mut fringe, threads);
            let c = s.maximize(); (c.is_exact, c.best_value, s.best_lower_bound(), s.best_upper_bound())
        }
    });
    let reached = PHASE.load(AO::SeqCst);
    PHASE.store(0, AO::SeqCst); verif_hooks::set_callback(None);
    match r { Some((e, v, lb, ub)) => format!("{} {} {} {} phase {} pops {}", e as u8, v.map(|x| x.to_string()).unwrap_or("none".into()), lb, ub, reached, LOG.lock().unwrap().join(",")), None => format!("panic phase {}", reached) }
}

pub fn run_cachecut(a: &Args) {
    let mut out = Out::new(&a.out, "cachecut");
    // a run whose script was not carried to its end (a wait expired because the OS starved a thread: `phase` below 4) says nothing
    // about the code; it is repeated a few times.  A change to the code that makes the script unrealisable fails every attempt
    // and is reported as it is.
    let settled = |threads: usize, lel: bool| { let mut r = scripted(threads, lel); for _ in 0..4 { if r.contains("phase 4 ") { break; } r = scripted(threads, lel); } r };
    let runs = vec![format!("cache2 {}", settled(2, true)), format!("cache3 {}", settled(3, true)), format!("nocache2 {}", settled(2, false))];
    out.case_tagged("cutwitness 6", &runs.join(" ; "), "scripted_schedule");
    out.finish();
}
