import DdoModel.Engines.Small
import DdoModel.Engines.Fringe
import DdoModel.Engines.Mdd
import DdoModel.Engines.Seq
import DdoModel.Engines.Par
import DdoModel.Engines.Ex
import DdoModel.Engines.Viz
import DdoModel.Engines.ExModel
import DdoModel.Engines.DomCyc
import DdoModel.Engines.CacheOrder
import DdoModel.Engines.CacheDom
import DdoModel.Engines.CacheCut
/-! Line-protocol driver.  stdin: pairs of lines
      `C <engine> <id> <case tokens…>`
      `I <id> <implementation output tokens…>`
    stdout, per pair: `R <id> <agree 0/1> <phi 0/1> | <model output>`  (or `E <id> parse-error`). -/
open Ddo Ddo.Proto Ddo.Engines

def dispatch (engine : String) (c i : List String) : Option Res :=
  match engine with
  | "gap" => gapEngine c i
  | "width" => widthEngine c i
  | "cache" => cacheEngine c i
  | "dom" => domEngine c i
  | "fringe" => fringeEngine c i
  | "mdd" => mddEngine c i
  | "seq" => seqEngine c i
  | "seqcut" => seqcutEngine c i
  | "par" => parEngine c i
  | "parstress" => parstressEngine c i
  | "seqorder" => seqorderEngine c i
  | "ex" => exEngine c i
  | "viz" => vizEngine c i
  | "exmodel" => exmodelEngine c i
  | "domcyc" => domcycEngine c i
  | "cacheorder" => cacheorderEngine c i
  | "cachedom" => cachedomEngine c i
  | "cachecut" => cachecutEngine c i
  | _ => none

partial def loop (h : IO.FS.Stream) (out : IO.FS.Stream) : IO Unit := do
  let l1 ← h.getLine
  if l1.isEmpty then return ()
  let t1 := toks l1
  match t1 with
  | "C" :: engine :: id :: c =>
    let l2 ← h.getLine
    let t2 := toks l2
    match t2 with
    | "I" :: id2 :: i =>
      if id2 ≠ id then out.putStrLn s!"E {id} id-mismatch"
      else match dispatch engine c i with
        | some r => out.putStrLn s!"R {id} {b2s r.agree} {b2s r.phi} | {r.model}{if r.note = "" then "" else " # " ++ r.note}"
        | none => out.putStrLn s!"E {id} parse-error"
    | _ => out.putStrLn s!"E {id} missing-impl-line"
    loop h out
  | [] => loop h out
  | _ => out.putStrLn "E ? bad-line"; loop h out

def main : IO Unit := do
  let stdin ← IO.getStdin
  let stdout ← IO.getStdout
  loop stdin stdout
