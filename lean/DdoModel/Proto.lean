import DdoModel.Basic
/-! Line protocol helpers shared by the driver engines (no proofs here). -/
namespace Ddo.Proto

def toks (line : String) : List String :=
  (line.trimAscii.toString.splitOn " ").filter (· ≠ "")

def int? (s : String) : Option Int := s.toInt?
def nat? (s : String) : Option Nat := s.toNat?

def ints? : List String → Option (List Int)
  | [] => some []
  | t :: ts => do let x ← int? t; let xs ← ints? ts; pure (x :: xs)

def b2s (b : Bool) : String := if b then "1" else "0"

def optInt (o : Option Int) : String := match o with | none => "none" | some v => toString v

def join (xs : List String) : String := " ".intercalate xs

/-- split a token list at every occurrence of `sep` -/
def splitAt (sep : String) (ts : List String) : List (List String) :=
  let rec go (cur : List String) (acc : List (List String)) : List String → List (List String)
    | [] => (cur.reverse :: acc).reverse
    | t :: rest => if t = sep then go [] (cur.reverse :: acc) rest else go (t :: cur) acc rest
  go [] [] ts

end Ddo.Proto
