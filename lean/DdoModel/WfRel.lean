import DdoModel.Wf
/-! Well-formedness of a user model **relative to a layer-validity predicate** `V : depth → state → Prop`.

`Potential`, `RubOk`, `MergeOk` (and `Ddo.Cover.AttMerge`) quantify over all pairs (depth, state).  Models whose state
embeds the depth (the shipped knapsack example: state = (depth, capacity), the rough bound reads `state.depth`,
`merge` returns one of its arguments) only satisfy them on *consistent* pairs — states that can actually sit in layer
`k`.  `WfRel P R H V` restricts every clause to valid states and adds the closure of `V` under what the compilation
does to a layer: expansion (`vstep`, `vstepMerge`) and merge (`vmerge`).

The implementation asks `next_variable` for the un-merged layer `L` and then branches the merged node on the answer,
hence the clauses come in pairs: one for the members of `L`, one for `merge X`, `X` a non-empty part of `L`
(`vstep` / `vstepMerge`, `att` / `attMerge`). -/
namespace Ddo
variable {S : Type}

structure WfRel (P : Problem S) (R : Relax S) (H : Nat → S → EInt) (V : Nat → S → Prop) : Prop where
  /-- the children of a valid member of the layer are valid for the next depth -/
  vstep : ∀ k L x s d, P.nextVar k L = some x → s ∈ L → V k s → d ∈ P.domain x s → V (k + 1) (P.trans s ⟨x, d⟩)
  /-- the same for the merged state of a non-empty valid part of the layer (variable chosen for the un-merged layer) -/
  vstepMerge : ∀ k L x X d, P.nextVar k L = some x → X ≠ [] → (∀ u ∈ X, u ∈ L) → (∀ u ∈ X, V k u) →
      d ∈ P.domain x (R.merge X) → V (k + 1) (P.trans (R.merge X) ⟨x, d⟩)
  /-- merging valid states of a layer gives a valid state of that layer -/
  vmerge : ∀ k X, X ≠ [] → (∀ u ∈ X, V k u) → V k (R.merge X)
  /-- some decision does not lose potential (valid members of the layer) -/
  att : ∀ k L x s h, P.nextVar k L = some x → s ∈ L → V k s → H k s = some h →
      ∃ d ∈ P.domain x s, ∃ h', H (k + 1) (P.trans s ⟨x, d⟩) = some h' ∧
        h ≤ P.cost s (P.trans s ⟨x, d⟩) ⟨x, d⟩ + h'
  /-- some decision does not lose potential (merged state, variable chosen for the un-merged layer) -/
  attMerge : ∀ k L x X h, P.nextVar k L = some x → X ≠ [] → (∀ u ∈ X, u ∈ L) → (∀ u ∈ X, V k u) →
      H k (R.merge X) = some h →
      ∃ d ∈ P.domain x (R.merge X), ∃ h', H (k + 1) (P.trans (R.merge X) ⟨x, d⟩) = some h' ∧
        h ≤ P.cost (R.merge X) (P.trans (R.merge X) ⟨x, d⟩) ⟨x, d⟩ + h'
  /-- no potential is left when `nextVar` answers `none` -/
  term : ∀ k L s h, P.nextVar k L = none → s ∈ L → V k s → H k s = some h → h ≤ 0
  /-- the rough upper bound dominates the potential of valid states -/
  rub : ∀ k s h, V k s → H k s = some h → h ≤ R.rub s
  /-- redirecting an arc `src —d,c→ u` to `merge X` (`u ∈ X`, all of `X` valid) loses no potential -/
  merge : ∀ k (X : List S) (u src : S) (d : Dec) (c h : Int), u ∈ X → (∀ w ∈ X, V k w) → H k u = some h →
      ∃ h', H k (R.merge X) = some h' ∧ c + h ≤ R.relax src u (R.merge X) d c + h'

/-- `NoClamp` with the bound on the transition costs restricted to the decisions of the domain (the knapsack example
    computes `profit * decision.value`, which is only bounded for the values `0` / `1` the domain hands out) -/
structure NoClampDom (P : Problem S) (R : Relax S) (rootValue : Int) (B : Int) : Prop where
  nonneg : 0 ≤ B
  root : -B ≤ rootValue ∧ rootValue ≤ B
  cost : ∀ x s d, d ∈ P.domain x s →
    -B ≤ P.cost s (P.trans s ⟨x, d⟩) ⟨x, d⟩ ∧ P.cost s (P.trans s ⟨x, d⟩) ⟨x, d⟩ ≤ B
  relax : ∀ s u m d c, -B ≤ c ∧ c ≤ B → -B ≤ R.relax s u m d c ∧ R.relax s u m d c ≤ B
  small : ((P.nbVars : Int) + 2) * B ≤ 4611686018427387904

theorem NoClamp.toDom {P : Problem S} {R : Relax S} {rv B : Int} (h : NoClamp P R rv B) : NoClampDom P R rv B :=
  ⟨h.nonneg, h.root, fun _ _ _ _ => h.cost _ _ _, h.relax, h.small⟩

end Ddo
