import DdoModel.Dp
import DdoModel.Cache
import DdoModel.Dominance
/-! Functional model of `Mdd<T, LAST_EXACT_LAYER>` and `Mdd<T, FRONTIER>`
    (`implementation/mdd/clean.rs`), all three compilation types.

Layers are lists of nodes in creation order (the Rust index range `from..to` of a layer, the
merged node last); an arc names its parent by `(layer index, position)`.  The top-down build
follows `_compile` / `_move_to_next_layer` / `_filter_with_cache` / `_filter_with_dominance` /
`_squash_if_needed` / `_restrict` / `_relax` / `_branch_on` / `append_edge_to!`; the bottom-up
passes follow `_finalize_*`, `_compute_local_bounds`, `_compute_thresholds`, `_drain_cutset` in
the same *push* form (walk the layers in reverse, update the parents through the inbound arcs).

Hash-order: where the Rust code iterates a hash map the model uses creation order; the only
observables that depend on it are which of several equal-valued arcs / terminal nodes becomes
`best` — hence the decision paths (validated by replay, never compared) and
`has_exact_best_path`, for which the model computes `ebpMust` / `ebpMay` (DESIGN.md §4). -/
namespace Ddo

structure Arc where
  fromL : Nat
  fromP : Nat
  dec : Dec
  cost : Int
deriving Repr

structure Node (S : Type) where
  state : S
  value : Int                 -- `value_top`
  vbot : Int := iMin          -- `value_bot`
  best : Option Arc := none
  inb : List Arc := []        -- inbound arcs, newest first
  rub : Int := iMax
  theta : Option Int := none
  fExact : Bool := true
  fRelaxed : Bool := false
  marked : Bool := false
  cutset : Bool := false
  deleted : Bool := false
  cache : Bool := false       -- pruned by cache
  above : Bool := false       -- above cut-set
  depth : Nat

def Node.isExact {S : Type} (n : Node S) : Bool := n.fExact && !n.fRelaxed

/-- calls into user code, logged for C12 / C13 -/
inductive Call (S : Type)
  | nextVar (depth : Nat) (states : List S) (ans : Option Nat)
  | domain (var : Nat) (s : S)
  | trans (s : S) (d : Dec)
  | cost (src dst : S) (d : Dec)
  | merge (states : List S) (res : S)
  | relax (src dst merged : S) (d : Dec) (c : Int)
  | rub (s : S)
  | impacted (var : Nat) (s : S)

/-- configuration of one compilation -/
structure Cfg (S K : Type) where
  P : Problem S
  R : Relax S
  rank : Ranking S
  dom : Option (DomRule S K)     -- `none` = `EmptyDominanceChecker`
  useCache : Bool                -- `false` = `EmptyCache`
  kind : CutsetKind
  ctype : CompType
  width : Nat
  root : SubP S
  lb : Int

structure DD (S K : Type) where
  layers : List (List (Node S)) := []
  next : List (Node S) := []
  depth : Nat
  lel : Option Nat := none
  cache : Cache S
  store : DomStore S K
  log : List (Call S) := []                         -- newest first
  cacheLog : List (S × Nat × Int × Bool) := []      -- `update_threshold` calls, newest first
  polls : Nat := 0                                  -- cutoff polls so far
  ndom : Nat := 0                                   -- number of `dominated` verdicts received

variable {S K : Type} [DecidableEq S] [DecidableEq K]

def getNode (layers : List (List (Node S))) (l p : Nat) : Option (Node S) :=
  match layers[l]? with
  | none => none
  | some ly => ly[p]?

def modNode (layers : List (List (Node S))) (l p : Nat) (f : Node S → Node S) : List (List (Node S)) :=
  match layers[l]? with
  | none => layers
  | some ly => match ly[p]? with
    | none => layers
    | some n => layers.set l (ly.set p (f n))

/-- `append_edge_to!`: the child after receiving an arc from `parent` -/
def appendEdge (parent child : Node S) (a : Arc) : Node S :=
  let value := satAdd parent.value a.cost
  let exact := parent.isExact && child.isExact
  let c := { child with fExact := exact, inb := a :: child.inb }
  if value ≥ c.value then { c with best := some a, value := value } else c

/-- stable insertion sort, `before a b = true` ⇒ `a` is placed before `b` -/
def insertBy {α : Type} (before : α → α → Bool) (x : α) : List α → List α
  | [] => [x]
  | y :: r => if before y x || !(before x y) then y :: insertBy before x r else x :: y :: r
def sortBy {α : Type} (before : α → α → Bool) (l : List α) : List α :=
  l.foldl (fun acc x => insertBy before x acc) []

/-- `_branch_on`: insert-or-update the child keyed by its state in `next` -/
def branchOn (cfg : Cfg S K) (parent : Node S) (pl pp : Nat) (d : Dec) (next : List (Node S)) : List (Node S) :=
  let dst := cfg.P.trans parent.state d
  let c := cfg.P.cost parent.state dst d
  let a : Arc := ⟨pl, pp, d, c⟩
  let rec go : List (Node S) → List (Node S)
    | [] =>
      let fresh : Node S := { state := dst, value := satAdd parent.value c, fExact := parent.isExact, depth := parent.depth + 1 }
      [appendEdge parent fresh a]
    | n :: r => if n.state = dst then appendEdge parent n a :: r else n :: go r
  go next

inductive Outcome | ok | cutoff | crash
deriving DecidableEq, Repr

/-- `_filter_with_cache`: returns the layer (flags/theta updated) and the surviving positions -/
def filterCache (cfg : Cfg S K) (cache : Cache S) (layer : List (Node S)) (cur : List Nat) : List (Node S) × List Nat :=
  cur.foldl (fun (ly, keep) p =>
    match ly[p]? with
    | none => (ly, keep)
    | some n =>
      let t := if cfg.useCache then (cache.get n.state n.depth).getD none else none
      match t with
      | some t => if n.value > t.value then (ly, keep ++ [p])
                  else (ly.set p { n with cache := true, theta := some t.value }, keep)
      | none => (ly, keep ++ [p])) (layer, [])

/-- `_filter_with_dominance` -/
def filterDom (cfg : Cfg S K) (store : DomStore S K) (layer : List (Node S)) (cur : List Nat) :
    List (Node S) × List Nat × DomStore S K × Bool :=
  match cfg.dom with
  | none => (layer, cur, store, true)
  | some D =>
    let nodeAt := fun p => layer[p]?
    let sorted := sortBy (fun a b => match nodeAt a, nodeAt b with
      | some x, some y => D.cmp x.state x.value y.state y.value == .gt
      | _, _ => false) cur
    sorted.foldl (fun (ly, keep, st, ok) p =>
      match ly[p]? with
      | none => (ly, keep, st, ok)
      | some n =>
        if n.isExact then
          match DomStore.query D st n.state n.depth n.value with
          | none => (ly, keep ++ [p], st, false)       -- the real call panics (depth out of range)
          | some (st', dominated, thr) =>
            if dominated then (ly.set p { n with theta := thr }, keep, st', ok) else (ly, keep ++ [p], st', ok)
        else (ly, keep ++ [p], st, ok)) (layer, [], store, true)

/-- sort of `_restrict` / `_relax`: by value, then ranking, descending -/
def sortSquash (cfg : Cfg S K) (layer : List (Node S)) (cur : List Nat) : List Nat :=
  sortBy (fun a b => match layer[a]?, layer[b]? with
    | some x, some y =>
      (match icmp x.value y.value with
       | .eq => cfg.rank.cmp x.state y.state
       | o => o) == .gt
    | _, _ => false) cur

/-- `_restrict` -/
def restrictLayer (cfg : Cfg S K) (layer : List (Node S)) (cur : List Nat) : List (Node S) × List Nat :=
  let sorted := sortSquash cfg layer cur
  let dropped := sorted.drop cfg.width
  let layer' := dropped.foldl (fun ly p => match ly[p]? with
    | some n => ly.set p { n with deleted := true } | none => ly) layer
  (layer', sorted.take cfg.width)

/-- `_relax`; `lidx` = index the current layer will get; parents live in `layers` -/
def relaxLayer (cfg : Cfg S K) (layers : List (List (Node S))) (layer : List (Node S)) (cur : List Nat)
    (log : List (Call S)) : List (Node S) × List Nat × List (Call S) :=
  let sorted := sortSquash cfg layer cur
  let keep := sorted.take (cfg.width - 1)
  let rest := sorted.drop (cfg.width - 1)
  let restStates := rest.filterMap (fun p => (layer[p]?).map (·.state))
  let merged := cfg.R.merge restStates
  let log := Call.merge restStates merged :: log
  let recycled := keep.find? (fun p => match layer[p]? with | some n => decide (n.state = merged) | none => false)
  let depth0 := match rest.head? with
    | some p => (match layer[p]? with | some n => n.depth | none => 0)
    | none => 0
  let (layer1, mpos) : List (Node S) × Nat := match recycled with
    | some p => (layer, p)
    | none => (layer ++ [{ state := merged, value := iMin, fExact := false, fRelaxed := true, depth := depth0 }], layer.length)
  let layer2 := match layer1[mpos]? with
    | some n => layer1.set mpos { n with fRelaxed := true }
    | none => layer1
  -- redirect the inbound arcs of every merged-away node
  let (layer3, log) := rest.foldl (fun (ly, lg) p =>
    match ly[p]? with
    | none => (ly, lg)
    | some dropN =>
      let ly := ly.set p { dropN with deleted := true }
      dropN.inb.foldl (fun (ly, lg) e =>
        match getNode layers e.fromL e.fromP, ly[mpos]? with
        | some src, some m =>
          let rcost := cfg.R.relax src.state dropN.state merged e.dec e.cost
          (ly.set mpos (appendEdge src m ⟨e.fromL, e.fromP, e.dec, rcost⟩),
           Call.relax src.state dropN.state merged e.dec e.cost :: lg)
        | _, _ => (ly, lg)) (ly, lg)) (layer2, log)
  match recycled with
  | some _ =>
    let cur' := sorted.take cfg.width
    let layer4 := match cur'.getLast? with
      | some sp => (match layer3[sp]? with | some n => layer3.set sp { n with deleted := false } | none => layer3)
      | none => layer3
    (layer4, cur', log)
  | none => (layer3, keep ++ [mpos], log)

/-- expansion of one node of the current layer (`fast_upper_bound`, rough-bound test, `for_each_in_domain`
    + `_branch_on`): `(layer, next layer under construction, log)` -/
def expandOne (cfg : Cfg S K) (var lidx : Nat) (acc : List (Node S) × List (Node S) × List (Call S)) (p : Nat) :
    List (Node S) × List (Node S) × List (Call S) :=
  let (ly, nx, lg) := acc
  match ly[p]? with
  | none => (ly, nx, lg)
  | some n =>
    let rub := cfg.R.rub n.state
    let n' := { n with rub := rub }
    let ly := ly.set p n'
    let lg := Call.rub n.state :: lg
    if satAdd rub n.value > cfg.lb then
      let ds := cfg.P.domain var n.state
      let lg := Call.domain var n.state :: lg
      let (nx, lg) := ds.foldl (fun (nx, lg) d =>
        let dec : Dec := ⟨var, d⟩
        let dst := cfg.P.trans n.state dec
        (branchOn cfg n' lidx p dec nx, Call.cost n.state dst dec :: Call.trans n.state dec :: lg)) (nx, lg)
      (ly, nx, lg)
    else (ly, nx, lg)

def expandAll (cfg : Cfg S K) (var lidx : Nat) (layer : List (Node S)) (cur : List Nat) (log : List (Call S)) :
    List (Node S) × List (Node S) × List (Call S) :=
  cur.foldl (expandOne cfg var lidx) (layer, ([] : List (Node S)), log)

/-- `_squash_if_needed` (+ `_maybe_save_lel`); `none` = the Rust code panics -/
def squash (cfg : Cfg S K) (dd : DD S K) (layer : List (Node S)) (cur : List Nat) :
    Option (List (Node S) × List Nat × List (Call S) × Option Nat) :=
  let needRestrict := cfg.ctype == .restricted && cur.length > cfg.width
  let needRelax := cfg.ctype == .relaxed && cur.length > cfg.width && dd.layers.length > 1
  if needRelax && cfg.width == 0 then none else                       -- `max_width - 1` underflows
  if needRestrict && dd.layers.isEmpty then none else                 -- `layers.len() - 1` underflows
  let lel := if (needRestrict || needRelax) && dd.lel.isNone then some (dd.layers.length - 1) else dd.lel
  if needRestrict then let (l, c) := restrictLayer cfg layer cur; some (l, c, dd.log, lel)
  else if needRelax then let (l, c, lg) := relaxLayer cfg dd.layers layer cur dd.log; some (l, c, lg, lel)
  else some (layer, cur, dd.log, lel)

/-- one iteration of the `while let Some(var) = next_variable(..)` loop after the poll:
    `_move_to_next_layer` + the expansion of the surviving nodes.  `(some dd, .cutoff)` = `break`. -/
def stepLayer (cfg : Cfg S K) (dd : DD S K) (var : Nat) : Option (DD S K) × Outcome :=
  if dd.next.isEmpty then
    (some { dd with layers := dd.layers ++ [[]] }, .cutoff)     -- `.cutoff` is used as the "break" marker here
  else
    let layer := dd.next
    let cur := List.range layer.length
    let (layer, cur) := if dd.layers.isEmpty then (layer, cur) else filterCache cfg dd.cache layer cur
    let before := cur.length
    let (layer, cur, store, okDom) := filterDom cfg dd.store layer cur
    let ndom := dd.ndom + (before - cur.length)
    if !okDom then (none, .crash) else
    match squash cfg dd layer cur with
    | none => (none, .crash)
    | some (layer, cur, log, lel) =>
      let lidx := dd.layers.length
      let (layer, next, log) := expandAll cfg var lidx layer cur log
      (some { dd with layers := dd.layers ++ [layer], next := next, depth := dd.depth + 1, lel := lel, store := store, log := log, ndom := ndom }, .ok)

/-- the compilation loop.  `stopAt = some k`: the cutoff answers "stop" from its `k`-th poll on
    (polls are counted across compilations by the caller through `dd.polls`). -/
def buildLoop (cfg : Cfg S K) (stopAt : Option Nat) : Nat → DD S K → DD S K × Outcome
  | 0, dd => (dd, .crash)
  | fuel + 1, dd =>
    let states := dd.next.map (·.state)
    let ans := cfg.P.nextVar dd.depth states
    let dd := { dd with log := Call.nextVar dd.depth states ans :: dd.log }
    match ans with
    | none => (dd, .ok)
    | some var =>
      let dd := { dd with polls := dd.polls + 1 }
      if (match stopAt with | some k => decide (dd.polls ≥ k) | none => false) then (dd, .cutoff)
      else
        match stepLayer cfg dd var with
        | (none, _) => (dd, .crash)
        | (some dd', .cutoff) => (dd', .ok)          -- `break`
        | (some dd', .crash) => (dd', .crash)
        | (some dd', .ok) => buildLoop cfg stopAt fuel dd'

def initDD (cfg : Cfg S K) (cache : Cache S) (store : DomStore S K) (polls : Nat) : DD S K :=
  { next := [{ state := cfg.root.state, value := cfg.root.value, depth := cfg.root.depth }],
    depth := cfg.root.depth, cache := cache, store := store, polls := polls }

/-! ## finalisation -/

/-- the built diagram, terminal layer included, plus what the bottom-up passes need -/
structure Built (S K : Type) where
  dd : DD S K
  layers : List (List (Node S))     -- after `_finalize_layers`
  termL : Option Nat                -- index of the terminal layer (the nodes left in `next_l`), if non-empty
  lel : Nat
  isExactField : Bool

def finalizeLayers (dd : DD S K) : Built S K :=
  let (layers, termL) := if dd.next.isEmpty then (dd.layers, none) else (dd.layers ++ [dd.next], some dd.layers.length)
  { dd := dd, layers := layers, termL := termL, lel := dd.lel.getD layers.length, isExactField := dd.lel.isNone }

def Built.terminals (b : Built S K) : List (Node S) :=
  match b.termL with
  | none => []
  | some l => b.layers[l]?.getD []

def maxValue (l : List (Node S)) : Option Int :=
  l.foldl (fun acc n => match acc with | none => some n.value | some m => some (max m n.value)) none

/-- parents reached through an arc that attains the node's value (candidates for `best`) -/
def argmaxParents (layers : List (List (Node S))) (n : Node S) : List (Node S) :=
  n.inb.filterMap (fun a =>
    match getNode layers a.fromL a.fromP with
    | some p => if satAdd p.value a.cost = n.value then some p else none
    | none => none)

/-- `_has_exact_best_path` over *all* / *some* resolution of the ties; `fuel` = number of layers -/
def ebpAll (layers : List (List (Node S))) : Nat → Node S → Bool
  | 0, n => n.isExact
  | fuel + 1, n =>
    n.isExact || (!n.fRelaxed && (match n.best with
      | none => true
      | some _ => (argmaxParents layers n).all (ebpAll layers fuel)))
def ebpSome (layers : List (List (Node S))) : Nat → Node S → Bool
  | 0, n => n.isExact
  | fuel + 1, n =>
    n.isExact || (!n.fRelaxed && (match n.best with
      | none => true
      | some _ => (argmaxParents layers n).any (ebpSome layers fuel)))

def Built.bestValue (b : Built S K) : Option Int := maxValue b.terminals
def Built.bestTerminals (b : Built S K) : List (Node S) :=
  match b.bestValue with
  | none => []
  | some v => b.terminals.filter (fun n => n.value = v)

/-- `has_exact_best_path` must / may hold (`best_node = None` ⇒ `true`) -/
def Built.ebpMust (b : Built S K) (relaxed : Bool) : Bool :=
  relaxed && b.bestTerminals.all (ebpAll b.layers b.layers.length)
def Built.ebpMay (b : Built S K) (relaxed : Bool) : Bool :=
  relaxed && (b.bestTerminals.isEmpty || b.bestTerminals.any (ebpSome b.layers b.layers.length))

/-- `_compute_last_exact_layer_cutset` / `_compute_frontier_cutset`: flags + the cut-set as positions -/
def computeCutset (kind : CutsetKind) (lel : Nat) (layers : List (List (Node S))) : List (List (Node S)) × List (Nat × Nat) :=
  match kind with
  | .lel =>
    let layers1 := (List.range layers.length).foldl (fun ls l =>
      if l = lel then ls.set l ((ls[l]?.getD []).map (fun n => { n with cutset := true, above := true }))
      else if l < lel then ls.set l ((ls[l]?.getD []).map (fun n => { n with above := true }))
      else ls) layers
    let cs := if lel < layers.length then (List.range (layers[lel]?.getD []).length).map (fun p => (lel, p)) else []
    (layers1, cs)
  | .frontier =>
    (List.range layers.length).reverse.foldl (fun (ls, cs) l =>
      (List.range (ls[l]?.getD []).length).foldl (fun (ls, cs) p =>
        match getNode ls l p with
        | none => (ls, cs)
        | some n =>
          if n.isExact then (modNode ls l p (fun n => { n with above := true }), cs)
          else n.inb.foldl (fun (ls, cs) e =>
            match getNode ls e.fromL e.fromP with
            | some par => if par.isExact && !par.cutset then
                (modNode ls e.fromL e.fromP (fun x => { x with cutset := true }), cs ++ [(e.fromL, e.fromP)])
              else (ls, cs)
            | none => (ls, cs)) (ls, cs)) (ls, cs)) (layers, [])

/-- `_compute_local_bounds` -/
def computeLocalBounds (layers : List (List (Node S))) : List (List (Node S)) :=
  let last := layers.length - 1
  let layers0 := layers.set last ((layers[last]?.getD []).map (fun n => { n with vbot := 0, marked := true }))
  (List.range layers0.length).reverse.foldl (fun ls l =>
    (List.range (ls[l]?.getD []).length).foldl (fun ls p =>
      match getNode ls l p with
      | none => ls
      | some n =>
        if n.marked then
          n.inb.foldl (fun ls e =>
            modNode ls e.fromL e.fromP (fun par => { par with marked := true, vbot := max par.vbot (satAdd n.vbot e.cost) })) ls
        else ls) ls) layers0

/-- `_compute_thresholds` (with `_maybe_update_cache`); returns the layers and the emitted cache updates -/
def computeThresholds (kind : CutsetKind) (isExactField : Bool) (lb : Int) (bestExact : Option Int)
    (termL : Option Nat) (layers : List (List (Node S))) : List (List (Node S)) × List (S × Nat × Int × Bool) :=
  let bk := match bestExact with | some v => max lb v | none => lb
  let layers0 := match bestExact, termL with
    | some _, some tl =>
      layers.set tl ((layers[tl]?.getD []).map (fun n =>
        if (kind == .lel && isExactField) || (kind == .frontier && n.isExact) then { n with theta := some bk } else n))
    | _, _ => layers
  (List.range layers0.length).reverse.foldl (fun (ls, ups) l =>
    (List.range (ls[l]?.getD []).length).foldl (fun (ls, ups) p =>
      match getNode ls l p with
      | none => (ls, ups)
      | some n =>
        if n.deleted then (ls, ups) else
        let (n1, ups) :=
          if !n.cache then
            let n1 :=
              if satAdd n.value n.rub ≤ bk then { n with theta := some (satSub bk n.rub) }
              else if n.cutset then
                if satAdd n.value n.vbot ≤ bk then { n with theta := some (min (n.theta.getD iMax) (satSub bk n.vbot)) }
                else { n with theta := some n.value }
              else if n.isExact && n.theta.isNone then { n with theta := some iMax }
              else n
            let ups := match n1.theta with
              | some t => if n1.above then (n1.state, n1.depth, t, !n1.cutset) :: ups else ups
              | none => ups
            (n1, ups)
          else (n, ups)
        let ls := modNode ls l p (fun _ => n1)
        match n1.theta with
        | some t =>
          (n1.inb.foldl (fun ls e =>
            modNode ls e.fromL e.fromP (fun par => { par with theta := some (min (par.theta.getD iMax) (satSub t e.cost)) })) ls, ups)
        | none => (ls, ups)) (ls, ups)) (layers0, [])

/-- decisions along the `best` chain, last arc first (as `_best_path` pushes them) -/
def bestPath (layers : List (List (Node S))) : Nat → Node S → List Dec
  | 0, _ => []
  | fuel + 1, n => match n.best with
    | none => []
    | some a => a.dec :: (match getNode layers a.fromL a.fromP with
        | some p => bestPath layers fuel p
        | none => [])

/-- everything observable of one compilation, for one resolution of the exact-best-path tie -/
structure Result (S : Type) where
  outcome : Outcome
  isExact : Bool                       -- `Completion.is_exact` = `DecisionDiagram::is_exact()`
  bestValue : Option Int
  bestExactValue : Option Int
  bestSol : Option (List Dec)          -- one admissible best path (validated by replay, not compared)
  bestExactSol : Option (List Dec)
  cutset : List (SubP S)               -- what `drain_cutset` hands out
  cacheUpdates : List (S × Nat × Int × Bool)
  expanded : List Nat                  -- number of nodes expanded (domain enumerated) per layer  (C13)
  polls : Nat

def finalize (cfg : Cfg S K) (b : Built S K) (hasEBP : Bool) : Result S × List (List (Node S)) :=
  let relaxed := cfg.ctype == .relaxed
  let terms := b.terminals
  let bestValue := b.bestValue
  let exactTerms := terms.filter (·.isExact)
  let bestExactValue := if hasEBP then bestValue else maxValue exactTerms
  let doCut := relaxed || b.isExactField
  let (layers1, cs) := if doCut then computeCutset cfg.kind b.lel b.layers else (b.layers, [])
  let layers2 := if b.lel < b.layers.length && relaxed then computeLocalBounds layers1 else layers1
  let (layers3, ups) := if doCut then computeThresholds cfg.kind b.isExactField cfg.lb bestExactValue b.termL layers2 else (layers2, [])
  let fuel := layers3.length + 1
  let pathOf := fun (n : Node S) => cfg.root.path ++ bestPath layers3 fuel n
  let bestNode := match bestValue with
    | none => none
    | some v => (b.termL.bind (fun l => (layers3[l]?.getD []).find? (fun (n : Node S) => decide (n.value = v))))
  let bestExactNode := if hasEBP then bestNode else
    match bestExactValue with
    | none => none
    | some v => (b.termL.bind (fun l => (layers3[l]?.getD []).find? (fun (n : Node S) => n.isExact && decide (n.value = v))))
  let cutset := match bestValue with
    | none => []
    | some bv => cs.filterMap (fun (l, p) =>
        match getNode layers3 l p with
        | some n => if n.marked then
            some { state := n.state, value := n.value, path := pathOf n,
                   ub := min (min (satAdd n.value n.rub) (satAdd n.value n.vbot)) bv, depth := n.depth }
          else none
        | none => none)
  let expanded := (b.dd.log.reverse.foldl (fun acc c => match c with
    | .nextVar _ _ _ => 0 :: acc
    | .domain _ _ => (match acc with | x :: r => (x + 1) :: r | [] => [1])
    | _ => acc) ([] : List Nat)).reverse
  ({ outcome := .ok, isExact := b.isExactField || hasEBP, bestValue := bestValue, bestExactValue := bestExactValue,
     bestSol := bestNode.map pathOf, bestExactSol := bestExactNode.map pathOf,
     cutset := cutset, cacheUpdates := ups, expanded := expanded, polls := b.dd.polls }, layers3)

/-- `compile`: the two admissible results (`must` first); they coincide when no tie matters -/
def compile (cfg : Cfg S K) (cache : Cache S) (store : DomStore S K) (polls : Nat) (stopAt : Option Nat) :
    Outcome × Result S × Option (Result S) × DD S K :=
  let (dd, oc) := buildLoop cfg stopAt (cfg.P.nbVars + 2) (initDD cfg cache store polls)
  let empty : Result S := { outcome := oc, isExact := false, bestValue := none, bestExactValue := none, bestSol := none,
                            bestExactSol := none, cutset := [], cacheUpdates := [], expanded := [], polls := dd.polls }
  match oc with
  | .ok =>
    let b := finalizeLayers dd
    let relaxed := cfg.ctype == .relaxed
    let must := b.ebpMust relaxed
    let may := b.ebpMay relaxed
    let r1 := (finalize cfg b must).1
    (oc, r1, if may != must then some (finalize cfg b may).1 else none, dd)
  | _ => (oc, empty, none, dd)

end Ddo
