import DdoModel.Basic
/-! Model of the default method `Solver::gap` (`ddo/src/abstraction/solver.rs`).
    The `f32` result is modelled by the exact fraction `num / den` (`nan` = IEEE NaN);
    the rounding of `as f32` and of `/` is abstracted (trusted: round-to-nearest, monotone). -/
namespace Ddo

inductive Gap | one | nan | frac (num den : Int)
deriving DecidableEq, Repr

/-- the formula of the pinned commit (before `fix:` D1): `(u − l) / u` with
    `u = max |ub| |lb|`, `l = min |ub| |lb|`, `0/0 = NaN`.  Kept for the negation witnesses. -/
def gapOld (lb ub : Int) : Gap :=
  if ub = iMax ∨ lb = iMin then .one
  else
    let u : Int := max ub.natAbs lb.natAbs
    let l : Int := min ub.natAbs lb.natAbs
    if u = 0 then .nan else .frac (u - l) u

/-- the code as it is now: sentinel ⇒ 1; equal bounds ⇒ 0; otherwise `|ub − lb| / max |ub| |lb|`
    (`abs_diff`, `unsigned_abs`: no overflow). -/
def gap (lb ub : Int) : Gap :=
  if ub = iMax ∨ lb = iMin then .one
  else if ub = lb then .frac 0 1
  else .frac ((ub - lb).natAbs) (max ub.natAbs lb.natAbs)

/-- An `f32` that is not NaN/∞, given exactly as `(-1)^neg · mant · 2^exp`. -/
structure F32 where
  neg : Bool
  mant : Nat
  exp : Int
deriving Repr

inductive FOut | nan | inf (neg : Bool) | fin (f : F32)
deriving Repr

def F32.isZero (f : F32) : Bool := f.mant == 0
/-- `f ≤ 1` -/
def F32.leOne (f : F32) : Bool :=
  f.neg || (if f.exp ≥ 0 then f.mant * 2 ^ f.exp.toNat ≤ 1 else f.mant ≤ 2 ^ (-f.exp).toNat)
def F32.eqOne (f : F32) : Bool :=
  !f.neg && (if f.exp ≥ 0 then f.mant * 2 ^ f.exp.toNat == 1 else f.mant == 2 ^ (-f.exp).toNat)
def F32.nonneg (f : F32) : Bool := !f.neg || f.mant == 0

/-- the property predicate of C17 evaluated on an observed output, for `lb ≤ ub` -/
def phiGap (lb ub : Int) (o : FOut) : Bool :=
  match o with
  | .nan => false
  | .inf _ => false
  | .fin f =>
    f.nonneg
    && (if ub = iMax ∨ lb = iMin then f.eqOne else true)
    && (if ub ≠ iMax ∧ lb ≠ iMin then (f.isZero == decide (lb = ub)) else true)
    && (if (0 ≤ lb ∧ 0 ≤ ub) ∨ (lb ≤ 0 ∧ ub ≤ 0) then f.leOne else true)

/-- `|f − num/den| ≤ 2^-20 · num/den` (three roundings of relative error `2^-24` each) -/
def closeTo (f : F32) (num den : Int) : Bool :=
  if f.neg && f.mant != 0 then false else
  -- compare f.mant * 2^exp * den  with num
  let (a, b) : Int × Int :=
    if f.exp ≥ 0 then ((f.mant : Int) * 2 ^ f.exp.toNat * den, num)
    else ((f.mant : Int) * den, num * 2 ^ (-f.exp).toNat)
  (a - b).natAbs * 2 ^ 20 ≤ b.natAbs

def gapAgrees (g : Gap) (o : FOut) : Bool :=
  match g, o with
  | .nan, .nan => true
  | .one, .fin f => f.eqOne
  | .frac n d, .fin f => closeTo f n d
  | _, _ => false

end Ddo
