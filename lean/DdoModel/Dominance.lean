import DdoModel.Basic
/-! Model of the dominance machinery: the default methods `Dominance::partial_cmp` and
    `Dominance::cmp` (`abstraction/dominance.rs`) and `SimpleDominanceChecker`
    (`implementation/dominance/simple.rs`): one association map `key ↦ Vec<entry>` per depth. -/
namespace Ddo

structure DomRule (S K : Type) where
  key : S → Option K
  dims : S → Nat
  coord : S → Nat → Int
  useValue : Bool

variable {S K : Type}

def icompare (a b : Int) : Ordering := if a < b then .lt else if a = b then .eq else .gt

/-- coordinates `0 .. n-1` of a state (`for i in 0..nb_dimensions(a)`: the same `n` for both sides) -/
def DomRule.coordsN (D : DomRule S K) (n : Nat) (s : S) : List Int := (List.range n).map (D.coord s)

/-- the coordinate loop of `partial_cmp`: `ordering` threaded through, `none` = early `return None` -/
def coordLoop : Ordering → List Int → List Int → Option Ordering
  | o, [], _ => some o
  | o, _ :: _, [] => some o
  | o, a :: as, b :: bs =>
    match o, icompare a b with
    | .lt, .gt => none
    | .gt, .lt => none
    | .eq, .gt => coordLoop .gt as bs
    | .eq, .lt => coordLoop .lt as bs
    | o, _ => coordLoop o as bs

/-- value step of `partial_cmp` -/
def valueStep (useValue : Bool) (o : Ordering) (va vb : Int) : Option (Ordering × Bool) :=
  if useValue then
    match o, icompare va vb with
    | .lt, .gt => none
    | .gt, .lt => none
    | .eq, .gt => some (.gt, true)
    | .eq, .lt => some (.lt, true)
    | o, _ => some (o, false)
  else some (o, false)

/-- `Dominance::partial_cmp(a, val_a, b, val_b)`: ordering and `only_val_diff` -/
def DomRule.partialCmp (D : DomRule S K) (a : S) (va : Int) (b : S) (vb : Int) : Option (Ordering × Bool) :=
  match coordLoop .eq (D.coordsN (D.dims a) a) (D.coordsN (D.dims a) b) with
  | none => none
  | some o => valueStep D.useValue o va vb

def lexLoop : List Int → List Int → Ordering
  | a :: as, b :: bs => match icompare a b with | .lt => .lt | .gt => .gt | .eq => lexLoop as bs
  | _, _ => .eq

/-- `Dominance::cmp`: value first (when used), then the coordinates lexicographically -/
def DomRule.cmp (D : DomRule S K) (a : S) (va : Int) (b : S) (vb : Int) : Ordering :=
  let lex := lexLoop (D.coordsN (D.dims a) a) (D.coordsN (D.dims a) b)
  if D.useValue then
    match icompare va vb with | .lt => .lt | .gt => .gt | .eq => lex
  else lex

abbrev Bucket (S : Type) := List (S × Int)

/-- `Option<isize>::min` with `Some(_)` on both sides -/
def thrMin (a : Option Int) (x : Int) : Option Int :=
  match a with | none => none | some t => some (min t x)

/-- the `retain` closure folded over the vector: `(dominated, threshold, kept)` -/
def DomRule.retain (D : DomRule S K) (s : S) (v : Int) : Bucket S → Bool × Option Int × Bucket S
  | [] => (false, some iMax, [])
  | o :: r =>
    -- evaluate in vector order: the closure runs on `o` first, then on the rest
    let (domR, thrR, keptR) := DomRule.retain D s v r
    match D.partialCmp s v o.1 o.2 with
    | some (.lt, ovd) =>
      let term := if ovd then satSub o.2 1 else o.2
      (true, if D.useValue then thrMin thrR term else thrR, o :: keptR)
    | some (.eq, _) => (domR, thrR, keptR)
    | some (.gt, _) => (domR, thrR, keptR)
    | none => (domR, thrR, o :: keptR)

/-- the `Entry::Occupied` arm for one bucket -/
def DomRule.bucketQuery (D : DomRule S K) (s : S) (v : Int) (b : Bucket S) : Bucket S × Bool × Option Int :=
  let (dominated, thr, kept) := D.retain s v b
  if dominated then (kept, true, thr) else (kept ++ [(s, v)], false, none)

abbrev DLayer (S K : Type) := List (K × Bucket S)
structure DomStore (S K : Type) where
  layers : List (DLayer S K)

def DomStore.init (nbVars : Nat) : DomStore S K := ⟨List.replicate (nbVars + 1) []⟩

variable [DecidableEq K]

def DLayer.find (l : DLayer S K) (k : K) : Option (Bucket S) :=
  match l with
  | [] => none
  | (k', b) :: r => if k' = k then some b else DLayer.find r k

def DLayer.put (l : DLayer S K) (k : K) (b : Bucket S) : DLayer S K :=
  match l with
  | [] => [(k, b)]
  | (k', b') :: r => if k' = k then (k', b) :: r else (k', b') :: DLayer.put r k b

/-- `is_dominated_or_insert(state, depth, value)`; `none` = panic (depth out of range) -/
def DomStore.query (D : DomRule S K) (st : DomStore S K) (s : S) (d : Nat) (v : Int) :
    Option (DomStore S K × Bool × Option Int) :=
  match D.key s with
  | none => some (st, false, none)
  | some k =>
    match st.layers[d]? with
    | none => none
    | some l =>
      match l.find k with
      | none => some (⟨st.layers.set d (l.put k [(s, v)])⟩, false, none)
      | some b =>
        let (b', dom, thr) := D.bucketQuery s v b
        some (⟨st.layers.set d (l.put k b')⟩, dom, thr)

def DomStore.clearLayer (st : DomStore S K) (d : Nat) : Option (DomStore S K) :=
  match st.layers[d]? with
  | none => none
  | some _ => some ⟨st.layers.set d []⟩

end Ddo
