import DdoModel.Basic
/-! Model of `Mdd::as_graphviz` (clean.rs) and `Pooled::as_graphviz` (pooled.rs)  — property C20.

    The input is the `verif_dump()` of the diagram (everything `as_graphviz` reads): the nodes in id
    order with their flags, their best edge and their inbound edges in adjacency-list order, and the
    layers.  The output is produced in two steps:

    * `renderLines : Dump → VizCfg → Option (List Line)` — the *structure* of the DOT text, one `Line`
      per `out.push_str(…)` unit of the Rust code (`none` = the Rust code panics);
    * `Line.toText : Line → String` — the bytes of one such unit;
    * `render d c = (renderLines d c).map linesText` — byte for byte what `as_graphviz` returns.

    The theorems of `DdoModel/Props/C20.lean` are stated on `renderLines`.  No Mathlib. -/
namespace Ddo.Viz

/-- an arc `from -> to` labelled by the decision `x{var} = {val}` with its cost (`Edge` of the Rust code,
    with the `EdgeId` indirection already resolved by the dump) -/
structure DEdge where
  src : Nat
  dst : Nat
  var : Nat
  val : Int
  cost : Int
deriving DecidableEq, Repr, Inhabited

/-- one node of the dump.  The seven flags are the *derived* predicates (`flags.is_exact()` …). -/
structure DNode where
  id : Nat
  depth : Nat
  valueTop : Int
  valueBot : Int
  rub : Int
  theta : Option Int
  isExact : Bool
  isRelaxed : Bool
  isMarked : Bool
  isCutset : Bool
  isDeleted : Bool
  isPruned : Bool
  isAbove : Bool
  /-- `format!("{state:?}")` -/
  state : String
  /-- `node.best.map(|eid| edges[eid])` -/
  best : Option DEdge
  /-- inbound edges in the order `foreach!(edge of id …)` visits them -/
  edges : List DEdge
deriving Repr, Inhabited

/-- `kind = 0`: `Mdd` (clean.rs) — a layer is the id range `from..to`;
    otherwise `Pooled` — `layers : BTreeMap<usize, Layer { nodes }>`; `layerKeys` are the depth keys
    (in increasing order, parallel to `layers`; not read by `as_graphviz`, kept for completeness). -/
structure Dump where
  kind : Nat
  nodes : List DNode
  layers : List (List Nat)
  layerKeys : List Nat := []
deriving Repr, Inhabited

structure VizCfg where
  showValue : Bool
  showLocb : Bool
  showRub : Bool
  showThreshold : Bool
  showDeleted : Bool
  groupMerged : Bool
deriving Repr, Inhabited, DecidableEq

-- ---------------------------------------------------------------------------------------------
-- text of the attributes

/-- `extreme` -/
def extreme (x : Int) : String :=
  if x = iMax then "+inf" else if x = iMin then "-inf" else toString x

/-- `node_shape(merged, restricted)` -/
def nodeShape (merged restricted : Bool) : String :=
  if merged || restricted then "square" else "circle"

/-- `node_peripheries` -/
def nodePeripheries (n : DNode) : Nat := if n.isCutset then 4 else 1

/-- `node_color(node, merged)` -/
def nodeColor (n : DNode) (merged : Bool) : String :=
  if n.isCutset then "red"
  else if n.isExact then "\"#99ccff\""
  else if merged then "yellow"
  else "lightgray"

/-- `node_group`: decision variable of the best edge, or `root` -/
def nodeGroup (n : DNode) : String :=
  match n.best with
  | some e => toString e.var
  | none => "root"

/-- `node_label`; the separators are the two characters backslash, `n` -/
def nodeLabel (n : DNode) (c : VizCfg) : String :=
  n.state
    ++ (if c.showValue then "\\nval: " ++ toString n.valueTop else "")
    ++ (if c.showLocb then "\\nlocb: " ++ extreme n.valueBot else "")
    ++ (if c.showRub then "\\nrub: " ++ extreme n.rub else "")
    ++ (if c.showThreshold then "\\ntheta: " ++ extreme (n.theta.getD iMax) else "")

/-- `node_attributes` -/
def nodeAttributes (n : DNode) (c : VizCfg) : String :=
  let merged := n.isRelaxed
  let restricted := n.isDeleted
  "shape=" ++ nodeShape merged restricted
    ++ ",style=filled,color=" ++ nodeColor n merged
    ++ ",peripheries=" ++ toString (nodePeripheries n)
    ++ ",group=\"" ++ nodeGroup n
    ++ "\",label=\"" ++ nodeLabel n c ++ "\""

-- ---------------------------------------------------------------------------------------------
-- structured output

/-- one `push_str` unit of `as_graphviz` -/
inductive Line
  /-- `digraph {⏎⇥ranksep = 3;⏎⏎` -/
  | header
  /-- `node(id, config)`: a node declaration -/
  | node (id : Nat) (attrs : String)
  /-- `edge(from, to, decision, cost, is_best)` -/
  | edge (e : DEdge) (best : Bool)
  /-- a `subgraph cluster_{key} { … };` block listing `ids` -/
  | cluster (key : Nat) (ids : List Nat)
  /-- the declaration of the node `terminal` -/
  | terminalDecl
  /-- `{id} -> terminal`, bold iff `best` -/
  | terminalEdge (id : Nat) (best : Bool)
  /-- `}⏎` -/
  | footer
deriving DecidableEq, Repr

/-- `edge(from, to, decision, cost, is_best)` -/
def edgeText (e : DEdge) (best : Bool) : String :=
  "\t" ++ toString e.src ++ " -> " ++ toString e.dst
    ++ " [penwidth=" ++ (if best then "3" else "1")
    ++ ",label=\"(x" ++ toString e.var ++ " = " ++ toString e.val ++ ")\\ncost = " ++ toString e.cost ++ "\"];\n"

def terminalDeclText : String :=
  "\tterminal [shape=\"circle\", label=\"\", style=\"filled\", color=\"black\", group=\"terminal\"];\n"

def Line.toText : Line → String
  | .header => "digraph {\n\tranksep = 3;\n\n"
  | .node id attrs => "\t" ++ toString id ++ " [" ++ attrs ++ "];\n"
  | .edge e best => edgeText e best
  | .cluster key ids =>
      "\tsubgraph cluster_" ++ toString key ++ " " ++ "{\n" ++ "\t\tstyle=filled;\n" ++ "\t\tcolor=purple;\n"
        ++ "\t\t" ++ ";".intercalate (ids.map toString) ++ "\n" ++ "\t};\n"
  | .terminalDecl => terminalDeclText
  | .terminalEdge id best =>
      if best then "\t" ++ toString id ++ " -> terminal [penwidth=3];\n"
      else "\t" ++ toString id ++ " -> terminal;\n"
  | .footer => "}\n"

def linesText (ls : List Line) : String := String.join (ls.map Line.toText)

-- ---------------------------------------------------------------------------------------------
-- the node section

/-- `!(!config.show_deleted && node.flags.is_deleted())` -/
def visible (c : VizCfg) (n : DNode) : Bool := c.showDeleted || !n.isDeleted

/-- `Some(edge) == best` (derived `PartialEq`: field by field) -/
def isBest (n : DNode) (e : DEdge) : Bool := decide (n.best = some e)

/-- `node(id, config)` followed by `edges_of(id)` -/
def nodeLines (c : VizCfg) (n : DNode) : List Line :=
  Line.node n.id (nodeAttributes n c) :: n.edges.map (fun e => Line.edge e (isBest n e))

def nodeSection (d : Dump) (c : VizCfg) : List Line :=
  (d.nodes.filter (visible c)).flatMap (nodeLines c)

-- ---------------------------------------------------------------------------------------------
-- clusters

/-- all these ids index existing nodes (otherwise `self.nodes[id]` panics) -/
def idsOk (ns : List DNode) (ids : List Nat) : Bool := ids.all (fun i => decide (i < ns.length))

/-- `node.flags.is_deleted() || node.flags.is_relaxed()` of the node of index `i` -/
def mergedAt (ns : List DNode) (i : Nat) : Bool :=
  match ns[i]? with
  | some n => n.isDeleted || n.isRelaxed
  | none => false

/-- clean.rs: one cluster `cluster_{i}` per layer index `i` whose set of merged nodes is not empty -/
def clusters0 (ns : List DNode) : Nat → List (List Nat) → List Line
  | _, [] => []
  | i, l :: ls =>
    let merged := l.filter (mergedAt ns)
    if merged.isEmpty then clusters0 ns (i + 1) ls
    else Line.cluster i merged :: clusters0 ns (i + 1) ls

/-- `BTreeMap::entry(k).or_insert(vec![]).push(v)` on an association list sorted by key -/
def insertGroup (k v : Nat) : List (Nat × List Nat) → List (Nat × List Nat)
  | [] => [(k, [v])]
  | (k', vs) :: r =>
    if k < k' then (k, [v]) :: (k', vs) :: r
    else if k = k' then (k', vs ++ [v]) :: r
    else (k', vs) :: insertGroup k v r

/-- pooled.rs: merged nodes grouped by `node.depth`, in increasing depth, ids in id order -/
def clusters1 (ns : List DNode) : List Line :=
  ((ns.filter (fun n => n.isDeleted || n.isRelaxed)).foldl
      (fun acc n => insertGroup n.depth n.id acc) []).map (fun g => Line.cluster g.1 g.2)

def clusterSection (d : Dump) (c : VizCfg) : Option (List Line) :=
  if c.showDeleted && c.groupMerged then
    if d.kind = 0 then
      if d.layers.all (idsOk d.nodes) then some (clusters0 d.nodes 0 d.layers) else none
    else some (clusters1 d.nodes)
  else some []

-- ---------------------------------------------------------------------------------------------
-- terminal node

/-- `self.nodes[i].value_top` -/
def valueAt (ns : List DNode) (i : Nat) : Int :=
  match ns[i]? with
  | some n => n.valueTop
  | none => 0

/-- `iter().max().unwrap_or(isize::MAX)` -/
def maxOf : List Int → Int
  | [] => iMax
  | x :: r => r.foldl max x

/-- the lines drawn for a last layer `ids` whose nodes all exist -/
def terminalLines (ns : List DNode) (ids : List Nat) : List Line :=
  if ids.isEmpty then []
  else
    let vmax := maxOf (ids.map (valueAt ns))
    Line.terminalDecl :: ids.map (fun i => Line.terminalEdge i (decide (valueAt ns i = vmax)))

/-- `add_terminal_node`: `layers.last().unwrap()` / `layers.last_key_value().unwrap()` panics when there
    is no layer at all; `self.nodes[..]` panics on an id that is not a node -/
def terminalSection (d : Dump) : Option (List Line) :=
  match d.layers.getLast? with
  | none => none
  | some ids => if idsOk d.nodes ids then some (terminalLines d.nodes ids) else none

-- ---------------------------------------------------------------------------------------------
-- as_graphviz

def renderLines (d : Dump) (c : VizCfg) : Option (List Line) :=
  match clusterSection d c, terminalSection d with
  | some cl, some tm => some (Line.header :: (nodeSection d c ++ cl ++ tm ++ [Line.footer]))
  | _, _ => none

/-- `as_graphviz(config)`; `none` = panic -/
def render (d : Dump) (c : VizCfg) : Option String := (renderLines d c).map linesText

-- ---------------------------------------------------------------------------------------------
-- well-formed dumps

/-- ids are `0..n-1` in order, every inbound edge of a node points to that node and comes from an
    existing node, layers mention existing nodes (what `verif_dump` produces by construction) -/
def wfDump (d : Dump) : Bool :=
  (d.nodes.map (·.id) == List.range d.nodes.length)
    && d.nodes.all (fun n => n.edges.all (fun e => e.dst == n.id && decide (e.src < d.nodes.length)))
    && d.layers.all (idsOk d.nodes)

end Ddo.Viz
