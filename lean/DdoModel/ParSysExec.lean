import DdoModel.ParSys
/-! An *executable*, deterministic reading of the transition system `ParSys.StepG` (`DdoModel/ParSys.lean`),
    driven by the data a recorded run supplies.

    `Action S` names the section (or lock-free compilation) a worker performs — one kind per constructor of
    `StepG` — together with what the tape says the environment answered: the node `fringe.pop()` handed out
    (`gwStarve`, `gwItem`, `gwCrash`), the outcome of a compilation (`compileR`, `compileX`), the bound of the
    node popped inside `abort_search` (`abort`).  `Sys.exec dedup s i a` is the successor state of `s` when
    worker `i` performs `a`, or `none` when a side condition of the corresponding constructor fails: the worker
    is not where the action needs it, the abort flag / `ongoing` / emptiness tests come out differently, the
    bookkeeping (`take`, `notifyFinished`) gives the other answer — and, for the pops, when the node handed out
    is not an element of the model's fringe **with the largest bound** (`popMax?`, `abortTop?`: the decidable
    forms of `PopMax` and `AbortTop`).  So a fringe that pops a non-maximal node is rejected.

    `Sys.execRun` iterates it over a list of `(worker, action)`; `Sys.compsR` / `Sys.compsX` collect the
    compilations `(node, incumbent read, outcome)` the list performs (the proof obligations for the contracts
    `okR` / `okX` of `StepG`).

    Soundness (`Proofs/ParSysExecSound.lean`): `s.exec dedup i a = some t → Step dedup okR okX s t`, and an
    accepted list is a `Run`.  The trace validator `Engines/Par.lean` advances a `Sys Int` by `Sys.exec`
    next to its own state, section by section, for the runs `ParSys` covers (no threshold cache).

    Model level: imports `ParSys` only (no `Proofs/*`), so that the native driver can link it. -/
namespace Ddo

deriving instance DecidableEq for SubP

namespace ParSys
variable {S : Type} [DecidableEq S]

/-- what worker `i` does next, with the answers of the environment; one kind per constructor of `StepG` -/
inductive Action (S : Type)
  /- `get_workload` -/
  | gwAborted                       -- the abort flag is up
  | gwComplete                      -- `ongoing == 0 && fringe.is_empty()`
  | gwWait                          -- empty fringe, the worker parks
  | gwStarve (N : SubP S)           -- `N` popped, below the incumbent: fringe cleared
  | gwItem (N : SubP S)             -- `N` popped and kept
  | gwCrash (N : SubP S)            -- `N` popped and kept, the bookkeeping panics
  /- `process_one_node` -/
  | readLbR
  | compileR (r : DDRes S)          -- the restricted compilation answered `r`
  | updateR
  | readLbX
  | compileX (r : DDRes S)          -- the relaxed compilation answered `r`
  | updateX
  | enqueue
  /- cutoff -/
  | abort (top : Option Int)        -- bound of the node `fringe.pop()` handed out inside `abort_search`, if any
  /- `notify_node_finished` -/
  | notify

def Action.name : Action S → String
  | .gwAborted => "gwAborted" | .gwComplete => "gwComplete" | .gwWait => "gwWait"
  | .gwStarve _ => "gwStarve" | .gwItem _ => "gwItem" | .gwCrash _ => "gwCrash"
  | .readLbR => "readLbR" | .compileR _ => "compileR" | .updateR => "updateR"
  | .readLbX => "readLbX" | .compileX _ => "compileX" | .updateX => "updateX"
  | .enqueue => "enqueue" | .abort _ => "abort" | .notify => "notify"

def WSt.name : WSt S → String
  | .idle => "idle" | .waiting => "waiting" | .done => "done" | .crashed _ => "crashed"
  | .readR _ => "readR" | .compR _ _ => "compR" | .updR _ _ _ => "updR" | .readX _ => "readX"
  | .compX _ _ => "compX" | .updX _ _ _ => "updX" | .enq _ _ _ => "enq" | .abortS _ => "abortS"
  | .fin _ _ => "fin"

/-- decidable `PopMax`: `N` is an element of the fringe and nothing that is left has a larger bound;
    the answer is what is left -/
def popMax? (fr : List (SubP S)) (N : SubP S) : Option (List (SubP S)) :=
  if N ∈ fr then
    (if (fr.erase N).all (fun c => decide (c.ub ≤ N.ub)) then some (fr.erase N) else none)
  else none

/-- decidable `AbortTop` -/
def abortTop? (fr : List (SubP S)) : Option Int → Bool
  | none => fr.isEmpty
  | some u => fr.any (fun t => decide (t.ub = u)) && fr.all (fun c => decide (c.ub ≤ u))

/-- the part common to `gwStarve` / `gwItem` / `gwCrash`: flag down, maximal pop, pop loop on that single pop -/
def Sys.popped (s : Sys S) (N : SubP S) : Option (ParCrit S × Option (Option (SubP S)) × Nat) :=
  if s.crit.base.abort then none
  else
    match popMax? s.crit.base.fringe N with
    | none => none
    | some rest => some (popLoop (setFringe s.crit rest) [(N, true)] 0)

/-- **one step, executably**: worker `i` performs `a` in `s` -/
def Sys.exec (dedup : Bool) (s : Sys S) (i : Nat) (a : Action S) : Option (Sys S) :=
  match a with
  | .gwAborted =>
    match s.ws[i]? with
    | some .idle => if s.crit.base.abort then some { crit := s.crit, ws := s.ws.set i .done } else none
    | _ => none
  | .gwComplete =>
    match s.ws[i]? with
    | some .idle =>
      if !s.crit.base.abort && s.crit.ongoing == 0 && s.crit.base.fringe.isEmpty
      then some { crit := s.crit.complete, ws := s.ws.set i .done } else none
    | _ => none
  | .gwWait =>
    match s.ws[i]? with
    | some .idle =>
      if !s.crit.base.abort && s.crit.ongoing != 0 && s.crit.base.fringe.isEmpty
      then some { crit := s.crit, ws := s.ws.set i .waiting } else none
    | _ => none
  | .gwStarve N =>
    match s.ws[i]? with
    | some .idle =>
      match s.popped N with
      | some (c', some none, _) => some { crit := c', ws := s.ws }
      | _ => none
    | _ => none
  | .gwItem N =>
    match s.ws[i]? with
    | some .idle =>
      match s.popped N with
      | some (c', some (some nn), _) =>
        match c'.take i nn with
        | some c'' => some { crit := c'', ws := s.ws.set i (.readR nn) }
        | none => none
      | _ => none
    | _ => none
  | .gwCrash N =>
    match s.ws[i]? with
    | some .idle =>
      match s.popped N with
      | some (c', some (some nn), _) =>
        match c'.take i nn with
        | some _ => none
        | none => some { crit := c'.takeCrash, ws := s.ws.set i (.crashed nn) }
      | _ => none
    | _ => none
  | .readLbR =>
    match s.ws[i]? with
    | some (.readR n) =>
      some { crit := s.crit, ws := s.ws.set i (if n.ub ≤ s.crit.readLb then .fin n false else .compR n s.crit.readLb) }
    | _ => none
  | .compileR r =>
    match s.ws[i]? with
    | some (.compR n lb) => some { crit := s.crit, ws := s.ws.set i (WSt.afterR n lb r) }
    | _ => none
  | .updateR =>
    match s.ws[i]? with
    | some (.updR n _ o) =>
      some { crit := s.crit.updateBest o, ws := s.ws.set i (if o.isExact then .fin n false else .readX n) }
    | _ => none
  | .readLbX =>
    match s.ws[i]? with
    | some (.readX n) => some { crit := s.crit, ws := s.ws.set i (.compX n s.crit.readLb) }
    | _ => none
  | .compileX r =>
    match s.ws[i]? with
    | some (.compX n lb) => some { crit := s.crit, ws := s.ws.set i (WSt.afterX n lb r) }
    | _ => none
  | .updateX =>
    match s.ws[i]? with
    | some (.updX n lb o) =>
      some { crit := s.crit.updateBest o, ws := s.ws.set i (if o.isExact then .fin n false else .enq n lb o) }
    | _ => none
  | .enqueue =>
    match s.ws[i]? with
    | some (.enq n _ o) => some { crit := s.crit.enqueue dedup o.cutset, ws := s.ws.set i (.fin n false) }
    | _ => none
  | .abort top =>
    match s.ws[i]? with
    | some (.abortS n) =>
      if abortTop? s.crit.base.fringe top
      then some { crit := s.crit.abortSearch n.ub top, ws := s.ws.set i (.fin n true) } else none
    | _ => none
  | .notify =>
    match s.ws[i]? with
    | some (.fin n te) =>
      match s.crit.notifyFinished i n.depth with
      | some c' => some { crit := c', ws := (s.ws.map WSt.wake).set i (if te then .done else .idle) }
      | none => none
    | _ => none

/-- a schedule: which worker performs which action, in order -/
abbrev Sched (S : Type) := List (Nat × Action S)

/-- iterated `exec`; `none` as soon as one action is refused -/
def Sys.execRun (dedup : Bool) : Sys S → Sched S → Option (Sys S)
  | s, [] => some s
  | s, (i, a) :: r =>
    match s.exec dedup i a with
    | some t => Sys.execRun dedup t r
    | none => none

/-- the restricted compilation (node, incumbent read, diagram) this action performs in `s`, if it is one -/
def Sys.compR (s : Sys S) (i : Nat) : Action S → List (SubP S × Int × DDOut S)
  | .compileR (.ok o) =>
    match s.ws[i]? with
    | some (.compR n lb) => [(n, lb, o)]
    | _ => []
  | _ => []

/-- the relaxed compilation this action performs in `s`, if it is one -/
def Sys.compX (s : Sys S) (i : Nat) : Action S → List (SubP S × Int × DDOut S)
  | .compileX (.ok o) =>
    match s.ws[i]? with
    | some (.compX n lb) => [(n, lb, o)]
    | _ => []
  | _ => []

/-- every restricted compilation that succeeds along the schedule: the node, the (stale) incumbent the worker
    had read, and the diagram the schedule says came out -/
def Sys.compsR (dedup : Bool) : Sys S → Sched S → List (SubP S × Int × DDOut S)
  | _, [] => []
  | s, (i, a) :: r =>
    s.compR i a ++ (match s.exec dedup i a with
      | some t => Sys.compsR dedup t r
      | none => [])

/-- every relaxed compilation that succeeds along the schedule -/
def Sys.compsX (dedup : Bool) : Sys S → Sched S → List (SubP S × Int × DDOut S)
  | _, [] => []
  | s, (i, a) :: r =>
    s.compX i a ++ (match s.exec dedup i a with
      | some t => Sys.compsX dedup t r
      | none => [])

/-- equality of two shared records on every field `ParSys` evolves (all but `first_active_layer`, which only
    the cache-cleaning loop of the validator moves) -/
def critAgree (a b : ParCrit S) : Bool :=
  a.base.fringe == b.base.fringe && a.base.bestLb == b.base.bestLb && a.base.bestUb == b.base.bestUb &&
  a.base.bestSol == b.base.bestSol && a.base.openByLayer == b.base.openByLayer &&
  a.base.explored == b.base.explored && a.base.abort == b.base.abort && a.base.crashed == b.base.crashed &&
  a.ongoing == b.ongoing && a.ongoingByLayer == b.ongoingByLayer && a.upperBounds == b.upperBounds

end ParSys
end Ddo
