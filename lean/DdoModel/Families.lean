import DdoModel.Dp
import DdoModel.Dominance
/-! Executable model families used by the correspondence harness (DESIGN.md §5.4).  The same
    instance text is parsed by the Rust `impl Problem / Relaxation / StateRanking / Dominance` of the
    harness and by the definitions below.

* `TableDP`: `n` layers, `B ≤ 6` base states, decisions `0..D-1`, a table
  `t[k][b][d] : Option (b', cost)` (negative costs, dead ends, ties); a state is a bit-mask of base
  states (+ `64·depth` when the depth is embedded); transition / cost / domain lift to sets by
  union / max / union; `merge = ∪`; `relax = cost (+ slack·|merged \ dst|)`; rough bound none /
  exact / exact + slack; ranking total (mask) or coarse (popcount); `impacted[k][b] = false` rows
  carry one neutral decision (long arcs).
* `Knapsack`: the README model with the (capacity, value) dominance rule. -/
namespace Ddo

structure TableDP where
  n : Nat
  B : Nat
  D : Nat
  embedDepth : Bool
  relaxMode : Nat      -- 0 identity, 1 cost + slack·|merged \ dst|
  rubMode : Nat        -- 0 none (isize::MAX), 1 exact, 2 exact + slack
  rankMode : Nat       -- 0 total (mask order), 1 coarse (popcount)
  domMode : Nat        -- 0 none, 1 "same state, smaller value"
  slack : Int
  initVal : Int
  tab : List (Option (Nat × Int))   -- index (k·B + b)·D + d
  imp : List Bool                   -- index k·B + b

namespace TableDP
variable (T : TableDP)

def entry (k b d : Nat) : Option (Nat × Int) := (T.tab[(k * T.B + b) * T.D + d]?).getD none
def impactedB (k b : Nat) : Bool := (T.imp[k * T.B + b]?).getD true

def maskOf (code : Int) : Nat := code.toNat % 64
def depthOf (code : Int) : Nat := code.toNat / 64
def members (code : Int) : List Nat := (List.range T.B).filter (fun b => (maskOf code >>> b) % 2 = 1)
def popcount (m : Nat) : Nat := ((List.range 6).filter (fun b => (m >>> b) % 2 = 1)).length
def mkCode (mask depth : Nat) : Int := if T.embedDepth then (mask + 64 * depth : Nat) else (mask : Nat)

/-- exact value-to-go of base state `b` at layer `k` (`none` = dead end) -/
def hstar : Nat → Nat → Nat → EInt
  | 0, _, _ => some 0
  | fuel + 1, k, b =>
    if k ≥ T.n then some 0 else
    (List.range T.D).foldl (fun acc d =>
      match T.entry k b d with
      | none => acc
      | some (b', c) => EInt.max acc ((hstar fuel (k + 1) b').addI c)) none

def hBase (k b : Nat) : EInt := T.hstar (T.n + 1 - k) k b

/-- potential of a set state: the best member -/
def hSet (k : Nat) (code : Int) : EInt :=
  (T.members code).foldl (fun acc b => EInt.max acc (T.hBase k b)) none

def low : Int := -1000000

def trans (code : Int) (d : Dec) : Int :=
  let k := d.var
  let m := (T.members code).foldl (fun acc b =>
    match T.entry k b d.val.toNat with
    | none => acc
    | some (b', _) => acc ||| (1 <<< b')) 0
  T.mkCode m (depthOf code + 1)

def cost (src : Int) (_dst : Int) (d : Dec) : Int :=
  let k := d.var
  ((T.members src).foldl (fun (acc : Option Int) b =>
    match T.entry k b d.val.toNat with
    | none => acc
    | some (_, c) => match acc with | none => some c | some a => some (max a c)) none).getD 0

def domain (k : Nat) (code : Int) : List Int :=
  ((List.range T.D).filter (fun d => (T.members code).any (fun b => (T.entry k b d).isSome))).map (fun (d : Nat) => Int.ofNat d)

def problem : Problem Int :=
  { nbVars := T.n, init := T.mkCode 1 0, initVal := T.initVal,
    trans := T.trans, cost := T.cost,
    nextVar := fun depth _ => if depth < T.n then some depth else none,
    domain := T.domain,
    impacted := fun k code => (T.members code).any (fun b => T.impactedB k b) }

def rubOf (code : Int) : Int :=
  match T.rubMode with
  | 0 => iMax
  | m =>
    let ks := if T.embedDepth then [depthOf code] else List.range (T.n + 1)
    let best := ks.foldl (fun acc k => EInt.max acc (T.hSet k code)) none
    match best with
    | none => low
    | some h => if m = 1 then h else h + T.slack

def relaxation : Relax Int :=
  { merge := fun states =>
      let m := states.foldl (fun acc c => acc ||| maskOf c) 0
      let d := match states.head? with | some c => depthOf c | none => 0
      T.mkCode m d,
    relax := fun _src dst merged _d c =>
      if T.relaxMode = 0 then c else c + T.slack * (popcount (maskOf merged &&& (63 ^^^ maskOf dst)) : Nat),
    rub := T.rubOf }

def ranking : Ranking Int :=
  { cmp := fun a b => if T.rankMode = 0 then icmp a b else icmp (popcount (maskOf a) : Nat) (popcount (maskOf b) : Nat) }

def domRule : Option (DomRule Int Int) :=
  if T.domMode = 0 then none
  else some { key := fun s => some s, dims := fun _ => 0, coord := fun _ _ => 0, useValue := true }

end TableDP

structure Knapsack where
  n : Nat
  cap : Nat
  profit : List Int
  weight : List Nat
  rubMode : Nat        -- 0 none, 1 sum of the remaining profits
  domMode : Nat        -- 0 none, 1 (capacity, value)
  /-- depth-free variant with long arcs (token `L`): the state is the capacity alone, a variable whose item does not fit
      does not impact the state (`is_impacted_by`), the rough bound and the dominance key do not use the depth -/
  free : Bool := false

namespace Knapsack
variable (Kp : Knapsack)
def depthOf (code : Int) : Nat := code.toNat / 1000
def capOf (code : Int) : Nat := code.toNat % 1000
def code (depth cap : Nat) : Int := ((depth * 1000 + cap : Nat) : Int)
def w (k : Nat) : Nat := (Kp.weight[k]?).getD 0
def p (k : Nat) : Int := (Kp.profit[k]?).getD 0

def problem : Problem Int :=
  { nbVars := Kp.n, init := code 0 Kp.cap, initVal := 0,
    trans := fun s d => code (if Kp.free then 0 else depthOf s + 1) (if d.val = 1 then capOf s - Kp.w d.var else capOf s),
    cost := fun _ _ d => Kp.p d.var * d.val,
    nextVar := fun depth _ => if depth < Kp.n then some depth else none,
    domain := fun k s => if capOf s ≥ Kp.w k then [1, 0] else [0],
    impacted := fun k s => if Kp.free then decide (capOf s ≥ Kp.w k) else true }

def relaxation : Relax Int :=
  { merge := fun states =>
      match states with
      | [] => 0
      | s :: r => r.foldl (fun best c => if capOf c > capOf best then c else best) s,
    relax := fun _ _ _ _ c => c,
    rub := fun s => if Kp.rubMode = 0 then iMax else
      if Kp.free then ((List.range Kp.n).filter (fun k => Kp.w k ≤ capOf s)).foldl (fun acc k => acc + max 0 (Kp.p k)) 0 else
      ((List.range Kp.n).filter (fun k => k ≥ depthOf s)).foldl (fun acc k => acc + max 0 (Kp.p k)) 0 }

def ranking (_ : Knapsack) : Ranking Int := { cmp := fun a b => icmp (capOf a : Nat) (capOf b : Nat) }

def domRule : Option (DomRule Int Int) :=
  if Kp.domMode = 0 then none
  else some { key := fun s => some (if Kp.free then 0 else (depthOf s : Nat)), dims := fun _ => 1, coord := fun s _ => (capOf s : Nat), useValue := true }

/-- exact value-to-go -/
def hstar : Nat → Nat → Nat → Int
  | 0, _, _ => 0
  | fuel + 1, k, c =>
    if k ≥ Kp.n then 0 else
    let skip := hstar fuel (k + 1) c
    if c ≥ Kp.w k then max skip (Kp.p k + hstar fuel (k + 1) (c - Kp.w k)) else skip
def hOf (depth : Nat) (code : Int) : EInt := some (Kp.hstar (Kp.n + 1) (if Kp.free then depth else depthOf code) (capOf code))
end Knapsack

/-- a family instance -/
inductive Fam
  | table (t : TableDP)
  | knap (k : Knapsack)

def Fam.problem : Fam → Problem Int | .table t => t.problem | .knap k => k.problem
def Fam.relaxation : Fam → Relax Int | .table t => t.relaxation | .knap k => k.relaxation
def Fam.ranking : Fam → Ranking Int | .table t => t.ranking | .knap k => k.ranking
def Fam.domRule : Fam → Option (DomRule Int Int) | .table t => t.domRule | .knap k => k.domRule
/-- the potential `H depth state` used by the property predicates -/
def Fam.H : Fam → Nat → Int → EInt
  | .table t => fun k s => t.hSet k s
  | .knap k => fun d s => k.hOf d s

end Ddo
