import DdoModel.Dp
import DdoModel.Width
/-! Model of `SequentialSolver` (`implementation/solver/sequential.rs`): `initialize`,
    `get_workload`, `process_one_node`, `maybe_update_best`, `enqueue_cutset`, `abort_search`,
    `maximize`, `set_primal`.

The diagram is a *parameter*: what a compilation answers (`DDRes`) is supplied from outside —
by the Lean diagram models, by a recorded tape of the real diagram (trace validation), or
universally quantified under the contracts of DESIGN.md §5.3 (theorems).  The fringe is the
*specification* multiset (`pushSpec`): which maximal element a `pop` returns is an input too. -/
namespace Ddo
variable {S : Type} [DecidableEq S]

/-- what the solver reads from a diagram after a successful compilation -/
structure DDOut (S : Type) where
  isExact : Bool                     -- `Completion.is_exact`
  bestExact : Option Int             -- `best_exact_value()`
  bestExactSol : Option (List Dec)   -- `best_exact_solution()`
  cutset : List (SubP S)             -- what `drain_cutset` hands out

inductive DDRes (S : Type)
  | ok (o : DDOut S)
  | cutoff

structure SeqSt (S : Type) where
  fringe : List (SubP S) := []
  bestLb : Int := iMin
  bestUb : Int := iMax
  bestSol : Option (List Dec) := none
  openByLayer : List Nat
  firstActive : Nat := 0
  explored : Nat := 0
  abort : Bool := false
  crashed : Bool := false            -- a checked `usize` operation or an index failed (panic)

/-- fringe push of the specification: `dedup = true` coalesces equal `(state, depth)` (NoDupFringe),
    `false` is a plain multiset (SimpleFringe) -/
def pushSpec (dedup : Bool) (q : List (SubP S)) (x : SubP S) : List (SubP S) :=
  if dedup then
    let rec go : List (SubP S) → List (SubP S)
      | [] => [x]
      | y :: r =>
        if y.state = x.state ∧ y.depth = x.depth then
          (if x.value > y.value then { x with ub := max x.ub y.ub } else { y with ub := max x.ub y.ub }) :: r
        else y :: go r
    go q
  else x :: q

def bumpLayer (l : List Nat) (d : Nat) (k : Nat) : Option (List Nat) :=
  match l[d]? with
  | none => none
  | some c => some (l.set d (c + k))

def decLayer (l : List Nat) (d : Nat) : Option (List Nat) :=
  match l[d]? with
  | none => none
  | some c => if c = 0 then none else some (l.set d (c - 1))

/-- `new` / `custom` + `set_primal` (optional) + `initialize` -/
def SeqSt.init (P : Problem S) (primal : Option (Int × List Dec)) (dedup : Bool) : SeqSt S :=
  let st : SeqSt S := { openByLayer := List.replicate (P.nbVars + 1) 0 }
  let st := match primal with
    | some (v, sol) => if v > st.bestLb then { st with bestLb := v, bestSol := some sol } else st
    | none => st
  let root : SubP S := { state := P.init, value := P.initVal, path := [], ub := iMax, depth := 0 }
  { st with fringe := pushSpec dedup st.fringe root,
            openByLayer := (bumpLayer st.openByLayer 0 1).getD st.openByLayer }

/-- `set_primal`: the incumbent is replaced only when the new value is strictly greater -/
def SeqSt.setPrimal (st : SeqSt S) (v : Int) (sol : List Dec) : SeqSt S :=
  if v > st.bestLb then { st with bestLb := v, bestSol := some sol } else st

/-- the cache-cleaning loop at the top of `get_workload`: returns the new `first_active_layer`
    (the layers `firstActive .. result-1` are cleared) -/
def cleanLoop (nbVars : Nat) (openByLayer : List Nat) : Nat → Nat → Nat
  | 0, fa => fa
  | fuel + 1, fa =>
    if fa < nbVars ∧ openByLayer[fa]? = some 0 then cleanLoop nbVars openByLayer fuel (fa + 1) else fa

/-- `maybe_update_best` -/
def SeqSt.updateBest (st : SeqSt S) (o : DDOut S) : SeqSt S :=
  match o.bestExact with
  | some w => if w > st.bestLb then { st with bestLb := w, bestSol := o.bestExactSol } else st
  | none => st

/-- `enqueue_cutset()`: keep what still beats the incumbent.  A cut-set node is pushed with the bound its own diagram gave
    it (repair of finding D14: the bound is **not** capped by the bound of the sub-problem just processed). -/
def SeqSt.enqueue (dedup : Bool) (st : SeqSt S) (cs : List (SubP S)) : SeqSt S :=
  cs.foldl (fun st c =>
    if c.ub > st.bestLb then
      let fr := pushSpec dedup st.fringe c
      let delta := fr.length - st.fringe.length
      match bumpLayer st.openByLayer c.depth delta with
      | some l => { st with fringe := fr, openByLayer := l }
      | none => { st with fringe := fr, crashed := true }
    else st) st

/-- **pre-fix** `enqueue_cutset(ub)` (before the repair of D14): cap by the parent's bound
    (`cutset_node.ub = ub.min(cutset_node.ub)`), keep what still beats the incumbent.  Kept as a named definition for the
    D14 witnesses (`Ddo.C09.anyOrderOpt_false`, `Ddo.C09.Layered.Counter.*`). -/
def SeqSt.enqueueCapped (dedup : Bool) (st : SeqSt S) (nodeUb : Int) (cs : List (SubP S)) : SeqSt S :=
  cs.foldl (fun st c =>
    let c' := { c with ub := min nodeUb c.ub }
    if c'.ub > st.bestLb then
      let fr := pushSpec dedup st.fringe c'
      let delta := fr.length - st.fringe.length
      match bumpLayer st.openByLayer c'.depth delta with
      | some l => { st with fringe := fr, openByLayer := l }
      | none => { st with fringe := fr, crashed := true }
    else st) st

/-- `abort_search` -/
def SeqSt.abortSearch (st : SeqSt S) : SeqSt S := { st with abort := true, fringe := [] }

/-- `process_one_node(node)`; `mustExplore` is the cache's answer, `r` / `x` the answers of the
    restricted / relaxed compilations (consulted only if the code reaches them).
    Returns the new state and how many compilations were started. -/
def SeqSt.process (dedup : Bool) (st : SeqSt S) (node : SubP S) (mustExplore : Bool) (r x : DDRes S) : SeqSt S × Nat :=
  if node.ub ≤ st.bestLb then (st, 0)
  else if !mustExplore then (st, 0)
  else
    match r with
    | .cutoff => (st.abortSearch, 1)
    | .ok r =>
      let st := st.updateBest r
      if r.isExact then (st, 1)
      else
        match x with
        | .cutoff => (st.abortSearch, 2)
        | .ok x =>
          let st := st.updateBest x
          if x.isExact then (st, 2) else (st.enqueue dedup x.cutset, 2)

/-- **pre-fix** `process_one_node(node)`: `SeqSt.process` with the capped `enqueue_cutset(node.ub)`.  (The pre-fix variants
    share `SeqSt.afterPop` with the repaired solver: the pre-fix code wrote `best_ub = nn.ub` at a pop, a field the solver never
    reads; for best-first pops of the capped solver the popped bounds are non-increasing, so both formulas report the same
    bound — `Ddo.C09.Layered.Rise.bestub_capped`.) -/
def SeqSt.processCapped (dedup : Bool) (st : SeqSt S) (node : SubP S) (mustExplore : Bool) (r x : DDRes S) : SeqSt S × Nat :=
  if node.ub ≤ st.bestLb then (st, 0)
  else if !mustExplore then (st, 0)
  else
    match r with
    | .cutoff => (st.abortSearch, 1)
    | .ok r =>
      let st := st.updateBest r
      if r.isExact then (st, 1)
      else
        match x with
        | .cutoff => (st.abortSearch, 2)
        | .ok x =>
          let st := st.updateBest x
          if x.isExact then (st, 2) else (st.enqueueCapped dedup node.ub x.cutset, 2)

/-- the part of `get_workload` after a successful pop of `nn` (already removed from `fringe`): the reported upper bound is
    the **running minimum** of the popped bounds (`self.best_ub = self.best_ub.min(nn.ub)`; without the cap of
    `enqueue_cutset` the popped bounds themselves may rise, `Ddo.C09.Layered.Rise`) -/
def SeqSt.afterPop (st : SeqSt S) (nn : SubP S) : SeqSt S :=
  match decLayer st.openByLayer nn.depth with
  | some l => { st with explored := st.explored + 1, openByLayer := l, bestUb := min st.bestUb nn.ub }
  | none => { st with explored := st.explored + 1, bestUb := min st.bestUb nn.ub, crashed := true }

/-- `get_workload` found the fringe empty -/
def SeqSt.complete (st : SeqSt S) : SeqSt S := { st with bestUb := st.bestLb }

/-- the `Completion` returned by `maximize` -/
def SeqSt.completion (st : SeqSt S) : Bool × Option Int := (!st.abort, st.bestSol.map (fun _ => st.bestLb))

end Ddo
