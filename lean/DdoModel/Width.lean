import DdoModel.Basic
/-! Models of the width heuristics (`implementation/heuristics/width.rs`).
    `usize` is `Nat`; a result `none` = the Rust code panics (checked arithmetic of the debug/
    overflow-checks profile the suite and the harness run in). -/
namespace Ddo

def uMax : Nat := 18446744073709551615

def fixedWidth (w : Nat) : Option Nat := some w
/-- `NbUnassignedWidth(n)`: `n - path.len()` (checked subtraction) -/
def nbUnassigned (n pathLen : Nat) : Option Nat := if pathLen ≤ n then some (n - pathLen) else none
/-- `Times(k, inner)`: `1.max(k * inner)` (checked multiplication) -/
def times (k : Nat) (inner : Option Nat) : Option Nat :=
  match inner with
  | none => none
  | some w => if k * w ≤ uMax then some (max 1 (k * w)) else none
/-- `DivBy(k, inner)`: `1.max(inner / k)` (division by zero panics) -/
def divBy (k : Nat) (inner : Option Nat) : Option Nat :=
  match inner with
  | none => none
  | some w => if k = 0 then none else some (max 1 (w / k))

/-- a small expression language for nested combinators, as the harness builds them -/
inductive WExpr
  | fixed (w : Nat)
  | nbUnassigned (n : Nat)
  | times (k : Nat) (e : WExpr)
  | divBy (k : Nat) (e : WExpr)
deriving Repr

def WExpr.eval (pathLen : Nat) : WExpr → Option Nat
  | .fixed w => fixedWidth w
  | .nbUnassigned n => Ddo.nbUnassigned n pathLen
  | .times k e => Ddo.times k (e.eval pathLen)
  | .divBy k e => Ddo.divBy k (e.eval pathLen)

/-- is the outermost constructor a combinator (`Times`/`DivBy`)? -/
def WExpr.isCombinator : WExpr → Bool
  | .times _ _ => true | .divBy _ _ => true | _ => false

end Ddo
