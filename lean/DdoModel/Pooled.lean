import DdoModel.Mdd
/-! Functional model of `Pooled<T>` (`implementation/mdd/pooled.rs`).

Differences with `Mdd` (see DESIGN.md §6.0): nodes wait in a *pool* keyed by state; at depth `k`
only the pool nodes impacted by the selected variable form the layer (their `depth := k`), the
others stay in the pool (long arcs); a layer is materialised only if non-empty; the relaxation
guard counts *materialised* layers (`≥ 2`); `is_exact` is cleared inside restrict / relax (no
`lel`); the cut-set is always the frontier, recorded only if the diagram is not exact; local
bounds iff the cut-set is non-empty; the terminal nodes are the pool at exit.
**Repair of D5** (`_drain_cutset`): the diagram records the arcs that leave its root when the root is expanded
(`PD.rootKids`, `root_edges` in the Rust code); when the frontier contains the root, the children of the root are handed
out instead of the root (`finalizeP`).  `finalizePOld` / `compilePOld` are the functions before the repair (kept for the
D5 witnesses).
Shared with `Mdd`: `Node`, `Arc`, `appendEdge`, `branchOn`, `expandOne`, the filters, the sorts,
`restrictLayer`, `relaxLayer`, and the bottom-up passes (arcs name their parent by the index of
its layer in the list of materialised layers). -/
namespace Ddo
variable {S K : Type} [DecidableEq S] [DecidableEq K]

structure PD (S K : Type) where
  layers : List (Nat × List (Node S)) := []       -- (depth, nodes) of the materialised layers, in order
  pool : List (Node S) := []
  depth : Nat
  isExactField : Bool := true
  cache : Cache S
  store : DomStore S K
  log : List (Call S) := []
  polls : Nat := 0
  ndom : Nat := 0
  /-- `root_edges`: the arcs that left the root when it was expanded, as `(state of the child, decision, cost)` -/
  rootKids : List (S × Dec × Int) := []

def PD.plain (pd : PD S K) : List (List (Node S)) := pd.layers.map (·.2)

/-- `_move_to_next_layer`: the layer of impacted pool nodes, filtered and squashed;
    `(layer, positions to expand, store, ndom, isExactField, log)`; `none` = the Rust code panics -/
def prepLayerP (cfg : Cfg S K) (pd : PD S K) (var : Nat) :
    Option (List (Node S) × List Nat × DomStore S K × Nat × Bool × List (Call S)) :=
  let log := pd.pool.foldl (fun lg n => Call.impacted var n.state :: lg) pd.log
  let curNodes := (pd.pool.filter (fun n => cfg.P.impacted var n.state)).map (fun n => { n with depth := pd.depth })
  let layer := curNodes
  let cur := List.range layer.length
  let (layer, cur) := if pd.layers.isEmpty then (layer, cur) else filterCache cfg pd.cache layer cur
  let before := cur.length
  let (layer, cur, store, okDom) := filterDom cfg pd.store layer cur
  let ndom := pd.ndom + (before - cur.length)
  if !okDom then none else
  let needRestrict := cfg.ctype == .restricted && cur.length > cfg.width
  let needRelax := cfg.ctype == .relaxed && cur.length > cfg.width && pd.layers.length ≥ 2
  if needRelax && cfg.width == 0 then none else
  let isExactField := pd.isExactField && !(needRestrict || needRelax)
  let (layer, cur, log) :=
    if needRestrict then let (l, c) := restrictLayer cfg layer cur; (l, c, log)
    else if needRelax then relaxLayer cfg pd.plain layer cur log
    else (layer, cur, log)
  some (layer, cur, store, ndom, isExactField, log)

/-- the inbound arcs of the nodes of a pool, as `(state of the node, decision, cost)` -/
def kidsOf (pool : List (Node S)) : List (S × Dec × Int) :=
  pool.flatMap (fun c => c.inb.map (fun a => (c.state, a.dec, a.cost)))

/-- `_move_to_next_layer` + expansion: the children go into the pool, next to the nodes that were skipped.
    `rootKids` (`root_edges` in the Rust code): as long as no layer has been materialised the pool is `[root]`, so right after
    the first materialised layer every arc of the pool leaves the root; later arcs from the root are redirected ones. -/
def stepLayerP (cfg : Cfg S K) (pd : PD S K) (var : Nat) : Option (PD S K) :=
  match prepLayerP cfg pd var with
  | none => none
  | some (layer, cur, store, ndom, isExactField, log) =>
    let rest := pd.pool.filter (fun n => !cfg.P.impacted var n.state)
    let lidx := pd.layers.length
    let r := cur.foldl (expandOne cfg var lidx) (layer, rest, log)
    let layers := if r.1.isEmpty then pd.layers else pd.layers ++ [(pd.depth, r.1)]
    some { pd with layers := layers, pool := r.2.1, depth := pd.depth + 1, isExactField := isExactField, store := store, log := r.2.2, ndom := ndom,
                   rootKids := if pd.layers.isEmpty then kidsOf r.2.1 else pd.rootKids }

def buildLoopP (cfg : Cfg S K) (stopAt : Option Nat) : Nat → PD S K → PD S K × Outcome
  | 0, pd => (pd, .crash)
  | fuel + 1, pd =>
    let states := pd.pool.map (·.state)
    let ans := cfg.P.nextVar pd.depth states
    let pd := { pd with log := Call.nextVar pd.depth states ans :: pd.log }
    match ans with
    | none => (pd, .ok)
    | some var =>
      let pd := { pd with polls := pd.polls + 1 }
      if (match stopAt with | some k => decide (pd.polls ≥ k) | none => false) then (pd, .cutoff)
      else if pd.pool.isEmpty then (pd, .ok)
      else match stepLayerP cfg pd var with
        | none => (pd, .crash)
        | some pd' => buildLoopP cfg stopAt fuel pd'

def initPD (cfg : Cfg S K) (cache : Cache S) (store : DomStore S K) (polls : Nat) : PD S K :=
  { pool := [{ state := cfg.root.state, value := cfg.root.value, depth := cfg.root.depth }],
    depth := cfg.root.depth, cache := cache, store := store, polls := polls }

/-- `_finalize` + `_drain_cutset` **before the repair of D5** (the root may be handed out by its own cut-set) -/
def finalizePOld (cfg : Cfg S K) (pd : PD S K) (hasEBP : Bool) : Result S :=
  let relaxed := cfg.ctype == .relaxed
  -- `_finalize_layers`: the pool becomes the last layer (possibly empty), depth := current depth
  let terms := pd.pool.map (fun n => { n with depth := pd.depth })
  let layers0 := pd.plain ++ [terms]
  let termL := layers0.length - 1
  let bestValue := maxValue terms
  let bestExactValue := if hasEBP then bestValue else maxValue (terms.filter (·.isExact))
  let doCut := relaxed || pd.isExactField
  let (layers1, cs0) := if doCut then computeCutset .frontier 0 layers0 else (layers0, [])
  let cs := if pd.isExactField then [] else cs0
  let layers2 := if !cs.isEmpty && relaxed then computeLocalBounds layers1 else layers1
  let (layers3, ups) := if doCut then computeThresholds .frontier pd.isExactField cfg.lb bestExactValue (some termL) layers2 else (layers2, [])
  let fuel := layers3.length + 1
  let pathOf := fun (n : Node S) => cfg.root.path ++ bestPath layers3 fuel n
  let bestNode := match bestValue with
    | none => none
    | some v => (layers3[termL]?.getD []).find? (fun (n : Node S) => decide (n.value = v))
  let bestExactNode := if hasEBP then bestNode else
    match bestExactValue with
    | none => none
    | some v => (layers3[termL]?.getD []).find? (fun (n : Node S) => n.isExact && decide (n.value = v))
  let cutset := match bestValue with
    | none => []
    | some bv => cs.filterMap (fun (l, p) =>
        match getNode layers3 l p with
        | some n => if n.marked then
            some { state := n.state, value := n.value, path := pathOf n,
                   ub := min (min (satAdd n.value n.rub) (satAdd n.value n.vbot)) bv, depth := n.depth }
          else none
        | none => none)
  let expanded := (pd.log.reverse.foldl (fun acc c => match c with
    | .nextVar _ _ _ => 0 :: acc
    | .domain _ _ => (match acc with | x :: r => (x + 1) :: r | [] => [1])
    | _ => acc) ([] : List Nat)).reverse
  { outcome := .ok, isExact := pd.isExactField || hasEBP, bestValue := bestValue, bestExactValue := bestExactValue,
    bestSol := bestNode.map pathOf, bestExactSol := bestExactNode.map pathOf,
    cutset := cutset, cacheUpdates := ups, expanded := expanded, polls := pd.polls }

/-- `_finalize` + `_drain_cutset`.  **Repair of D5**: the root of the diagram (the only node of the layer of index `0`) never stands in its own
    cut-set; when the frontier contains it (long arcs: a child of the root that lingered in the pool was merged, recycled as
    the merged node, or reached from a relaxed node), its children — the arcs recorded in `rootKids`, with the exact state,
    value `root.value ⊕ cost`, path `root path ++ [decision]`, depth `root depth + 1` and the bound of the root — are handed
    out instead. -/
def finalizeP (cfg : Cfg S K) (pd : PD S K) (hasEBP : Bool) : Result S :=
  let relaxed := cfg.ctype == .relaxed
  -- `_finalize_layers`: the pool becomes the last layer (possibly empty), depth := current depth
  let terms := pd.pool.map (fun n => { n with depth := pd.depth })
  let layers0 := pd.plain ++ [terms]
  let termL := layers0.length - 1
  let bestValue := maxValue terms
  let bestExactValue := if hasEBP then bestValue else maxValue (terms.filter (·.isExact))
  let doCut := relaxed || pd.isExactField
  let (layers1, cs0) := if doCut then computeCutset .frontier 0 layers0 else (layers0, [])
  let cs := if pd.isExactField then [] else cs0
  let layers2 := if !cs.isEmpty && relaxed then computeLocalBounds layers1 else layers1
  let (layers3, ups) := if doCut then computeThresholds .frontier pd.isExactField cfg.lb bestExactValue (some termL) layers2 else (layers2, [])
  let fuel := layers3.length + 1
  let pathOf := fun (n : Node S) => cfg.root.path ++ bestPath layers3 fuel n
  let bestNode := match bestValue with
    | none => none
    | some v => (layers3[termL]?.getD []).find? (fun (n : Node S) => decide (n.value = v))
  let bestExactNode := if hasEBP then bestNode else
    match bestExactValue with
    | none => none
    | some v => (layers3[termL]?.getD []).find? (fun (n : Node S) => n.isExact && decide (n.value = v))
  let cutset := match bestValue with
    | none => []
    | some bv => cs.flatMap (fun (l, p) =>
        match getNode layers3 l p with
        | some n => if n.marked then
            (if l = 0 then
              pd.rootKids.map (fun (s, d, c) =>
                ({ state := s, value := satAdd n.value c, path := cfg.root.path ++ [d],
                   ub := min (min (satAdd n.value n.rub) (satAdd n.value n.vbot)) bv, depth := n.depth + 1 } : SubP S))
            else
              [{ state := n.state, value := n.value, path := pathOf n,
                 ub := min (min (satAdd n.value n.rub) (satAdd n.value n.vbot)) bv, depth := n.depth }])
          else []
        | none => [])
  let expanded := (pd.log.reverse.foldl (fun acc c => match c with
    | .nextVar _ _ _ => 0 :: acc
    | .domain _ _ => (match acc with | x :: r => (x + 1) :: r | [] => [1])
    | _ => acc) ([] : List Nat)).reverse
  { outcome := .ok, isExact := pd.isExactField || hasEBP, bestValue := bestValue, bestExactValue := bestExactValue,
    bestSol := bestNode.map pathOf, bestExactSol := bestExactNode.map pathOf,
    cutset := cutset, cacheUpdates := ups, expanded := expanded, polls := pd.polls }

/-- `Pooled::compile` + the queries, **before the repair of D5** -/
def compilePOld (cfg : Cfg S K) (cache : Cache S) (store : DomStore S K) (polls : Nat) (stopAt : Option Nat) :
    Outcome × Result S × Option (Result S) × PD S K :=
  let (pd, oc) := buildLoopP cfg stopAt (cfg.P.nbVars + 2) (initPD cfg cache store polls)
  let empty : Result S := { outcome := oc, isExact := false, bestValue := none, bestExactValue := none, bestSol := none,
                            bestExactSol := none, cutset := [], cacheUpdates := [], expanded := [], polls := pd.polls }
  match oc with
  | .ok =>
    let relaxed := cfg.ctype == .relaxed
    let terms := pd.pool.map (fun n => { n with depth := pd.depth })
    let layers0 := pd.plain ++ [terms]
    let bestTerms := match maxValue terms with
      | none => []
      | some v => terms.filter (fun (n : Node S) => decide (n.value = v))
    let must := relaxed && bestTerms.all (ebpAll layers0 layers0.length)
    let may := relaxed && (bestTerms.isEmpty || bestTerms.any (ebpSome layers0 layers0.length))
    let r1 := finalizePOld cfg pd must
    (oc, r1, if may != must then some (finalizePOld cfg pd may) else none, pd)
  | _ => (oc, empty, none, pd)

/-- `Pooled::compile` + the queries (repaired code) -/
def compileP (cfg : Cfg S K) (cache : Cache S) (store : DomStore S K) (polls : Nat) (stopAt : Option Nat) :
    Outcome × Result S × Option (Result S) × PD S K :=
  let (pd, oc) := buildLoopP cfg stopAt (cfg.P.nbVars + 2) (initPD cfg cache store polls)
  let empty : Result S := { outcome := oc, isExact := false, bestValue := none, bestExactValue := none, bestSol := none,
                            bestExactSol := none, cutset := [], cacheUpdates := [], expanded := [], polls := pd.polls }
  match oc with
  | .ok =>
    let relaxed := cfg.ctype == .relaxed
    let terms := pd.pool.map (fun n => { n with depth := pd.depth })
    let layers0 := pd.plain ++ [terms]
    let bestTerms := match maxValue terms with
      | none => []
      | some v => terms.filter (fun (n : Node S) => decide (n.value = v))
    let must := relaxed && bestTerms.all (ebpAll layers0 layers0.length)
    let may := relaxed && (bestTerms.isEmpty || bestTerms.any (ebpSome layers0 layers0.length))
    let r1 := finalizeP cfg pd must
    (oc, r1, if may != must then some (finalizeP cfg pd may) else none, pd)
  | _ => (oc, empty, none, pd)

end Ddo
