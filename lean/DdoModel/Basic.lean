/-! Shared conventions: machine integers (`isize` as `Int` with explicit clamping), orderings. -/
namespace Ddo

def iMax : Int := 9223372036854775807
def iMin : Int := -9223372036854775808

/-- clamp an exact integer result into the `isize` range -/
def clamp (x : Int) : Int := min iMax (max iMin x)

/-- `isize::saturating_add` -/
def satAdd (a b : Int) : Int := clamp (a + b)
/-- `isize::saturating_sub` -/
def satSub (a b : Int) : Int := clamp (a - b)

def InI (x : Int) : Prop := iMin ≤ x ∧ x ≤ iMax
instance (x : Int) : Decidable (InI x) := by unfold InI; exact inferInstance

theorem clamp_of_in {x : Int} (h : InI x) : clamp x = x := by
  unfold clamp InI at *; omega

theorem clamp_in (x : Int) : InI (clamp x) := by
  unfold clamp InI iMin iMax; omega

theorem clamp_mono {x y : Int} (h : x ≤ y) : clamp x ≤ clamp y := by
  unfold clamp; omega

theorem satAdd_mono_left {a b c : Int} (h : a ≤ b) : satAdd a c ≤ satAdd b c := by
  unfold satAdd; exact clamp_mono (by omega)

/-- `Ordering` of two integers, as `Ord::cmp` -/
def icmp (a b : Int) : Ordering := if a < b then .lt else if a = b then .eq else .gt

def Ordering.rev : Ordering → Ordering
  | .lt => .gt | .eq => .eq | .gt => .lt

/-- `Ordering::then_with` -/
def Ordering.thenWith (a : Ordering) (b : Unit → Ordering) : Ordering :=
  match a with | .eq => b () | o => o

end Ddo
