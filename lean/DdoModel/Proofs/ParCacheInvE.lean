import DdoModel.Proofs.ParCacheInvD
/-! # The parallel caching solver — the invariant `KPInv` step by step (3): `enqueue_cutset`, `notify_node_finished`;
    every step (`kstep_kpinv`), the initial state, and the optimum at `Complete` -/
set_option linter.unusedSectionVars false
set_option linter.unusedVariables false
namespace Ddo.ParCache
open Ddo Ddo.C09 Ddo.ParSys Ddo.Theta
variable {S : Type} [DecidableEq S]

/-- `enqueue_cutset` on either fringe: the new fringe is a coalescing of the old one plus the cut-set nodes that beat the
    incumbent -/
theorem enq_spec (dedup : Bool) (st : SeqSt S) (cs : List (SubP S)) :
    (st.enqueue dedup cs).bestLb = st.bestLb ∧ (st.enqueue dedup cs).bestSol = st.bestSol ∧
    Coalesces (st.enqueue dedup cs).fringe (fun c => c ∈ st.fringe ∨ ∃ c0 ∈ cs, c = c0 ∧ c0.ub > st.bestLb) := by
  cases dedup with
  | false =>
    obtain ⟨h1, h2, _, _, h5⟩ := enqueue_false_spec st cs
    exact ⟨h1, h2, (Coalesces.refl _).congr h5⟩
  | true =>
    obtain ⟨h1, h2, _, _, _, h6⟩ := enqueue_true_spec st cs
    exact ⟨h1, h2, h6⟩

section
variable (H : Nat → S → EInt) (opt : Int) (Sol : List Dec → Int → Prop) (Rg : Nat → Int → Prop)

/-! ## `enqueue_cutset` -/

theorem kpinv_enqueue {s : KSys S} (hI : KPInv H opt Sol Rg s) (dedup : Bool) {i : Nat} {n : SubP S} {lb : Int} {o : DDOut S}
    {cv : Cache S} {ups : List (Up S)} (hw : s.ws[i]? = some (.enq n lb o cv ups)) (hl : LockFree s) :
    KPInv H opt Sol Rg { s with crit := s.crit.enqueue dedup o.cutset, ws := s.ws.set i (.fin n) } := by
  obtain ⟨e2, e3, hco⟩ := enq_spec dedup s.crit.base o.cutset
  obtain ⟨hlbi, hK, hne, hbk, hcov⟩ : lb ≤ s.crit.base.bestLb ∧ OkXc H opt Sol Rg n lb cv o ups ∧ o.isExact = false ∧
      bkOf lb o.bestExact ≤ s.crit.base.bestLb ∧ CvOk s.log cv := hI.wok i _ hw
  have hprc : ∀ c ∈ o.cutset, Prunable s c := fun c hc => .inr ⟨i, _, hw, hc⟩
  have hB : ∀ x, Beats ({ s with crit := s.crit.enqueue dedup o.cutset, ws := s.ws.set i (.fin n) } : KSys S) x → Beats s x := by
    intro x hb
    have hb' : BeatsC (s.crit.base.enqueue dedup o.cutset).bestLb (s.ws.set i (.fin n)) x := hb
    rw [e2] at hb'
    exact beatsC_of_set hw hb' (Int.le_refl _) (fun v hv => by cases hv)
  -- a member of the multiset survives in the coalesced fringe
  have hsurv : ∀ (c : SubP S) (x : Int) (d : Nat), (c ∈ s.crit.base.fringe ∨ ∃ c0 ∈ o.cutset, c = c0 ∧ c0.ub > s.crit.base.bestLb) →
      Carries H c x d → ¬ prunM (viewOf s.cache) c →
      Live H ({ s with crit := s.crit.enqueue dedup o.cutset, ws := s.ws.set i (.fin n) } : KSys S) x d := by
    intro c x d hL hcc hnp
    obtain ⟨s', hs', hd⟩ := hco.2 c hL
    exact .inl ⟨s', hs', carries_cell H hcc hd.state hd.depth hd.value, fun hp => hnp (prunM_dom _ hd hp)⟩
  have hT : ∀ x d, Beats ({ s with crit := s.crit.enqueue dedup o.cutset, ws := s.ws.set i (.fin n) } : KSys S) x →
      Live H s x d → Live H ({ s with crit := s.crit.enqueue dedup o.cutset, ws := s.ws.set i (.fin n) } : KSys S) x d := by
    apply tp_of_local
    intro x d hb hl1
    have hbs := hB x hb
    refine liveC_cases H (i := i) hl1 (fun c hc hcc hnp => .inl (hsurv c x d (.inl hc) hcc hnp)) (fun w1 hw1 hl1 => ?_)
      (fun j w hj hwj hl1 => .inl (liveC_of_other H hj hwj hl1))
    rw [hw] at hw1; cases hw1
    rcases hl1 with ⟨m, hm, hcc⟩ | ⟨c, hc, hcc, hnp⟩
    · -- the node in hand is covered by its cut-set, or strictly deeper
      cases hm
      right
      obtain ⟨hd, y, hy, hxy⟩ := hcc
      have hby := hbs.up hxy
      rcases hK.c.cover hne y hy (by have := hby.1; omega) with ⟨c1, hc1, y1, hy1, hyy1⟩ | h3
      · have := hK.c.deeper c1 hc1
        exact ⟨y1, c1.depth, by omega, by omega, prunable_live H opt Sol Rg hI (hprc c1 hc1) hy1 (hby.up hyy1)⟩
      · obtain ⟨x', d', hx', hd', hl'⟩ := cov_live H opt Sol Rg hI hcov h3 hby
        exact ⟨x', d', by omega, by omega, hl'⟩
    · -- a node of the cut-set: enqueued, or its bound does not beat the incumbent
      have hc : c ∈ o.cutset := hc
      by_cases hgt : c.ub > s.crit.base.bestLb
      · exact .inl (hsurv c x d (.inr ⟨c, hc, rfl, hgt⟩) hcc hnp)
      · right
        obtain ⟨hd, y, hy, hxy⟩ := hcc
        have hby := hbs.up hxy
        rcases hI.ub c (.inl (hprc c hc)) y hy hby with h4 | h4
        · have := hby.1; omega
        · exact ⟨y, c.depth + 1, hxy, by omega, h4⟩
  -- the entries of the new fringe
  have horig : ∀ s' ∈ (s.crit.base.enqueue dedup o.cutset).fringe, ∃ a1 b1, Prunable s a1 ∧ Prunable s b1 ∧
      s' = { a1 with ub := b1.ub } ∧ a1.ub ≤ b1.ub := by
    intro s' hs'
    obtain ⟨a1, b1, ha1, hb1, e, hle⟩ := hco.1 s' hs'
    have hp : ∀ c, (c ∈ s.crit.base.fringe ∨ ∃ c0 ∈ o.cutset, c = c0 ∧ c0.ub > s.crit.base.bestLb) → Prunable s c := by
      rintro c (h | ⟨c0, hc0, rfl, _⟩)
      · exact .inl h
      · exact hprc c hc0
    exact ⟨a1, b1, hp a1 ha1, hp b1 hb1, e, hle⟩
  have hpr : ∀ c, Prunable ({ s with crit := s.crit.enqueue dedup o.cutset, ws := s.ws.set i (.fin n) } : KSys S) c →
      (∃ a1 b1, Prunable s a1 ∧ Prunable s b1 ∧ c = { a1 with ub := b1.ub } ∧ a1.ub ≤ b1.ub) := by
    intro c h
    rcases prunable_set h with h | h | ⟨j, w, _, hj, hc⟩
    · exact horig c h
    · cases h
    · exact ⟨c, c, .inr ⟨j, w, hj, hc⟩, .inr ⟨j, w, hj, hc⟩, rfl, Int.le_refl _⟩
  refine kpinv_step H opt Sol Rg hI hB hT ?_ ?_ (by show (s.crit.base.enqueue dedup o.cutset).bestLb ≤ opt; rw [e2]; exact hI.lbOk)
    (by show ∀ p, (s.crit.base.enqueue dedup o.cutset).bestSol = some p → Sol p (s.crit.base.enqueue dedup o.cutset).bestLb
        rw [e2, e3]; exact hI.solOk) hI.cur (fun c hc => .inl hc) ?_ ?_ ?_ ?_
  · rintro c (hc | hc)
    · obtain ⟨a1, b1, ha1, _, rfl, _⟩ := hpr c hc
      exact hI.good a1 (.inl ha1)
    · exact hI.good c (.inr (held_back (w0 := .enq n lb o cv ups) (a := .fin n) hw (fun c hc => by cases hc) hc))
  · intro c hc
    obtain ⟨a1, b1, ha1, _, rfl, _⟩ := hpr c hc
    exact hI.rng a1 ha1
  · rintro c (hc | hc)
    · right
      obtain ⟨a1, b1, ha1, _, rfl, hle⟩ := hpr c hc
      intro y hy hb
      rcases hI.ub a1 (.inl ha1) y hy (hB _ hb) with h4 | h4
      · left; show y ≤ b1.ub; omega
      · exact .inr (hT _ _ hb h4)
    · exact .inl (.inr (fresh_back (w0 := .enq n lb o cv ups) (a := .fin n) hw
        (fun c hc => by rcases hc with e | e <;> cases e) hc))
  · intro j m hj
    rcases get_set_split hj with ⟨_, e⟩ | ⟨_, hj'⟩
    · cases e
    · have := hl _ (List.mem_of_getElem? hj')
      cases this
  · intro j w hj
    show WOk H opt Sol Rg (s.crit.base.enqueue dedup o.cutset).bestLb s.log w
    rw [e2]
    exact wok_set H opt Sol Rg hI (a := .fin n) (Int.le_refl _) (fun c hc => hc) trivial j w hj
  · intro h
    show (s.crit.base.enqueue dedup o.cutset).bestLb = opt
    rw [e2]
    exact done_set H opt Sol Rg hI (Int.le_refl _) hI.lbOk (fun e => by cases e) h

/-! ## `notify_all` -/

theorem wake_open (w : KW S) : w.wake.openNode = w.openNode := by cases w <;> rfl
theorem wake_pendVal (w : KW S) : w.wake.pendVal = w.pendVal := by cases w <;> rfl
theorem wake_pendCut (w : KW S) : w.wake.pendCut = w.pendCut := by cases w <;> rfl
theorem wake_gwW {w : KW S} {n : SubP S} (h : w.wake = .gwW n) : w = .gwW n := by cases w <;> simp_all [KW.wake]
theorem wake_readR {w : KW S} {n : SubP S} (h : w.wake = .readR n) : w = .readR n := by cases w <;> simp_all [KW.wake]
theorem wake_done {w : KW S} (h : w.wake = .done) : w = .done := by cases w <;> simp_all [KW.wake]

theorem get_wake {ws : List (KW S)} {j : Nat} {w' : KW S} (h : (ws.map KW.wake)[j]? = some w') :
    ∃ w, ws[j]? = some w ∧ w' = w.wake := by
  rw [List.getElem?_map] at h
  cases hw : ws[j]? with
  | none => rw [hw] at h; cases h
  | some w => rw [hw] at h; simp only [Option.map_some, Option.some.injEq] at h; exact ⟨w, rfl, h.symm⟩

theorem get_wake_of {ws : List (KW S)} {j : Nat} {w : KW S} (h : ws[j]? = some w) : (ws.map KW.wake)[j]? = some w.wake := by
  rw [List.getElem?_map, h]; rfl

theorem kpinv_wake {s : KSys S} (hI : KPInv H opt Sol Rg s) : KPInv H opt Sol Rg { s with ws := s.ws.map KW.wake } := by
  have hB : ∀ x, Beats ({ s with ws := s.ws.map KW.wake } : KSys S) x → Beats s x :=
    fun x hb => ⟨hb.1, fun j w v hj hv => hb.2 j w.wake v (get_wake_of hj) (by rw [wake_pendVal]; exact hv)⟩
  have hT : ∀ x d, Beats ({ s with ws := s.ws.map KW.wake } : KSys S) x → Live H s x d →
      Live H ({ s with ws := s.ws.map KW.wake } : KSys S) x d := by
    intro x d _ hl
    rcases hl with h | ⟨j, w, hj, hl1⟩
    · exact .inl h
    · refine .inr ⟨j, w.wake, get_wake_of hj, ?_⟩
      unfold WLive at hl1 ⊢
      rw [wake_open, wake_pendCut]; exact hl1
  have hpb : ∀ c, Prunable ({ s with ws := s.ws.map KW.wake } : KSys S) c → Prunable s c := by
    rintro c (h | ⟨j, w', hj, hc⟩)
    · exact .inl h
    · obtain ⟨w, hw, rfl⟩ := get_wake hj
      rw [wake_pendCut] at hc
      exact .inr ⟨j, w, hw, hc⟩
  refine kpinv_step H opt Sol Rg hI hB hT ?_ (fun c hc => hI.rng c (hpb c hc)) hI.lbOk hI.solOk hI.cur
    (fun c hc => .inl hc) ?_ ?_ ?_ ?_
  · rintro c (hc | ⟨j, w', hj, hc⟩)
    · exact hI.good c (.inl (hpb c hc))
    · obtain ⟨w, hw, rfl⟩ := get_wake hj
      rw [wake_open] at hc
      exact hI.good c (.inr ⟨j, w, hw, hc⟩)
  · rintro c (hc | ⟨j, hj⟩)
    · exact .inl (.inl (hpb c hc))
    · refine .inl (.inr ⟨j, ?_⟩)
      rcases hj with hj | hj
      · obtain ⟨w, hw, e⟩ := get_wake hj
        exact .inl (by rw [hw, wake_gwW e.symm])
      · obtain ⟨w, hw, e⟩ := get_wake hj
        exact .inr (by rw [hw, wake_readR e.symm])
  · intro j n hj
    obtain ⟨w, hw, e⟩ := get_wake hj
    exact hI.popmax j n (by rw [hw, wake_gwW e.symm])
  · intro j w' hj
    obtain ⟨w, hw, rfl⟩ := get_wake hj
    exact wake_wok H opt Sol Rg (hI.wok j w hw)
  · rintro ⟨j, hj⟩
    obtain ⟨w, hw, e⟩ := get_wake hj
    exact hI.doneOk ⟨j, by rw [hw, wake_done e.symm]⟩

/-! ## nothing open: the optimum -/

/-- nothing in the fringe, nothing in any hand, nothing pending: the incumbent is the optimum -/
theorem nothing_open_opt {s : KSys S} (hI : KPInv H opt Sol Rg s) (hf : s.crit.base.fringe = [])
    (hno : ∀ w ∈ s.ws, w.openNode = none ∧ w.pendVal = none ∧ w.pendCut = []) : s.crit.base.bestLb = opt := by
  have hle := hI.lbOk
  by_cases hlt : s.crit.base.bestLb < opt
  · have hb : Beats s opt := ⟨hlt, fun j w v hj hv => by
      have := (hno w (List.mem_of_getElem? hj)).2.1
      rw [this] at hv; cases hv⟩
    rcases hI.root hb with ⟨c, hc, _⟩ | ⟨j, w, hj, hl1⟩
    · rw [hf] at hc; cases hc
    · obtain ⟨h1, _, h3⟩ := hno w (List.mem_of_getElem? hj)
      rcases hl1 with ⟨n, hn, _⟩ | ⟨c, hc, _⟩
      · rw [h1] at hn; cases hn
      · rw [h3] at hc; cases hc
  · omega

/-! ## every step -/

/-- **`kstep_kpinv`**: the invariant survives every step of every worker — every critical section, every step inside
    `get_workload`, every end of a compilation (reading a virtual cache assembled from the log), every single threshold
    write — under the contracts `OkRc` / `OkXc`; `hnp`: the step is not a panic; `hcomp`: at `Complete` nothing is in any
    hand (bookkeeping invariant: `ongoing == 0`) -/
theorem kstep_kpinv {nbVars : Nat} {dedup : Bool} {s t : KSys S}
    (h : KStep nbVars dedup (OkRc H opt Sol Rg) (OkXc H opt Sol Rg) s t) (hI : KPInv H opt Sol Rg s)
    (hnp : ∀ (i : Nat) (w : KW S), s.ws[i]? = some w → ¬ Panics nbVars s i w)
    (hcomp : ∀ i, CompletesAt nbVars s i → ∀ w ∈ s.ws, w.openNode = none ∧ w.pendVal = none ∧ w.pendCut = []) :
    KPInv H opt Sol Rg t := by
  cases h with
  | gwEnter i hw hl =>
    exact kpinv_same H opt Sol Rg hI hw ⟨rfl, rfl, rfl⟩ rfl rfl rfl (fun c => ⟨by simp, by simp⟩) trivial (by simp)
  | gwClear i c' hw hc hcl => exact kpinv_gwClear H opt Sol Rg hI hcl
  | gwComplete i hw hc ho hf =>
    have hopt := nothing_open_opt H opt Sol Rg hI hf (hcomp i ⟨hw, hc, ho, hf⟩)
    exact kpinv_same H opt Sol Rg hI (crit' := s.crit.complete) hw ⟨rfl, rfl, rfl⟩ rfl rfl rfl
      (fun c => ⟨by simp, by simp⟩) trivial (fun _ => hopt)
  | gwWait i hw hc ho hf =>
    exact kpinv_same H opt Sol Rg hI hw ⟨rfl, rfl, rfl⟩ rfl rfl rfl (fun c => ⟨by simp, by simp⟩) trivial (by simp)
  | gwToPop i hw hc hf =>
    exact kpinv_same H opt Sol Rg hI hw ⟨rfl, rfl, rfl⟩ rfl rfl rfl (fun c => ⟨by simp, by simp⟩) trivial (by simp)
  | gwEmpty i hw hf =>
    exact kpinv_same H opt Sol Rg hI hw ⟨rfl, rfl, rfl⟩ rfl rfl rfl (fun c => ⟨by simp, by simp⟩) trivial (by simp)
  | gwStarve i N rest hw hp hub => exact kpinv_gwStarve H opt Sol Rg hI hw hp hub
  | gwDrop i N rest c' hw hp hub hme hd => exact kpinv_gwDrop H opt Sol Rg hI hp hme hd
  | gwKeep i N rest hw hp hub hme => exact kpinv_gwKeep H opt Sol Rg hI hw hp
  | gwTake i n c' crit' hw hu ht => exact kpinv_gwTake H opt Sol Rg hI hw hu ht
  | readLbR i n hw hl =>
    by_cases hub : n.ub ≤ s.crit.readLb
    · rw [if_pos hub]
      exact kpinv_readLbR_drop H opt Sol Rg hI hw hub
    · rw [if_neg hub]
      exact kpinv_same H opt Sol Rg hI hw ⟨rfl, rfl, rfl⟩ rfl rfl rfl (fun c => ⟨by simp, by simp⟩)
        (show s.crit.base.bestLb ≤ s.crit.base.bestLb from Int.le_refl _) (by simp)
  | compileR i n lb k0 cv o ups hw hcv hok =>
    have hwk : lb ≤ s.crit.base.bestLb := hI.wok i _ hw
    refine kpinv_local H opt Sol Rg hI hw rfl (fun c hc => by cases hc) (fun v hv => by cases hv)
      (fun c => ⟨by simp, by simp⟩) ?_ (by simp) (fun c hc => by cases hc)
    exact ⟨hwk, hok, fun u hu => hu, fun st d tt htt => by
      obtain ⟨c, hc, e⟩ := hcv st d tt htt
      exact ⟨c, List.mem_of_mem_take hc, e⟩⟩
  | writeR i n lb o cv ups u todo c' hw hu =>
    obtain ⟨hlbi, hK, htodo, hcov⟩ : lb ≤ s.crit.base.bestLb ∧ OkRc H opt Sol Rg n lb cv o ups ∧
        (∀ u' ∈ u :: todo, u' ∈ ups) ∧ CvOk s.log cv := hI.wok i _ hw
    have huu : u ∈ ups := htodo u List.mem_cons_self
    cases hex : o.isExact with
    | false => rw [hK.2.2 hex] at huu; cases huu
    | true =>
      have hCK := hK.2.1 hex
      refine kpinv_write H opt Sol Rg hI (o := o) (bk := bkOf lb o.bestExact) hw ⟨rfl, rfl, rfl⟩ (fun c => ⟨by simp, by simp⟩)
        (by simp) ?_ hu hCK.th huu ?_ hcov ?_
      · exact ⟨hlbi, hK, fun u' hu' => htodo u' (List.mem_cons_of_mem _ hu'), hcov.mono (fun c hc => List.mem_cons_of_mem _ hc)⟩
      · intro y hb
        have h1 := hb.1
        unfold bkOf
        cases hbe : o.bestExact with
        | none => dsimp only; omega
        | some v => have := hb.2 i _ v hw hbe; dsimp only; omega
      · intro c1 hc1 y1 hy1 hb1
        right
        have hbk1 : bkOf lb o.bestExact < y1 := by
          have h1 := hb1.1
          unfold bkOf
          cases hbe : o.bestExact with
          | none => dsimp only; omega
          | some v => have := hb1.2 i _ v hw hbe; dsimp only; omega
        rcases hCK.c.ub c1 hc1 y1 hy1 hbk1 with h4 | h4
        · have := hCK.c.exactCut hex c1 hc1; omega
        · exact cov_live H opt Sol Rg hI hcov h4 hb1
  | updateR i n lb o cv ups hw hl =>
    obtain ⟨hlbi, hK, _, hcov⟩ : lb ≤ s.crit.base.bestLb ∧ OkRc H opt Sol Rg n lb cv o ups ∧
        (∀ u' ∈ ([] : List (Up S)), u' ∈ ups) ∧ CvOk s.log cv := hI.wok i _ hw
    cases hex : o.isExact with
    | false =>
      simp only [Bool.false_eq_true, if_false]
      exact kpinv_publish H opt Sol Rg hI hw rfl rfl rfl hK.1 (fun c => ⟨by simp, by simp⟩) (by simp) trivial (.inl rfl)
    | true =>
      simp only [if_true]
      have hCK := hK.2.1 hex
      refine kpinv_publish H opt Sol Rg hI hw rfl rfl rfl hK.1 (fun c => ⟨by simp, by simp⟩) (by simp) trivial (.inr ⟨rfl, ?_⟩)
      intro m hm x d hcc hb
      cases hm
      obtain ⟨hd, y, hy, hxy⟩ := hcc
      have hlt : (s.crit.base.updateBest o).bestLb < x := hb.1
      have hge := updateBest_lb_ge s.crit.base o
      rcases hCK.c.exact hex y hy (by omega) with ⟨w, hw', hyw⟩ | h3
      · have := updateBest_lb_ge_val s.crit.base o w hw'; omega
      · have hbs : Beats s y := by
          refine (beatsC_of_set (lb := s.crit.base.bestLb) hw hb hge (fun v hv => ?_)).up hxy
          have := updateBest_lb_ge_val s.crit.base o v hv; omega
        obtain ⟨x', d', hx', hd', hl'⟩ := cov_live H opt Sol Rg hI hcov h3 hbs
        exact ⟨x', d', by omega, by omega, hl'⟩
  | readLbX i n hw hl =>
    exact kpinv_same H opt Sol Rg hI hw ⟨rfl, rfl, rfl⟩ rfl rfl rfl (fun c => ⟨by simp, by simp⟩)
      (show s.crit.base.bestLb ≤ s.crit.base.bestLb from Int.le_refl _) (by simp)
  | compileX i n lb k0 cv o ups hw hcv hok =>
    have hwk : lb ≤ s.crit.base.bestLb := hI.wok i _ hw
    have hcov : CvOk s.log cv := fun st d tt htt => by
      obtain ⟨c, hc, e⟩ := hcv st d tt htt
      exact ⟨c, List.mem_of_mem_take hc, e⟩
    refine kpinv_local H opt Sol Rg hI hw rfl (fun c hc => by cases hc) (fun v hv => by cases hv)
      (fun c => ⟨by simp, by simp⟩) ⟨hwk, hok, fun u hu => hu, hcov⟩ (by simp) (fun c hc => ?_)
    right
    have hc' : c ∈ (if o.isExact then [] else o.cutset) := hc
    cases hex : o.isExact with
    | true => rw [hex] at hc'; cases hc'
    | false =>
      rw [hex] at hc'
      simp only [Bool.false_eq_true, if_false] at hc'
      refine ⟨hok.c.good c hc', hok.c.rng c hc', fun y hy hb => ?_⟩
      have hbs : Beats s y := beatsC_of_set hw hb (Int.le_refl _) (fun v hv => by cases hv)
      have hbk1 : bkOf lb o.bestExact < y := by
        have h1 : s.crit.base.bestLb < y := hb.1
        unfold bkOf
        cases hbe : o.bestExact with
        | none => dsimp only; omega
        | some v => have := hb.2 i _ v (get_set_self hw) hbe; dsimp only; omega
      rcases hok.c.ub c hc' y hy hbk1 with h4 | h4
      · exact .inl h4
      · right
        obtain ⟨x', d', hx', hd', hl'⟩ := cov_live H opt Sol Rg hI hcov h4 hbs
        exact hl'.mono H hx' (by omega)
  | writeX i n lb o cv ups u todo c' hw hu =>
    obtain ⟨hlbi, hK, htodo, hcov⟩ : lb ≤ s.crit.base.bestLb ∧ OkXc H opt Sol Rg n lb cv o ups ∧
        (∀ u' ∈ u :: todo, u' ∈ ups) ∧ CvOk s.log cv := hI.wok i _ hw
    have huu : u ∈ ups := htodo u List.mem_cons_self
    have hbkB : ∀ y, Beats s y → bkOf lb o.bestExact < y := by
      intro y hb
      have h1 := hb.1
      unfold bkOf
      cases hbe : o.bestExact with
      | none => dsimp only; omega
      | some v => have := hb.2 i _ v hw hbe; dsimp only; omega
    refine kpinv_write H opt Sol Rg hI (o := o) (bk := bkOf lb o.bestExact) hw ⟨rfl, rfl, rfl⟩ (fun c => ⟨by simp, by simp⟩)
      (by simp) ?_ hu hK.th huu hbkB hcov ?_
    · exact ⟨hlbi, hK, fun u' hu' => htodo u' (List.mem_cons_of_mem _ hu'), hcov.mono (fun c hc => List.mem_cons_of_mem _ hc)⟩
    · intro c1 hc1 y1 hy1 hb1
      cases hex : o.isExact with
      | false =>
        left
        refine ⟨?_, hK.fresh1 u huu c1 hc1⟩
        show c1 ∈ (if o.isExact then [] else o.cutset)
        rw [hex]; exact hc1
      | true =>
        right
        rcases hK.c.ub c1 hc1 y1 hy1 (hbkB y1 hb1) with h4 | h4
        · have := hK.c.exactCut hex c1 hc1; have := hbkB y1 hb1; omega
        · exact cov_live H opt Sol Rg hI hcov h4 hb1
  | updateX i n lb o cv ups hw hl =>
    obtain ⟨hlbi, hK, _, hcov⟩ : lb ≤ s.crit.base.bestLb ∧ OkXc H opt Sol Rg n lb cv o ups ∧
        (∀ u' ∈ ([] : List (Up S)), u' ∈ ups) ∧ CvOk s.log cv := hI.wok i _ hw
    have hge := updateBest_lb_ge s.crit.base o
    cases hex : o.isExact with
    | false =>
      simp only [Bool.false_eq_true, if_false]
      refine kpinv_publish H opt Sol Rg hI hw rfl rfl ?_ hK.c.sound (fun c => ⟨by simp, by simp⟩) (by simp) ?_ (.inl rfl)
      · show o.cutset = (if o.isExact then [] else o.cutset)
        rw [hex]; rfl
      · refine ⟨by show lb ≤ (s.crit.base.updateBest o).bestLb; omega, hK, hex, ?_, hcov⟩
        show bkOf lb o.bestExact ≤ (s.crit.base.updateBest o).bestLb
        unfold bkOf
        cases hbe : o.bestExact with
        | none => dsimp only; omega
        | some v => have := updateBest_lb_ge_val s.crit.base o v hbe; dsimp only; omega
    | true =>
      simp only [if_true]
      refine kpinv_publish H opt Sol Rg hI hw rfl rfl ?_ hK.c.sound (fun c => ⟨by simp, by simp⟩) (by simp) trivial (.inr ⟨rfl, ?_⟩)
      · show ([] : List (SubP S)) = (if o.isExact then [] else o.cutset)
        rw [hex]; rfl
      intro m hm x d hcc hb
      cases hm
      obtain ⟨hd, y, hy, hxy⟩ := hcc
      have hlt : (s.crit.base.updateBest o).bestLb < x := hb.1
      rcases hK.c.exact hex y hy (by omega) with ⟨w, hw', hyw⟩ | h3
      · have := updateBest_lb_ge_val s.crit.base o w hw'; omega
      · have hbs : Beats s y := by
          refine (beatsC_of_set (lb := s.crit.base.bestLb) hw hb hge (fun v hv => ?_)).up hxy
          have := updateBest_lb_ge_val s.crit.base o v hv; omega
        obtain ⟨x', d', hx', hd', hl'⟩ := cov_live H opt Sol Rg hI hcov h3 hbs
        exact ⟨x', d', by omega, by omega, hl'⟩
  | enqueue i n lb o cv ups hw hl => exact kpinv_enqueue H opt Sol Rg hI dedup hw hl
  | notify i n c' hw hl hn =>
    obtain ⟨e1, _⟩ := notify_spec hn
    have h1 := kpinv_wake H opt Sol Rg hI
    have hw1 : ({ s with ws := s.ws.map KW.wake } : KSys S).ws[i]? = some (.fin n) := get_wake_of hw
    exact kpinv_same H opt Sol Rg h1 (crit' := c') hw1 ⟨rfl, rfl, rfl⟩ (by rw [e1]) (by rw [e1]) (by rw [e1])
      (fun c => ⟨by simp, by simp⟩) trivial (by simp)
  | crash i w hw hp => exact absurd hp (hnp i w hw)

/-! ## the initial state -/

theorem init_kpinv (P : Problem S) (dedup : Bool) (U : Nat)
    (hroot : ∀ x, optOf H (rootOf P) = some x → x ≤ opt) (hopt : opt ≤ iMax) (hlo : iMin ≤ opt)
    (hrg : Rg 0 P.initVal) (hatt : optOf H (rootOf P) = some opt) :
    KPInv H opt Sol Rg (KSys.init P dedup U) := by
  obtain ⟨f1, _, _, f2, f3⟩ := init_base P none dedup
  have hws : ∀ (j : Nat) (w : KW S), (KSys.init P dedup U).ws[j]? = some w → w = .idle := by
    intro j w h
    have h : (List.replicate U (KW.idle : KW S))[j]? = some w := h
    rw [List.getElem?_replicate] at h
    split at h
    · injection h with h; exact h.symm
    · cases h
  have hF : (KSys.init P dedup U).crit.base.fringe = [rootOf P] := f1
  have hlb : (KSys.init P dedup U).crit.base.bestLb = iMin := f2
  have hsol : (KSys.init P dedup U).crit.base.bestSol = none := f3
  have hview : ∀ st d, viewOf (Cache.init P.nbVars : Cache S) st d = none := by
    intro st d
    unfold viewOf Cache.get Cache.init
    dsimp only
    rw [List.getElem?_replicate]
    by_cases h : d < P.nbVars + 1
    · rw [if_pos h]; rfl
    · rw [if_neg h]; rfl
  have hnp : ¬ prunM (viewOf (KSys.init P dedup U).cache) (rootOf P) := by
    rintro ⟨t, ht, _⟩
    have := hview (rootOf P).state (rootOf P).depth
    have e : (KSys.init P dedup U).cache = Cache.init P.nbVars := rfl
    rw [e, this] at ht; cases ht
  have hpr : ∀ c, Prunable (KSys.init P dedup U) c → c = rootOf P := by
    rintro c (h | ⟨j, w, hj, hc⟩)
    · rw [hF] at h; simpa using h
    · rw [hws j w hj] at hc; cases hc
  refine ⟨?_, ?_, (by rw [hlb]; exact hlo), (by rw [hsol]; intro p hp; cases hp), List.mem_cons_self, ?_, ?_, ?_, ?_, ?_, ?_⟩
  · rintro c (hc | ⟨j, w, hj, hc⟩)
    · rw [hpr c hc]; exact hroot
    · rw [hws j w hj] at hc; cases hc
  · intro c hc
    rw [hpr c hc]; exact hrg
  · intro _
    exact .inl ⟨rootOf P, by rw [hF]; exact List.mem_cons_self, ⟨Nat.zero_le _, opt, hatt, Int.le_refl _⟩, hnp⟩
  · intro c hc st d tt htt
    have e : c = Cache.init P.nbVars := by
      have : c ∈ [Cache.init P.nbVars] := hc
      simpa using this
    rw [e, hview] at htt; cases htt
  · rintro c (hc | ⟨j, hj⟩)
    · rw [hpr c hc]
      intro y hy _
      left
      have := hroot y hy
      show y ≤ iMax
      omega
    · rcases hj with hj | hj <;> cases hws j _ hj
  · intro j n hj; cases hws j _ hj
  · intro j w hj; rw [hws j w hj]; trivial
  · rintro ⟨j, hj⟩; cases hws j _ hj

/-- **the optimum at `Complete`** -/
theorem complete_opt {nbVars : Nat} {s : KSys S} {i : Nat} (hI : KPInv H opt Sol Rg s) (hc : CompletesAt nbVars s i)
    (hno : ∀ w ∈ s.ws, w.openNode = none ∧ w.pendVal = none ∧ w.pendCut = []) :
    s.crit.base.bestLb = opt ∧ ∀ p, s.crit.base.bestSol = some p → Sol p opt := by
  have h := nothing_open_opt H opt Sol Rg hI hc.2.2.2 hno
  exact ⟨h, fun p hp => h ▸ hI.solOk p hp⟩

end
end Ddo.ParCache

#print axioms Ddo.ParCache.kstep_kpinv
#print axioms Ddo.ParCache.init_kpinv
#print axioms Ddo.ParCache.complete_opt
