import DdoModel.Proofs.CompatProcess
/-! C10e — **the easy fields `JCEasy` of the contract of a single compilation with cache and checker** (`exactCut`, `rng`, `deeper`).

None of the three depends on what the cache or the checker filtered out:

* `cutset_ub_le_bestValue` — by the definition of `finalize` the bound of a cut-set node is capped by the best value of the diagram
  (any configuration);
* `exactCut_any` — a relaxed compilation that reports `is_exact` either squashed nothing (empty cut-set) or reports
  `best_exact_value = best_value` (`relaxed_isExact_cases`), so the bound of a cut-set node is at most `bkOf lb bestExactValue`;
* `rng` from C08 (i) and `RunBound.value_le`; `deeper` from C08 (ii), the cut-set of an exact restricted compilation being empty. -/
set_option linter.unusedSectionVars false
set_option linter.unusedVariables false
namespace Ddo.C10d
open Ddo Ddo.C01 Ddo.Closed Ddo.C09 Ddo.C10 Ddo.C10c Ddo.Truth

section
variable {S K : Type} [DecidableEq S] [DecidableEq K]

/-- the bound of a cut-set node is capped by the best value of the diagram (`finalize`: `ub := min (min …) bv`); any cache, any
    checker, any compilation type -/
theorem cutset_ub_le_bestValue (cfg : Cfg S K) (cache : Cache S) (store : DomStore S K) (polls : Nat) (stopAt : Option Nat)
    (hok : (compile cfg cache store polls stopAt).1 = .ok) :
    ∀ c ∈ (compile cfg cache store polls stopAt).2.1.cutset,
      ∃ bv, (compile cfg cache store polls stopAt).2.1.bestValue = some bv ∧ c.ub ≤ bv := by
  obtain ⟨_, _, hr⟩ := Ddo.compile_ok cfg cache store polls stopAt hok
  rw [hr]
  intro c hc
  obtain ⟨bv, lp, n3, hbv, _, _, _, rfl⟩ := (Ddo.Bounds.finalize_cutset_iff cfg _ _ c).1 hc
  refine ⟨bv, ?_, ?_⟩
  · rw [Ddo.finalize_bestValue]; exact hbv
  · simp only [Ddo.Bounds.subOf]
    omega

/-- **the field `exactCut`, any cache and any checker**: the cut-set of a relaxed diagram that claims exactness holds nothing that
    beats the incumbent -/
theorem exactCut_any (cfg : Cfg S K) (B : Int) (p0 : List Dec) (cache : Cache S) (store : DomStore S K) (polls : Nat)
    (hrel : cfg.ctype = .relaxed)
    (hroot : Reach cfg.P cfg.root.depth cfg.root.state cfg.root.value p0)
    (hB : NoClamp cfg.P cfg.R cfg.root.value B)
    (hok : (compile cfg cache store polls none).1 = .ok)
    (hex : (compile cfg cache store polls none).2.1.isExact = true) :
    ∀ c ∈ (compile cfg cache store polls none).2.1.cutset,
      c.ub ≤ Theta.bkOf cfg.lb (compile cfg cache store polls none).2.1.bestExactValue := by
  intro c hc
  rcases relaxed_isExact_cases cfg cache store polls hrel hok hex with hl | ⟨_, hb⟩
  · have hemp := C08.cutset_empty_of_exact cfg B p0 cache store polls none hroot hB hok _ (.inl rfl) hl
    rw [hemp] at hc
    exact absurd hc List.not_mem_nil
  · obtain ⟨bv, hbv, hle⟩ := cutset_ub_le_bestValue cfg cache store polls none hok c hc
    rw [hb, hbv]
    unfold Theta.bkOf
    dsimp only
    omega

end

/-- **the easy fields of the contract of a single compilation with cache and checker** -/
theorem jcEasy : JCEasy := by
  intro S K _ _ dv H B0 B opt n hM ct N lb cache store p0 hpre
  have hwf := hM.wf
  have hroot : Reach (dv.kdcfg ct N lb).P (dv.kdcfg ct N lb).root.depth (dv.kdcfg ct N lb).root.state
      (dv.kdcfg ct N lb).root.value p0 := hpre.root
  have hBN : NoClamp (dv.kdcfg ct N lb).P (dv.kdcfg ct N lb).R (dv.kdcfg ct N lb).root.value B :=
    hwf.bound.noClamp_at hwf.nv hpre.root
  have hok := hpre.ok
  have hbk := hpre.bk
  -- an exact restricted compilation has an empty cut-set
  have hemp : ct = .restricted → (compile (dv.kdcfg ct N lb) cache store 0 none).2.1.isExact = true →
      (compile (dv.kdcfg ct N lb) cache store 0 none).2.1.cutset = [] := by
    intro hres hex
    have hlel := restricted_isExact (dv.kdcfg ct N lb) cache store 0 hres hok hex
    exact C08.cutset_empty_of_exact (dv.kdcfg ct N lb) B p0 cache store 0 none hroot hBN hok _ (.inl rfl) hlel
  refine ⟨?_, ?_, ?_⟩
  · -- exactCut
    intro hex c hc
    have hex' : (compile (dv.kdcfg ct N lb) cache store 0 none).2.1.isExact = true := hex
    have hc' : c ∈ (compile (dv.kdcfg ct N lb) cache store 0 none).2.1.cutset := hc
    rcases hpre.counts with hrel | ⟨hres, _⟩
    · have := exactCut_any (dv.kdcfg ct N lb) B p0 cache store 0 hrel hroot hBN hok hex' c hc'
      have e : (dv.kdcfg ct N lb).lb = lb := rfl
      rw [e] at this
      omega
    · rw [hemp hres hex'] at hc'
      exact absurd hc' List.not_mem_nil
  · -- rng
    intro c hc
    have hc' : c ∈ (compile (dv.kdcfg ct N lb) cache store 0 none).2.1.cutset := hc
    obtain ⟨q, hq, _⟩ := C08.cutset_exact (dv.kdcfg ct N lb) B p0 cache store 0 none hroot hBN hok _ (.inl rfl) c hc'
    have hq' : Reach dv.sv.P c.depth c.state c.value (p0 ++ q) := hq
    obtain ⟨h1, h2⟩ := hwf.bound.value_le hwf.nv hq'
    exact rgB_of_abs c.depth hwf.bound.clamp.nonneg h1 h2
  · -- deeper
    intro c hc
    have hc' : c ∈ (compile (dv.kdcfg ct N lb) cache store 0 none).2.1.cutset := hc
    rcases hpre.counts with hrel | ⟨hres, hex⟩
    · exact C08.cutset_progress (dv.kdcfg ct N lb) B p0 cache store 0 none hrel hroot hBN hok _ (.inl rfl) c hc'
    · rw [hemp hres hex] at hc'
      exact absurd hc' List.not_mem_nil

end Ddo.C10d

#print axioms Ddo.C10d.cutset_ub_le_bestValue
#print axioms Ddo.C10d.exactCut_any
#print axioms Ddo.C10d.jcEasy
