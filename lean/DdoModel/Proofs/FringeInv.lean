import DdoModel.Props.C11
/-! # The indexed binary heap of `NoDupFringe` keeps its invariants; the fringe refines `KeyedPQ`

Machine-checked (core Lean only) proofs about the executable model `NoDup` of `DdoModel/Fringe.lean`:

* `NoDup.Inv rank f` — a `Prop` invariant, **equivalent** to the two Boolean checks the driver
  evaluates (`inv_iff_bool : Inv rank f ↔ f.wfB = true ∧ f.heapOrdB rank = true`);
* it holds for `empty` / `clear`, is preserved by every `push` and `pop`, and under it neither
  `push` nor `pop` returns `none` (no index out of range in the Rust code);
* the fuel `heap.length + 1` handed to the sifting loops never cuts them short;
* with `absNoDup f` (the live nodes) `push` is `KeyedPQ.push` and `pop` removes a `subLe`-maximal
  element, up to permutation.

Hypothesis on the state ranking: `RankOK rank` (a total preorder read through `Ordering`):
`≠ .gt` is transitive, and `rank x y = .gt → rank y x = .lt`. -/
namespace Ddo

open C11 (absNoDup)

/-! ## hypotheses on the ranking -/

/-- what the proofs need of the state ranking: `· ≠ .gt` is transitive and `.gt` flips to `.lt`
    (the latter gives totality of `subLe` and `rank x x ≠ .gt`) -/
structure RankOK (rank : Int → Int → Ordering) : Prop where
  trans : ∀ x y z, rank x y ≠ .gt → rank y z ≠ .gt → rank x z ≠ .gt
  flip : ∀ x y, rank x y = .gt → rank y x = .lt

/-- the hypotheses as worded in the task (a total preorder) imply `RankOK` -/
theorem RankOK.of_total_preorder (rank : Int → Int → Ordering)
    (htr : ∀ x y z, rank x y ≠ .gt → rank y z ≠ .gt → rank x z ≠ .gt)
    (hflip : ∀ x y, rank x y = .gt ↔ rank y x = .lt) (_hrefl : ∀ x, rank x x = .eq) : RankOK rank :=
  ⟨htr, fun x y h => (hflip x y).mp h⟩

theorem RankOK.refl {rank : Int → Int → Ordering} (h : RankOK rank) (x : Int) : rank x x ≠ .gt := by
  intro hx
  have := h.flip x x hx
  rw [hx] at this; cases this

/-- non-vacuity: the integer comparison is such a ranking -/
theorem icmp_rankOK : RankOK icmp := by
  constructor
  · intro x y z h1 h2
    rw [icmp_ne_gt_iff] at *; omega
  · intro x y h
    rw [icmp_lt_iff]
    have : ¬ (x ≤ y) := fun hle => (icmp_ne_gt_iff x y).mpr hle h
    omega

theorem icmp_total_preorder :
    (∀ x y z, icmp x y ≠ .gt → icmp y z ≠ .gt → icmp x z ≠ .gt) ∧
    (∀ x y, icmp x y = .gt ↔ icmp y x = .lt) ∧ (∀ x, icmp x x = .eq) := by
  refine ⟨icmp_rankOK.trans, ?_, ?_⟩
  · intro x y
    constructor
    · exact icmp_rankOK.flip x y
    · intro h
      rw [icmp_lt_iff] at h
      cases hc : icmp x y with
      | gt => rfl
      | lt => rw [icmp_lt_iff] at hc; omega
      | eq => rw [icmp_eq_iff] at hc; omega
  · intro x; rw [icmp_eq_iff]

section rank
variable {rank : Int → Int → Ordering}

theorem subLe_refl (hr : RankOK rank) (a : Sub) : subLe rank a a := by
  rw [subLe_iff]; right; exact ⟨rfl, Or.inr ⟨rfl, hr.refl _⟩⟩

theorem subLe_tr (hr : RankOK rank) {a b c : Sub} (h1 : subLe rank a b) (h2 : subLe rank b c) :
    subLe rank a c := subLe_trans rank hr.trans a b c h1 h2

theorem subLe_tr' (hr : RankOK rank) : ∀ a b c : Sub, subLe rank a b → subLe rank b c → subLe rank a c :=
  fun _ _ _ h1 h2 => subLe_tr hr h1 h2

/-- `subCmp a b = .gt → b ≤ a` (indeed `b < a`) -/
theorem subLe_of_gt (hr : RankOK rank) {a b : Sub} (h : subCmp rank a b = .gt) : subLe rank b a := by
  have hn : ¬ subLe rank a b := fun hle => hle h
  rw [subLe_iff] at hn ⊢
  by_cases h1 : b.ub < a.ub
  · left; exact h1
  · right
    have e1 : b.ub = a.ub := by
      rcases Int.lt_trichotomy a.ub b.ub with h' | h' | h'
      · exact absurd (Or.inl h') hn
      · exact h'.symm
      · exact absurd h' h1
    refine ⟨e1, ?_⟩
    by_cases h2 : b.value < a.value
    · left; exact h2
    · right
      have e2 : b.value = a.value := by
        rcases Int.lt_trichotomy a.value b.value with h' | h' | h'
        · exact absurd (Or.inr ⟨e1.symm, Or.inl h'⟩) hn
        · exact h'.symm
        · exact absurd h' h2
      refine ⟨e2, ?_⟩
      have : rank a.state b.state = .gt := by
        cases hc : rank a.state b.state with
        | gt => rfl
        | lt => exact absurd (Or.inr ⟨e1.symm, Or.inr ⟨e2.symm, by rw [hc]; simp⟩⟩) hn
        | eq => exact absurd (Or.inr ⟨e1.symm, Or.inr ⟨e2.symm, by rw [hc]; simp⟩⟩) hn
      rw [hr.flip _ _ this]; simp

/-- `subCmp a b ≠ .lt → b ≤ a` -/
theorem subLe_of_not_lt (hr : RankOK rank) {a b : Sub} (h : subCmp rank a b ≠ .lt) : subLe rank b a := by
  cases hc : subCmp rank a b with
  | gt => exact subLe_of_gt hr hc
  | lt => exact absurd hc h
  | eq =>
    -- equal: both directions hold
    unfold subCmp at hc
    have e1 : icmp a.ub b.ub = .eq := by
      cases h1 : icmp a.ub b.ub <;> simp [h1] at hc ⊢
    simp only [e1] at hc
    have e2 : icmp a.value b.value = .eq := by
      cases h1 : icmp a.value b.value <;> simp [h1] at hc ⊢
    simp only [e2] at hc
    rw [icmp_eq_iff] at e1 e2
    rw [subLe_iff]; right
    refine ⟨e1.symm, Or.inr ⟨e2.symm, ?_⟩⟩
    intro hg
    have := hr.flip _ _ hg
    rw [hc] at this; cases this

end rank

/-! ## list lemmas -/

theorem perm_cons_set {α : Type} (t : List α) (j : Nat) (a b : α) (h : t[j]? = some b) :
    (b :: t.set j a).Perm (a :: t) := by
  induction t generalizing j with
  | nil => simp at h
  | cons y t ih =>
    cases j with
    | zero =>
      simp at h; subst h
      simp only [List.set_cons_zero]
      exact List.Perm.swap _ _ _
    | succ j =>
      simp only [List.getElem?_cons_succ] at h
      simp only [List.set_cons_succ]
      exact (List.Perm.swap y b _).trans (((ih j h).cons y).trans (List.Perm.swap a y _))

/-- exchanging the contents of two positions permutes the list -/
theorem perm_set_set {α : Type} (l : List α) (i j : Nat) (a b : α)
    (hi : l[i]? = some a) (hj : l[j]? = some b) : ((l.set i b).set j a).Perm l := by
  induction l generalizing i j with
  | nil => simp at hi
  | cons x t ih =>
    cases i with
    | zero =>
      simp at hi; subst hi
      cases j with
      | zero => simp at hj; subst hj; simp
      | succ j =>
        simp only [List.getElem?_cons_succ] at hj
        simp only [List.set_cons_zero, List.set_cons_succ]
        exact perm_cons_set t j x b hj
    | succ i =>
      simp only [List.getElem?_cons_succ] at hi
      cases j with
      | zero =>
        simp at hj; subst hj
        simp only [List.set_cons_zero, List.set_cons_succ]
        exact perm_cons_set t i x a hi
      | succ j =>
        simp only [List.getElem?_cons_succ] at hj
        simp only [List.set_cons_succ]
        exact (ih i j hi hj).cons x

/-- pigeonhole: a duplicate-free list contained in a list that is not longer contains it -/
theorem subset_of_nodup_of_length_le {α : Type} {l₁ l₂ : List α} (h₁ : l₁.Nodup)
    (hsub : l₁ ⊆ l₂) (hlen : l₂.length ≤ l₁.length) : l₂ ⊆ l₁ := by
  intro k hk
  apply Classical.byContradiction
  intro hnk
  have hnd : (k :: l₁).Nodup := List.nodup_cons.mpr ⟨hnk, h₁⟩
  have hs : (k :: l₁) ⊆ l₂ := by
    intro x hx
    rcases List.mem_cons.mp hx with h | h
    · subst h; exact hk
    · exact hsub h
  have := hnd.length_le_of_subset hs
  simp at this; omega

/-! ## heaps represented as functions `Nat → α` (the order-theoretic core of the sifting loops) -/
namespace HeapF
variable {α : Type} (le : α → α → Prop)

def swapF (f : Nat → α) (i j : Nat) : Nat → α :=
  fun k => if k = i then f j else if k = j then f i else f k

def updF (f : Nat → α) (i : Nat) (w : α) : Nat → α := fun k => if k = i then w else f k

def parent (i : Nat) : Nat := (i - 1) / 2

def Heap (n : Nat) (f : Nat → α) : Prop := ∀ j, 0 < j → j < n → le (f j) (f (parent j))

/-- heap order everywhere except possibly between `i` and its parent; the children of `i` are
    below the parent of `i` -/
def HeapExcept (n : Nat) (f : Nat → α) (i : Nat) : Prop :=
  (∀ j, 0 < j → j < n → j ≠ i → le (f j) (f (parent j))) ∧
  (∀ c, 0 < i → c < n → 0 < c → parent c = i → le (f c) (f (parent i)))

/-- heap order everywhere except possibly between `i` and its children; the children of `i` are
    below the parent of `i` -/
def HeapExceptDown (n : Nat) (f : Nat → α) (i : Nat) : Prop :=
  (∀ j, 0 < j → j < n → parent j ≠ i → le (f j) (f (parent j))) ∧
  (∀ c, 0 < i → 0 < c → c < n → parent c = i → le (f c) (f (parent i)))

variable {le}

theorem bu_done {n : Nat} {f : Nat → α} {i : Nat} (h : HeapExcept le n f i)
    (hd : i = 0 ∨ le (f i) (f (parent i))) : Heap le n f := by
  intro j hj hjn
  by_cases hji : j = i
  · subst hji
    rcases hd with hd | hd
    · omega
    · exact hd
  · exact h.1 j hj hjn hji

theorem bu_step (htr : ∀ a b c, le a b → le b c → le a c)
    {n : Nat} {f : Nat → α} {i : Nat} (hi : i < n) (h0 : 0 < i)
    (hgt : le (f (parent i)) (f i)) (h : HeapExcept le n f i) :
    HeapExcept le n (swapF f i (parent i)) (parent i) := by
  have hpi : parent i < i := by simp only [parent]; omega
  constructor
  · intro j hj hjn hjp
    by_cases hji : j = i
    · subst hji
      simp only [swapF]
      have hne : parent j ≠ j := Nat.ne_of_lt hpi
      simp [hne]
      exact hgt
    · have hle := h.1 j hj hjn hji
      simp only [swapF]
      by_cases hpj : parent j = i
      · have := h.2 j (by omega) hjn hj hpj
        simp [hji, hjp, hpj]
        exact this
      · by_cases hpj2 : parent j = parent i
        · have hne : parent i ≠ i := Nat.ne_of_lt hpi
          simp [hji, hjp, hpj2, hne]
          exact htr _ _ _ hle (by rw [hpj2]; exact hgt)
        · simp [hji, hjp, hpj, hpj2]
          exact hle
  · intro c hp hcn hc hpc
    simp only [swapF]
    by_cases hci : c = i
    · subst hci
      have hpp : parent (parent c) ≠ c := by simp only [parent]; omega
      have hpp2 : parent (parent c) ≠ parent c := by simp only [parent] at hp ⊢; omega
      simp [hpp, hpp2]
      exact h.1 (parent c) hp (by omega) (by omega)
    · have hcp : c ≠ parent i := by simp only [parent] at hpc ⊢; omega
      have hpp : parent (parent i) ≠ i := by simp only [parent]; omega
      have hpp2 : parent (parent i) ≠ parent i := by simp only [parent] at hp ⊢; omega
      simp [hci, hcp, hpp, hpp2]
      have h1 := h.1 c hc hcn hci
      rw [hpc] at h1
      exact htr _ _ _ h1 (h.1 (parent i) hp (by omega) (by omega))

theorem parent_left (i : Nat) : parent (2 * i + 1) = i := by simp only [parent]; omega
theorem parent_right (i : Nat) : parent (2 * i + 2) = i := by simp only [parent]; omega
theorem child_of_parent (c i : Nat) (hc : 0 < c) (h : parent c = i) : c = 2 * i + 1 ∨ c = 2 * i + 2 := by
  simp only [parent] at h; omega

/-- no child: done -/
theorem bd_done_leaf {n : Nat} {f : Nat → α} {i : Nat} (h : HeapExceptDown le n f i)
    (hn : n ≤ 2 * i + 1) : Heap le n f := by
  intro j hj hjn
  apply h.1 j hj hjn
  intro hp
  have := child_of_parent j i hj hp
  omega

/-- the larger child `k` is below `i`: done -/
theorem bd_done_le (htr : ∀ a b c, le a b → le b c → le a c)
    {n : Nat} {f : Nat → α} {i k : Nat} (h : HeapExceptDown le n f i)
    (hsib : ∀ j, 0 < j → j < n → parent j = i → j ≠ k → le (f j) (f k))
    (hle : le (f k) (f i)) : Heap le n f := by
  intro j hj hjn
  by_cases hp : parent j = i
  · rw [hp]
    by_cases hjk : j = k
    · subst hjk; exact hle
    · exact htr _ _ _ (hsib j hj hjn hp hjk) hle
  · exact h.1 j hj hjn hp

/-- one swap of bubble-down keeps the "except below" shape, one level deeper -/
theorem bd_step {n : Nat} {f : Nat → α} {i k : Nat} (hpk : parent k = i) (hik : i < k) (hkn : k < n)
    (hsib : ∀ j, 0 < j → j < n → parent j = i → j ≠ k → le (f j) (f k))
    (hgt : le (f i) (f k)) (h : HeapExceptDown le n f i) :
    HeapExceptDown le n (swapF f i k) k := by
  constructor
  · intro j hj hjn hjp
    simp only [swapF]
    by_cases hji : j = i
    · subst hji
      have hpj : parent j ≠ j := by simp only [parent]; omega
      have hpjk : parent j ≠ k := by simp only [parent]; omega
      simp only [if_true, hpj, hpjk, if_false]
      exact h.2 k hj (by omega) hkn hpk
    · by_cases hjk : j = k
      · subst hjk
        simp [hji, hpk]
        exact hgt
      · by_cases hp : parent j = i
        · simp only [hji, hjk, hp, if_true, if_false]
          exact hsib j hj hjn hp hjk
        · have hpne : parent j ≠ k := hjp
          simp only [hji, hjk, hp, hpne, if_false]
          exact h.1 j hj hjn hp
  · intro c _ hc hcn hpc
    simp only [swapF]
    have hci : c ≠ i := by simp only [parent] at hpc; omega
    have hck : c ≠ k := by simp only [parent] at hpc; omega
    simp only [hci, hck, if_false, hpk, if_true]
    have := h.1 c hc hcn (by rw [hpc]; omega)
    rw [hpc] at this
    exact this

/-- raising the value stored at `i` leaves heap order intact except between `i` and its parent -/
theorem upd_except (htr : ∀ a b c, le a b → le b c → le a c)
    {n : Nat} {f : Nat → α} {i : Nat} {w : α} (hi : i < n) (h : Heap le n f) (hw : le (f i) w) :
    HeapExcept le n (updF f i w) i := by
  constructor
  · intro j hj hjn hji
    simp only [updF, hji, if_false]
    by_cases hp : parent j = i
    · simp only [hp, if_true]
      have := h j hj hjn
      rw [hp] at this
      exact htr _ _ _ this hw
    · simp only [hp, if_false]
      exact h j hj hjn
  · intro c h0 hcn hc hpc
    have hci : c ≠ i := by simp only [parent] at hpc; omega
    have hpi : parent i ≠ i := by simp only [parent]; omega
    simp only [updF, hci, hpi, if_false]
    have h1 := h c hc hcn
    rw [hpc] at h1
    exact htr _ _ _ h1 (h i h0 hi)

end HeapF

/-! ## the structural invariant of the loops: `pos` inverts `heap` -/

/-- heap/pos coherence: what the sifting loops need and maintain -/
structure NoDup.Coh (f : NoDup) : Prop where
  posLen : f.pos.length = f.nodes.length
  posInv : ∀ (p id : Nat), f.heap[p]? = some id → f.pos[id]? = some p

/-- `f'` differs from `f` only by a permutation of the heap (and the matching `pos`) -/
structure NoDup.Same (f f' : NoDup) : Prop where
  nodes : f'.nodes = f.nodes
  states : f'.states = f.states
  bin : f'.bin = f.bin
  heap : f'.heap.Perm f.heap

theorem NoDup.Same.rfl' (f : NoDup) : f.Same f := ⟨rfl, rfl, rfl, List.Perm.refl _⟩
theorem NoDup.Same.trans' {f g h : NoDup} (a : f.Same g) (b : g.Same h) : f.Same h :=
  ⟨b.nodes.trans a.nodes, b.states.trans a.states, b.bin.trans a.bin, b.heap.trans a.heap⟩
theorem NoDup.Same.len {f g : NoDup} (a : f.Same g) : g.heap.length = f.heap.length := a.heap.length_eq

def dfltSub : Sub := ⟨0, 0, 0, 0, 0⟩

/-- the node at a heap position, as a total function -/
def NoDup.val (f : NoDup) (p : Nat) : Sub := (f.at? p).getD dfltSub

theorem NoDup.Coh.id_lt {f : NoDup} (hC : f.Coh) {p id : Nat} (h : f.heap[p]? = some id) :
    id < f.nodes.length := by
  obtain ⟨l, _⟩ := List.getElem?_eq_some_iff.mp (hC.posInv _ _ h)
  rw [← hC.posLen]; exact l

theorem NoDup.Coh.at_some {f : NoDup} (hC : f.Coh) {p : Nat} (hp : p < f.heap.length) :
    ∃ id a, f.heap[p]? = some id ∧ f.nodes[id]? = some a ∧ f.at? p = some a := by
  have h1 : f.heap[p]? = some f.heap[p] := List.getElem?_eq_getElem hp
  have h3 : f.heap[p] < f.nodes.length := hC.id_lt h1
  refine ⟨f.heap[p], f.nodes[f.heap[p]], h1, List.getElem?_eq_getElem h3, ?_⟩
  simp only [NoDup.at?, h1, List.getElem?_eq_getElem h3]

theorem NoDup.Coh.total {f : NoDup} (hC : f.Coh) : f.Total := by
  intro j hj
  obtain ⟨_, a, _, _, h⟩ := hC.at_some hj
  exact ⟨a, h⟩

theorem NoDup.Coh.at_val {f : NoDup} (hC : f.Coh) {p : Nat} (hp : p < f.heap.length) :
    f.at? p = some (f.val p) := by
  obtain ⟨_, a, _, _, h⟩ := hC.at_some hp
  simp [NoDup.val, h]

theorem NoDup.Coh.heap_inj {f : NoDup} (hC : f.Coh) {p q id : Nat} (h1 : f.heap[p]? = some id)
    (h2 : f.heap[q]? = some id) : p = q := by
  have a := hC.posInv _ _ h1
  have b := hC.posInv _ _ h2
  rw [a] at b; injection b

theorem NoDup.Coh.nodup {f : NoDup} (hC : f.Coh) : f.heap.Nodup := by
  rw [List.nodup_iff_pairwise_ne, List.pairwise_iff_getElem]
  intro i j hi hj hij e
  have h1 : f.heap[i]? = some f.heap[i] := List.getElem?_eq_getElem hi
  have h2 : f.heap[j]? = some f.heap[j] := List.getElem?_eq_getElem hj
  rw [← e] at h2
  have := hC.heap_inj h1 h2
  omega

theorem cmpAt_val (rank : Int → Int → Ordering) {f : NoDup} (hC : f.Coh) {x y : Nat}
    (hx : x < f.heap.length) (hy : y < f.heap.length) :
    f.cmpAt rank x y = some (subCmp rank (f.val x) (f.val y)) := by
  obtain ⟨ix, a, h1, h2, h3⟩ := hC.at_some hx
  obtain ⟨iy, b, k1, k2, k3⟩ := hC.at_some hy
  simp [NoDup.cmpAt, NoDup.val, h1, h2, h3, k1, k2, k3]

/-- one swap: never fails on in-range positions, keeps coherence, permutes the heap, and exchanges
    the two values -/
theorem swapPos_spec (f : NoDup) (me other : Nat) (hC : f.Coh) (hme : me < f.heap.length)
    (ho : other < f.heap.length) (hne : me ≠ other) :
    ∃ f', f.swapPos me other = some f' ∧ f'.Coh ∧ f.Same f' ∧
      f'.val = HeapF.swapF f.val me other := by
  have h1 : f.heap[me]? = some f.heap[me] := List.getElem?_eq_getElem hme
  have h2 : f.heap[other]? = some f.heap[other] := List.getElem?_eq_getElem ho
  generalize f.heap[me] = idMe at h1
  generalize f.heap[other] = idO at h2
  have p1 := hC.posInv _ _ h1
  have p2 := hC.posInv _ _ h2
  obtain ⟨l1, _⟩ := List.getElem?_eq_some_iff.mp p1
  obtain ⟨l2, _⟩ := List.getElem?_eq_some_iff.mp p2
  have hidne : idMe ≠ idO := by
    intro e; subst e; rw [p1] at p2; injection p2 with p2; exact hne p2
  refine ⟨{ f with pos := (f.pos.set idO me).set idMe other,
                   heap := (f.heap.set me idO).set other idMe }, ?_, ?_, ?_, ?_⟩
  · simp [NoDup.swapPos, h1, h2, l1, l2]
  · constructor
    · simp [hC.posLen]
    · intro p id h
      simp only at h ⊢
      by_cases hp1 : p = other
      · subst hp1
        rw [List.getElem?_set_self (by simpa using ho)] at h
        injection h with h; subst h
        rw [List.getElem?_set_self (by simpa using l1)]
      · by_cases hp2 : p = me
        · subst hp2
          rw [List.getElem?_set_ne (Ne.symm hp1), List.getElem?_set_self hme] at h
          injection h with h; subst h
          rw [List.getElem?_set_ne hidne, List.getElem?_set_self l2]
        · rw [List.getElem?_set_ne (Ne.symm hp1), List.getElem?_set_ne (Ne.symm hp2)] at h
          have hq := hC.posInv _ _ h
          have n1 : idMe ≠ id := by
            intro e; subst e; rw [p1] at hq; injection hq with hq; exact hp2 hq.symm
          have n2 : idO ≠ id := by
            intro e; subst e; rw [p2] at hq; injection hq with hq; exact hp1 hq.symm
          rw [List.getElem?_set_ne n1, List.getElem?_set_ne n2]; exact hq
  · exact ⟨rfl, rfl, rfl, perm_set_set f.heap me other idMe idO h1 h2⟩
  · funext k
    simp only [NoDup.val, HeapF.swapF]
    by_cases hk1 : k = me
    · subst hk1
      have : ((f.heap.set k idO).set other idMe)[k]? = some idO := by
        rw [List.getElem?_set_ne (Ne.symm hne), List.getElem?_set_self hme]
      simp only [NoDup.at?, this, h2, if_true]
    · by_cases hk2 : k = other
      · subst hk2
        have : ((f.heap.set me idO).set k idMe)[k]? = some idMe := by
          rw [List.getElem?_set_self (by simpa using ho)]
        simp only [NoDup.at?, this, h1, hk1, if_false, if_true]
      · have : ((f.heap.set me idO).set other idMe)[k]? = f.heap[k]? := by
          rw [List.getElem?_set_ne (Ne.symm hk2), List.getElem?_set_ne (Ne.symm hk1)]
        simp only [NoDup.at?, this, hk1, hk2, if_false]

/-! ## the sifting loops -/

section loops
variable (rank : Int → Int → Ordering)

/-- `bubble_up` from an in-range position: never fails, keeps coherence, only permutes the heap;
    with fuel `> me` (in particular `heap.length + 1`) it is not cut short and restores heap order
    from "heap order except between `me` and its parent" -/
theorem bubbleUpAt_spec (fuel : Nat) (f : NoDup) (me : Nat) (hC : f.Coh) (hme : me < f.heap.length) :
    ∃ f', f.bubbleUpAt rank me fuel = some f' ∧ f'.Coh ∧ f.Same f' ∧
      (RankOK rank → me < fuel → HeapF.HeapExcept (subLe rank) f.heap.length f.val me →
        HeapF.Heap (subLe rank) f'.heap.length f'.val) := by
  induction fuel generalizing f me with
  | zero => exact ⟨f, rfl, hC, NoDup.Same.rfl' f, fun _ h => absurd h (Nat.not_lt_zero _)⟩
  | succ n ih =>
    simp only [NoDup.bubbleUpAt]
    by_cases h0 : me = 0
    · rw [if_pos h0]
      exact ⟨f, rfl, hC, NoDup.Same.rfl' f, fun _ _ hex => HeapF.bu_done hex (Or.inl h0)⟩
    · rw [if_neg h0]
      have hpar : hparent me = HeapF.parent me := hparent_eq me (by omega)
      have hplt : HeapF.parent me < me := by simp only [HeapF.parent]; omega
      rw [cmpAt_val rank hC hme (by omega)]
      cases hc : subCmp rank (f.val me) (f.val (hparent me)) with
      | gt =>
        obtain ⟨f1, hs, hC1, hS1, hv1⟩ := swapPos_spec f me (hparent me) hC hme (by omega) (by omega)
        simp only [hs]
        obtain ⟨f2, hb, hC2, hS2, hH2⟩ := ih f1 (hparent me) hC1 (by rw [hS1.len]; omega)
        refine ⟨f2, hb, hC2, hS1.trans' hS2, ?_⟩
        intro hr hfuel hex
        apply hH2 hr (by omega)
        rw [hS1.len, hv1, hpar]
        rw [hpar] at hc
        exact HeapF.bu_step (subLe_tr' hr) hme (by omega) (subLe_of_gt hr hc) hex
      | lt =>
        refine ⟨f, rfl, hC, NoDup.Same.rfl' f, fun _ _ hex => HeapF.bu_done hex (Or.inr ?_)⟩
        unfold subLe; rw [← hpar, hc]; simp
      | eq =>
        refine ⟨f, rfl, hC, NoDup.Same.rfl' f, fun _ _ hex => HeapF.bu_done hex (Or.inr ?_)⟩
        unfold subLe; rw [← hpar, hc]; simp

/-- `max_child_of`: never fails; `0` exactly when there is no child, otherwise a child that
    dominates its sibling -/
theorem maxChild_spec (f : NoDup) (hC : f.Coh) (me : Nat) :
    (f.maxChild rank me = some 0 ∧ f.heap.length ≤ 2 * me + 1) ∨
    (∃ k, f.maxChild rank me = some k ∧ HeapF.parent k = me ∧ me < k ∧ k < f.heap.length ∧
      (RankOK rank → ∀ j, 0 < j → j < f.heap.length → HeapF.parent j = me → j ≠ k →
        subLe rank (f.val j) (f.val k))) := by
  unfold NoDup.maxChild
  simp only []
  by_cases h1 : me * 2 + 1 ≥ f.heap.length
  · left; rw [if_pos h1]; exact ⟨rfl, by omega⟩
  · rw [if_neg h1]
    right
    by_cases h2 : me * 2 + 2 ≥ f.heap.length
    · rw [if_pos h2]
      refine ⟨me * 2 + 1, rfl, by simp only [HeapF.parent]; omega, by omega, by omega, ?_⟩
      intro _ j hj hjn hp hne
      rcases HeapF.child_of_parent j me hj hp with h | h <;> omega
    · rw [if_neg h2]
      rw [cmpAt_val rank hC (by omega) (by omega)]
      cases hc : subCmp rank (f.val (me * 2 + 1)) (f.val (me * 2 + 2)) with
      | gt =>
        refine ⟨me * 2 + 1, rfl, by simp only [HeapF.parent]; omega, by omega, by omega, ?_⟩
        intro hr j hj hjn hp hne
        rcases HeapF.child_of_parent j me hj hp with h | h
        · omega
        · have : j = me * 2 + 2 := by omega
          subst this
          exact subLe_of_gt hr hc
      | lt =>
        refine ⟨me * 2 + 2, rfl, by simp only [HeapF.parent]; omega, by omega, by omega, ?_⟩
        intro hr j hj hjn hp hne
        rcases HeapF.child_of_parent j me hj hp with h | h
        · have : j = me * 2 + 1 := by omega
          subst this
          unfold subLe; rw [hc]; simp
        · omega
      | eq =>
        refine ⟨me * 2 + 2, rfl, by simp only [HeapF.parent]; omega, by omega, by omega, ?_⟩
        intro hr j hj hjn hp hne
        rcases HeapF.child_of_parent j me hj hp with h | h
        · have : j = me * 2 + 1 := by omega
          subst this
          unfold subLe; rw [hc]; simp
        · omega

/-- `bubble_down`: never fails, keeps coherence, only permutes the heap; with fuel
    `> heap.length - me` it is not cut short and restores heap order from "heap order except
    between `me` and its children" -/
theorem bubbleDownAt_spec (fuel : Nat) (f : NoDup) (me : Nat) (hC : f.Coh) :
    ∃ f', f.bubbleDownAt rank me fuel = some f' ∧ f'.Coh ∧ f.Same f' ∧
      (RankOK rank → f.heap.length - me < fuel →
        HeapF.HeapExceptDown (subLe rank) f.heap.length f.val me →
        HeapF.Heap (subLe rank) f'.heap.length f'.val) := by
  induction fuel generalizing f me with
  | zero => exact ⟨f, rfl, hC, NoDup.Same.rfl' f, fun _ h => absurd h (Nat.not_lt_zero _)⟩
  | succ n ih =>
    simp only [NoDup.bubbleDownAt]
    rcases maxChild_spec rank f hC me with ⟨hk, hn⟩ | ⟨k, hk, hpk, hik, hkn, hsib⟩
    · rw [hk]
      exact ⟨f, rfl, hC, NoDup.Same.rfl' f, fun _ _ hex => HeapF.bd_done_leaf hex hn⟩
    · rw [hk]
      simp only []
      rw [if_neg (by omega : ¬ k = 0)]
      rw [cmpAt_val rank hC (by omega) hkn]
      cases hc : subCmp rank (f.val me) (f.val k) with
      | lt =>
        obtain ⟨f1, hs, hC1, hS1, hv1⟩ := swapPos_spec f me k hC (by omega) hkn (by omega)
        simp only [hs]
        obtain ⟨f2, hb, hC2, hS2, hH2⟩ := ih f1 k hC1
        refine ⟨f2, hb, hC2, hS1.trans' hS2, ?_⟩
        intro hr hfuel hex
        apply hH2 hr (by rw [hS1.len]; omega)
        rw [hS1.len, hv1]
        refine HeapF.bd_step hpk hik hkn (hsib hr) ?_ hex
        unfold subLe; rw [hc]; simp
      | gt =>
        refine ⟨f, rfl, hC, NoDup.Same.rfl' f, fun hr _ hex =>
          HeapF.bd_done_le (subLe_tr' hr) hex (hsib hr) (subLe_of_not_lt hr ?_)⟩
        rw [hc]; simp
      | eq =>
        refine ⟨f, rfl, hC, NoDup.Same.rfl' f, fun hr _ hex =>
          HeapF.bd_done_le (subLe_tr' hr) hex (hsib hr) (subLe_of_not_lt hr ?_)⟩
        rw [hc]; simp

end loops

/-! ### the fuel never cuts a loop short -/

section fuel
variable (rank : Int → Int → Ordering)

/-- **fuel is irrelevant** (`bubble_up`): any two fuels `> me` give the same result, so the loop
    always ends at one of its own exit tests, never because the fuel ran out -/
theorem bubbleUpAt_fuel (fuel fuel' : Nat) (f : NoDup) (me : Nat) (hC : f.Coh)
    (hme : me < f.heap.length) (h1 : me < fuel) (h2 : me < fuel') :
    f.bubbleUpAt rank me fuel = f.bubbleUpAt rank me fuel' := by
  induction fuel generalizing f me fuel' with
  | zero => omega
  | succ n ih =>
    cases fuel' with
    | zero => omega
    | succ n' =>
      simp only [NoDup.bubbleUpAt]
      by_cases h0 : me = 0
      · rw [if_pos h0, if_pos h0]
      · rw [if_neg h0, if_neg h0]
        have hpar := hparent_eq me (by omega)
        have hplt : hparent me < me := by rw [hpar]; omega
        cases hc : f.cmpAt rank me (hparent me) with
        | none => rfl
        | some o =>
          cases o with
          | gt =>
            simp only []
            obtain ⟨f1, hs, hC1, hS1, _⟩ := swapPos_spec f me (hparent me) hC hme (by omega) (by omega)
            simp only [hs]
            exact ih n' f1 (hparent me) hC1 (by rw [hS1.len]; omega) (by omega) (by omega)
          | lt => rfl
          | eq => rfl

/-- **fuel is irrelevant** (`bubble_down`): any two fuels `> heap.length - me` give the same result -/
theorem bubbleDownAt_fuel (fuel fuel' : Nat) (f : NoDup) (me : Nat) (hC : f.Coh)
    (h1 : f.heap.length - me < fuel) (h2 : f.heap.length - me < fuel') :
    f.bubbleDownAt rank me fuel = f.bubbleDownAt rank me fuel' := by
  induction fuel generalizing f me fuel' with
  | zero => omega
  | succ n ih =>
    cases fuel' with
    | zero => omega
    | succ n' =>
      simp only [NoDup.bubbleDownAt]
      rcases maxChild_spec rank f hC me with ⟨hk, _⟩ | ⟨k, hk, hpk, hik, hkn, _⟩
      · rw [hk]; rfl
      · rw [hk]
        simp only []
        have hk0 : ¬ k = 0 := by omega
        rw [if_neg hk0, if_neg hk0]
        cases hc : f.cmpAt rank me k with
        | none => rfl
        | some o =>
          cases o with
          | lt =>
            simp only []
            obtain ⟨f1, hs, hC1, hS1, _⟩ := swapPos_spec f me k hC (by omega) hkn (by omega)
            simp only [hs]
            exact ih n' f1 k hC1 (by rw [hS1.len]; omega) (by rw [hS1.len]; omega)
          | gt => rfl
          | eq => rfl

/-- in particular the fuel `heap.length + 1` the model hands to the loops can be replaced by any
    larger amount without changing `bubbleUp` / `bubbleDown` -/
theorem bubbleUp_fuel (f : NoDup) (id me : Nat) (hC : f.Coh) (hp : f.pos[id]? = some me)
    (hme : me < f.heap.length) (extra : Nat) :
    f.bubbleUp rank id = f.bubbleUpAt rank me (f.heap.length + 1 + extra) := by
  unfold NoDup.bubbleUp
  simp only [hp]
  exact bubbleUpAt_fuel rank _ _ f me hC hme (by omega) (by omega)

theorem bubbleDown_fuel (f : NoDup) (id me : Nat) (hC : f.Coh) (hp : f.pos[id]? = some me)
    (extra : Nat) :
    f.bubbleDown rank id = f.bubbleDownAt rank me (f.heap.length + 1 + extra) := by
  unfold NoDup.bubbleDown
  simp only [hp]
  exact bubbleDownAt_fuel rank _ _ f me hC (by omega) (by omega)
end fuel

/-! ## the invariant -/

/-- well-formedness of the concrete structure, as a `Prop` (equivalent to the Boolean `wfB`,
    see `wf_iff_bool`): `pos` inverts `heap` (hence heap ids are in range and distinct), the
    recycle bin and the heap partition the slots, `states` maps the keys of the live nodes to
    their ids and has no other entries -/
structure NoDup.WF (f : NoDup) : Prop where
  coh : f.Coh
  binLt : ∀ id ∈ f.bin, id < f.nodes.length
  binNodup : f.bin.Nodup
  binDisj : ∀ id ∈ f.bin, id ∉ f.heap
  count : f.heap.length + f.bin.length = f.nodes.length
  statesLen : f.states.length = f.heap.length
  statesKey : ∀ id ∈ f.heap, ∃ n, f.nodes[id]? = some n ∧ lookupKey f.states n.key = some id
  statesNodup : (f.states.map (·.1)).Nodup

/-- **the invariant**: well-formed and heap ordered -/
def NoDup.Inv (rank : Int → Int → Ordering) (f : NoDup) : Prop := f.WF ∧ f.HeapOrd rank

theorem heapOrd_iff (rank : Int → Int → Ordering) {f : NoDup} (hC : f.Coh) :
    f.HeapOrd rank ↔ HeapF.Heap (subLe rank) f.heap.length f.val := by
  constructor
  · intro h j hj hjn
    exact h j hj hjn _ _ (hC.at_val hjn) (hC.at_val (by omega))
  · intro h j hj hjn a b ha hb
    rw [hC.at_val hjn] at ha
    rw [hC.at_val (by omega)] at hb
    injection ha with ha; injection hb with hb
    subst ha; subst hb
    exact h j hj hjn

theorem heapOrdB_iff (rank : Int → Int → Ordering) {f : NoDup} (hC : f.Coh) :
    f.heapOrdB rank = true ↔ f.HeapOrd rank := by
  constructor
  · exact C11.heapOrdB_sound rank f
  · intro h
    simp only [NoDup.heapOrdB, List.all_eq_true, List.mem_range]
    intro j hjn
    by_cases hj : j = 0
    · simp [hj]
    · have h1 := hC.at_val hjn
      have h2 := hC.at_val (show (j - 1) / 2 < f.heap.length by omega)
      have := h j (by omega) hjn _ _ h1 h2
      simp only [h1, h2]
      simp only [subLe] at this
      simp [hj, this]

theorem mem_heap_iff {f : NoDup} {id : Nat} : id ∈ f.heap ↔ ∃ p : Nat, f.heap[p]? = some id :=
  List.mem_iff_getElem?

theorem wf_iff_bool (f : NoDup) : f.WF ↔ f.wfB = true := by
  constructor
  · intro h
    simp only [NoDup.wfB, Bool.and_eq_true, allLt, List.all_eq_true, decide_eq_true_eq, beq_iff_eq,
      List.mem_range]
    refine ⟨⟨⟨⟨⟨⟨⟨⟨⟨⟨h.coh.posLen, ?_⟩, h.coh.nodup⟩, ?_⟩, h.binLt⟩, h.binNodup⟩, ?_⟩, h.count⟩,
      h.statesLen⟩, ?_⟩, h.statesNodup⟩
    · intro x hx
      obtain ⟨p, hp⟩ := mem_heap_iff.mp hx
      exact h.coh.id_lt hp
    · intro p hp
      have h1 : f.heap[p]? = some f.heap[p] := List.getElem?_eq_getElem hp
      simp only [h1]
      exact beq_iff_eq.mpr (h.coh.posInv _ _ h1)
    · intro x hx
      have := h.binDisj x hx
      simpa using this
    · intro x hx
      obtain ⟨n, h1, h2⟩ := h.statesKey x hx
      simp only [h1]; exact beq_iff_eq.mpr h2
  · intro h
    simp only [NoDup.wfB, Bool.and_eq_true, allLt, List.all_eq_true, decide_eq_true_eq, beq_iff_eq,
      List.mem_range] at h
    obtain ⟨⟨⟨⟨⟨⟨⟨⟨⟨⟨h1, h2⟩, h3⟩, h4⟩, h5⟩, h6⟩, h7⟩, h8⟩, h9⟩, h10⟩, h11⟩ := h
    refine ⟨⟨h1, ?_⟩, h5, h6, ?_, h8, h9, ?_, h11⟩
    · intro p id hp
      obtain ⟨l, _⟩ := List.getElem?_eq_some_iff.mp hp
      have := h4 p l
      simp only [hp] at this
      exact beq_iff_eq.mp this
    · intro x hx
      have := h7 x hx
      simpa using this
    · intro x hx
      have := h10 x hx
      cases hn : f.nodes[x]? with
      | none => simp [hn] at this
      | some n => simp only [hn] at this; exact ⟨n, rfl, beq_iff_eq.mp this⟩

/-- the `Prop` invariant is exactly what the driver checks at run time -/
theorem inv_iff_bool (rank : Int → Int → Ordering) (f : NoDup) :
    f.Inv rank ↔ (f.wfB = true ∧ f.heapOrdB rank = true) := by
  unfold NoDup.Inv
  constructor
  · intro ⟨h1, h2⟩
    exact ⟨(wf_iff_bool f).mp h1, (heapOrdB_iff rank h1.coh).mpr h2⟩
  · intro ⟨h1, h2⟩
    have := (wf_iff_bool f).mpr h1
    exact ⟨this, (heapOrdB_iff rank this.coh).mp h2⟩

/-! ### the key map -/

theorem lookupKey_mem {m : List (FKey × Nat)} {k : FKey} {id : Nat} (h : lookupKey m k = some id) :
    k ∈ m.map (·.1) := by
  induction m with
  | nil => simp [lookupKey] at h
  | cons p r ih =>
    obtain ⟨k', i'⟩ := p
    simp only [lookupKey] at h
    by_cases hk : k' = k
    · simp [hk]
    · rw [if_neg hk] at h
      simp only [List.map_cons, List.mem_cons]
      exact Or.inr (ih h)

theorem lookupKey_none {m : List (FKey × Nat)} {k : FKey} (h : lookupKey m k = none) :
    k ∉ m.map (·.1) := by
  induction m with
  | nil => simp
  | cons p r ih =>
    obtain ⟨k', i'⟩ := p
    simp only [lookupKey] at h
    by_cases hk : k' = k
    · rw [if_pos hk] at h; cases h
    · rw [if_neg hk] at h
      simp only [List.map_cons, List.mem_cons, not_or]
      exact ⟨fun e => hk e.symm, ih h⟩

theorem lookupKey_removeKey_ne (m : List (FKey × Nat)) {k k' : FKey} (h : k' ≠ k) :
    lookupKey (removeKey m k) k' = lookupKey m k' := by
  induction m with
  | nil => rfl
  | cons p r ih =>
    obtain ⟨k0, i0⟩ := p
    by_cases h0 : k0 = k
    · have e : removeKey ((k0, i0) :: r) k = removeKey r k := by simp [removeKey, h0]
      rw [e, ih]
      simp only [lookupKey]
      rw [if_neg]; rw [h0]; exact fun e => h e.symm
    · have e : removeKey ((k0, i0) :: r) k = (k0, i0) :: removeKey r k := by simp [removeKey, h0]
      rw [e]; simp only [lookupKey]; rw [ih]

theorem removeKey_of_not_mem (m : List (FKey × Nat)) {k : FKey} (h : k ∉ m.map (·.1)) :
    removeKey m k = m := by
  unfold removeKey
  rw [List.filter_eq_self]
  intro p hp
  simp only [ne_eq, decide_eq_true_eq]
  intro e
  exact h (List.mem_map.mpr ⟨p, hp, e⟩)

theorem removeKey_length (m : List (FKey × Nat)) {k : FKey} (hnd : (m.map (·.1)).Nodup)
    (hk : k ∈ m.map (·.1)) : (removeKey m k).length + 1 = m.length := by
  induction m with
  | nil => simp at hk
  | cons p r ih =>
    obtain ⟨k0, i0⟩ := p
    simp only [List.map_cons, List.nodup_cons] at hnd
    by_cases h0 : k0 = k
    · subst h0
      have : removeKey ((k0, i0) :: r) k0 = removeKey r k0 := by
        simp [removeKey]
      rw [this, removeKey_of_not_mem r hnd.1]; rfl
    · have : removeKey ((k0, i0) :: r) k = (k0, i0) :: removeKey r k := by
        simp [removeKey, h0]
      rw [this]
      simp only [List.map_cons, List.mem_cons] at hk
      rcases hk with hk | hk
      · exact absurd hk.symm h0
      · simp only [List.length_cons]
        rw [ih hnd.2 hk]

theorem removeKey_nodup (m : List (FKey × Nat)) (k : FKey) (hnd : (m.map (·.1)).Nodup) :
    ((removeKey m k).map (·.1)).Nodup :=
  List.Nodup.sublist (List.Sublist.map _ List.filter_sublist) hnd

/-- live nodes with the same key are the same slot -/
theorem NoDup.WF.key_inj {f : NoDup} (hW : f.WF) {i j : Nat} (hi : i ∈ f.heap) (hj : j ∈ f.heap)
    {a b : Sub} (ha : f.nodes[i]? = some a) (hb : f.nodes[j]? = some b) (hk : a.key = b.key) :
    i = j := by
  obtain ⟨a', ha', la⟩ := hW.statesKey i hi
  obtain ⟨b', hb', lb⟩ := hW.statesKey j hj
  rw [ha] at ha'; rw [hb] at hb'
  injection ha' with ha'; injection hb' with hb'
  subst ha'; subst hb'
  rw [hk, lb] at la
  injection la with la; exact la.symm

/-- `states` has no stale entry (pigeonhole on `states.length = heap.length`): whatever it maps
    a key to is a live slot holding a node with that key -/
theorem NoDup.WF.lookup_sound {f : NoDup} (hW : f.WF) {k : FKey} {id : Nat}
    (h : lookupKey f.states k = some id) :
    id ∈ f.heap ∧ ∃ n, f.nodes[id]? = some n ∧ n.key = k := by
  let g : Nat → FKey := fun i => match f.nodes[i]? with | some n => n.key | none => ⟨0, 0⟩
  have hg : ∀ i ∈ f.heap, ∃ n, f.nodes[i]? = some n ∧ g i = n.key ∧ lookupKey f.states (g i) = some i := by
    intro i hi
    obtain ⟨n, h1, h2⟩ := hW.statesKey i hi
    have : g i = n.key := by simp only [g, h1]
    exact ⟨n, h1, this, this ▸ h2⟩
  have hsub : f.heap.map g ⊆ f.states.map (·.1) := by
    intro x hx
    obtain ⟨i, hi, e⟩ := List.mem_map.mp hx
    obtain ⟨n, _, _, h3⟩ := hg i hi
    rw [← e]; exact lookupKey_mem h3
  have hnd : (f.heap.map g).Nodup := by
    rw [List.nodup_iff_pairwise_ne, List.pairwise_map]
    refine List.Pairwise.imp_of_mem ?_ hW.coh.nodup
    intro a b ha hb hab e
    obtain ⟨_, _, _, h3⟩ := hg a ha
    obtain ⟨_, _, _, h4⟩ := hg b hb
    rw [e, h4] at h3
    injection h3 with h3; exact hab h3.symm
  have hlen : (f.states.map (·.1)).length ≤ (f.heap.map g).length := by
    simp [hW.statesLen]
  have hk := subset_of_nodup_of_length_le hnd hsub hlen (lookupKey_mem h)
  obtain ⟨i, hi, e⟩ := List.mem_map.mp hk
  obtain ⟨n, h1, h2, h3⟩ := hg i hi
  rw [e, h] at h3
  injection h3 with h3; subst h3
  exact ⟨hi, n, h1, by rw [← h2, e]⟩

/-- the loops preserve well-formedness -/
theorem NoDup.WF.of_same {f f' : NoDup} (hW : f.WF) (hS : f.Same f') (hC : f'.Coh) : f'.WF := by
  refine ⟨hC, ?_, ?_, ?_, ?_, ?_, ?_, ?_⟩
  · rw [hS.nodes, hS.bin]; exact hW.binLt
  · rw [hS.bin]; exact hW.binNodup
  · rw [hS.bin]; intro id hid hm
    exact hW.binDisj id hid (hS.heap.mem_iff.mp hm)
  · rw [hS.len, hS.bin, hS.nodes]; exact hW.count
  · rw [hS.len, hS.states]; exact hW.statesLen
  · rw [hS.states, hS.nodes]; intro id hid
    exact hW.statesKey id (hS.heap.mem_iff.mp hid)
  · rw [hS.states]; exact hW.statesNodup

/-- the abstraction is insensitive to the sifting -/
theorem absNoDup_same {f f' : NoDup} (hS : f.Same f') : (absNoDup f').Perm (absNoDup f) := by
  unfold C11.absNoDup
  rw [hS.nodes]
  exact hS.heap.filterMap _

/-! ## `pop` -/

theorem pop_shape (id : Nat) (rest : List Nat) (hne : rest ≠ []) :
    ∃ m last, rest = m ++ [last] ∧ (id :: rest).getLast?.getD id = last ∧
      ((id :: rest).set 0 last).dropLast = last :: m := by
  refine ⟨rest.dropLast, rest.getLast hne, (List.dropLast_concat_getLast hne).symm, ?_, ?_⟩
  · cases rest with
    | nil => exact absurd rfl hne
    | cons r rs => simp [List.getLast?_eq_some_getLast]
  · cases rest with
    | nil => exact absurd rfl hne
    | cons r rs => simp

/-- `at?` / `val` only look at `heap` and `nodes` -/
theorem val_congr {f g : NoDup} (h1 : g.heap = f.heap) (h2 : g.nodes = f.nodes) : g.val = f.val := by
  funext p; simp only [NoDup.val, NoDup.at?, h1, h2]

theorem heapOrd_congr (rank : Int → Int → Ordering) {f g : NoDup} (h1 : g.heap = f.heap)
    (h2 : g.nodes = f.nodes) (h : f.HeapOrd rank) : g.HeapOrd rank := by
  intro j hj hjn a b ha hb
  simp only [NoDup.at?, h1, h2] at ha hb
  rw [h1] at hjn
  exact h j hj hjn a b ha hb

section
variable (rank : Int → Int → Ordering)

/-- everything about `pop` under well-formedness -/
theorem pop_spec (f : NoDup) (hW : f.WF) :
    (f.heap = [] ∧ f.pop rank = some (f, none)) ∨
    (∃ id z f', f.heap[0]? = some id ∧ f.nodes[id]? = some z ∧ f.pop rank = some (f', some z) ∧
      f'.WF ∧ f.heap.Perm (id :: f'.heap) ∧ f'.nodes = f.nodes ∧
      (RankOK rank → f.HeapOrd rank → f'.HeapOrd rank)) := by
  rcases (show f.heap = [] ∨ ∃ id rest, f.heap = id :: rest by cases f.heap <;> simp) with
    hh | ⟨id, rest, hh⟩
  · left; exact ⟨hh, C11.pop_empty rank f hh⟩
  · right
    have hid : id ∈ f.heap := by rw [hh]; exact List.mem_cons_self
    obtain ⟨z, hz, hzk⟩ := hW.statesKey id hid
    have hidlt : id < f.nodes.length := (List.getElem?_eq_some_iff.mp hz).1
    have hidbin : id ∉ f.bin := fun hb => hW.binDisj id hb hid
    have hzmem : z.key ∈ f.states.map (·.1) := lookupKey_mem hzk
    by_cases hr : rest = []
    · subst hr
      refine ⟨id, z, { f with heap := [], bin := id :: f.bin, states := removeKey f.states z.key },
        by simp [hh], hz, ?_, ?_, ?_, rfl, ?_⟩
      · unfold NoDup.pop; simp [hh, hz]
      · have hlen : f.heap.length = 1 := by rw [hh]; rfl
        refine ⟨⟨hW.coh.posLen, fun p i h => by simp at h⟩, ?_, ?_, ?_, ?_, ?_, ?_, ?_⟩
        · intro i hi
          rcases List.mem_cons.mp hi with h | h
          · subst h; exact hidlt
          · exact hW.binLt i h
        · exact List.nodup_cons.mpr ⟨hidbin, hW.binNodup⟩
        · intro i _ h; simp at h
        · have := hW.count; simp only [List.length_nil, List.length_cons]; omega
        · have := removeKey_length f.states hW.statesNodup hzmem
          have := hW.statesLen
          simp only [List.length_nil]; omega
        · intro i h; simp at h
        · exact removeKey_nodup _ _ hW.statesNodup
      · rw [hh]
      · intro _ _ j hj hjn; simp at hjn
    · obtain ⟨m, last, hrest, hl, hdl⟩ := pop_shape id rest hr
      subst hrest
      have hlastpos : f.heap[m.length + 1]? = some last := by
        rw [hh]; simp
      have hposlast := hW.coh.posInv _ _ hlastpos
      have hlt : last < f.pos.length := (List.getElem?_eq_some_iff.mp hposlast).1
      -- the state handed to `bubble_down`
      have hC1 : NoDup.Coh { f with heap := last :: m, pos := f.pos.set last 0 } := by
        constructor
        · simp [hW.coh.posLen]
        · intro p i h
          simp only at h ⊢
          cases p with
          | zero =>
            simp at h; subst h
            exact List.getElem?_set_self hlt
          | succ q =>
            simp only [List.getElem?_cons_succ] at h
            have hq : q < m.length := (List.getElem?_eq_some_iff.mp h).1
            have h' : f.heap[q + 1]? = some i := by
              rw [hh]; simp only [List.getElem?_cons_succ]
              rw [List.getElem?_append_left hq]; exact h
            have hne : last ≠ i := by
              intro e; subst e
              have := hW.coh.heap_inj h' hlastpos
              omega
            rw [List.getElem?_set_ne hne]
            exact hW.coh.posInv _ _ h'
      obtain ⟨f2, hb, hC2, hS2, hH2⟩ := bubbleDownAt_spec rank (m.length + 1 + 1) _ 0 hC1
      have hbd : NoDup.bubbleDown rank { f with heap := last :: m, pos := f.pos.set last 0 } last = some f2 := by
        unfold NoDup.bubbleDown
        simp only [List.getElem?_set_self hlt]
        exact hb
      have hS2n : f2.nodes = f.nodes := hS2.nodes
      have hS2s : f2.states = f.states := hS2.states
      have hS2b : f2.bin = f.bin := hS2.bin
      have hS2h : f2.heap.Perm (last :: m) := hS2.heap
      have hperm : f.heap.Perm (id :: f2.heap) := by
        rw [hh]
        refine List.Perm.cons id ?_
        exact (List.perm_append_singleton last m).trans hS2h.symm
      have hnd : (id :: f2.heap).Nodup := hW.coh.nodup.perm hperm
      have hidn2 : id ∉ f2.heap := (List.nodup_cons.mp hnd).1
      have hsub : ∀ i, i ∈ f2.heap → i ∈ f.heap := fun i hi =>
        hperm.mem_iff.mpr (List.mem_cons_of_mem _ hi)
      have hlen2 : f2.heap.length + 1 = f.heap.length := by
        have := hperm.length_eq; simp at this; omega
      refine ⟨id, z, { f2 with bin := id :: f2.bin, states := removeKey f2.states z.key },
        by simp [hh], hz, ?_, ?_, hperm, hS2n, ?_⟩
      · unfold NoDup.pop
        simp only [hh]
        simp only [hl, hdl]
        have : ¬ ((id :: (m ++ [last])).length = 1) := by simp
        simp only [if_neg this]
        simp only [hlt, if_true]
        rw [hbd]
        simp only [hS2n, hz]
      · refine ⟨⟨hC2.posLen, hC2.posInv⟩, ?_, ?_, ?_, ?_, ?_, ?_, ?_⟩
        · intro i hi
          simp only [hS2n, hS2b] at hi ⊢
          rcases List.mem_cons.mp hi with h | h
          · subst h; exact hidlt
          · exact hW.binLt i h
        · simp only [hS2b]
          exact List.nodup_cons.mpr ⟨hidbin, hW.binNodup⟩
        · intro i hi hm
          simp only [hS2b] at hi
          simp only at hm
          rcases List.mem_cons.mp hi with h | h
          · subst h; exact hidn2 hm
          · exact hW.binDisj i h (hsub i hm)
        · have := hW.count
          simp only [hS2b, hS2n, List.length_cons]; omega
        · have := removeKey_length f.states hW.statesNodup hzmem
          have := hW.statesLen
          simp only [hS2s]; omega
        · intro i hi
          simp only at hi
          simp only [hS2n, hS2s]
          obtain ⟨n, hn1, hn2⟩ := hW.statesKey i (hsub i hi)
          refine ⟨n, hn1, ?_⟩
          rw [lookupKey_removeKey_ne _ ?_]; exact hn2
          intro e
          have := hW.key_inj (hsub i hi) hid hn1 hz e
          subst this; exact hidn2 hi
        · simp only [hS2s]; exact removeKey_nodup _ _ hW.statesNodup
      · intro hr hord
        apply heapOrd_congr rank (f := f2) rfl rfl
        rw [heapOrd_iff rank hC2]
        have hH := (heapOrd_iff rank hW.coh).mp hord
        apply hH2 hr (by simp)
        -- values of the intermediate state
        have hv : ∀ p, 0 < p → p < m.length + 1 →
            NoDup.val { f with heap := last :: m, pos := f.pos.set last 0 } p = f.val p := by
          intro p hp hpm
          simp only [NoDup.val, NoDup.at?, hh]
          cases p with
          | zero => omega
          | succ q =>
            simp only [List.getElem?_cons_succ]
            rw [List.getElem?_append_left (by omega)]
        constructor
        · intro j hj hjn hpj
          simp only [List.length_cons] at hjn
          have hp0 : 0 < HeapF.parent j := by omega
          have hpl : HeapF.parent j < m.length + 1 := by simp only [HeapF.parent]; omega
          rw [hv j hj hjn, hv _ hp0 hpl]
          exact hH j hj (by rw [hh]; simp; omega)
        · intro c h0; omega
end

/-! ## `push` -/

theorem filterMap_congr' {α β : Type} {f g : α → Option β} {l : List α} (h : ∀ x ∈ l, f x = g x) :
    l.filterMap f = l.filterMap g := by
  induction l with
  | nil => rfl
  | cons a t ih =>
    simp only [List.filterMap_cons, h a List.mem_cons_self]
    rw [ih (fun x hx => h x (List.mem_cons_of_mem _ hx))]

section
variable (rank : Int → Int → Ordering)

/-- `push` on a key that is present: the stored node becomes `coalesce old x`, then `bubble_up`
    exactly when the enlarged copy of `x` ranks above the old node -/
theorem push_existing_eq (f : NoDup) (x old : Sub) (id : Nat) (hl : lookupKey f.states x.key = some id)
    (ho : f.nodes[id]? = some old) :
    f.push rank x =
      if subCmp rank { x with ub := max x.ub old.ub } old = .gt
      then NoDup.bubbleUp rank { f with nodes := f.nodes.set id (coalesce old x) } id
      else some { f with nodes := f.nodes.set id (coalesce old x) } := by
  obtain ⟨hid, hold⟩ := List.getElem?_eq_some_iff.mp ho
  unfold NoDup.push
  simp only [hl, ho, beq_iff_eq]
  by_cases hv : x.value > old.value <;> by_cases hu : x.ub > old.ub
  · have hm : max x.ub old.ub = x.ub := by omega
    simp [hv, hu, hm, coalesce, hid]
  · have hm : max x.ub old.ub = old.ub := by omega
    simp [hv, hu, hm, coalesce]
  · have hm : max x.ub old.ub = x.ub := by omega
    simp [hv, hu, hm, coalesce, ho]
  · have hm : max x.ub old.ub = old.ub := by omega
    have : f.nodes.set id old = f.nodes := by rw [← hold]; exact List.set_getElem_self hid
    simp [hv, hu, hm, coalesce, this]

theorem coalesce_key (old x : Sub) (hk : old.key = x.key) : (coalesce old x).key = x.key := by
  unfold coalesce; split
  · rfl
  · exact hk

variable {rank}

/-- the survivor ranks at least as high as the old entry -/
theorem coalesce_ge (hr : RankOK rank) (old x : Sub) : subLe rank old (coalesce old x) := by
  unfold coalesce
  split
  · next hv =>
    rw [subLe_iff]; dsimp only
    by_cases h : old.ub < max x.ub old.ub
    · exact Or.inl h
    · exact Or.inr ⟨by omega, Or.inl (by omega)⟩
  · rw [subLe_iff]; dsimp only
    by_cases h : old.ub < max x.ub old.ub
    · exact Or.inl h
    · exact Or.inr ⟨by omega, Or.inr ⟨rfl, hr.refl _⟩⟩

/-- when the code decides not to bubble up, the survivor does not rank above the old entry -/
theorem coalesce_le_of_not_up (hr : RankOK rank) (old x : Sub)
    (h : subCmp rank { x with ub := max x.ub old.ub } old ≠ .gt) : subLe rank (coalesce old x) old := by
  unfold coalesce
  split
  · exact h
  · have h' : subLe rank { x with ub := max x.ub old.ub } old := h
    rw [subLe_iff] at h' ⊢; dsimp only at h' ⊢
    exact Or.inr ⟨by omega, Or.inr ⟨rfl, hr.refl _⟩⟩

theorem KeyedPQ.push_of_fresh (q : List Sub) (x : Sub) (h : ∀ y ∈ q, y.key ≠ x.key) :
    KeyedPQ.push q x = q ++ [x] := by
  induction q with
  | nil => rfl
  | cons y r ih =>
    simp only [KeyedPQ.push]
    rw [if_neg (h y List.mem_cons_self)]
    rw [ih (fun z hz => h z (List.mem_cons_of_mem _ hz))]; rfl

/-- replacing the node of the (unique) slot with key `x.key` by the survivor is the
    specification's push, position by position -/
theorem filterMap_set_push (nodes : List Sub) (l : List Nat) (id : Nat) (old x : Sub)
    (hnd : l.Nodup) (hid : id ∈ l) (ho : nodes[id]? = some old) (hk : old.key = x.key)
    (hinj : ∀ i ∈ l, i ≠ id → ∀ n, nodes[i]? = some n → n.key ≠ x.key) :
    l.filterMap (fun i => (nodes.set id (coalesce old x))[i]?) =
      KeyedPQ.push (l.filterMap (fun i => nodes[i]?)) x := by
  have hidlt : id < nodes.length := (List.getElem?_eq_some_iff.mp ho).1
  induction l with
  | nil => cases hid
  | cons i t ih =>
    obtain ⟨hit, hndt⟩ := List.nodup_cons.mp hnd
    by_cases hi : i = id
    · subst hi
      have h1 : (nodes.set i (coalesce old x))[i]? = some (coalesce old x) := List.getElem?_set_self hidlt
      rw [List.filterMap_cons_some h1, List.filterMap_cons_some ho]
      simp only [KeyedPQ.push]
      rw [if_pos hk]
      congr 1
      apply filterMap_congr'
      intro j hj
      have : i ≠ j := fun e => hit (e ▸ hj)
      exact List.getElem?_set_ne this
    · have hidt : id ∈ t := by
        rcases List.mem_cons.mp hid with h | h
        · exact absurd h.symm hi
        · exact h
      have h1 : (nodes.set id (coalesce old x))[i]? = nodes[i]? := List.getElem?_set_ne (Ne.symm hi)
      have ih' := ih hndt hidt (fun j hj => hinj j (List.mem_cons_of_mem _ hj))
      cases hn : nodes[i]? with
      | none =>
        rw [List.filterMap_cons_none (h1.trans hn), List.filterMap_cons_none hn]; exact ih'
      | some n =>
        rw [List.filterMap_cons_some (h1.trans hn), List.filterMap_cons_some hn]
        simp only [KeyedPQ.push]
        rw [if_neg (hinj i List.mem_cons_self hi n hn), ih']

variable (rank)

/-- `push`, key already present -/
theorem push_existing_spec (f : NoDup) (hW : f.WF) (x : Sub) (id : Nat)
    (hl : lookupKey f.states x.key = some id) :
    ∃ f', f.push rank x = some f' ∧ f'.WF ∧ (absNoDup f').Perm (KeyedPQ.push (absNoDup f) x) ∧
      (RankOK rank → f.HeapOrd rank → f'.HeapOrd rank) := by
  obtain ⟨hidmem, old, ho, hkey⟩ := hW.lookup_sound hl
  obtain ⟨me, hme⟩ := mem_heap_iff.mp hidmem
  have hmelt : me < f.heap.length := (List.getElem?_eq_some_iff.mp hme).1
  have hpos := hW.coh.posInv _ _ hme
  have hidlt : id < f.nodes.length := (List.getElem?_eq_some_iff.mp ho).1
  -- the state after the node update
  have hCg : NoDup.Coh { f with nodes := f.nodes.set id (coalesce old x) } :=
    ⟨by simp [hW.coh.posLen], hW.coh.posInv⟩
  have hWg : NoDup.WF { f with nodes := f.nodes.set id (coalesce old x) } := by
    refine ⟨hCg, ?_, hW.binNodup, hW.binDisj, ?_, hW.statesLen, ?_, hW.statesNodup⟩
    · intro i hi; simp only [List.length_set]; exact hW.binLt i hi
    · simp only [List.length_set]; exact hW.count
    · intro i hi
      simp only at hi ⊢
      by_cases e : i = id
      · subst e
        exact ⟨coalesce old x, List.getElem?_set_self hidlt, by rw [coalesce_key old x hkey]; exact hl⟩
      · rw [List.getElem?_set_ne (Ne.symm e)]
        exact hW.statesKey i hi
  have hvme : f.val me = old := by simp [NoDup.val, NoDup.at?, hme, ho]
  have hvg : NoDup.val { f with nodes := f.nodes.set id (coalesce old x) } =
      HeapF.updF f.val me (coalesce old x) := by
    funext k
    simp only [NoDup.val, NoDup.at?, HeapF.updF]
    by_cases hk : k = me
    · subst hk
      simp [hme, List.getElem?_set_self hidlt]
    · rw [if_neg hk]
      cases hh : f.heap[k]? with
      | none => rfl
      | some i =>
        have : id ≠ i := by
          intro e; subst e
          exact hk (hW.coh.heap_inj hh hme)
        simp only [List.getElem?_set_ne this]
  have habs : absNoDup { f with nodes := f.nodes.set id (coalesce old x) } =
      KeyedPQ.push (absNoDup f) x := by
    unfold C11.absNoDup
    refine filterMap_set_push f.nodes f.heap id old x hW.coh.nodup hidmem ho hkey ?_
    intro i hi hne n hn e
    exact hne (hW.key_inj hi hidmem hn ho (e.trans hkey.symm))
  have hexc : RankOK rank → f.HeapOrd rank →
      HeapF.HeapExcept (subLe rank) f.heap.length (HeapF.updF f.val me (coalesce old x)) me := by
    intro hr hord
    refine HeapF.upd_except (subLe_tr' hr) hmelt ((heapOrd_iff rank hW.coh).mp hord) ?_
    rw [hvme]; exact coalesce_ge hr old x
  rw [push_existing_eq rank f x old id hl ho]
  by_cases hup : subCmp rank { x with ub := max x.ub old.ub } old = .gt
  · rw [if_pos hup]
    obtain ⟨f2, hb, hC2, hS2, hH2⟩ := bubbleUpAt_spec rank (f.heap.length + 1) _ me hCg hmelt
    refine ⟨f2, ?_, hWg.of_same hS2 hC2, (absNoDup_same hS2).trans (List.Perm.of_eq habs), ?_⟩
    · unfold NoDup.bubbleUp
      simp only [hpos]
      exact hb
    · intro hr hord
      rw [heapOrd_iff rank hC2]
      apply hH2 hr (by omega)
      rw [hvg]
      exact hexc hr hord
  · rw [if_neg hup]
    refine ⟨_, rfl, hWg, List.Perm.of_eq habs, ?_⟩
    intro hr hord
    rw [heapOrd_iff rank hCg, hvg]
    refine HeapF.bu_done (hexc hr hord) ?_
    by_cases h0 : me = 0
    · exact Or.inl h0
    · right
      have hpne : HeapF.parent me ≠ me := by simp only [HeapF.parent]; omega
      simp only [HeapF.updF, hpne, if_true, if_false]
      have h1 := coalesce_le_of_not_up hr old x hup
      have h2 := (heapOrd_iff rank hW.coh).mp hord me (by omega) hmelt
      rw [hvme] at h2
      exact subLe_tr hr h1 h2

end

/-- the state `push` builds for a new key, just before `bubble_up` (both ways of obtaining the
    slot: a fresh one or one from the recycle bin) -/
structure PushMid (f f1 : NoDup) (x : Sub) (id : Nat) : Prop where
  heap : f1.heap = f.heap ++ [id]
  states : f1.states = (x.key, id) :: f.states
  posLen : f1.pos.length = f1.nodes.length
  idNew : id ∉ f.heap
  nodeId : f1.nodes[id]? = some x
  nodeOld : ∀ i ∈ f.heap, f1.nodes[i]? = f.nodes[i]?
  posId : f1.pos[id]? = some f.heap.length
  posOld : ∀ i ∈ f.heap, f1.pos[i]? = f.pos[i]?
  binLt : ∀ i ∈ f1.bin, i < f1.nodes.length
  binNodup : f1.bin.Nodup
  binDisj : ∀ i ∈ f1.bin, i ∉ f.heap ∧ i ≠ id
  count : f.heap.length + 1 + f1.bin.length = f1.nodes.length

theorem PushMid.heap_get {f f1 : NoDup} {x : Sub} {id : Nat} (hM : PushMid f f1 x id) {p i : Nat}
    (h : f1.heap[p]? = some i) :
    (p < f.heap.length ∧ f.heap[p]? = some i) ∨ (p = f.heap.length ∧ i = id) := by
  rw [hM.heap, List.getElem?_append] at h
  by_cases hp : p < f.heap.length
  · rw [if_pos hp] at h; exact Or.inl ⟨hp, h⟩
  · rw [if_neg hp] at h
    right
    obtain ⟨l, e⟩ := List.getElem?_eq_some_iff.mp h
    simp only [List.length_singleton] at l
    have hp0 : p - f.heap.length = 0 := by omega
    simp only [hp0, List.getElem_cons_zero] at e
    exact ⟨by omega, e.symm⟩

theorem PushMid.wf {f f1 : NoDup} {x : Sub} {id : Nat} (hW : f.WF)
    (hl : lookupKey f.states x.key = none) (hM : PushMid f f1 x id) : f1.WF := by
  refine ⟨⟨hM.posLen, ?_⟩, hM.binLt, hM.binNodup, ?_, ?_, ?_, ?_, ?_⟩
  · intro p i h
    rcases hM.heap_get h with ⟨_, h'⟩ | ⟨hp, hi⟩
    · rw [hM.posOld i (List.mem_of_getElem? h')]
      exact hW.coh.posInv _ _ h'
    · subst hp; subst hi; exact hM.posId
  · intro i hi hm
    rw [hM.heap, List.mem_append, List.mem_singleton] at hm
    have := hM.binDisj i hi
    rcases hm with hm | hm
    · exact this.1 hm
    · exact this.2 hm
  · rw [hM.heap]; simp only [List.length_append, List.length_singleton]; exact hM.count
  · rw [hM.heap, hM.states]; simp [hW.statesLen]
  · intro i hi
    rw [hM.heap, List.mem_append, List.mem_singleton] at hi
    rw [hM.states]
    rcases hi with hi | hi
    · obtain ⟨n, h1, h2⟩ := hW.statesKey i hi
      refine ⟨n, by rw [hM.nodeOld i hi]; exact h1, ?_⟩
      simp only [lookupKey]
      rw [if_neg]; exact h2
      intro e
      rw [← e, hl] at h2; cases h2
    · subst hi
      exact ⟨x, hM.nodeId, by simp [lookupKey]⟩
  · rw [hM.states]
    simp only [List.map_cons]
    exact List.nodup_cons.mpr ⟨lookupKey_none hl, hW.statesNodup⟩

theorem PushMid.val {f f1 : NoDup} {x : Sub} {id : Nat} (hM : PushMid f f1 x id) {p : Nat}
    (hp : p < f.heap.length) : f1.val p = f.val p := by
  have h1 : f.heap[p]? = some f.heap[p] := List.getElem?_eq_getElem hp
  have h2 : f1.heap[p]? = some f.heap[p] := by
    rw [hM.heap, List.getElem?_append_left hp]; exact h1
  simp only [NoDup.val, NoDup.at?, h1, h2]
  rw [hM.nodeOld _ (List.mem_of_getElem? h1)]

theorem PushMid.abs {f f1 : NoDup} {x : Sub} {id : Nat} (hM : PushMid f f1 x id) :
    absNoDup f1 = absNoDup f ++ [x] := by
  unfold C11.absNoDup
  rw [hM.heap, List.filterMap_append]
  congr 1
  · exact filterMap_congr' hM.nodeOld
  · rw [List.filterMap_cons_some hM.nodeId]; rfl

theorem abs_key_fresh {f : NoDup} (hW : f.WF) {x : Sub} (hl : lookupKey f.states x.key = none) :
    ∀ y ∈ absNoDup f, y.key ≠ x.key := by
  intro y hy e
  unfold C11.absNoDup at hy
  obtain ⟨i, hi, hn⟩ := List.mem_filterMap.mp hy
  obtain ⟨n, h1, h2⟩ := hW.statesKey i hi
  rw [hn] at h1; injection h1 with h1; subst h1
  rw [e, hl] at h2; cases h2

section
variable (rank : Int → Int → Ordering)

/-- the common tail of both new-key branches: `bubble_up` from the last position -/
theorem PushMid.finish {f f1 : NoDup} {x : Sub} {id : Nat} (hW : f.WF)
    (hl : lookupKey f.states x.key = none) (hM : PushMid f f1 x id) :
    ∃ f', f1.bubbleUp rank id = some f' ∧ f'.WF ∧
      (absNoDup f').Perm (KeyedPQ.push (absNoDup f) x) ∧
      (RankOK rank → f.HeapOrd rank → f'.HeapOrd rank) := by
  have hW1 := hM.wf hW hl
  have hlen : f1.heap.length = f.heap.length + 1 := by rw [hM.heap]; simp
  obtain ⟨f2, hb, hC2, hS2, hH2⟩ :=
    bubbleUpAt_spec rank (f1.heap.length + 1) f1 f.heap.length hW1.coh (by omega)
  refine ⟨f2, ?_, hW1.of_same hS2 hC2, ?_, ?_⟩
  · unfold NoDup.bubbleUp
    simp only [hM.posId]
    exact hb
  · rw [KeyedPQ.push_of_fresh _ _ (abs_key_fresh hW hl), ← hM.abs]
    exact absNoDup_same hS2
  · intro hr hord
    rw [heapOrd_iff rank hC2]
    apply hH2 hr (by omega)
    have hH := (heapOrd_iff rank hW.coh).mp hord
    rw [hlen]
    constructor
    · intro j hj hjn hne
      have hjlt : j < f.heap.length := by omega
      have hplt : HeapF.parent j < f.heap.length := by simp only [HeapF.parent]; omega
      rw [hM.val hjlt, hM.val hplt]
      exact hH j hj hjlt
    · intro c h0 hcn hc hpc
      simp only [HeapF.parent] at hpc; omega

/-- `push`, new key -/
theorem push_new_spec (f : NoDup) (hW : f.WF) (x : Sub) (hl : lookupKey f.states x.key = none) :
    ∃ f', f.push rank x = some f' ∧ f'.WF ∧ (absNoDup f').Perm (KeyedPQ.push (absNoDup f) x) ∧
      (RankOK rank → f.HeapOrd rank → f'.HeapOrd rank) := by
  have hposLen := hW.coh.posLen
  unfold NoDup.push
  simp only [hl]
  cases hb : f.bin with
  | nil =>
    simp only []
    have hcond : f.nodes.length < (f.pos ++ [0]).length ∧ f.nodes.length < (f.nodes ++ [x]).length := by
      simp [hposLen]
    rw [if_pos hcond]
    apply PushMid.finish rank hW hl
    have hheaplt : ∀ i ∈ f.heap, i < f.nodes.length := fun i hi => by
      obtain ⟨p, hp⟩ := mem_heap_iff.mp hi
      exact hW.coh.id_lt hp
    refine ⟨rfl, rfl, ?_, ?_, ?_, ?_, ?_, ?_, ?_, ?_, ?_, ?_⟩
    · simp [hposLen]
    · intro h; exact Nat.lt_irrefl _ (hheaplt _ h)
    · exact List.getElem?_concat_length
    · intro i hi; exact List.getElem?_append_left (hheaplt i hi)
    · simp only []
      rw [List.getElem?_set_self (by simp [hposLen])]
      simp
    · intro i hi
      have := hheaplt i hi
      simp only []
      rw [List.getElem?_set_ne (by omega)]
      exact List.getElem?_append_left (by omega)
    · intro i hi; cases hi
    · exact List.nodup_nil
    · intro i hi; cases hi
    · have := hW.count
      rw [hb] at this
      simp at this ⊢; omega
  | cons id r =>
    simp only []
    have hidbin : id ∈ f.bin := by rw [hb]; exact List.mem_cons_self
    have hidlt : id < f.nodes.length := hW.binLt id hidbin
    have hidnot : id ∉ f.heap := hW.binDisj id hidbin
    have hnd := hW.binNodup
    rw [hb] at hnd
    obtain ⟨hidr, hndr⟩ := List.nodup_cons.mp hnd
    have hcond : id < f.pos.length ∧ id < (f.nodes.set id x).length := by
      simp [hposLen, hidlt]
    rw [if_pos hcond]
    apply PushMid.finish rank hW hl
    refine ⟨rfl, rfl, ?_, hidnot, ?_, ?_, ?_, ?_, ?_, hndr, ?_, ?_⟩
    · simp [hposLen]
    · exact List.getElem?_set_self hidlt
    · intro i hi
      have hne : id ≠ i := fun e => hidnot (by rw [e]; exact hi)
      exact List.getElem?_set_ne hne
    · simp only []
      rw [List.getElem?_set_self (by omega)]
      simp
    · intro i hi
      have hne : id ≠ i := fun e => hidnot (by rw [e]; exact hi)
      exact List.getElem?_set_ne hne
    · intro i hi
      simp only [List.length_set]
      exact hW.binLt i (by rw [hb]; exact List.mem_cons_of_mem _ hi)
    · intro i hi
      exact ⟨hW.binDisj i (by rw [hb]; exact List.mem_cons_of_mem _ hi), fun e => hidr (e ▸ hi)⟩
    · have := hW.count
      rw [hb] at this
      simp at this ⊢; omega

/-- everything about `push` under well-formedness -/
theorem push_spec (f : NoDup) (hW : f.WF) (x : Sub) :
    ∃ f', f.push rank x = some f' ∧ f'.WF ∧ (absNoDup f').Perm (KeyedPQ.push (absNoDup f) x) ∧
      (RankOK rank → f.HeapOrd rank → f'.HeapOrd rank) := by
  cases hl : lookupKey f.states x.key with
  | none => exact push_new_spec rank f hW x hl
  | some id => exact push_existing_spec rank f hW x id hl

end

/-! ## headline theorems -/

/-- the keys of the live nodes are pairwise distinct -/
theorem abs_keys_nodup {f : NoDup} (hW : f.WF) : ((absNoDup f).map Sub.key).Nodup := by
  unfold C11.absNoDup
  rw [List.nodup_iff_pairwise_ne, List.pairwise_map, List.pairwise_filterMap]
  refine List.Pairwise.imp_of_mem ?_ hW.coh.nodup
  intro i j hi hj hij a ha b hb e
  exact hij (hW.key_inj hi hj ha hb e)

theorem mem_abs_iff {f : NoDup} {y : Sub} :
    y ∈ absNoDup f ↔ ∃ p i : Nat, f.heap[p]? = some i ∧ f.nodes[i]? = some y := by
  unfold C11.absNoDup
  rw [List.mem_filterMap]
  constructor
  · intro ⟨i, hi, hn⟩
    obtain ⟨p, hp⟩ := mem_heap_iff.mp hi
    exact ⟨p, i, hp, hn⟩
  · intro ⟨p, i, hp, hn⟩
    exact ⟨i, List.mem_of_getElem? hp, hn⟩

theorem abs_length {f : NoDup} (hW : f.WF) : (absNoDup f).length = f.len := by
  unfold C11.absNoDup NoDup.len
  have : ∀ l : List Nat, (∀ i ∈ l, ∃ n, f.nodes[i]? = some n) →
      (l.filterMap (fun id => f.nodes[id]?)).length = l.length := by
    intro l
    induction l with
    | nil => intro _; rfl
    | cons a t ih =>
      intro h
      obtain ⟨n, hn⟩ := h a List.mem_cons_self
      rw [List.filterMap_cons_some hn]
      simp only [List.length_cons]
      rw [ih (fun i hi => h i (List.mem_cons_of_mem _ hi))]
  exact this f.heap (fun i hi => by
    obtain ⟨n, h1, _⟩ := hW.statesKey i hi
    exact ⟨n, h1⟩)

theorem wf_empty : NoDup.empty.WF := by
  refine ⟨⟨rfl, ?_⟩, ?_, List.nodup_nil, ?_, rfl, rfl, ?_, List.nodup_nil⟩
  · intro p i h; simp [NoDup.empty] at h
  · intro i h; cases h
  · intro i h; cases h
  · intro i h; cases h

section main
variable (rank : Int → Int → Ordering)

/-- the invariant holds initially … -/
theorem inv_empty : NoDup.empty.Inv rank :=
  ⟨wf_empty, fun j _ hjn => by simp [NoDup.empty] at hjn⟩

/-- … and after `clear` -/
theorem inv_clear (f : NoDup) : f.clear.Inv rank := inv_empty rank

/-- **no crash** (`push`): on a well-formed fringe the model never returns `none`, i.e. the Rust
    code never indexes out of range -/
theorem push_no_crash (f : NoDup) (x : Sub) (hI : f.Inv rank) : ∃ f', f.push rank x = some f' := by
  obtain ⟨f', h, _⟩ := push_spec rank f hI.1 x
  exact ⟨f', h⟩

/-- **no crash** (`pop`) -/
theorem pop_no_crash (f : NoDup) (hI : f.Inv rank) : ∃ r, f.pop rank = some r := by
  rcases pop_spec rank f hI.1 with ⟨_, h⟩ | ⟨_, z, f', _, _, h, _⟩
  · exact ⟨_, h⟩
  · exact ⟨_, h⟩

/-- **invariant preservation** (`push`, both branches) -/
theorem inv_push (hr : RankOK rank) (f f' : NoDup) (x : Sub) (hI : f.Inv rank)
    (h : f.push rank x = some f') : f'.Inv rank := by
  obtain ⟨g, hg, hW, _, hH⟩ := push_spec rank f hI.1 x
  rw [hg] at h; injection h with h; subst h
  exact ⟨hW, hH hr hI.2⟩

/-- **invariant preservation** (`pop`) -/
theorem inv_pop (hr : RankOK rank) (f f' : NoDup) (o : Option Sub) (hI : f.Inv rank)
    (h : f.pop rank = some (f', o)) : f'.Inv rank := by
  rcases pop_spec rank f hI.1 with ⟨_, hp⟩ | ⟨_, z, g, _, _, hp, hW, _, _, hH⟩
  · rw [hp] at h; injection h with h; injection h with h1 h2; subst h1
    exact hI
  · rw [hp] at h; injection h with h; injection h with h1 h2; subst h1
    exact ⟨hW, hH hr hI.2⟩

/-- **refinement** (`push`): the live nodes afterwards are the specification's push on the live
    nodes before, up to order.  Needs well-formedness only: no heap order, nothing about `rank` -/
theorem push_refines_perm (f f' : NoDup) (x : Sub) (hW : f.WF) (h : f.push rank x = some f') :
    (absNoDup f').Perm (KeyedPQ.push (absNoDup f) x) := by
  obtain ⟨g, hg, _, hP, _⟩ := push_spec rank f hW x
  rw [hg] at h; injection h with h; subst h
  exact hP

theorem push_refines (f f' : NoDup) (x : Sub) (hW : f.WF) (h : f.push rank x = some f') :
    ∀ z, z ∈ absNoDup f' ↔ z ∈ KeyedPQ.push (absNoDup f) x :=
  fun _ => (push_refines_perm rank f f' x hW h).mem_iff

/-- **refinement** (`pop`): the popped node was live, and the live nodes before are the popped one
    plus the live nodes afterwards -/
theorem pop_refines (f f' : NoDup) (z : Sub) (hW : f.WF) (h : f.pop rank = some (f', some z)) :
    z ∈ absNoDup f ∧ (absNoDup f).Perm (z :: absNoDup f') ∧
      (absNoDup f').Perm ((absNoDup f).erase z) := by
  rcases pop_spec rank f hW with ⟨_, hp⟩ | ⟨id, z', g, h0, hz, hp, _, hperm, hn, _⟩
  · rw [hp] at h; injection h with h; injection h with _ h2; cases h2
  · rw [hp] at h; injection h with h; injection h with h1 h2
    injection h2 with h2; subst h1; subst h2
    have hP : (absNoDup f).Perm (z' :: absNoDup g) := by
      unfold C11.absNoDup
      rw [hn]
      have := hperm.filterMap (fun id => f.nodes[id]?)
      rw [List.filterMap_cons_some hz] at this
      exact this
    refine ⟨hP.mem_iff.mpr List.mem_cons_self, hP, ?_⟩
    have := hP.erase z'
    rw [List.erase_cons_head] at this
    exact this.symm

/-- `pop` answers `None` exactly on the empty abstraction, and then changes nothing -/
theorem pop_none_iff (f : NoDup) (hW : f.WF) :
    (∃ f', f.pop rank = some (f', none)) ↔ absNoDup f = [] := by
  have hlen := abs_length hW
  rcases pop_spec rank f hW with ⟨he, hp⟩ | ⟨id, z, g, h0, hz, hp, _⟩
  · constructor
    · intro _
      apply List.eq_nil_of_length_eq_zero
      rw [hlen, NoDup.len, he]; rfl
    · intro _; exact ⟨f, hp⟩
  · constructor
    · intro ⟨f', h⟩
      rw [hp] at h; injection h with h; injection h with _ h2; cases h2
    · intro he
      have : f.heap.length = 0 := by rw [← NoDup.len, ← hlen, he]; rfl
      have h1 := List.eq_nil_of_length_eq_zero this
      rw [h1] at h0; simp at h0

theorem pop_none_eq (f f' : NoDup) (hW : f.WF) (h : f.pop rank = some (f', none)) : f' = f := by
  rcases pop_spec rank f hW with ⟨_, hp⟩ | ⟨_, _, _, _, _, hp, _⟩
  · rw [hp] at h; injection h with h; injection h with h1 _; exact h1.symm
  · rw [hp] at h; injection h with h; injection h with _ h2; cases h2

/-- **the fringe is a priority queue**: under the invariant the popped node is present and
    `subLe`-maximal among the live nodes (`KeyedPQ.popOk`) -/
theorem pop_is_max_abs (hr : RankOK rank) (f f' : NoDup) (z : Sub) (hI : f.Inv rank)
    (h : f.pop rank = some (f', some z)) : KeyedPQ.popOk rank (absNoDup f) z := by
  refine ⟨(pop_refines rank f f' z hI.1 h).1, ?_⟩
  intro y hy
  obtain ⟨p, i, hp, hn⟩ := mem_abs_iff.mp hy
  have hpl : p < f.heap.length := (List.getElem?_eq_some_iff.mp hp).1
  have hat : f.at? p = some y := by simp only [NoDup.at?, hp, hn]
  exact C11.pop_is_max rank hr.trans hr.refl f f' z hI.2 hI.1.coh.total h p hpl y hat

/-! ### the Boolean (run-time checked) form, and the two statements of `Props/C11.lean` -/

/-- `C11.NoDupInvariantInductive` with the totality hypothesis it was missing (`RankOK.flip`) -/
theorem noDupInvariantInductive (hr : RankOK rank) (f : NoDup) (hwf : f.wfB = true)
    (hord : f.heapOrdB rank = true) :
    (∀ x f', f.push rank x = some f' → f'.wfB = true ∧ f'.heapOrdB rank = true) ∧
    (∀ f' o, f.pop rank = some (f', o) → f'.wfB = true ∧ f'.heapOrdB rank = true) := by
  have hI : f.Inv rank := (inv_iff_bool rank f).mpr ⟨hwf, hord⟩
  exact ⟨fun x f' h => (inv_iff_bool rank f').mp (inv_push rank hr f f' x hI h),
    fun f' o h => (inv_iff_bool rank f').mp (inv_pop rank hr f f' o hI h)⟩

/-- no crash, Boolean form -/
theorem noDup_no_crash (f : NoDup) (hwf : f.wfB = true) :
    (∀ x, ∃ f', f.push rank x = some f') ∧ (∃ r, f.pop rank = some r) := by
  have hW := (wf_iff_bool f).mpr hwf
  refine ⟨fun x => ?_, ?_⟩
  · obtain ⟨f', h, _⟩ := push_spec rank f hW x
    exact ⟨f', h⟩
  · rcases pop_spec rank f hW with ⟨_, h⟩ | ⟨_, z, f', _, _, h, _⟩
    · exact ⟨_, h⟩
    · exact ⟨_, h⟩

end main

/-- `C11.NoDupRefinesKeyed`, exactly as stated there -/
theorem noDupRefinesKeyed : C11.NoDupRefinesKeyed :=
  fun rank f f' x hwf h => push_refines rank f f' x ((wf_iff_bool f).mpr hwf) h

/-- a "ranking" that is transitive for `≠ .gt` (vacuously) but not total -/
def badRank : Int → Int → Ordering := fun _ _ => .gt
/-- one element: well formed and heap ordered -/
def badF : NoDup := (NoDup.empty.push badRank ⟨1, 0, 0, 0, 1⟩).getD NoDup.empty

/-- `C11.NoDupInvariantInductive` *as literally stated* (its second hypothesis is vacuous, so it
    quantifies over rankings that are not total) is false: with `rank _ _ = .gt` two pushes break
    heap order.  The totality hypothesis of `noDupInvariantInductive` is therefore necessary. -/
theorem noDupInvariantInductive_literal_false : ¬ C11.NoDupInvariantInductive := by
  intro h
  have htr : ∀ x y z, badRank x y ≠ .gt → badRank y z ≠ .gt → badRank x z ≠ .gt :=
    fun _ _ _ h1 _ => absurd rfl h1
  have h1 : badF.wfB = true := by decide
  have h2 : badF.heapOrdB badRank = true := by decide
  have hs : (badF.push badRank ⟨2, 0, 0, 0, 2⟩).isSome = true := by decide
  have hk : (badF.push badRank ⟨2, 0, 0, 0, 2⟩).map (·.heapOrdB badRank) = some false := by decide
  obtain ⟨f', hf'⟩ := Option.isSome_iff_exists.mp hs
  have := ((h badRank htr (fun _ _ _ => trivial) badF h1 h2).1 ⟨2, 0, 0, 0, 2⟩ f' hf').2
  rw [hf'] at hk
  simp only [Option.map_some, Option.some.injEq] at hk
  rw [hk] at this; cases this


/-! ### every reachable state -/

/-- the states the fringe can be in: whatever `push` / `pop` / `clear` produce from `empty` -/
inductive NoDup.Reach (rank : Int → Int → Ordering) : NoDup → Prop
  | empty : NoDup.Reach rank NoDup.empty
  | push {f f' : NoDup} {x : Sub} : NoDup.Reach rank f → f.push rank x = some f' → NoDup.Reach rank f'
  | pop {f f' : NoDup} {o : Option Sub} : NoDup.Reach rank f → f.pop rank = some (f', o) → NoDup.Reach rank f'
  | clear {f : NoDup} : NoDup.Reach rank f → NoDup.Reach rank f.clear

/-- every reachable state satisfies the invariant (so the driver's run-time checks can never fail,
    and by `push_no_crash` / `pop_no_crash` no operation on a reachable state panics) -/
theorem reach_inv {rank : Int → Int → Ordering} (hr : RankOK rank) {f : NoDup}
    (h : NoDup.Reach rank f) : f.Inv rank := by
  induction h with
  | empty => exact inv_empty rank
  | push _ hp ih => exact inv_push rank hr _ _ _ ih hp
  | pop _ hp ih => exact inv_pop rank hr _ _ _ ih hp
  | clear _ _ => exact inv_clear rank _

end Ddo
