import DdoModel.Proofs.ParDomLSys
/-! # The layer-interleaved system: no deadlock / no crash (`lstep_progress`) and termination (`lsys_terminates`) -/
set_option linter.unusedSectionVars false
set_option linter.unusedVariables false
namespace Ddo.ParDom
open Ddo Ddo.Truth Ddo.Closed Ddo.ParSys Ddo.ParClosed Ddo.C10
open Ddo.C01 (SolverCfg WellFormed toOut SolOf)
variable {S K : Type} [DecidableEq S] [DecidableEq K]

/-! ## progress -/

/-- **no deadlock, no crash at layer granularity**: in every reachable state of the layer-interleaved system in which some worker
    has not left, some step is enabled -/
theorem lstep_progress {dv : DSolverCfg S K} {H : Nat → S → EInt} {B0 B opt : Int} {Prot : Nat → S → Int → Prop}
    (hwf : WellFormed dv.sv H B0 B) (hopt : (H 0 dv.sv.P.init).addI dv.sv.P.initVal = some opt)
    (hPr : Protected dv.D dv.sv.P H opt Prot) (U : Nat) {t : LSys S K} (ht : LRun dv (LSys.init dv U) t)
    (hlive : ¬ AllDone t.sys) : ∃ u, LStep dv t u := by
  obtain ⟨hrun, hs, hl, hP⟩ := lrun_inv hwf hopt hPr U ht
  have hI := grun_gall hwf hopt hPr (ansOk_L hwf hopt hPr) hrun
  by_cases hex : ∃ (i : Nat) (w : WSt S) (cfg : Cfg S K), t.sys.ws[i]? = some w ∧ cfgOf dv w = some cfg
  · obtain ⟨i, w, cfg, hw, hc⟩ := hex
    obtain ⟨ct, n, lb, rfl, hnode, _⟩ := cfgOf_some hc
    have hn : C01.NodeOk dv.sv.P n := (hI.pc.ws w (List.mem_of_getElem? hw)).node n hnode
    have hilt : i < t.prog.length := by rw [hP.len]; exact (List.getElem?_eq_some_iff.1 hw).1
    obtain ⟨pr, hp⟩ : ∃ pr, t.prog[i]? = some pr := ⟨t.prog[i], List.getElem?_eq_getElem hilt⟩
    have hr : LReach dv (dv.cfg ct n lb) (ddOf dv (dv.cfg ct n lb) pr) := by
      cases pr with
      | none => exact LReach.init
      | some dd => exact hP.reach i w _ dd hw hc hp
    cases hnv : (dv.cfg ct n lb).P.nextVar (ddOf dv (dv.cfg ct n lb) pr).depth
        ((ddOf dv (dv.cfg ct n lb) pr).next.map (·.state)) with
    | none => exact ⟨_, LStep.finish t i w _ pr _ hw hc hp (Or.inl ⟨hnv, rfl⟩)⟩
    | some var =>
      obtain ⟨p0, hroot, _⟩ := hn
      have hn' : C01.NodeOk dv.sv.P n := (hI.pc.ws w (List.mem_of_getElem? hw)).node n hnode
      have hB : NoClamp dv.sv.P dv.sv.R n.value B := hwf.bound.noClamp_at hwf.nv hroot
      obtain ⟨hM, hdep, hl0, σ, hσ, hsim⟩ := lreach_li dv (dv.cfg ct n lb) B p0 hB hroot hwf.nv hr
      generalize hdd : ddOf dv (dv.cfg ct n lb) pr = dd at *
      have hl' : dd.layers.length ≤ dv.sv.P.nbVars + 1 := hl0
      obtain ⟨k, hk⟩ : ∃ k, dd.layers.length + (k + 1) = dv.sv.P.nbVars + 2 :=
        ⟨dv.sv.P.nbVars + 1 - dd.layers.length, by omega⟩
      have hσ' : GoodStores dv (fun d => if d = dd.depth then t.store else σ d) := goodStores_upd hσ _ hs hl
      have h1 := (hsim (fun d => if d = dd.depth then t.store else σ d) (fun d hd => by simp [Nat.ne_of_lt hd]) (k + 1)).1
      rw [hk] at h1
      have h0 : (buildLoopL (dv.cfg ct n lb) (fun d => if d = dd.depth then t.store else σ d) (dv.sv.P.nbVars + 2)
          (initDD (dv.cfg ct n lb) (Cache.init dv.sv.P.nbVars)
            ((fun d => if d = dd.depth then t.store else σ d) (dv.cfg ct n lb).root.depth) 0)).2 = .ok :=
        compileL_no_crash hwf ct hn' lb hσ'
      rw [h1, buildLoopL_some _ _ k dd var hnv] at h0
      simp only [if_true] at h0
      cases hsl : stepLayer (dv.cfg ct n lb) (tick (withStore dd t.store) var) var with
      | mk o oc =>
        rw [hsl] at h0
        cases o with
        | none => cases h0
        | some dd' =>
          cases oc with
          | crash => cases h0
          | ok => exact ⟨_, LStep.layer t i w _ pr var dd' hw hc hp (by rw [hdd]; exact hnv) (by rw [hdd]; exact hsl)⟩
          | cutoff =>
            exact ⟨_, LStep.finish t i w _ pr dd' hw hc hp (by rw [hdd]; exact Or.inr ⟨var, hnv, hsl⟩)⟩
  · obtain ⟨s', hstep, hna⟩ := gstep_progress hwf (ansOk_L hwf hopt hPr) hI.pc hI.lay hI.noCut hlive
    have hstep' : Step dv.sv.dedup (fun _ _ _ => False) (fun _ _ _ => False) t.sys s' :=
      step_mono hstep (fun i n lb o hw _ => hex ⟨i, _, _, hw, rfl⟩) (fun i n lb o hw _ => hex ⟨i, _, _, hw, rfl⟩)
    exact ⟨_, LStep.sec t s' hstep' hna⟩

/-! ## termination -/

/-- what is left of the compilation of a worker (`N = nb_variables`) -/
def remL (N : Nat) : Option (DD S K) → Nat
  | none => N + 3
  | some dd => N + 2 - dd.layers.length

def remSum (N : Nat) : List (Option (DD S K)) → Nat
  | [] => 0
  | a :: l => remL N a + remSum N l

theorem remSum_set_lt (N : Nat) : ∀ (l : List (Option (DD S K))) (i : Nat) (a b : Option (DD S K)), l[i]? = some a →
    remL N b < remL N a → remSum N (l.set i b) < remSum N l
  | [], i, a, b, h, _ => by cases h
  | x :: l, 0, a, b, h, hlt => by
    have : x = a := by simpa using h
    subst this
    show remL N b + remSum N l < remL N x + remSum N l
    omega
  | x :: l, i + 1, a, b, h, hlt => by
    have h' : l[i]? = some a := by simpa using h
    have := remSum_set_lt N l i a b h' hlt
    show remL N x + remSum N (l.set i b) < remL N x + remSum N l
    omega

/-- a step of the layer-interleaved system from a reachable state is a `GStep` of the projection, or it leaves the projection
    unchanged and decreases the measure -/
theorem lstep_dec {dv : DSolverCfg S K} {H : Nat → S → EInt} {B0 B opt : Int} {Prot : Nat → S → Int → Prop}
    (hwf : WellFormed dv.sv H B0 B) (hopt : (H 0 dv.sv.P.init).addI dv.sv.P.initVal = some opt)
    (hPr : Protected dv.D dv.sv.P H opt Prot) (U : Nat) {t u : LSys S K} (ht : LRun dv (LSys.init dv U) t)
    (hstep : LStep dv t u) :
    GStep dv.sv.dedup (okRL dv) (okXL dv) t.sys u.sys ∨
      (u.sys = t.sys ∧ remSum dv.sv.P.nbVars u.prog < remSum dv.sv.P.nbVars t.prog) := by
  obtain ⟨hrun, hs, hl, hP⟩ := lrun_inv hwf hopt hPr U ht
  have hI := grun_gall hwf hopt hPr (ansOk_L hwf hopt hPr) hrun
  cases hstep with
  | sec t' h hna =>
    exact Or.inl ⟨step_mono h (fun _ _ _ _ _ hf => hf.elim) (fun _ _ _ _ _ hf => hf.elim), hna⟩
  | layer i w cfg pr var dd' hw hc hp hnv hst =>
    refine Or.inr ⟨rfl, ?_⟩
    obtain ⟨ct, n, lb, rfl, hnode, _⟩ := cfgOf_some hc
    have hn : C01.NodeOk dv.sv.P n := (hI.pc.ws w (List.mem_of_getElem? hw)).node n hnode
    have hr : LReach dv (dv.cfg ct n lb) (ddOf dv (dv.cfg ct n lb) pr) := by
      cases pr with
      | none => exact LReach.init
      | some dd => exact hP.reach i w _ dd hw hc hp
    obtain ⟨p0, hroot, _⟩ := hn
    have hB : NoClamp dv.sv.P dv.sv.R n.value B := hwf.bound.noClamp_at hwf.nv hroot
    obtain ⟨hM, hdep, hl0, _⟩ := lreach_li dv (dv.cfg ct n lb) B p0 hB hroot hwf.nv hr
    obtain ⟨m1, m2, _⟩ := Ddo.stepLayer_inv (dv.cfg ct n lb) B p0 hB
      (tick (withStore (ddOf dv (dv.cfg ct n lb) pr) t.store) var) var (hM.congr rfl rfl) hdep hnv hl0 dd' .ok hst
    obtain ⟨_, m2b⟩ := m2 rfl
    have m2b' : dd'.layers.length = (ddOf dv (dv.cfg ct n lb) pr).layers.length + 1 := m2b
    have hl' : (ddOf dv (dv.cfg ct n lb) pr).layers.length ≤ dv.sv.P.nbVars + 1 := hl0
    refine remSum_set_lt _ _ i pr (some dd') hp ?_
    cases pr with
    | none =>
      have e0 : (ddOf dv (dv.cfg ct n lb) none).layers.length = 0 := rfl
      show dv.sv.P.nbVars + 2 - dd'.layers.length < dv.sv.P.nbVars + 3
      omega
    | some dd =>
      have e0 : (ddOf dv (dv.cfg ct n lb) (some dd)).layers.length = dd.layers.length := rfl
      show dv.sv.P.nbVars + 2 - dd'.layers.length < dv.sv.P.nbVars + 2 - dd.layers.length
      omega
  | finish i w cfg pr fin hw hc hp hfin =>
    refine Or.inl ?_
    obtain ⟨ct, n, lb, rfl, hnode, hcase⟩ := cfgOf_some hc
    have hn : C01.NodeOk dv.sv.P n := (hI.pc.ws w (List.mem_of_getElem? hw)).node n hnode
    have hr : LReach dv (dv.cfg ct n lb) (ddOf dv (dv.cfg ct n lb) pr) := by
      cases pr with
      | none => exact LReach.init
      | some dd => exact hP.reach i w _ dd hw hc hp
    obtain ⟨σ, hσ, hok, heq⟩ := lreach_finish hwf ct hn lb hr hs hl hfin
    have hna : NoAbortS (S := S)
        { crit := t.sys.crit, ws := List.set t.sys.ws i (afterComp (toOut (resultOf (dv.cfg ct n lb) fin)) w) } := by
      intro w0 hw0 m
      rcases List.mem_or_eq_of_mem_set hw0 with h' | h'
      · exact (hI.noCut.2 w0 h' m).1
      · rw [h']; rcases hcase with ⟨rfl, _⟩ | ⟨rfl, _⟩ <;> simp [afterComp]
    have hstep : Step dv.sv.dedup (okRL dv) (okXL dv) t.sys
        { crit := t.sys.crit, ws := List.set t.sys.ws i (afterComp (toOut (resultOf (dv.cfg ct n lb) fin)) w) } := by
      rcases hcase with ⟨rfl, rfl⟩ | ⟨rfl, rfl⟩
      · exact StepG.compileR _ i n lb (.ok _) hw (fun o ho => by
          injection ho with ho; subst ho; exact ⟨σ, hσ, hok, by rw [heq]⟩)
      · exact StepG.compileX _ i n lb (.ok _) hw (fun o ho => by
          injection ho with ho; subst ho; exact ⟨σ, hσ, hok, by rw [heq]⟩)
    exact ⟨hstep, hna⟩

/-- **termination at layer granularity**: the step relation of the layer-interleaved system is well-founded on the reachable states -/
theorem lsys_terminates {dv : DSolverCfg S K} {H : Nat → S → EInt} {B0 B opt : Int} {Prot : Nat → S → Int → Prop}
    (hwf : WellFormed dv.sv H B0 B) (hopt : (H 0 dv.sv.P.init).addI dv.sv.P.initVal = some opt)
    (hPr : Protected dv.D dv.sv.P H opt Prot) (U : Nat) :
    WellFounded (fun u t : LSys S K => LRun dv (LSys.init dv U) t ∧ LStep dv t u) := by
  have hG := gpar_terminates hwf hopt hPr (ansOk_L hwf hopt hPr) U
  have hlex := (Prod.lex (⟨_, hG⟩ : WellFoundedRelation (Sys S)) (⟨_, Nat.lt_wfRel.wf⟩ : WellFoundedRelation Nat)).wf
  refine Subrelation.wf (r := InvImage _ (fun t : LSys S K => (t.sys, remSum dv.sv.P.nbVars t.prog))) ?_
    (InvImage.wf _ hlex)
  intro u t ⟨ht, hstep⟩
  obtain ⟨hrun, _⟩ := lrun_inv hwf hopt hPr U ht
  rcases lstep_dec hwf hopt hPr U ht hstep with hg | ⟨he, hlt⟩
  · exact Prod.Lex.left _ _ ⟨hrun, hg⟩
  · show Prod.Lex _ _ (u.sys, _) (t.sys, _)
    rw [he]
    exact Prod.Lex.right _ hlt

end Ddo.ParDom
