import DdoModel.Proofs.MddBounds
import DdoModel.Proofs.MddProtocol
/-! Stage 1 of C09, top-down part: an invariant of the compilation loop that also covers `_filter_with_cache`.

`Proofs/MddBounds.lean` (`BInv`) follows the nodes whose potential beats a fixed threshold, for a compilation that does
not consult the cache.  The soundness of the thresholds needs more: the *unconditional* step fact "an expanded node of
potential `h` has, in the next layer, a node that is not deleted holding an inbound arc from it along which no potential
is lost" (whatever the value of the node), the classification of every node of a layer (deleted / pruned by the cache
with the cached threshold / alive = handed to the expansion), and the flags the bottom-up passes start from.  `TInv` is
that invariant, for a relaxed compilation without dominance rule, with or without cache. -/
set_option linter.unusedSectionVars false
set_option linter.unusedVariables false
namespace Ddo.Theta
open Ddo Ddo.Bounds
variable {S K : Type} [DecidableEq S] [DecidableEq K]

/-! ## `_filter_with_cache` -/

/-- the threshold the cache holds for the node (`none` with `EmptyCache`) -/
def lookup (cfg : Cfg S K) (cache : Cache S) (n : Node S) : Option Thr :=
  if cfg.useCache then (cache.get n.state n.depth).getD none else none

/-- the node as `_filter_with_cache` leaves it -/
def fcNode (cfg : Cfg S K) (cache : Cache S) (n : Node S) : Node S :=
  match lookup cfg cache n with
  | some t => if n.value > t.value then n else { n with cache := true, theta := some t.value }
  | none => n

/-- the node survives `_filter_with_cache` -/
def fcKeep (cfg : Cfg S K) (cache : Cache S) (n : Node S) : Bool :=
  match lookup cfg cache n with
  | some t => decide (n.value > t.value)
  | none => true

def fcStep (cfg : Cfg S K) (cache : Cache S) (acc : List (Node S) × List Nat) (p : Nat) : List (Node S) × List Nat :=
  match acc.1[p]? with
  | none => acc
  | some n => (acc.1.set p (fcNode cfg cache n), if fcKeep cfg cache n then acc.2 ++ [p] else acc.2)

theorem filterCache_eq (cfg : Cfg S K) (cache : Cache S) (layer : List (Node S)) (cur : List Nat) :
    filterCache cfg cache layer cur = cur.foldl (fcStep cfg cache) (layer, []) := by
  unfold filterCache
  congr 1
  funext acc p
  obtain ⟨ly, keep⟩ := acc
  unfold fcStep fcNode fcKeep lookup
  dsimp only
  cases hp : ly[p]? with
  | none => rfl
  | some n =>
    dsimp only
    cases ht : (if cfg.useCache = true then (cache.get n.state n.depth).getD none else none) with
    | none =>
      dsimp only
      rw [Cover.set_same _ _ _ hp]
      rfl
    | some t =>
      dsimp only
      by_cases hv : n.value > t.value
      · simp only [hv, if_true, decide_true]
        rw [Cover.set_same _ _ _ hp]
      · simp only [hv, if_false, decide_false]
        rfl

theorem fcStep_spec (cfg : Cfg S K) (cache : Cache S) (layer : List (Node S)) :
    ∀ (xs : List Nat) (acc : List (Node S) × List Nat), xs.Nodup → (∀ p ∈ xs, acc.1[p]? = layer[p]?) →
      (xs.foldl (fcStep cfg cache) acc).1.length = acc.1.length ∧
      (∀ p, p ∉ xs → (xs.foldl (fcStep cfg cache) acc).1[p]? = acc.1[p]?) ∧
      (∀ p ∈ xs, (xs.foldl (fcStep cfg cache) acc).1[p]? = (layer[p]?).map (fcNode cfg cache)) ∧
      (∀ p, p ∈ (xs.foldl (fcStep cfg cache) acc).2 ↔
        (p ∈ acc.2 ∨ (p ∈ xs ∧ ∃ n, layer[p]? = some n ∧ fcKeep cfg cache n = true))) := by
  intro xs
  induction xs with
  | nil =>
    intro acc _ _
    refine ⟨rfl, fun _ _ => rfl, fun p hp => absurd hp List.not_mem_nil, fun p => ?_⟩
    constructor
    · intro h; exact .inl h
    · rintro (h | ⟨h, _⟩)
      · exact h
      · exact absurd h List.not_mem_nil
  | cons x xs ih =>
    intro acc hnd hacc
    rw [List.foldl_cons]
    have hx : x ∉ xs := (List.nodup_cons.mp hnd).1
    have hnd' : xs.Nodup := (List.nodup_cons.mp hnd).2
    -- the step at `x`
    have hstep : (fcStep cfg cache acc x).1.length = acc.1.length ∧
        (∀ p, p ≠ x → (fcStep cfg cache acc x).1[p]? = acc.1[p]?) ∧
        (fcStep cfg cache acc x).1[x]? = (layer[x]?).map (fcNode cfg cache) ∧
        (∀ p, p ∈ (fcStep cfg cache acc x).2 ↔ (p ∈ acc.2 ∨ (p = x ∧ ∃ n, layer[x]? = some n ∧ fcKeep cfg cache n = true))) := by
      unfold fcStep
      have h0 := hacc x List.mem_cons_self
      cases hp : acc.1[x]? with
      | none =>
        dsimp only
        rw [hp] at h0
        refine ⟨rfl, fun _ _ => rfl, by rw [hp, ← h0]; rfl, fun p => ?_⟩
        constructor
        · intro h; exact .inl h
        · rintro (h | ⟨_, n, hn, _⟩)
          · exact h
          · rw [← h0] at hn; cases hn
      | some n =>
        dsimp only
        rw [hp] at h0
        have hlt := Cover.lt_of_getElem?_some hp
        refine ⟨List.length_set, fun p hpx => List.getElem?_set_ne (fun h => hpx h.symm),
          by rw [List.getElem?_set_self hlt, ← h0]; rfl, fun p => ?_⟩
        cases hk : fcKeep cfg cache n with
        | true =>
          simp only [if_true, List.mem_append, List.mem_singleton]
          constructor
          · rintro (h | h)
            · exact .inl h
            · exact .inr ⟨h, n, h0.symm, hk⟩
          · rintro (h | ⟨h, _⟩)
            · exact .inl h
            · exact .inr h
        | false =>
          simp only [Bool.false_eq_true, if_false]
          constructor
          · intro h; exact .inl h
          · rintro (h | ⟨_, n', hn', hk'⟩)
            · exact h
            · rw [← h0] at hn'; cases hn'; rw [hk] at hk'; cases hk'
    obtain ⟨s1, s2, s3, s4⟩ := hstep
    have hacc' : ∀ p ∈ xs, (fcStep cfg cache acc x).1[p]? = layer[p]? := by
      intro p hp
      rw [s2 p (fun h => hx (h ▸ hp))]
      exact hacc p (List.mem_cons_of_mem _ hp)
    obtain ⟨i1, i2, i3, i4⟩ := ih (fcStep cfg cache acc x) hnd' hacc'
    refine ⟨i1.trans s1, fun p hp => ?_, fun p hp => ?_, fun p => ?_⟩
    · rw [i2 p (fun h => hp (List.mem_cons_of_mem _ h)), s2 p (fun h => hp (h ▸ List.mem_cons_self))]
    · rcases List.mem_cons.mp hp with rfl | hp
      · rw [i2 p hx, s3]
      · exact i3 p hp
    · rw [i4 p, s4 p]
      constructor
      · rintro ((h | ⟨rfl, h⟩) | ⟨h1, h2⟩)
        · exact .inl h
        · exact .inr ⟨List.mem_cons_self, h⟩
        · exact .inr ⟨List.mem_cons_of_mem _ h1, h2⟩
      · rintro (h | ⟨h1, h2⟩)
        · exact .inl (.inl h)
        · rcases List.mem_cons.mp h1 with rfl | h1
          · exact .inl (.inr ⟨rfl, h2⟩)
          · exact .inr ⟨h1, h2⟩

/-- **`_filter_with_cache` on a whole layer**: position-wise, every node becomes `fcNode`, and the surviving positions are
    those of the nodes with `fcKeep` -/
theorem filterCache_spec (cfg : Cfg S K) (cache : Cache S) (layer : List (Node S)) :
    (filterCache cfg cache layer (List.range layer.length)).1 = layer.map (fcNode cfg cache) ∧
    (∀ p, p ∈ (filterCache cfg cache layer (List.range layer.length)).2 ↔
      ∃ n, layer[p]? = some n ∧ fcKeep cfg cache n = true) ∧
    (filterCache cfg cache layer (List.range layer.length)).2.Nodup := by
  rw [filterCache_eq]
  obtain ⟨h1, h2, h3, h4⟩ := fcStep_spec cfg cache layer (List.range layer.length) (layer, []) List.nodup_range
    (fun _ _ => rfl)
  refine ⟨?_, fun p => ?_, ?_⟩
  · apply List.ext_getElem?
    intro p
    rw [List.getElem?_map]
    by_cases hp : p < layer.length
    · exact h3 p (List.mem_range.mpr hp)
    · have h1' : (List.foldl (fcStep cfg cache) (layer, []) (List.range layer.length)).1.length = layer.length := h1
      rw [List.getElem?_eq_none (by rw [h1']; omega), List.getElem?_eq_none (by omega)]; rfl
  · rw [h4 p]
    constructor
    · rintro (h | ⟨_, h⟩)
      · cases h
      · exact h
    · rintro ⟨n, hn, hk⟩
      exact .inr ⟨List.mem_range.mpr (Cover.lt_of_getElem?_some hn), n, hn, hk⟩
  · have := (C12.filterCache_keep cfg cache layer (List.range layer.length)).2
    rw [filterCache_eq] at this
    exact List.Nodup.sublist this List.nodup_range

/-! ## `_relax`: which positions are touched, which nodes end up deleted -/

theorem appendEdge_deleted (p c : Node S) (a : Arc) : (appendEdge p c a).deleted = c.deleted := by
  unfold appendEdge; dsimp only; split <;> rfl

/-- the redirection loop of one merged-away node only touches the merged position, whose `deleted` flag it keeps -/
theorem inner_pos (cfg : Cfg S K) (layers : List (List (Node S))) (merged : S) (mpos : Nat) (dropN : Node S)
    (inb : List Arc) (acc : List (Node S) × List (Call S)) :
    (∀ q, q ≠ mpos → (inb.foldl (Cover.redirStep cfg layers merged mpos dropN) acc).1[q]? = acc.1[q]?) ∧
    (∀ m0, acc.1[mpos]? = some m0 →
      ∃ m, (inb.foldl (Cover.redirStep cfg layers merged mpos dropN) acc).1[mpos]? = some m ∧ m.deleted = m0.deleted) := by
  induction inb generalizing acc with
  | nil => exact ⟨fun _ _ => rfl, fun m0 h => ⟨m0, h, rfl⟩⟩
  | cons e es ih =>
    rw [List.foldl_cons]
    obtain ⟨i1, i2⟩ := ih (Cover.redirStep cfg layers merged mpos dropN acc e)
    rcases Cover.redirStep_cases cfg layers merged mpos dropN acc e with ⟨h, _⟩ | ⟨src, m, _, hm, h⟩
    · rw [h] at i1 i2
      exact ⟨i1, i2⟩
    · rw [h] at i1 i2
      have hlt := Cover.lt_of_getElem?_some hm
      refine ⟨fun q hq => ?_, fun m0 hm0 => ?_⟩
      · rw [i1 q hq, List.getElem?_set_ne (fun h' => hq h'.symm)]
      · rw [hm] at hm0; cases hm0
        obtain ⟨m', hm', hd⟩ := i2 _ (List.getElem?_set_self hlt)
        exact ⟨m', hm', by rw [hd, appendEdge_deleted]⟩

theorem dropStep_pos (cfg : Cfg S K) (layers : List (List (Node S))) (merged : S) (mpos : Nat)
    (acc : List (Node S) × List (Call S)) (p : Nat) (hpm : p ≠ mpos) :
    (∀ q, q ≠ p → q ≠ mpos → (Cover.dropStep cfg layers merged mpos acc p).1[q]? = acc.1[q]?) ∧
    (Cover.dropStep cfg layers merged mpos acc p).1[p]? = (acc.1[p]?).map (fun n => { n with deleted := true }) ∧
    (∀ m0, acc.1[mpos]? = some m0 →
      ∃ m, (Cover.dropStep cfg layers merged mpos acc p).1[mpos]? = some m ∧ m.deleted = m0.deleted) := by
  unfold Cover.dropStep
  cases hp : acc.1[p]? with
  | none => exact ⟨fun _ _ _ => rfl, by dsimp only; rw [hp]; rfl, fun m0 h => ⟨m0, h, rfl⟩⟩
  | some dropN =>
    dsimp only
    have hlt := Cover.lt_of_getElem?_some hp
    obtain ⟨i1, i2⟩ := inner_pos cfg layers merged mpos dropN dropN.inb (acc.1.set p { dropN with deleted := true }, acc.2)
    refine ⟨fun q hq hqm => ?_, ?_, fun m0 hm0 => ?_⟩
    · rw [i1 q hqm]; exact List.getElem?_set_ne (fun h => hq h.symm)
    · rw [i1 p hpm]; dsimp only; rw [List.getElem?_set_self hlt]; rfl
    · exact i2 m0 (by dsimp only; rw [List.getElem?_set_ne hpm]; exact hm0)

/-- **the merging loop, position-wise**: a position outside `rest ∪ {mpos}` is untouched, a position of `rest` gets
    exactly the `deleted` flag, the merged position keeps its `deleted` flag -/
theorem outer_pos (cfg : Cfg S K) (layers : List (List (Node S))) (merged : S) (mpos : Nat) :
    ∀ (rest : List Nat) (acc : List (Node S) × List (Call S)), rest.Nodup → mpos ∉ rest →
      (∀ q, q ∉ rest → q ≠ mpos → (rest.foldl (Cover.dropStep cfg layers merged mpos) acc).1[q]? = acc.1[q]?) ∧
      (∀ q ∈ rest, (rest.foldl (Cover.dropStep cfg layers merged mpos) acc).1[q]? =
        (acc.1[q]?).map (fun n => { n with deleted := true })) ∧
      (∀ m0, acc.1[mpos]? = some m0 →
        ∃ m, (rest.foldl (Cover.dropStep cfg layers merged mpos) acc).1[mpos]? = some m ∧ m.deleted = m0.deleted) := by
  intro rest
  induction rest with
  | nil => intro acc _ _; exact ⟨fun _ _ _ => rfl, fun q hq => absurd hq List.not_mem_nil, fun m0 h => ⟨m0, h, rfl⟩⟩
  | cons p ps ih =>
    intro acc hnd hm
    rw [List.foldl_cons]
    have hp : p ∉ ps := (List.nodup_cons.mp hnd).1
    have hpm : p ≠ mpos := fun h => hm (h ▸ List.mem_cons_self)
    obtain ⟨s1, s2, s3⟩ := dropStep_pos cfg layers merged mpos acc p hpm
    obtain ⟨i1, i2, i3⟩ := ih (Cover.dropStep cfg layers merged mpos acc p) (List.nodup_cons.mp hnd).2
      (fun h => hm (List.mem_cons_of_mem _ h))
    refine ⟨fun q hq hqm => ?_, fun q hq => ?_, fun m0 hm0 => ?_⟩
    · rw [i1 q (fun h => hq (List.mem_cons_of_mem _ h)) hqm, s1 q (fun h => hq (h ▸ List.mem_cons_self)) hqm]
    · rcases List.mem_cons.mp hq with rfl | hq
      · rw [i1 q hp hpm, s2]
      · rw [i2 q hq, s1 q (fun h => hp (h ▸ hq)) (fun h => hm (h ▸ List.mem_cons_of_mem _ hq))]
    · obtain ⟨m1, hm1, hd1⟩ := s3 m0 hm0
      obtain ⟨m2, hm2, hd2⟩ := i3 m1 hm1
      exact ⟨m2, hm2, by rw [hd2, hd1]⟩

/-- the `depth` given to a fresh merged node: the one of the first merged-away node -/
def d0Of (cfg : Cfg S K) (layer : List (Node S)) (cur : List Nat) : Nat :=
  match (Cover.restOf cfg layer cur).head? with
  | some p => (match layer[p]? with | some n => n.depth | none => 0)
  | none => 0

/-- `Cover.relaxLayer_elim` with the depth of the fresh merged node made explicit -/
theorem relaxLayer_elimD (cfg : Cfg S K) (layers : List (List (Node S))) (layer : List (Node S)) (cur : List Nat)
    (log : List (Call S)) (P : List (Node S) × List Nat × List (Call S) → Prop)
    (hnone : Cover.recycledOf cfg layer cur = none → ∀ lg,
      P (((Cover.restOf cfg layer cur).foldl (Cover.dropStep cfg layers (Cover.mergedOf cfg layer cur) layer.length)
            (Cover.markRelaxed (layer ++ [Cover.freshMerged (Cover.mergedOf cfg layer cur) (d0Of cfg layer cur)]) layer.length, lg)).1,
         Cover.keepOf cfg layer cur ++ [layer.length],
         ((Cover.restOf cfg layer cur).foldl (Cover.dropStep cfg layers (Cover.mergedOf cfg layer cur) layer.length)
            (Cover.markRelaxed (layer ++ [Cover.freshMerged (Cover.mergedOf cfg layer cur) (d0Of cfg layer cur)]) layer.length, lg)).2))
    (hsome : ∀ mp, Cover.recycledOf cfg layer cur = some mp → ∀ lg,
      P (Cover.undelete ((Cover.restOf cfg layer cur).foldl (Cover.dropStep cfg layers (Cover.mergedOf cfg layer cur) mp)
            (Cover.markRelaxed layer mp, lg)).1 ((sortSquash cfg layer cur).take cfg.width),
         (sortSquash cfg layer cur).take cfg.width,
         ((Cover.restOf cfg layer cur).foldl (Cover.dropStep cfg layers (Cover.mergedOf cfg layer cur) mp)
            (Cover.markRelaxed layer mp, lg)).2)) :
    P (relaxLayer cfg layers layer cur log) := by
  unfold relaxLayer
  dsimp only
  generalize hrec : List.find? _ (List.take (cfg.width - 1) (sortSquash cfg layer cur)) = recycled
  have hrec' : Cover.recycledOf cfg layer cur = recycled := hrec
  cases recycled with
  | none =>
    dsimp only
    exact hnone hrec' _
  | some mp =>
    dsimp only
    exact hsome mp hrec' _

theorem markRelaxed_pos (l : List (Node S)) (mp : Nat) :
    (∀ q, q ≠ mp → (Cover.markRelaxed l mp)[q]? = l[q]?) ∧
    (Cover.markRelaxed l mp)[mp]? = (l[mp]?).map (fun n => { n with fRelaxed := true }) := by
  unfold Cover.markRelaxed
  cases h : l[mp]? with
  | none => exact ⟨fun _ _ => rfl, by dsimp only; rw [h]; rfl⟩
  | some n =>
    dsimp only
    have hlt := Cover.lt_of_getElem?_some h
    exact ⟨fun q hq => List.getElem?_set_ne (fun h' => hq h'.symm), by rw [List.getElem?_set_self hlt]; rfl⟩

theorem undelete_pos (l : List (Node S)) (c : List Nat) (sp : Nat) (hsp : c.getLast? = some sp) :
    (∀ q, q ≠ sp → (Cover.undelete l c)[q]? = l[q]?) ∧
    (Cover.undelete l c)[sp]? = (l[sp]?).map (fun n => { n with deleted := false }) := by
  unfold Cover.undelete
  rw [hsp]
  dsimp only
  cases h : l[sp]? with
  | none => exact ⟨fun _ _ => rfl, by dsimp only; rw [h]; rfl⟩
  | some n =>
    dsimp only
    have hlt := Cover.lt_of_getElem?_some h
    exact ⟨fun q hq => List.getElem?_set_ne (fun h' => hq h'.symm), by rw [List.getElem?_set_self hlt]; rfl⟩

/-- **`_relax`, position-wise** (`cur` = the positions that survived the filters, all of them not deleted):
    positions outside `cur` are untouched; the positions handed to the expansion hold nodes that are not deleted; a node
    of `cur` (or the fresh merged node) that is not deleted is handed to the expansion -/
theorem relaxLayer_pos (cfg : Cfg S K) (layers : List (List (Node S))) (layer : List (Node S)) (cur : List Nat)
    (log : List (Call S)) (hW : 1 ≤ cfg.width) (hlen : cur.length > cfg.width) (hcur : ∀ p ∈ cur, p < layer.length)
    (hnd : cur.Nodup) (hdel : ∀ q ∈ cur, ∀ n, layer[q]? = some n → n.deleted = false) :
    (∀ q, q ∉ cur → q < layer.length → (relaxLayer cfg layers layer cur log).1[q]? = layer[q]?) ∧
    (∀ q ∈ (relaxLayer cfg layers layer cur log).2.1,
      ∃ n', (relaxLayer cfg layers layer cur log).1[q]? = some n' ∧ n'.deleted = false) ∧
    (∀ q n', (relaxLayer cfg layers layer cur log).1[q]? = some n' → n'.deleted = false →
      q ∈ (relaxLayer cfg layers layer cur log).2.1 ∨ (q ∉ cur ∧ q < layer.length)) := by
  have hsN : (sortSquash cfg layer cur).Nodup := by unfold sortSquash; exact C12.nodup_sortBy _ cur hnd
  have hsplit : sortSquash cfg layer cur = Cover.keepOf cfg layer cur ++ Cover.restOf cfg layer cur := by
    unfold Cover.keepOf Cover.restOf; exact (List.take_append_drop _ _).symm
  have hsN' := hsN
  rw [hsplit] at hsN'
  obtain ⟨_, hrN, hdisj⟩ := List.nodup_append.mp hsN'
  have hmemS : ∀ q, q ∈ sortSquash cfg layer cur ↔ q ∈ cur := fun q => by
    unfold sortSquash; exact Cover.mem_sortBy _ _ _
  have hkr : ∀ q, q ∈ cur → q ∈ Cover.keepOf cfg layer cur ∨ q ∈ Cover.restOf cfg layer cur := fun q hq => by
    have := (hmemS q).mpr hq
    rw [hsplit] at this
    exact List.mem_append.mp this
  have hkc : ∀ q ∈ Cover.keepOf cfg layer cur, q ∈ cur := fun q hq =>
    (hmemS q).mp (by rw [hsplit]; exact List.mem_append_left _ hq)
  have hrc : ∀ q ∈ Cover.restOf cfg layer cur, q ∈ cur := fun q hq =>
    (hmemS q).mp (by rw [hsplit]; exact List.mem_append_right _ hq)
  refine relaxLayer_elimD cfg layers layer cur log (fun r =>
    (∀ q, q ∉ cur → q < layer.length → r.1[q]? = layer[q]?) ∧
    (∀ q ∈ r.2.1, ∃ n', r.1[q]? = some n' ∧ n'.deleted = false) ∧
    (∀ q n', r.1[q]? = some n' → n'.deleted = false → q ∈ r.2.1 ∨ (q ∉ cur ∧ q < layer.length))) ?_ ?_
  · -- fresh merged node at position `layer.length`
    intro _ lg
    dsimp only
    generalize hfr : Cover.freshMerged (Cover.mergedOf cfg layer cur) (d0Of cfg layer cur) = fr
    have hfrd : fr.deleted = false := by rw [← hfr]; rfl
    have hmr : layer.length ∉ Cover.restOf cfg layer cur := fun h => by have := hcur _ (hrc _ h); omega
    obtain ⟨m1, m2⟩ := markRelaxed_pos (layer ++ [fr]) layer.length
    obtain ⟨o1, o2, o3⟩ := outer_pos cfg layers (Cover.mergedOf cfg layer cur) layer.length (Cover.restOf cfg layer cur)
      (Cover.markRelaxed (layer ++ [fr]) layer.length, lg) hrN hmr
    dsimp only at o1 o2 o3
    have hE := Cover.outer_ext cfg layers (Cover.mergedOf cfg layer cur) layer.length (Cover.restOf cfg layer cur)
      (Cover.markRelaxed (layer ++ [fr]) layer.length, lg)
    have hE1 := Cover.markRelaxed_ext layer.length (layer ++ [fr]) layer.length
    have hlenO : ((Cover.restOf cfg layer cur).foldl (Cover.dropStep cfg layers (Cover.mergedOf cfg layer cur) layer.length)
        (Cover.markRelaxed (layer ++ [fr]) layer.length, lg)).1.length = layer.length + 1 := by
      rw [hE.len]; dsimp only; rw [hE1.len, List.length_append, List.length_singleton]
    have hbase : ∀ q, q < layer.length → (Cover.markRelaxed (layer ++ [fr]) layer.length)[q]? = layer[q]? := fun q hq => by
      rw [m1 q (by omega), List.getElem?_append_left hq]
    refine ⟨fun q hq hlt => ?_, fun q hq => ?_, fun q n' hn' hd' => ?_⟩
    · rw [o1 q (fun h => hq (hrc q h)) (by omega)]; exact hbase q hlt
    · rcases List.mem_append.mp hq with hk | hk
      · have hqc := hkc q hk
        have hlt := hcur q hqc
        refine ⟨layer[q], ?_, hdel q hqc _ (List.getElem?_eq_getElem hlt)⟩
        rw [o1 q (fun h => hdisj q hk q h rfl) (by omega), hbase q hlt]
        exact List.getElem?_eq_getElem hlt
      · rw [List.mem_singleton] at hk
        subst hk
        have h0 : (Cover.markRelaxed (layer ++ [fr]) layer.length)[layer.length]? = some { fr with fRelaxed := true } := by
          rw [m2, List.getElem?_concat_length]; rfl
        obtain ⟨m, hm, hd⟩ := o3 _ h0
        exact ⟨m, hm, by rw [hd]; exact hfrd⟩
    · have hq := Cover.lt_of_getElem?_some hn'
      rw [hlenO] at hq
      by_cases hql : q = layer.length
      · exact .inl (List.mem_append_right _ (by rw [hql]; exact List.mem_cons_self))
      · have hlt : q < layer.length := by omega
        by_cases hqc : q ∈ cur
        · rcases hkr q hqc with hk | hr
          · exact .inl (List.mem_append_left _ hk)
          · exfalso
            rw [o2 q hr, hbase q hlt, List.getElem?_eq_getElem hlt] at hn'
            simp only [Option.map_some, Option.some.injEq] at hn'
            rw [← hn'] at hd'
            cases hd'
        · exact .inr ⟨hqc, hlt⟩
  · -- recycled node at the kept position `mp`
    intro mp hrec lg
    dsimp only
    have hmk : mp ∈ Cover.keepOf cfg layer cur := List.mem_of_find?_eq_some hrec
    have hmr : mp ∉ Cover.restOf cfg layer cur := fun h => hdisj mp hmk mp h rfl
    obtain ⟨m1, m2⟩ := markRelaxed_pos layer mp
    obtain ⟨o1, o2, o3⟩ := outer_pos cfg layers (Cover.mergedOf cfg layer cur) mp (Cover.restOf cfg layer cur)
      (Cover.markRelaxed layer mp, lg) hrN hmr
    dsimp only at o1 o2 o3
    -- the saved position
    have hslen : cfg.width - 1 < (sortSquash cfg layer cur).length := by
      unfold sortSquash; rw [Cover.length_sortBy]; omega
    have htake : (sortSquash cfg layer cur).take cfg.width =
        Cover.keepOf cfg layer cur ++ [(sortSquash cfg layer cur)[cfg.width - 1]] := by
      have e : cfg.width = (cfg.width - 1) + 1 := by omega
      conv => lhs; rw [e]
      rw [List.take_add_one, List.getElem?_eq_getElem hslen]
      rfl
    generalize hsp : (sortSquash cfg layer cur)[cfg.width - 1] = sp at htake
    have hspR : sp ∈ Cover.restOf cfg layer cur := by
      unfold Cover.restOf
      apply List.mem_of_getElem? (i := 0)
      rw [List.getElem?_drop, Nat.add_zero, List.getElem?_eq_getElem hslen, hsp]
    have hlast : ((sortSquash cfg layer cur).take cfg.width).getLast? = some sp := by
      rw [htake]; exact List.getLast?_concat
    have hspm : sp ≠ mp := fun h => hmr (h ▸ hspR)
    obtain ⟨u1, u2⟩ := undelete_pos ((Cover.restOf cfg layer cur).foldl
      (Cover.dropStep cfg layers (Cover.mergedOf cfg layer cur) mp) (Cover.markRelaxed layer mp, lg)).1
      ((sortSquash cfg layer cur).take cfg.width) sp hlast
    have hlenO : (Cover.undelete ((Cover.restOf cfg layer cur).foldl
        (Cover.dropStep cfg layers (Cover.mergedOf cfg layer cur) mp) (Cover.markRelaxed layer mp, lg)).1
        ((sortSquash cfg layer cur).take cfg.width)).length = layer.length := by
      rw [(Cover.undelete_ext mp _ _).len, (Cover.outer_ext cfg layers _ mp _ _).len]
      dsimp only
      rw [(Cover.markRelaxed_ext mp layer mp).len]
    refine ⟨fun q hq hlt => ?_, fun q hq => ?_, fun q n' hn' hd' => ?_⟩
    · have hqs : q ≠ sp := fun h => hq (hrc q (h ▸ hspR))
      have hqm : q ≠ mp := fun h => hq (hkc q (h ▸ hmk))
      rw [u1 q hqs, o1 q (fun h => hq (hrc q h)) hqm, m1 q hqm]
    · rw [htake] at hq
      rcases List.mem_append.mp hq with hk | hk
      · have hqc := hkc q hk
        have hlt := hcur q hqc
        have hqs : q ≠ sp := fun h => hdisj q hk sp hspR h
        have hqr : q ∉ Cover.restOf cfg layer cur := fun h => hdisj q hk q h rfl
        by_cases hqm : q = mp
        · subst hqm
          have h0 : (Cover.markRelaxed layer q)[q]? = some { layer[q] with fRelaxed := true } := by
            rw [m2, List.getElem?_eq_getElem hlt]; rfl
          obtain ⟨m, hm, hd⟩ := o3 _ h0
          refine ⟨m, by rw [u1 q hqs]; exact hm, ?_⟩
          rw [hd]
          exact hdel q hqc layer[q] (List.getElem?_eq_getElem hlt)
        · refine ⟨layer[q], ?_, hdel q hqc _ (List.getElem?_eq_getElem hlt)⟩
          rw [u1 q hqs, o1 q hqr hqm, m1 q hqm]
          exact List.getElem?_eq_getElem hlt
      · rw [List.mem_singleton] at hk
        subst hk
        have hlt := hcur q (hrc q hspR)
        refine ⟨{ ({ layer[q] with deleted := true } : Node S) with deleted := false }, ?_, rfl⟩
        rw [u2, o2 q hspR, m1 q hspm, List.getElem?_eq_getElem hlt]
        rfl
    · have hq := Cover.lt_of_getElem?_some hn'
      rw [hlenO] at hq
      by_cases hqc : q ∈ cur
      · rcases hkr q hqc with hk | hr
        · exact .inl (by rw [htake]; exact List.mem_append_left _ hk)
        · by_cases hqs : q = sp
          · exact .inl (by rw [htake, hqs]; exact List.mem_append_right _ List.mem_cons_self)
          · exfalso
            have hqm : q ≠ mp := fun h => hmr (h ▸ hr)
            rw [u1 q hqs, o2 q hr, m1 q hqm, List.getElem?_eq_getElem hq] at hn'
            simp only [Option.map_some, Option.some.injEq] at hn'
            rw [← hn'] at hd'
            cases hd'
      · exact .inr ⟨hqc, hq⟩

/-- `relaxLayer_forall` with the depth of the fresh merged node made explicit -/
theorem relaxLayer_forallD (Q : Node S → Prop) (cfg : Cfg S K) (layers : List (List (Node S))) (layer : List (Node S))
    (cur : List Nat) (log : List (Call S))
    (hfresh : Q (Cover.freshMerged (Cover.mergedOf cfg layer cur) (d0Of cfg layer cur)))
    (hrel : ∀ n, Q n → Q { n with fRelaxed := true })
    (hdel : ∀ n b, Q n → Q { n with deleted := b })
    (happ : ∀ dropN, Q dropN → ∀ e ∈ dropN.inb, ∀ src m, Q m →
      Q (appendEdge src m ⟨e.fromL, e.fromP, e.dec,
        cfg.R.relax src.state dropN.state (Cover.mergedOf cfg layer cur) e.dec e.cost⟩))
    (h : ∀ n ∈ layer, Q n) : ∀ n ∈ (relaxLayer cfg layers layer cur log).1, Q n := by
  have hmark : ∀ (l : List (Node S)) (mp : Nat), (∀ n ∈ l, Q n) → ∀ n ∈ Cover.markRelaxed l mp, Q n := by
    intro l mp hl
    unfold Cover.markRelaxed
    cases h1 : l[mp]? with
    | none => exact hl
    | some n => exact forall_set hl mp (hrel n (hl n (List.mem_of_getElem? h1)))
  have houter : ∀ (mp : Nat) (rest : List Nat) (acc : List (Node S) × List (Call S)), (∀ n ∈ acc.1, Q n) →
      ∀ n ∈ (rest.foldl (Cover.dropStep cfg layers (Cover.mergedOf cfg layer cur) mp) acc).1, Q n := by
    intro mp rest acc hacc
    exact Ddo.foldl_inv (β := List (Node S) × List (Call S)) (fun b => ∀ n ∈ b.1, Q n) _ rest acc hacc
      (fun b p _ hb => dropStep_forall Q cfg layers _ mp b p (fun n hn => hdel n true hn) happ hb)
  refine relaxLayer_elimD cfg layers layer cur log (fun r => ∀ n ∈ r.1, Q n) ?_ ?_
  · intro _ lg
    apply houter
    apply hmark
    intro n hn
    rcases List.mem_append.mp hn with hn | hn
    · exact h n hn
    · rw [List.mem_singleton] at hn; rw [hn]; exact hfresh
  · intro mp _ lg
    dsimp only
    unfold Cover.undelete
    have h3 := houter mp (Cover.restOf cfg layer cur) (Cover.markRelaxed layer mp, lg) (hmark layer mp h)
    cases (List.take cfg.width (sortSquash cfg layer cur)).getLast? with
    | none => exact h3
    | some sp =>
      dsimp only
      cases h1 : ((Cover.restOf cfg layer cur).foldl (Cover.dropStep cfg layers (Cover.mergedOf cfg layer cur) mp)
          (Cover.markRelaxed layer mp, lg)).1[sp]? with
      | none => exact h3
      | some n => exact forall_set h3 sp (hdel n false (h3 n (List.mem_of_getElem? h1)))

/-- the depth given to the fresh merged node is the depth of the layer -/
theorem d0Of_eq (cfg : Cfg S K) (layer : List (Node S)) (cur : List Nat) (D : Nat) (hW : 1 ≤ cfg.width)
    (hlen : cur.length > cfg.width) (hcur : ∀ p ∈ cur, p < layer.length) (hD : ∀ n ∈ layer, n.depth = D) :
    d0Of cfg layer cur = D := by
  unfold d0Of
  have hl : (Cover.restOf cfg layer cur).length = cur.length - (cfg.width - 1) := by
    unfold Cover.restOf sortSquash; rw [List.length_drop, Cover.length_sortBy]
  cases hr : Cover.restOf cfg layer cur with
  | nil => rw [hr] at hl; simp only [List.length_nil] at hl; omega
  | cons q0 t =>
    have hq : q0 ∈ Cover.restOf cfg layer cur := by rw [hr]; exact List.mem_cons_self
    have hqc : q0 ∈ cur := by
      unfold Cover.restOf sortSquash at hq
      exact (Cover.mem_sortBy _ _ _).mp (List.mem_of_mem_drop hq)
    have hlt := hcur q0 hqc
    simp only [List.head?_cons]
    rw [List.getElem?_eq_getElem hlt]
    exact hD _ (List.getElem_mem hlt)

/-! ## the invariant -/

/-- what `_filter_with_cache` recorded in a node it pruned -/
def CacheFacts (cfg : Cfg S K) (cache : Cache S) (n : Node S) : Prop :=
  n.deleted = false ∧ ∃ t, lookup cfg cache n = some t ∧ n.theta = some t.value ∧ n.value ≤ t.value

/-- the fields of a node of layer `i` (depth `D`) that the bottom-up passes start from, and its arcs -/
structure NodeBase (B : Int) (i D : Nat) (n : Node S) : Prop where
  depth : n.depth = D
  cutset : n.cutset = false
  above : n.above = false
  arcs : ∀ a ∈ n.inb, a.fromL + 1 = i ∧ Cover.Within B a.cost
  thetaNone : n.cache = false → n.theta = none

/-- the **unconditional** one-step fact: if the node `n` (position `(l, p)`, depth `k`) passes the rough-upper-bound test
    and its state has potential `h`, a node `m` of the layer `child` satisfying `OkC` holds an inbound arc from `(l, p)`
    along which no potential is lost -/
def StepU (cfg : Cfg S K) (H : Nat → S → EInt) (B : Int) (k l p : Nat) (n : Node S) (child : List (Node S))
    (OkC : Nat → Node S → Prop) : Prop :=
  satAdd (cfg.R.rub n.state) n.value > cfg.lb → ∀ h, H k n.state = some h →
    ∃ (p' : Nat) (m : Node S) (e : Arc) (h' : Int), child[p']? = some m ∧ OkC p' m ∧ e ∈ m.inb ∧ e.fromL = l ∧ e.fromP = p ∧
      Cover.Within B e.cost ∧ H (k + 1) m.state = some h' ∧ h ≤ e.cost + h' ∧ n.value + e.cost ≤ m.value

/-- classification of the node `n` at position `q`, `InCur` = "handed to the expansion" -/
structure Cls (cfg : Cfg S K) (cache : Cache S) (InCur : Prop) (n : Node S) : Prop where
  pruned : n.cache = true → CacheFacts cfg cache n
  alive : n.cache = false → n.deleted = false → InCur
  cur : InCur → n.cache = false ∧ n.deleted = false

/-- the invariant of the compilation loop; `Live l p`: the node at position `p` of layer `l` was handed to the expansion -/
structure TInv (cfg : Cfg S K) (H : Nat → S → EInt) (B : Int) (cache : Cache S) (Live : Nat → Nat → Prop) (dd : DD S K) : Prop where
  depth : dd.depth = cfg.root.depth + dd.layers.length
  cacheEq : dd.cache = cache
  rngN : ∀ n ∈ dd.next, Cover.Within (Cover.Bd B dd.layers.length) n.value
  rngL : ∀ (i : Nat) ly, dd.layers[i]? = some ly → ∀ n ∈ ly, Cover.Within (Cover.Bd B i) n.value
  baseN : ∀ n ∈ dd.next, NodeBase B dd.layers.length dd.depth n ∧ n.cache = false ∧ n.deleted = false
  baseL : ∀ (i : Nat) ly, dd.layers[i]? = some ly → ∀ n ∈ ly, NodeBase B i (cfg.root.depth + i) n
  att : dd.layers ≠ [] → ∀ n ∈ dd.next, ∃ a ∈ n.inb, ∃ p, getNode dd.layers a.fromL a.fromP = some p
  clsL : ∀ (i q : Nat) ly n, dd.layers[i]? = some ly → ly[q]? = some n → Cls cfg cache (Live i q) n
  rub : ∀ (l p : Nat) ly n, dd.layers[l]? = some ly → Live l p → ly[p]? = some n → n.rub = cfg.R.rub n.state
  stepL : ∀ (l p : Nat) ly ly' n, dd.layers[l]? = some ly → dd.layers[l + 1]? = some ly' → Live l p → ly[p]? = some n →
    StepU cfg H B (cfg.root.depth + l) l p n ly' (fun q m => Live (l + 1) q ∨ m.cache = true)
  stepN : ∀ (l p : Nat) ly n, l + 1 = dd.layers.length → dd.layers[l]? = some ly → Live l p → ly[p]? = some n →
    StepU cfg H B (cfg.root.depth + l) l p n dd.next (fun _ _ => True)
  rubN : ∀ n ∈ dd.next, n.rub = iMax
  root0 : dd.layers = [] → ∃ n0, dd.next = [n0] ∧ n0.state = cfg.root.state ∧ n0.value = cfg.root.value
  /-- the first layer is never filtered by the cache -/
  first : ∀ ly, dd.layers[0]? = some ly → ∀ n ∈ ly, n.cache = false
  /-- the root of the diagram sits at position `(0, 0)`, alive -/
  root1 : dd.layers ≠ [] → ∃ ly n0, dd.layers[0]? = some ly ∧ ly[0]? = some n0 ∧ n0.state = cfg.root.state ∧
    n0.value = cfg.root.value ∧ n0.cache = false ∧ n0.deleted = false ∧ Live 0 0

/-- the hypotheses of the loop -/
structure HypT (cfg : Cfg S K) (H : Nat → S → EInt) (B : Int) : Prop where
  rel : cfg.ctype = .relaxed
  dom : cfg.dom = none
  W : 1 ≤ cfg.width
  P : Potential cfg.P H
  M : MergeOk cfg.R H
  AM : Cover.AttMerge cfg.P cfg.R H
  B : NoClamp cfg.P cfg.R cfg.root.value B


/-! ## `_relax`: fields that are kept position-wise -/

theorem appendEdge_flds (p c : Node S) (a : Arc) :
    (appendEdge p c a).depth = c.depth ∧ (appendEdge p c a).cutset = c.cutset ∧ (appendEdge p c a).above = c.above ∧
    (appendEdge p c a).theta = c.theta ∧ (appendEdge p c a).cache = c.cache ∧ (appendEdge p c a).deleted = c.deleted ∧
    (appendEdge p c a).rub = c.rub := by
  unfold appendEdge; dsimp only; split <;> exact ⟨rfl, rfl, rfl, rfl, rfl, rfl, rfl⟩

theorem redirStep_map {α : Type} (f : Node S → α) (hf : ∀ (src m : Node S) a, f (appendEdge src m a) = f m)
    (cfg : Cfg S K) (layers : List (List (Node S))) (merged : S) (mpos : Nat) (dropN : Node S)
    (acc : List (Node S) × List (Call S)) (e : Arc) :
    (Cover.redirStep cfg layers merged mpos dropN acc e).1.map f = acc.1.map f := by
  rcases Cover.redirStep_cases cfg layers merged mpos dropN acc e with ⟨h, _⟩ | ⟨src, m, _, hm, h⟩
  · rw [h]
  · rw [h]; exact C12.map_set_same f _ _ m _ hm (hf _ _ _)

theorem dropStep_map {α : Type} (f : Node S → α) (hf : ∀ (src m : Node S) a, f (appendEdge src m a) = f m)
    (hd : ∀ (n : Node S) b, f { n with deleted := b } = f n)
    (cfg : Cfg S K) (layers : List (List (Node S))) (merged : S) (mpos : Nat)
    (acc : List (Node S) × List (Call S)) (p : Nat) :
    (Cover.dropStep cfg layers merged mpos acc p).1.map f = acc.1.map f := by
  unfold Cover.dropStep
  cases h : acc.1[p]? with
  | none => rfl
  | some dropN =>
    dsimp only
    have := Ddo.foldl_inv (β := List (Node S) × List (Call S)) (fun b => b.1.map f = acc.1.map f)
      (Cover.redirStep cfg layers merged mpos dropN) dropN.inb (acc.1.set p { dropN with deleted := true }, acc.2)
      (C12.map_set_same f _ _ dropN _ h (hd _ _))
      (fun b e _ hb => (redirStep_map f hf cfg layers merged mpos dropN b e).trans hb)
    exact this

theorem outer_map {α : Type} (f : Node S → α) (hf : ∀ (src m : Node S) a, f (appendEdge src m a) = f m)
    (hd : ∀ (n : Node S) b, f { n with deleted := b } = f n)
    (cfg : Cfg S K) (layers : List (List (Node S))) (merged : S) (mpos : Nat) (rest : List Nat)
    (acc : List (Node S) × List (Call S)) :
    (rest.foldl (Cover.dropStep cfg layers merged mpos) acc).1.map f = acc.1.map f :=
  Ddo.foldl_inv (β := List (Node S) × List (Call S)) (fun b => b.1.map f = acc.1.map f) _ rest acc rfl
    (fun b p _ hb => (dropStep_map f hf hd cfg layers merged mpos b p).trans hb)

theorem markRelaxed_map {α : Type} (f : Node S → α) (hr : ∀ n : Node S, f { n with fRelaxed := true } = f n)
    (l : List (Node S)) (mp : Nat) : (Cover.markRelaxed l mp).map f = l.map f := by
  unfold Cover.markRelaxed
  cases h : l[mp]? with
  | none => rfl
  | some n => exact C12.map_set_same f _ _ n _ h (hr n)

theorem undelete_map {α : Type} (f : Node S → α) (hd : ∀ (n : Node S) b, f { n with deleted := b } = f n)
    (l : List (Node S)) (c : List Nat) : (Cover.undelete l c).map f = l.map f := by
  unfold Cover.undelete
  cases c.getLast? with
  | none => rfl
  | some sp =>
    dsimp only
    cases h : l[sp]? with
    | none => rfl
    | some n => exact C12.map_set_same f _ _ n _ h (hd n false)

/-- a field that `append_edge_to!` and the two flags of `_relax` leave alone is kept position-wise; the positions handed
    to the expansion are positions of `cur` or the fresh merged node -/
theorem relaxLayer_map {α : Type} (f : Node S → α) (hf : ∀ (src m : Node S) a, f (appendEdge src m a) = f m)
    (hr : ∀ n : Node S, f { n with fRelaxed := true } = f n)
    (hd : ∀ (n : Node S) b, f { n with deleted := b } = f n)
    (cfg : Cfg S K) (layers : List (List (Node S))) (layer : List (Node S)) (cur : List Nat) (log : List (Call S)) :
    ((relaxLayer cfg layers layer cur log).1.map f = layer.map f ∨
      (relaxLayer cfg layers layer cur log).1.map f =
        layer.map f ++ [f (Cover.freshMerged (Cover.mergedOf cfg layer cur) (d0Of cfg layer cur))]) ∧
    ∀ q ∈ (relaxLayer cfg layers layer cur log).2.1, q ∈ cur ∨ q = layer.length := by
  have hmemS : ∀ q, q ∈ sortSquash cfg layer cur → q ∈ cur := fun q hq => by
    unfold sortSquash at hq; exact (Cover.mem_sortBy _ _ _).mp hq
  refine relaxLayer_elimD cfg layers layer cur log (fun r =>
    (r.1.map f = layer.map f ∨
      r.1.map f = layer.map f ++ [f (Cover.freshMerged (Cover.mergedOf cfg layer cur) (d0Of cfg layer cur))]) ∧
    ∀ q ∈ r.2.1, q ∈ cur ∨ q = layer.length) ?_ ?_
  · intro _ lg
    dsimp only
    refine ⟨.inr ?_, fun q hq => ?_⟩
    · rw [outer_map f hf hd]
      dsimp only
      rw [markRelaxed_map f hr, List.map_append]
      rfl
    · rcases List.mem_append.mp hq with hk | hk
      · exact .inl (hmemS q (List.mem_of_mem_take hk))
      · rw [List.mem_singleton] at hk; exact .inr hk
  · intro mp _ lg
    dsimp only
    refine ⟨.inl ?_, fun q hq => .inl (hmemS q (List.mem_of_mem_take hq))⟩
    rw [undelete_map f hd, outer_map f hf hd]
    dsimp only
    rw [markRelaxed_map f hr]

/-- position-wise reading of `relaxLayer_map` -/
theorem relaxLayer_fld {α : Type} (f : Node S → α) (hf : ∀ (src m : Node S) a, f (appendEdge src m a) = f m)
    (hr : ∀ n : Node S, f { n with fRelaxed := true } = f n)
    (hd : ∀ (n : Node S) b, f { n with deleted := b } = f n)
    (cfg : Cfg S K) (layers : List (List (Node S))) (layer : List (Node S)) (cur : List Nat) (log : List (Call S))
    (q : Nat) (n' : Node S) (hn' : (relaxLayer cfg layers layer cur log).1[q]? = some n') :
    (∃ n, layer[q]? = some n ∧ f n' = f n) ∨
    (q = layer.length ∧ f n' = f (Cover.freshMerged (Cover.mergedOf cfg layer cur) (d0Of cfg layer cur))) := by
  have hm : ((relaxLayer cfg layers layer cur log).1.map f)[q]? = some (f n') := by
    rw [List.getElem?_map, hn']; rfl
  rcases (relaxLayer_map f hf hr hd cfg layers layer cur log).1 with h | h
  · rw [h, List.getElem?_map] at hm
    cases h1 : layer[q]? with
    | none => rw [h1] at hm; cases hm
    | some n =>
      rw [h1] at hm
      simp only [Option.map_some, Option.some.injEq] at hm
      exact .inl ⟨n, rfl, hm.symm⟩
  · rw [h] at hm
    by_cases hq : q < layer.length
    · rw [List.getElem?_append_left (by rw [List.length_map]; exact hq), List.getElem?_map] at hm
      rw [List.getElem?_eq_getElem hq] at hm ⊢
      simp only [Option.map_some, Option.some.injEq] at hm
      exact .inl ⟨_, rfl, hm.symm⟩
    · have hlt := Cover.lt_of_getElem?_some hm
      rw [List.length_append, List.length_map, List.length_singleton] at hlt
      have hq' : q = layer.length := by omega
      subst hq'
      have : (layer.map f ++ [f (Cover.freshMerged (Cover.mergedOf cfg layer cur) (d0Of cfg layer cur))])[layer.length]? =
          some (f (Cover.freshMerged (Cover.mergedOf cfg layer cur) (d0Of cfg layer cur))) := by
        have := List.getElem?_concat_length (l := layer.map f) (a := f (Cover.freshMerged (Cover.mergedOf cfg layer cur) (d0Of cfg layer cur)))
        rw [List.length_map] at this
        exact this
      rw [this] at hm
      simp only [Option.some.injEq] at hm
      exact .inr ⟨rfl, hm.symm⟩


/-! ## the three stages of a layer step -/

/-- what the expansion needs from the filtered and squashed layer -/
structure SqPostT (cfg : Cfg S K) (H : Nat → S → EInt) (B : Int) (cache : Cache S) (Live : Nat → Nat → Prop) (dd : DD S K)
    (var : Nat) (layer' : List (Node S)) (cur' : List Nat) : Prop where
  att : ∀ q ∈ cur', ∀ n, layer'[q]? = some n → Cover.AttAt cfg H dd.depth var n.state
  rng : ∀ n ∈ layer', Cover.Within (Cover.Bd B dd.layers.length) n.value
  base : ∀ n ∈ layer', NodeBase B dd.layers.length dd.depth n
  cls : ∀ q n, layer'[q]? = some n → Cls cfg cache (q ∈ cur') n
  step : ∀ (l p : Nat) ly n, l + 1 = dd.layers.length → dd.layers[l]? = some ly → Live l p → ly[p]? = some n →
    StepU cfg H B (cfg.root.depth + l) l p n layer' (fun q m => q ∈ cur' ∨ m.cache = true)
  first : dd.layers = [] → ∀ n ∈ layer', n.cache = false
  root : dd.layers = [] → ∃ n0, layer'[0]? = some n0 ∧ n0.state = cfg.root.state ∧ n0.value = cfg.root.value ∧ 0 ∈ cur'

/-- what `_relax` needs from the filtered layer, besides `SqPostT` -/
structure SqPre (cfg : Cfg S K) (dd : DD S K) (layer : List (Node S)) (cur : List Nat) : Prop where
  nodup : cur.Nodup
  lt : ∀ p ∈ cur, p < layer.length
  states : ∀ u ∈ layer, u.state ∈ dd.next.map (·.state)
  attL : dd.layers ≠ [] → ∀ q ∈ cur, ∀ u, layer[q]? = some u →
    ∃ a ∈ u.inb, ∃ src, getNode dd.layers a.fromL a.fromP = some src

/-- the layer and the positions after `_filter_with_cache` (skipped for the first layer) -/
def fcOf (cfg : Cfg S K) (dd : DD S K) : List (Node S) × List Nat :=
  if dd.layers.isEmpty then (dd.next, List.range dd.next.length)
  else filterCache cfg dd.cache dd.next (List.range dd.next.length)

/-- common description of the filter and of its absence -/
def FcDesc (cfg : Cfg S K) (cache : Cache S) (dd : DD S K) (layer : List (Node S)) (cur : List Nat) : Prop :=
  ∃ (g : Node S → Node S) (keep : Node S → Bool), layer = dd.next.map g ∧
    (∀ p, p ∈ cur ↔ ∃ n, dd.next[p]? = some n ∧ keep n = true) ∧ cur.Nodup ∧
    (∀ m, (keep m = true ∧ g m = m) ∨
      (keep m = false ∧ ∃ t, lookup cfg cache m = some t ∧ m.value ≤ t.value ∧
        g m = { m with cache := true, theta := some t.value })) ∧
    (dd.layers = [] → ∀ m, g m = m)

theorem fcOf_desc (cfg : Cfg S K) (dd : DD S K) : FcDesc cfg dd.cache dd (fcOf cfg dd).1 (fcOf cfg dd).2 := by
  unfold fcOf
  split
  · refine ⟨id, fun _ => true, (List.map_id _).symm, fun p => ?_, List.nodup_range, fun m => .inl ⟨rfl, rfl⟩, fun _ _ => rfl⟩
    dsimp only
    rw [List.mem_range]
    constructor
    · intro hp; exact ⟨_, List.getElem?_eq_getElem hp, rfl⟩
    · rintro ⟨n, hn, _⟩; exact Cover.lt_of_getElem?_some hn
  · rename_i hemp
    obtain ⟨h1, h2, h3⟩ := filterCache_spec cfg dd.cache dd.next
    refine ⟨fcNode cfg dd.cache, fcKeep cfg dd.cache, h1, h2, h3, fun m => ?_, fun h => ?_⟩
    · unfold fcNode fcKeep
      cases ht : lookup cfg dd.cache m with
      | none => exact .inl ⟨rfl, rfl⟩
      | some t =>
        dsimp only
        by_cases hv : m.value > t.value
        · left; simp only [hv, decide_true, if_true]; exact ⟨True.intro, True.intro⟩
        · right
          simp only [hv, decide_false, if_false]
          exact ⟨True.intro, t, rfl, by omega, rfl⟩
    · rw [h] at hemp; exact absurd rfl hemp

theorem sqpostT_fc (cfg : Cfg S K) (H : Nat → S → EInt) (B : Int) (cache : Cache S) (Live : Nat → Nat → Prop) (dd : DD S K)
    (var : Nat) (hP : Potential cfg.P H) (hnv : cfg.P.nextVar dd.depth (dd.next.map (·.state)) = some var)
    (hI : TInv cfg H B cache Live dd) (layer : List (Node S)) (cur : List Nat) (hfc : FcDesc cfg cache dd layer cur) :
    SqPostT cfg H B cache Live dd var layer cur ∧ SqPre cfg dd layer cur := by
  obtain ⟨g, keep, hlay, hcur, hnd, hg, hfirst⟩ := hfc
  have hget : ∀ (q : Nat) n, layer[q]? = some n → ∃ m, dd.next[q]? = some m ∧ n = g m := by
    intro q n hn
    rw [hlay, List.getElem?_map] at hn
    cases h1 : dd.next[q]? with
    | none => rw [h1] at hn; cases hn
    | some m =>
      rw [h1] at hn
      simp only [Option.map_some, Option.some.injEq] at hn
      exact ⟨m, rfl, hn.symm⟩
  have hmem : ∀ n ∈ layer, ∃ m ∈ dd.next, n = g m := by
    intro n hn
    obtain ⟨q, hq⟩ := List.mem_iff_getElem?.mp hn
    obtain ⟨m, hm, he⟩ := hget q n hq
    exact ⟨m, List.mem_of_getElem? hm, he⟩
  have hsame : ∀ m, (g m).state = m.state ∧ (g m).value = m.value ∧ (g m).inb = m.inb ∧ (g m).depth = m.depth ∧
      (g m).cutset = m.cutset ∧ (g m).above = m.above ∧ (g m).deleted = m.deleted := by
    intro m
    rcases hg m with ⟨_, h⟩ | ⟨_, t, _, _, h⟩
    · rw [h]; exact ⟨rfl, rfl, rfl, rfl, rfl, rfl, rfl⟩
    · rw [h]; exact ⟨rfl, rfl, rfl, rfl, rfl, rfl, rfl⟩
  have hlen : layer.length = dd.next.length := by rw [hlay, List.length_map]
  refine ⟨⟨?_, ?_, ?_, ?_, ?_, ?_, ?_⟩, ⟨hnd, ?_, ?_, ?_⟩⟩
  · -- att
    intro q _ n hn h1 hH1
    obtain ⟨m, hm, rfl⟩ := hget q n hn
    rw [(hsame m).1] at hH1 ⊢
    exact hP.att dd.depth _ var m.state h1 hnv (List.mem_map_of_mem (List.mem_of_getElem? hm)) hH1
  · -- rng
    intro n hn
    obtain ⟨m, hm, rfl⟩ := hmem n hn
    rw [(hsame m).2.1]; exact hI.rngN m hm
  · -- base
    intro n hn
    obtain ⟨m, hm, rfl⟩ := hmem n hn
    obtain ⟨hb, hc, hd⟩ := hI.baseN m hm
    obtain ⟨s1, s2, s3, s4, s5, s6, s7⟩ := hsame m
    refine ⟨by rw [s4]; exact hb.depth, by rw [s5]; exact hb.cutset, by rw [s6]; exact hb.above,
      by rw [s3]; exact hb.arcs, ?_⟩
    rcases hg m with ⟨_, h⟩ | ⟨_, t, _, _, h⟩
    · rw [h]; exact hb.thetaNone
    · rw [h]; intro h'; cases h'
  · -- cls
    intro q n hn
    obtain ⟨m, hm, rfl⟩ := hget q n hn
    obtain ⟨hb, hc, hd⟩ := hI.baseN m (List.mem_of_getElem? hm)
    rcases hg m with ⟨hk, h⟩ | ⟨hk, t, ht, hv, h⟩
    · have hq : q ∈ cur := (hcur q).mpr ⟨m, hm, hk⟩
      rw [h]
      exact ⟨fun h' => (by rw [hc] at h'; cases h'), fun _ _ => hq, fun _ => ⟨hc, hd⟩⟩
    · have hq : q ∉ cur := by
        intro hq
        obtain ⟨m', hm', hk'⟩ := (hcur q).mp hq
        rw [hm] at hm'; cases hm'
        rw [hk] at hk'; cases hk'
      rw [h]
      exact ⟨fun _ => ⟨hd, t, ht, rfl, hv⟩, fun h' => (by cases h'), fun h' => absurd h' hq⟩
  · -- step
    intro l p ly n hl hly hlive hn htest h hH
    obtain ⟨p', m, e, h', hm, _, he, r1, r2, r3, r4, r5, r6⟩ := hI.stepN l p ly n hl hly hlive hn htest h hH
    obtain ⟨s1, s2, s3, _⟩ := hsame m
    have hm' : layer[p']? = some (g m) := by rw [hlay, List.getElem?_map, hm]; rfl
    refine ⟨p', g m, e, h', hm', ?_, by rw [s3]; exact he, r1, r2, r3, by rw [s1]; exact r4, r5, by rw [s2]; exact r6⟩
    rcases hg m with ⟨hk, _⟩ | ⟨_, t, _, _, h2⟩
    · exact .inl ((hcur p').mpr ⟨m, hm, hk⟩)
    · right; rw [h2]
  · -- first
    intro hemp n hn
    obtain ⟨m, hm, rfl⟩ := hmem n hn
    rw [hfirst hemp m]
    exact (hI.baseN m hm).2.1
  · -- root
    intro hemp
    obtain ⟨n0, hn0, hs0, hv0⟩ := hI.root0 hemp
    have h0 : dd.next[0]? = some n0 := by rw [hn0]; rfl
    have hk : keep n0 = true := by
      rcases hg n0 with ⟨hk, _⟩ | ⟨_, t, _, _, h2⟩
      · exact hk
      · exfalso
        have hc := (hI.baseN n0 (List.mem_of_getElem? h0)).2.1
        have h3 := congrArg Node.cache h2
        rw [hfirst hemp n0, hc] at h3
        cases h3
    refine ⟨n0, ?_, hs0, hv0, (hcur 0).mpr ⟨n0, h0, hk⟩⟩
    rw [hlay, List.getElem?_map, h0, Option.map_some, hfirst hemp n0]
  · -- lt
    intro p hp
    obtain ⟨n, hn, _⟩ := (hcur p).mp hp
    rw [hlen]; exact Cover.lt_of_getElem?_some hn
  · -- states
    intro u hu
    obtain ⟨m, hm, rfl⟩ := hmem u hu
    rw [(hsame m).1]; exact List.mem_map_of_mem hm
  · -- attL
    intro hne q _ u hu
    obtain ⟨m, hm, rfl⟩ := hget q u hu
    rw [(hsame m).2.2.1]
    exact hI.att hne m (List.mem_of_getElem? hm)

theorem srcOk_of_tinv (cfg : Cfg S K) (H : Nat → S → EInt) (B : Int) (cache : Cache S) (Live : Nat → Nat → Prop) (dd : DD S K)
    (hB : NoClamp cfg.P cfg.R cfg.root.value B) (hI : TInv cfg H B cache Live dd) :
    Cover.SrcOk cfg dd.layers B (Cover.Bd B dd.layers.length) := by
  constructor
  · intro l p src c hsrc hc
    obtain ⟨ly, hly, hp⟩ := Cover.getNode_lt hsrc
    have hw := hI.rngL l ly hly src (List.mem_of_getElem? hp)
    have hl := Cover.lt_of_getElem?_some hly
    have := Cover.within_satAdd hw hc
    rw [← Cover.Bd_succ] at this
    exact this.mono (Cover.Bd_mono hB.nonneg (by omega))
  · intro s u m d c hc
    exact hB.relax s u m d c hc

theorem sqpostT_relax (cfg : Cfg S K) (H : Nat → S → EInt) (B : Int) (cache : Cache S) (Live : Nat → Nat → Prop) (dd : DD S K)
    (var : Nat) (lg : List (Call S)) (hy : HypT cfg H B)
    (hnv : cfg.P.nextVar dd.depth (dd.next.map (·.state)) = some var)
    (hlen : dd.layers.length ≤ cfg.P.nbVars) (layer : List (Node S)) (cur : List Nat)
    (hc1 : cur.length > cfg.width) (hc2 : dd.layers.length > 1)
    (hI : TInv cfg H B cache Live dd) (hsq : SqPostT cfg H B cache Live dd var layer cur) (hpre : SqPre cfg dd layer cur) :
    SqPostT cfg H B cache Live dd var (relaxLayer cfg dd.layers layer cur lg).1 (relaxLayer cfg dd.layers layer cur lg).2.1 := by
  have hne : dd.layers ≠ [] := by intro h; rw [h] at hc2; simp at hc2
  have hcur := hpre.lt
  have hpost := Cover.relaxLayer_spec cfg dd.layers layer cur lg hy.W hc1 hcur
  have hpostA := relaxLayer_specA cfg dd.layers layer cur lg hy.W hcur
  have hsrc := srcOk_of_tinv cfg H B cache Live dd hy.B hI
  have hdel : ∀ q ∈ cur, ∀ n, layer[q]? = some n → n.deleted = false := fun q hq n hn => ((hsq.cls q n hn).cur hq).2
  obtain ⟨p1, p2, p3⟩ := relaxLayer_pos cfg dd.layers layer cur lg hy.W hc1 hcur hpre.nodup hdel
  have hsub := (relaxLayer_map Node.cache (fun src m a => (appendEdge_flds src m a).2.2.2.2.1) (fun _ => rfl) (fun _ _ => rfl)
    cfg dd.layers layer cur lg).2
  have hfld := relaxLayer_fld Node.cache (fun src m a => (appendEdge_flds src m a).2.2.2.2.1) (fun _ => rfl) (fun _ _ => rfl)
    cfg dd.layers layer cur lg
  have hXsub : ∀ x ∈ Cover.restStatesOf cfg layer cur, x ∈ dd.next.map (·.state) := by
    intro x hx
    unfold Cover.restStatesOf at hx
    obtain ⟨p0, _, hp0⟩ := List.mem_filterMap.mp hx
    cases hn0 : layer[p0]? with
    | none => rw [hn0] at hp0; cases hp0
    | some n0 =>
      rw [hn0] at hp0
      simp only [Option.map_some, Option.some.injEq] at hp0
      rw [← hp0]
      exact hpre.states n0 (List.mem_of_getElem? hn0)
  have hXne : Cover.restStatesOf cfg layer cur ≠ [] := by
    obtain ⟨q0, hq0, hq0c⟩ := Cover.rest_nonempty cfg layer cur hy.W hc1
    have hlt := hcur q0 hq0c
    apply List.ne_nil_of_mem (a := layer[q0].state)
    unfold Cover.restStatesOf
    exact List.mem_filterMap.mpr ⟨q0, hq0, by rw [List.getElem?_eq_getElem hlt]; rfl⟩
  have hd0 : d0Of cfg layer cur = dd.depth :=
    d0Of_eq cfg layer cur dd.depth hy.W hc1 hcur (fun n hn => (hsq.base n hn).depth)
  refine ⟨?_, ?_, ?_, ?_, ?_, ?_, ?_⟩
  · -- att
    intro q' hq' n' hn' h1 hH1
    rcases hpostA.states q' hq' n' hn' with ⟨u, hu, hs⟩ | hs
    · rw [hs] at hH1 ⊢
      exact hy.P.att dd.depth _ var u.state h1 hnv (hpre.states u hu) hH1
    · rw [hs] at hH1 ⊢
      exact hy.AM dd.depth (dd.next.map (·.state)) var _ h1 hnv hXne hXsub hH1
  · -- rng
    exact hpost.range B (Cover.Bd B dd.layers.length) hsrc (Cover.Bd_nonneg hy.B.nonneg _)
      ⟨fun n hn => ⟨hsq.rng n hn, fun a ha => ((hsq.base n hn).arcs a ha).2⟩, fun q hq u hu => hpre.attL hne q hq u hu⟩
  · -- base
    refine relaxLayer_forallD (NodeBase B dd.layers.length dd.depth) cfg dd.layers layer cur lg ?_ ?_ ?_ ?_ hsq.base
    · exact ⟨hd0, rfl, rfl, fun a ha => absurd ha List.not_mem_nil, fun _ => rfl⟩
    · intro n hn; exact ⟨hn.depth, hn.cutset, hn.above, hn.arcs, hn.thetaNone⟩
    · intro n b hn; exact ⟨hn.depth, hn.cutset, hn.above, hn.arcs, hn.thetaNone⟩
    · intro dropN hd e he src m hm
      obtain ⟨f1, f2, f3, f4, f5, _, _⟩ := appendEdge_flds src m
        ⟨e.fromL, e.fromP, e.dec, cfg.R.relax src.state dropN.state (Cover.mergedOf cfg layer cur) e.dec e.cost⟩
      refine ⟨by rw [f1]; exact hm.depth, by rw [f2]; exact hm.cutset, by rw [f3]; exact hm.above, ?_,
        by rw [f4, f5]; exact hm.thetaNone⟩
      intro a ha
      rw [Cover.appendEdge_inb] at ha
      rcases List.mem_cons.mp ha with ha | ha
      · rw [ha]
        obtain ⟨h1, h2⟩ := hd.arcs e he
        exact ⟨h1, hy.B.relax _ _ _ _ _ h2⟩
      · exact hm.arcs a ha
  · -- cls
    intro q n' hn'
    by_cases hqc : q ∈ cur ∨ ¬ q < layer.length
    · have hcf : n'.cache = false := by
        rcases hfld q n' hn' with ⟨n, hn, hc⟩ | ⟨_, hc⟩
        · have hlt := Cover.lt_of_getElem?_some hn
          rcases hqc with hqc | hqc
          · rw [hc]; exact ((hsq.cls q n hn).cur hqc).1
          · exact absurd hlt hqc
        · rw [hc]; rfl
      refine ⟨fun h => (by rw [hcf] at h; cases h), fun _ hd' => ?_, fun hq' => ⟨hcf, ?_⟩⟩
      · rcases p3 q n' hn' hd' with h | ⟨h1, h2⟩
        · exact h
        · rcases hqc with hqc | hqc
          · exact absurd hqc h1
          · exact absurd h2 hqc
      · obtain ⟨n'', hn'', hd''⟩ := p2 q hq'
        rw [hn'] at hn''; cases hn''; exact hd''
    · have hq1 : q ∉ cur := fun h => hqc (.inl h)
      have hq2 : q < layer.length := Decidable.byContradiction (fun h => hqc (.inr h))
      rw [p1 q hq1 hq2] at hn'
      have hold := hsq.cls q n' hn'
      have hq' : q ∉ (relaxLayer cfg dd.layers layer cur lg).2.1 := by
        intro h
        rcases hsub q h with h | h
        · exact hq1 h
        · omega
      exact ⟨hold.pruned, fun hc hd' => absurd (hold.alive hc hd') hq1, fun h => absurd h hq'⟩
  · -- step
    intro l p ly n hl hly hlive hn htest h hH
    obtain ⟨p0, m0, e0, h0, hm0, hok0, he0, hfl, hfp, hwc, hH0, hle, hval⟩ := hsq.step l p ly n hl hly hlive hn htest h hH
    by_cases hp0 : p0 ∈ cur
    · obtain ⟨q', hq', n', hn', hT⟩ := hpostA.transfer p0 hp0 m0 hm0
      rcases hT with ⟨hs, hv, harcs⟩ | ⟨hX, hs, harc⟩
      · exact ⟨q', n', e0, h0, hn', .inl hq', harcs e0 he0, hfl, hfp, hwc, by rw [hs]; exact hH0, hle, by omega⟩
      · have hsrcn : getNode dd.layers e0.fromL e0.fromP = some n := by rw [hfl, hfp]; exact getNode_of hly hn
        obtain ⟨hmem, hge⟩ := harc e0 he0 n hsrcn
        obtain ⟨h'', hH'', hle''⟩ := hy.M (cfg.root.depth + l + 1)
          (Cover.restStatesOf cfg layer cur) m0.state n.state e0.dec e0.cost h0 hX hH0
        have hrc := hy.B.relax n.state m0.state (Cover.mergedOf cfg layer cur) e0.dec e0.cost hwc
        have hw := hI.rngL l ly hly n (List.mem_of_getElem? hn)
        have hsmall : Cover.Bd B dd.layers.length ≤ 4611686018427387904 := Cover.Bd_small hy.B.toDom (by omega)
        have hbd : Cover.Bd B l + B ≤ Cover.Bd B dd.layers.length := by
          rw [← Cover.Bd_succ]; exact Cover.Bd_mono hy.B.nonneg (by omega)
        have e2 : satAdd n.value (cfg.R.relax n.state m0.state (Cover.mergedOf cfg layer cur) e0.dec e0.cost)
            = n.value + cfg.R.relax n.state m0.state (Cover.mergedOf cfg layer cur) e0.dec e0.cost := by
          apply Cover.satAdd_eq <;> (unfold Cover.Within at hw hrc; simp only [iMin, iMax]; omega)
        rw [e2] at hge
        refine ⟨q', n', _, h'', hn', .inl hq', hmem, hfl, hfp, hrc, ?_, ?_, hge⟩
        · rw [hs]; exact hH''
        · unfold Cover.mergedOf
          dsimp only
          omega
    · have hcm : m0.cache = true := by
        rcases hok0 with h | h
        · exact absurd h hp0
        · exact h
      have hlt := Cover.lt_of_getElem?_some hm0
      exact ⟨p0, m0, e0, h0, by rw [p1 p0 hp0 hlt]; exact hm0, .inr hcm, he0, hfl, hfp, hwc, hH0, hle, hval⟩
  · -- first
    intro h; exact absurd h hne
  · -- root
    intro h; exact absurd h hne
/-! ### the expansion -/

theorem expandOne_childrenP (Q Pp : Node S → Prop) (cfg : Cfg S K) (var lidx : Nat)
    (acc : List (Node S) × List (Node S) × List (Call S)) (p : Nat)
    (hprub : ∀ (n : Node S) r, Pp n → Pp { n with rub := r })
    (hold : ∀ (par : Node S) d n, Pp par → Q n → Q (appendEdge par n (Cover.arcOf cfg var lidx p par d)))
    (hfresh : ∀ (par : Node S) d, Pp par → Q (appendEdge par (Cover.freshNode par (cfg.P.trans par.state ⟨var, d⟩)
        (cfg.P.cost par.state (cfg.P.trans par.state ⟨var, d⟩) ⟨var, d⟩)) (Cover.arcOf cfg var lidx p par d)))
    (h : (∀ n ∈ acc.1, Pp n) ∧ ∀ m ∈ acc.2.1, Q m) :
    (∀ n ∈ (expandOne cfg var lidx acc p).1, Pp n) ∧ ∀ m ∈ (expandOne cfg var lidx acc p).2.1, Q m := by
  obtain ⟨ly, nx, lg⟩ := acc
  obtain ⟨hpar, hall⟩ := h
  cases hp : ly[p]? with
  | none => rw [Cover.expandOne_none _ _ _ _ _ _ _ hp]; exact ⟨hpar, hall⟩
  | some n =>
    rw [Cover.expandOne_some _ _ _ _ _ _ _ n hp]
    have hPn : Pp { n with rub := cfg.R.rub n.state } := hprub n _ (hpar n (List.mem_of_getElem? hp))
    split
    · dsimp only at hpar hall ⊢
      exact ⟨forall_set hpar p hPn,
        Cover.branchAll_forall Q cfg var lidx p _ _ (nx, _) hall (fun d _ m hm => hold _ d m hPn hm)
          (fun d _ => hfresh _ d hPn)⟩
    · exact ⟨forall_set hpar p hPn, hall⟩

theorem fold_childrenP (Q Pp : Node S → Prop) (cfg : Cfg S K) (var lidx : Nat) (cur : List Nat)
    (acc : List (Node S) × List (Node S) × List (Call S))
    (hprub : ∀ (n : Node S) r, Pp n → Pp { n with rub := r })
    (hold : ∀ q (par : Node S) d n, Pp par → Q n → Q (appendEdge par n (Cover.arcOf cfg var lidx q par d)))
    (hfresh : ∀ q (par : Node S) d, Pp par → Q (appendEdge par (Cover.freshNode par (cfg.P.trans par.state ⟨var, d⟩)
        (cfg.P.cost par.state (cfg.P.trans par.state ⟨var, d⟩) ⟨var, d⟩)) (Cover.arcOf cfg var lidx q par d)))
    (hpar : ∀ n ∈ acc.1, Pp n) (hall : ∀ m ∈ acc.2.1, Q m) :
    ∀ m ∈ (cur.foldl (expandOne cfg var lidx) acc).2.1, Q m :=
  (Ddo.foldl_inv (fun acc => (∀ n ∈ acc.1, Pp n) ∧ ∀ m ∈ acc.2.1, Q m) _ cur acc ⟨hpar, hall⟩
    (fun b q _ hb => expandOne_childrenP Q Pp cfg var lidx b q hprub (hold q) (hfresh q) hb)).2

theorem stripRub_all {a b : Node S} (h : stripRub a = stripRub b) :
    a.state = b.state ∧ a.value = b.value ∧ a.inb = b.inb ∧ a.depth = b.depth ∧ a.cutset = b.cutset ∧
    a.above = b.above ∧ a.theta = b.theta ∧ a.cache = b.cache ∧ a.deleted = b.deleted := by
  have h1 := congrArg Node.state h
  have h2 := congrArg Node.value h
  have h3 := congrArg Node.inb h
  have h4 := congrArg Node.depth h
  have h5 := congrArg Node.cutset h
  have h6 := congrArg Node.above h
  have h7 := congrArg Node.theta h
  have h8 := congrArg Node.cache h
  have h9 := congrArg Node.deleted h
  simp only [stripRub] at h1 h2 h3 h4 h5 h6 h7 h8 h9
  exact ⟨h1, h2, h3, h4, h5, h6, h7, h8, h9⟩

theorem NodeBase.of_strip {B : Int} {i D : Nat} {a b : Node S} (h : stripRub a = stripRub b) (ha : NodeBase B i D a) :
    NodeBase B i D b := by
  obtain ⟨_, _, h3, h4, h5, h6, h7, h8, _⟩ := stripRub_all h
  exact ⟨h4 ▸ ha.depth, h5 ▸ ha.cutset, h6 ▸ ha.above, h3 ▸ ha.arcs, h7 ▸ h8 ▸ ha.thetaNone⟩

theorem Cls.of_strip {cfg : Cfg S K} {cache : Cache S} {I : Prop} {a b : Node S} (h : stripRub a = stripRub b)
    (ha : Cls cfg cache I a) : Cls cfg cache I b := by
  obtain ⟨h1, h2, _, h4, _, _, h7, h8, h9⟩ := stripRub_all h
  have hlk : lookup cfg cache a = lookup cfg cache b := by unfold lookup; rw [h1, h4]
  refine ⟨fun hc => ?_, fun hc hd => ha.alive (h8 ▸ hc) (h9 ▸ hd), fun hi => ?_⟩
  · obtain ⟨c1, t, c2, c3, c4⟩ := ha.pruned (h8 ▸ hc)
    exact ⟨h9 ▸ c1, t, hlk ▸ c2, h7 ▸ c3, h2 ▸ c4⟩
  · obtain ⟨c1, c2⟩ := ha.cur hi
    exact ⟨h8 ▸ c1, h9 ▸ c2⟩

theorem expand_tinv (cfg : Cfg S K) (H : Nat → S → EInt) (B : Int) (cache : Cache S) (Live : Nat → Nat → Prop)
    (dd dd' : DD S K) (var : Nat) (layer' : List (Node S)) (cur' : List Nat) (lg : List (Call S)) (hy : HypT cfg H B)
    (hlen : dd.layers.length ≤ cfg.P.nbVars)
    (hI : TInv cfg H B cache Live dd) (hsq : SqPostT cfg H B cache Live dd var layer' cur')
    (hl : dd'.layers = dd.layers ++ [(expandAll cfg var dd.layers.length layer' cur' lg).1])
    (hn : dd'.next = (expandAll cfg var dd.layers.length layer' cur' lg).2.1)
    (hd : dd'.depth = dd.depth + 1) (hc : dd'.cache = dd.cache) :
    TInv cfg H B cache (fun l p => if l = dd.layers.length then p ∈ cur' else Live l p) dd' := by
  unfold expandAll at hl hn
  generalize hlyF : (cur'.foldl (expandOne cfg var dd.layers.length) (layer', [], lg)).1 = lyF at hl
  generalize hnx : (cur'.foldl (expandOne cfg var dd.layers.length) (layer', [], lg)).2.1 = nx at hn
  have hrub : RubEq lyF layer' := by rw [← hlyF]; exact fold_rubEq cfg var dd.layers.length cur' (layer', [], lg)
  have hkeys : lyF.map Cover.key = layer'.map Cover.key := by
    rw [← hlyF]; exact Cover.fold_keys cfg var dd.layers.length cur' (layer', [], lg)
  have hcost : ∀ s s' d, Cover.Within B (cfg.P.cost s s' d) := fun s s' d => hy.B.cost s s' d
  have hok : ∀ m ∈ nx, Cover.NodeOk (layer'.map Cover.key) dd.layers.length B (Cover.Bd B dd.layers.length) m := by
    rw [← hnx]
    refine Cover.fold_ok cfg var dd.layers.length cur' (layer', [], lg) (layer'.map Cover.key) B (Cover.Bd B dd.layers.length)
      rfl ?_ (fun s d _ => hcost s _ _) ?_
    · intro sv hsv
      obtain ⟨n, hn, rfl⟩ := List.mem_map.mp hsv
      exact hsq.rng n hn
    · intro m hm; exact absurd hm List.not_mem_nil
  -- the per-child facts
  have hkid : ∀ m ∈ nx, m.depth = dd.depth + 1 ∧ m.cutset = false ∧ m.above = false ∧ m.theta = none ∧ m.cache = false ∧
      m.deleted = false ∧ m.rub = iMax ∧ ∀ a ∈ m.inb, a.fromL = dd.layers.length ∧ Cover.Within B a.cost := by
    rw [← hnx]
    refine fold_childrenP (fun m => m.depth = dd.depth + 1 ∧ m.cutset = false ∧ m.above = false ∧ m.theta = none ∧
        m.cache = false ∧ m.deleted = false ∧ m.rub = iMax ∧
        ∀ a ∈ m.inb, a.fromL = dd.layers.length ∧ Cover.Within B a.cost) (fun n => n.depth = dd.depth)
      cfg var dd.layers.length cur' (layer', [], lg) (fun n r h => h) ?_ ?_ (fun n hn => (hsq.base n hn).depth)
      (fun m hm => absurd hm List.not_mem_nil)
    · intro q par d n hp ⟨q1, q2, q3, q4, q5, q6, q7, q8⟩
      obtain ⟨f1, f2, f3, f4, f5, f6, f7⟩ := appendEdge_flds par n (Cover.arcOf cfg var dd.layers.length q par d)
      refine ⟨f1 ▸ q1, f2 ▸ q2, f3 ▸ q3, f4 ▸ q4, f5 ▸ q5, f6 ▸ q6, f7 ▸ q7, ?_⟩
      intro a ha
      rw [Cover.appendEdge_inb] at ha
      rcases List.mem_cons.mp ha with ha | ha
      · rw [ha]; exact ⟨rfl, hcost _ _ _⟩
      · exact q8 a ha
    · intro q par d hp
      obtain ⟨f1, f2, f3, f4, f5, f6, f7⟩ := appendEdge_flds par (Cover.freshNode par (cfg.P.trans par.state ⟨var, d⟩)
        (cfg.P.cost par.state (cfg.P.trans par.state ⟨var, d⟩) ⟨var, d⟩)) (Cover.arcOf cfg var dd.layers.length q par d)
      refine ⟨by rw [f1]; simp only [Cover.freshNode]; rw [hp], by rw [f2]; rfl, by rw [f3]; rfl, by rw [f4]; rfl,
        by rw [f5]; rfl, by rw [f6]; rfl, by rw [f7]; rfl, ?_⟩
      intro a ha
      rw [Cover.appendEdge_inb] at ha
      rcases List.mem_cons.mp ha with ha | ha
      · rw [ha]; exact ⟨rfl, hcost _ _ _⟩
      · simp only [Cover.freshNode] at ha; exact absurd ha List.not_mem_nil
  have hlen' : dd'.layers.length = dd.layers.length + 1 := by rw [hl, List.length_append, List.length_singleton]
  have hsmall : Cover.Bd B dd.layers.length + B ≤ 4611686018427387904 := by
    rw [← Cover.Bd_succ]; exact Cover.Bd_small hy.B.toDom (by omega)
  have hlay : ∀ (i : Nat) ly, dd'.layers[i]? = some ly → dd.layers[i]? = some ly ∨ (i = dd.layers.length ∧ ly = lyF) := by
    intro i ly hi; rw [hl] at hi; exact getElem?_append_singleton_cases hi
  have hnew : dd'.layers[dd.layers.length]? = some lyF := by rw [hl]; exact List.getElem?_concat_length
  have hF : ∀ (q : Nat) n, lyF[q]? = some n → ∃ n0, layer'[q]? = some n0 ∧ stripRub n0 = stripRub n :=
    fun q n hq => hrub.get hq
  have hF' : ∀ (q : Nat) n0, layer'[q]? = some n0 → ∃ n, lyF[q]? = some n ∧ stripRub n0 = stripRub n :=
    fun q n0 hq => hrub.get' hq
  have hdep : dd.depth = cfg.root.depth + dd.layers.length := hI.depth
  refine ⟨?_, ?_, ?_, ?_, ?_, ?_, ?_, ?_, ?_, ?_, ?_, ?_, ?_, ?_, ?_⟩
  · -- depth
    rw [hd, hI.depth, hlen']; omega
  · -- cacheEq
    rw [hc]; exact hI.cacheEq
  · -- rngN
    intro m hm
    rw [hn] at hm
    rw [hlen', Cover.Bd_succ]
    exact (hok m hm).rng
  · -- rngL
    intro i ly hi m hm
    rcases hlay i ly hi with hi | ⟨rfl, rfl⟩
    · exact hI.rngL i ly hi m hm
    · obtain ⟨q, hq⟩ := List.mem_iff_getElem?.mp hm
      obtain ⟨n0, h0, hs⟩ := hF q m hq
      rw [← (stripRub_all hs).2.1]; exact hsq.rng n0 (List.mem_of_getElem? h0)
  · -- baseN
    intro m hm
    rw [hn] at hm
    obtain ⟨k1, k2, k3, k4, k5, k6, _, k8⟩ := hkid m hm
    refine ⟨⟨by rw [hd]; exact k1, k2, k3, fun a ha => ?_, fun _ => k4⟩, k5, k6⟩
    obtain ⟨a1, a2⟩ := k8 a ha
    exact ⟨by rw [hlen', a1], a2⟩
  · -- baseL
    intro i ly hi m hm
    rcases hlay i ly hi with hi | ⟨rfl, rfl⟩
    · exact hI.baseL i ly hi m hm
    · obtain ⟨q, hq⟩ := List.mem_iff_getElem?.mp hm
      obtain ⟨n0, h0, hs⟩ := hF q m hq
      rw [← hdep]
      exact (hsq.base n0 (List.mem_of_getElem? h0)).of_strip hs
  · -- att
    intro _ m hm
    rw [hn] at hm
    obtain ⟨a, ha, hal, sv, hsv, hv⟩ := (hok m hm).att
    rw [← hkeys, List.getElem?_map] at hsv
    cases hp : lyF[a.fromP]? with
    | none => rw [hp] at hsv; cases hsv
    | some p =>
      refine ⟨a, ha, p, ?_⟩
      rw [hal]; exact getNode_of hnew hp
  · -- clsL
    intro i q ly n hi hq
    rcases hlay i ly hi with hi | ⟨rfl, rfl⟩
    · have := Cover.lt_of_getElem?_some hi
      rw [if_neg (by omega)]
      exact hI.clsL i q ly n hi hq
    · rw [if_pos rfl]
      obtain ⟨n0, h0, hs⟩ := hF q n hq
      exact (hsq.cls q n0 h0).of_strip hs
  · -- rub
    intro l p ly n hly hlive hnp
    rcases hlay l ly hly with hly0 | ⟨rfl, rfl⟩
    · have := Cover.lt_of_getElem?_some hly0
      rw [if_neg (by omega)] at hlive
      exact hI.rub l p ly n hly0 hlive hnp
    · rw [if_pos rfl] at hlive
      have := fold_rubSet cfg var dd.layers.length cur' (layer', [], lg) p (.inl hlive)
      rw [hlyF] at this
      exact this n hnp
  · -- stepL
    intro l p ly ly' n hly hly' hlive hnp
    have hlt := Cover.lt_of_getElem?_some hly'
    rw [hlen'] at hlt
    rcases hlay l ly hly with hly0 | ⟨rfl, _⟩
    · have hlive0 : Live l p := by
        have := Cover.lt_of_getElem?_some hly0
        rw [if_neg (by omega)] at hlive; exact hlive
      rcases hlay (l + 1) ly' hly' with hly0' | ⟨hl1, rfl⟩
      · intro htest h hH
        obtain ⟨p', m, e, h', hm, hokc, rest⟩ := hI.stepL l p ly ly' n hly0 hly0' hlive0 hnp htest h hH
        have := Cover.lt_of_getElem?_some hly0'
        exact ⟨p', m, e, h', hm, by dsimp only; rw [if_neg (by omega)]; exact hokc, rest⟩
      · intro htest h hH
        obtain ⟨q', m, e, h', hm, hokc, he, r1, r2, r3, r4, r5, r6⟩ := hsq.step l p ly n hl1 hly0 hlive0 hnp htest h hH
        obtain ⟨m', hm', hs⟩ := hF' q' m hm
        obtain ⟨s1, s2, s3, _, _, _, _, s8, _⟩ := stripRub_all hs
        exact ⟨q', m', e, h', hm', by dsimp only; rw [if_pos hl1, ← s8]; exact hokc, s3 ▸ he, r1, r2, r3, s1 ▸ r4, r5,
          s2 ▸ r6⟩
    · omega
  · -- stepN
    intro l p ly n hl1 hly hlive hnp htest h hH
    have hlL : l = dd.layers.length := by omega
    subst hlL
    rw [hnew] at hly; cases hly
    rw [if_pos rfl] at hlive
    obtain ⟨n0, h0, hs⟩ := hF p n hnp
    obtain ⟨s1, s2, _⟩ := stripRub_all hs
    rw [← s1] at hH
    rw [← s1, ← s2] at htest
    obtain ⟨d, hdm, h', hH', hle'⟩ := hsq.att p hlive n0 h0 h (hdep ▸ hH)
    have hnewA := fold_hasA_new cfg var dd.layers.length cur' (layer', [], lg) p hlive n0.state n0.value
      (by rw [List.getElem?_map, h0]; rfl) htest d hdm
    rw [hnx] at hnewA
    obtain ⟨m, hm, hms, hmv, hma⟩ := hnewA
    obtain ⟨p', hp'⟩ := List.mem_iff_getElem?.mp hm
    have hw := hsq.rng n0 (List.mem_of_getElem? h0)
    have hcc := hcost n0.state (cfg.P.trans n0.state ⟨var, d⟩) ⟨var, d⟩
    have hsa : satAdd n0.value (cfg.P.cost n0.state (cfg.P.trans n0.state ⟨var, d⟩) ⟨var, d⟩) =
        n0.value + cfg.P.cost n0.state (cfg.P.trans n0.state ⟨var, d⟩) ⟨var, d⟩ := by
      apply Cover.satAdd_eq <;> (unfold Cover.Within at hw hcc; simp only [iMin, iMax]; omega)
    rw [hsa] at hmv
    refine ⟨p', m, _, h', by rw [hn]; exact hp', True.intro, hma, rfl, rfl, hcc, ?_, hle', ?_⟩
    · rw [hms, ← hdep]; exact hH'
    · rw [← s2]; exact hmv
  · -- rubN
    intro m hm
    rw [hn] at hm
    exact (hkid m hm).2.2.2.2.2.2.1
  · -- root0
    intro h; rw [hl] at h; simp at h
  · -- first
    intro ly hly n hnm
    rcases hlay 0 ly hly with hly0 | ⟨h0, rfl⟩
    · exact hI.first ly hly0 n hnm
    · have hemp : dd.layers = [] := List.length_eq_zero_iff.mp h0.symm
      obtain ⟨q, hq⟩ := List.mem_iff_getElem?.mp hnm
      obtain ⟨n0, hn0, hs⟩ := hF q n hq
      rw [← (stripRub_all hs).2.2.2.2.2.2.2.1]
      exact hsq.first hemp n0 (List.mem_of_getElem? hn0)
  · -- root1
    intro _
    by_cases hemp : dd.layers = []
    · obtain ⟨n0, h0, hs0, hv0, hc0⟩ := hsq.root hemp
      have hL0 : dd.layers.length = 0 := by rw [hemp]; rfl
      obtain ⟨n, hn', hs⟩ := hF' 0 n0 h0
      obtain ⟨s1, s2, _, _, _, _, _, s8, s9⟩ := stripRub_all hs
      obtain ⟨c1, c2⟩ := (hsq.cls 0 n0 h0).cur hc0
      refine ⟨lyF, n, by rw [← hL0]; exact hnew, hn', by rw [← s1]; exact hs0, by rw [← s2]; exact hv0,
        by rw [← s8]; exact c1, by rw [← s9]; exact c2, ?_⟩
      rw [if_pos hL0.symm]; exact hc0
    · obtain ⟨ly, n0, hly, hn0, hs0, hv0, hc0, hd0, hlive⟩ := hI.root1 hemp
      have hlt : 0 < dd.layers.length := Cover.lt_of_getElem?_some hly
      refine ⟨ly, n0, by rw [hl, List.getElem?_append_left hlt]; exact hly, hn0, hs0, hv0, hc0, hd0, ?_⟩
      rw [if_neg (by omega)]; exact hlive
/-! ### `stepLayer` -/

theorem stepLayer_okT (cfg : Cfg S K) (dd : DD S K) (var : Nat) (hne : dd.next ≠ []) (hd : cfg.dom = none)
    (sq : List (Node S) × List Nat × List (Call S) × Option Nat)
    (hsq : squash cfg dd (fcOf cfg dd).1 (fcOf cfg dd).2 = some sq) :
    ∃ dd', stepLayer cfg dd var = (some dd', .ok) ∧
      dd'.layers = dd.layers ++ [(expandAll cfg var dd.layers.length sq.1 sq.2.1 sq.2.2.1).1] ∧
      dd'.next = (expandAll cfg var dd.layers.length sq.1 sq.2.1 sq.2.2.1).2.1 ∧
      dd'.depth = dd.depth + 1 ∧ dd'.cache = dd.cache ∧ dd'.lel = sq.2.2.2 := by
  unfold stepLayer
  have h1 : dd.next.isEmpty = false := by
    cases h : dd.next with
    | nil => exact absurd h hne
    | cons _ _ => rfl
  unfold fcOf at hsq
  simp only [h1, filterDom, hd, hsq]
  exact ⟨_, rfl, rfl, rfl, rfl, rfl, rfl⟩

/-! ## `stepLayer`, `buildLoop` -/

/-- one layer step of a relaxed compilation (cache or not) preserves the invariant -/
theorem stepLayer_tinv (cfg : Cfg S K) (H : Nat → S → EInt) (B : Int) (cache : Cache S) (hy : HypT cfg H B)
    (Live : Nat → Nat → Prop) (dd : DD S K) (var : Nat) (hne : dd.next ≠ [])
    (hnv : cfg.P.nextVar dd.depth (dd.next.map (·.state)) = some var)
    (hlen : dd.layers.length ≤ cfg.P.nbVars) (hI : TInv cfg H B cache Live dd) :
    ∃ dd' Live', stepLayer cfg dd var = (some dd', .ok) ∧ TInv cfg H B cache Live' dd' ∧
      dd'.layers.length = dd.layers.length + 1 := by
  have hdesc := fcOf_desc cfg dd
  rw [hI.cacheEq] at hdesc
  obtain ⟨hpost, hpre⟩ := sqpostT_fc cfg H B cache Live dd var hy.P hnv hI _ _ hdesc
  rcases squash_cases cfg dd (fcOf cfg dd).1 (fcOf cfg dd).2 hy.rel hy.W with ⟨_, hsq⟩ | ⟨c1, c2, hsq⟩
  · obtain ⟨dd', hst, hl, hn, hd, hc, _⟩ := stepLayer_okT cfg dd var hne hy.dom _ hsq
    dsimp only at hl hn hd
    exact ⟨dd', _, hst, expand_tinv cfg H B cache Live dd dd' var _ _ dd.log hy hlen hI hpost hl hn hd hc,
      by rw [hl, List.length_append, List.length_singleton]⟩
  · obtain ⟨dd', hst, hl, hn, hd, hc, _⟩ := stepLayer_okT cfg dd var hne hy.dom _ hsq
    dsimp only at hl hn hd
    exact ⟨dd', _, hst, expand_tinv cfg H B cache Live dd dd' var _ _ _ hy hlen hI
      (sqpostT_relax cfg H B cache Live dd var dd.log hy hnv hlen _ _ c1 c2 hI hpost hpre) hl hn hd hc,
      by rw [hl, List.length_append, List.length_singleton]⟩

theorem TInv.congr {cfg : Cfg S K} {H : Nat → S → EInt} {B : Int} {cache : Cache S} {Live : Nat → Nat → Prop}
    {dd dd' : DD S K} (h : TInv cfg H B cache Live dd) (h1 : dd'.layers = dd.layers) (h2 : dd'.next = dd.next)
    (h3 : dd'.depth = dd.depth) (h4 : dd'.cache = dd.cache) : TInv cfg H B cache Live dd' := by
  obtain ⟨a1, a2, a3, a4, a5, a6, a7, a8, a9, a10, a11, a12, a13, a14, a15⟩ := h
  exact ⟨by rw [h3, h1]; exact a1, by rw [h4]; exact a2, by rw [h1, h2]; exact a3, by rw [h1]; exact a4,
    by rw [h1, h2, h3]; exact a5, by rw [h1]; exact a6, by rw [h1, h2]; exact a7, by rw [h1]; exact a8,
    by rw [h1]; exact a9, by rw [h1]; exact a10, by rw [h1, h2]; exact a11, by rw [h2]; exact a12,
    by rw [h1, h2]; exact a13, by rw [h1]; exact a14, by rw [h1]; exact a15⟩

/-- a relaxed step without dominance rule always succeeds on a non-empty layer -/
theorem stepLayer_someT (cfg : Cfg S K) (dd : DD S K) (var : Nat) (hrel : cfg.ctype = .relaxed) (hW : 1 ≤ cfg.width)
    (hd : cfg.dom = none) (hne : dd.next ≠ []) : ∃ dd', stepLayer cfg dd var = (some dd', .ok) := by
  rcases squash_cases cfg dd (fcOf cfg dd).1 (fcOf cfg dd).2 hrel hW with ⟨_, hsq⟩ | ⟨_, _, hsq⟩
  · obtain ⟨dd', hst, _⟩ := stepLayer_okT cfg dd var hne hd _ hsq; exact ⟨dd', hst⟩
  · obtain ⟨dd', hst, _⟩ := stepLayer_okT cfg dd var hne hd _ hsq; exact ⟨dd', hst⟩

/-- what holds when the loop ends normally: either it stopped on an empty layer (`brk`: the invariant held on the diagram
    `dd0` whose layer under construction was empty; the final diagram is `dd0` plus an empty layer), or `nextVar` answered
    `none` and the invariant holds on the final diagram -/
inductive DoneT (cfg : Cfg S K) (H : Nat → S → EInt) (B : Int) (cache : Cache S) (fin : DD S K) : Prop
  | brk (Live : Nat → Nat → Prop) (dd0 : DD S K) : TInv cfg H B cache Live dd0 → dd0.next = [] →
      dd0.layers.length ≤ cfg.P.nbVars + 1 →
      fin.layers = dd0.layers ++ [[]] → fin.next = [] → fin.lel = dd0.lel → DoneT cfg H B cache fin
  | term (Live : Nat → Nat → Prop) : TInv cfg H B cache Live fin →
      cfg.P.nextVar fin.depth (fin.next.map (·.state)) = none → fin.layers.length ≤ cfg.P.nbVars + 1 →
      DoneT cfg H B cache fin

theorem buildLoop_tinv (cfg : Cfg S K) (H : Nat → S → EInt) (B : Int) (cache : Cache S) (hy : HypT cfg H B)
    (stopAt : Option Nat) :
    ∀ (fuel : Nat) (dd : DD S K) (Live : Nat → Nat → Prop), TInv cfg H B cache Live dd →
      dd.layers.length + fuel ≤ cfg.P.nbVars + 2 → (buildLoop cfg stopAt fuel dd).2 = .ok →
      DoneT cfg H B cache (buildLoop cfg stopAt fuel dd).1 := by
  cases stopAt <;> intro fuel <;> induction fuel with
  | zero => intro dd Live _ _ h; simp [buildLoop] at h
  | succ fuel ih =>
    intro dd Live hI hlen hok
    unfold buildLoop at hok ⊢
    dsimp only at hok ⊢
    split
    · rename_i hnone
      exact .term Live (hI.congr rfl rfl rfl rfl) hnone (by dsimp only; omega)
    · rename_i var hvar
      rw [hvar] at hok ⊢
      dsimp only at hok ⊢
      split
      · rename_i hstop
        rw [if_pos hstop] at hok
        cases hok
      · rename_i hstop
        rw [if_neg hstop] at hok
        generalize hdd1 : (DD.mk dd.layers dd.next dd.depth dd.lel dd.cache dd.store _ dd.cacheLog _ dd.ndom) = dd1 at hok ⊢
        have hI1 : TInv cfg H B cache Live dd1 := by rw [← hdd1]; exact hI.congr rfl rfl rfl rfl
        have e1 : dd1.layers = dd.layers := by rw [← hdd1]
        have e2 : dd1.next = dd.next := by rw [← hdd1]
        have e3 : dd1.depth = dd.depth := by rw [← hdd1]
        by_cases hne : dd1.next = []
        · rw [stepLayer_empty cfg dd1 var hne] at hok ⊢
          exact .brk Live dd1 hI1 hne (by rw [e1]; omega) rfl hne rfl
        · cases fuel with
          | zero =>
            exfalso
            obtain ⟨dd', hst⟩ := stepLayer_someT cfg dd1 var hy.rel hy.W hy.dom hne
            rw [hst] at hok
            simp [buildLoop] at hok
          | succ fuel' =>
            obtain ⟨dd', Live', hst, hI', hl'⟩ := stepLayer_tinv cfg H B cache hy Live dd1 var hne
              (by rw [e2, e3]; exact hvar) (by rw [e1]; omega) hI1
            rw [hst] at hok ⊢
            exact ih dd' Live' hI' (by rw [hl', e1]; omega) hok

theorem init_tinv (cfg : Cfg S K) (H : Nat → S → EInt) (B : Int) (cache : Cache S) (store : DomStore S K) (polls : Nat)
    (hB : NoClamp cfg.P cfg.R cfg.root.value B) :
    TInv cfg H B cache (fun _ _ => False) (initDD cfg cache store polls) := by
  have hnext : (initDD cfg cache store polls).next =
      [{ state := cfg.root.state, value := cfg.root.value, depth := cfg.root.depth }] := rfl
  have hlay : (initDD cfg cache store polls).layers = [] := rfl
  refine ⟨rfl, rfl, ?_, ?_, ?_, ?_, ?_, ?_, ?_, ?_, ?_, ?_, ?_, ?_, ?_⟩
  · intro n hn
    rw [hnext, List.mem_singleton] at hn
    subst hn
    have := hB.root
    simp only [hlay, List.length_nil, Cover.Bd, Cover.Within]
    omega
  · intro i ly hi; rw [hlay] at hi; simp at hi
  · intro n hn
    rw [hnext, List.mem_singleton] at hn
    subst hn
    exact ⟨⟨rfl, rfl, rfl, fun a ha => absurd ha List.not_mem_nil, fun _ => rfl⟩, rfl, rfl⟩
  · intro i ly hi; rw [hlay] at hi; simp at hi
  · intro h; exact absurd hlay h
  · intro i q ly n hi; rw [hlay] at hi; simp at hi
  · intro l p ly n hi; rw [hlay] at hi; simp at hi
  · intro l p ly ly' n hi; rw [hlay] at hi; simp at hi
  · intro l p ly n _ hi; rw [hlay] at hi; simp at hi
  · intro n hn
    rw [hnext, List.mem_singleton] at hn
    subst hn; rfl
  · intro _; exact ⟨_, hnext, rfl, rfl⟩
  · intro ly hi; rw [hlay] at hi; simp at hi
  · intro h; exact absurd hlay h

/-- the invariant at the end of a whole compilation -/
theorem compile_doneT (cfg : Cfg S K) (H : Nat → S → EInt) (B : Int) (hy : HypT cfg H B)
    (cache : Cache S) (store : DomStore S K) (polls : Nat) (stopAt : Option Nat)
    (hok : (compile cfg cache store polls stopAt).1 = .ok) :
    DoneT cfg H B cache (buildLoop cfg stopAt (cfg.P.nbVars + 2) (initDD cfg cache store polls)).1 :=
  buildLoop_tinv cfg H B cache hy stopAt (cfg.P.nbVars + 2) (initDD cfg cache store polls) _
    (init_tinv cfg H B cache store polls hy.B) (by simp only [initDD, List.length_nil]; omega)
    (Ddo.compile_ok cfg cache store polls stopAt hok).1

end Ddo.Theta

#print axioms Ddo.Theta.stepLayer_tinv
#print axioms Ddo.Theta.buildLoop_tinv
#print axioms Ddo.Theta.init_tinv
#print axioms Ddo.Theta.compile_doneT
