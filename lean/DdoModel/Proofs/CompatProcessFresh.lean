import DdoModel.Proofs.CompatProcessFreshA
/-! C10e — **the field `JCFresh` of the joint contract** (`jcFresh`): a cut-set node worth enqueuing is accepted by `must_explore`
once the updates of its own compilation are applied — for every compilation with the threshold cache **and** the dominance
checker (any cache, any store, any rule).

Single-mechanism template: `fresh_contract_of_model` (`Proofs/CacheClosedContract.lean`), `Ctx.cut_node` / `Ctx.cut_fresh_cache` /
`Ctx.cut_fresh_ups` (`Proofs/CacheClosedCut.lean`).  Here the context `Ctx` (which carries `cfg.dom = none` through `TInv`) is
replaced by `JFacts`: the loop invariant `KJ` of `Proofs/CompatProcessFreshA.lean`, `CutWF` (`compile_wf`), `FInv`
(`buildLoop_finv`) and `Inv2.lelSome` — none of which reads `cfg.dom`.  The bottom-up analysis (`computeThresholds_spec`,
`finalize_marked`, the flags of `computeCutset`) never depended on the checker.

What changes with the checker: a node dropped by `_filter_with_dominance` is neither deleted nor pruned by the cache, and, when
flagged `above`, it DOES emit an update `(state, depth, thr, !cutset)`.  It cannot hit the `(state, depth)` of a cut-set node:
both are exact, hence not flagged relaxed, and the nodes of a layer that are not flagged relaxed have pairwise distinct states
(`DistX`). -/
set_option linter.unusedSectionVars false
set_option linter.unusedVariables false
namespace Ddo.C10d
open Ddo Ddo.C01 Ddo.Closed Ddo.C09 Ddo.C10 Ddo.C10c Ddo.Truth Ddo.Bounds Ddo.Theta
variable {S K : Type} [DecidableEq S] [DecidableEq K]

/-- what is known of the diagram `fin` built by a relaxed compilation with both filters -/
structure JFacts (cfg : Cfg S K) (cache : Cache S) (p0 : List Dec) (fin : DD S K) : Prop where
  rel : cfg.ctype = .relaxed
  wf : CutWF cfg p0 (finalizeLayers fin).layers (finalizeLayers fin).lel
  fl : FInv fin
  lelLt : ∀ k, fin.lel = some k → k < fin.layers.length
  kj : KJ cfg cache fin

section
variable {cfg : Cfg S K} {cache : Cache S} {p0 : List Dec} {fin : DD S K}

theorem JFacts.flags0 (hx : JFacts cfg cache p0 fin) (l p : Nat) (n : Node S)
    (hn : getNode (finalizeLayers fin).layers l p = some n) : n.cutset = false ∧ n.above = false := by
  rcases finalizeLayers_at fin hn with ⟨ly, hly, hm⟩ | ⟨_, hm⟩
  · exact hx.fl.1 ly (List.mem_of_getElem? hly) n hm
  · exact hx.fl.2 n hm

theorem JFacts.good (hx : JFacts cfg cache p0 fin) (l p : Nat) (n : Node S)
    (hn : getNode (finalizeLayers fin).layers l p = some n) : CacheClosed.Good (finalizeLayers fin).layers n :=
  CacheClosed.kinv_final fin hx.kj.1 l p n hn

/-- in every layer of the built diagram the nodes that are not flagged relaxed have pairwise distinct states -/
theorem JFacts.distinct (hx : JFacts cfg cache p0 fin) (l p q : Nat) (n m : Node S)
    (hn : getNode (finalizeLayers fin).layers l p = some n) (hm : getNode (finalizeLayers fin).layers l q = some m)
    (hnr : n.fRelaxed = false) (hmr : m.fRelaxed = false) (hs : n.state = m.state) : p = q := by
  have hv := CacheClosedB.fin_view fin
  rcases view_at hv l p n hn with ⟨ly, hly, hp⟩ | ⟨hl1, hp⟩ <;>
    rcases view_at hv l q m hm with ⟨ly', hly', hq⟩ | ⟨hl2, hq⟩
  · rw [hly] at hly'; cases hly'
    exact hx.kj.2.distL l ly hly p q n m hp hq hnr hmr hs
  · have := Cover.lt_of_getElem?_some hly; omega
  · have := Cover.lt_of_getElem?_some hly'; omega
  · exact CacheClosedB.pos_of_nodup (·.state) _ hx.kj.2.nextD hp hq hs

/-- a node of an inner layer that is neither pruned by the cache nor flagged relaxed beats the cached threshold -/
theorem JFacts.filt (hx : JFacts cfg cache p0 fin) (l p : Nat) (n : Node S) (t : Thr) (h1 : 1 ≤ l)
    (hlen : l + 1 < (finalizeLayers fin).layers.length) (hn : getNode (finalizeLayers fin).layers l p = some n)
    (hc : n.cache = false) (hr : n.fRelaxed = false) (ht : lookup cfg cache n = some t) : n.value > t.value := by
  have hv := CacheClosedB.fin_view fin
  have hle : (finalizeLayers fin).layers.length ≤ fin.layers.length + 1 := by
    rcases hv with h | ⟨h, _⟩
    · rw [h, List.length_append, List.length_singleton]; exact Nat.le_refl _
    · rw [h]; omega
  rcases view_at hv l p n hn with ⟨ly, hly, hp⟩ | ⟨hl1, _⟩
  · exact hx.kj.2.filtL l ly h1 hly n (List.mem_of_getElem? hp) hc hr t ht
  · omega

theorem isExact_fRelaxed {n : Node S} (h : n.isExact = true) : n.fRelaxed = false := by
  unfold Node.isExact at h
  cases hr : n.fRelaxed with
  | false => rfl
  | true => rw [hr] at h; simp at h

/-- **the node behind a sub-problem handed out by `drain_cutset`**, both filters -/
theorem JFacts.cut_node (hx : JFacts cfg cache p0 fin) (e : Bool) (c : SubP S)
    (hc : c ∈ (finalize cfg (finalizeLayers fin) e).1.cutset) :
    ∃ (bv : Int) (l p : Nat) (n3 : Node S), (finalizeLayers fin).bestValue = some bv ∧
      getNode (finalize cfg (finalizeLayers fin) e).2 l p = some n3 ∧ 1 ≤ l ∧ l + 1 < (finalizeLayers fin).layers.length ∧
      n3.marked = true ∧ n3.cutset = true ∧ n3.isExact = true ∧ n3.cache = false ∧ n3.deleted = false ∧
      c = subOf cfg (finalize cfg (finalizeLayers fin) e).2 bv n3 := by
  obtain ⟨bv, lp, n3, hbv, hlp, hn, hmk, hceq⟩ := (finalize_cutset_iff cfg _ e c).1 hc
  have hne : fin.next ≠ [] := by
    intro hnil
    unfold Built.bestValue at hbv
    rw [terminals_finalizeLayers, hnil] at hbv
    cases hbv
  have hlen : (finalizeLayers fin).layers.length = fin.layers.length + 1 := by
    rw [(finalizeLayers_nonempty fin hne).1, List.length_append, List.length_singleton]
  have hlp' := fCs_sub cfg _ _ hlp
  obtain ⟨n0', hn0', hex0, hpos⟩ := hx.wf.cutset_pos lp hlp'
  obtain ⟨n0, n1, n2, hn0, hn1, _, hco⟩ := corr_of_L3 cfg (finalizeLayers fin) e hn
  rw [hn0] at hn0'
  cases hn0'
  have hex3 : n3.isExact = true := by rw [hco.isExact]; exact hex0
  have hl1 : 1 ≤ lp.1 := hpos hx.rel
  rw [fLayers1_relaxed cfg _ hx.rel] at hn1
  -- the position is below the terminal layer and the node is flagged `cutset`
  have hkey : lp.1 + 1 < (finalizeLayers fin).layers.length ∧ n3.cutset = true := by
    rw [hco.cutset]
    cases hkd : cfg.kind with
    | lel =>
      rw [hkd] at hlp' hn1
      obtain ⟨h1, h2, _⟩ := computeCutset_lel _ _ lp hlp'
      have hfl := (computeCutset_lel_flags _ _ hx.flags0 lp.1 lp.2 n1 hn1).2.1
      refine ⟨?_, hfl.mpr h1⟩
      rw [finalizeLayers_lel] at h1 h2
      cases hl : fin.lel with
      | none => rw [hl, Option.getD_none] at h2; omega
      | some k =>
        rw [hl, Option.getD_some] at h1
        have := hx.lelLt k hl
        omega
    | frontier =>
      rw [hkd] at hlp' hn1
      obtain ⟨n00, hn00, _, l', p', m, a, hm, hmex, ha, hfl, hfp⟩ := computeCutset_frontier _ _ lp hlp'
      have harc := hx.wf.arcs l' p' m hm a ha
      have hlt := Ddo.getNode_lt hm
      refine ⟨by omega, ?_⟩
      obtain ⟨m1, hm1, hs⟩ := (computeCutset_eqC cfg.kind (finalizeLayers fin).lel (finalizeLayers fin).layers).symm.getNode_some hm
      rw [hkd] at hm1
      have hf := stripC_fields hs
      have hmex1 : m1.isExact = false := by
        unfold Node.isExact at hmex ⊢
        rw [hf.2.2.2.2.2.2.2.1, hf.2.2.2.2.2.2.2.2.1]; exact hmex
      have ha1 : a ∈ m1.inb := by rw [hf.2.2.2.2.1]; exact ha
      exact (computeCutset_frontier_flags (finalizeLayers fin).lel _ hx.flags0).2 l' p' m1 a n1 hm1 hmex1 ha1
        (by rw [hfl, hfp]; exact hn1) (by rw [hco.isExact1]; exact hex0)
  -- a marked node below the terminal layer is the source of an arc, hence was handed to the expansion
  have hclean : n3.cache = false ∧ n3.deleted = false := by
    rcases CacheClosed.finalize_marked cfg (finalizeLayers fin) e (fun l p n h => (hx.good l p n h).1) lp.1 lp.2 n3 hn hmk with
      h | ⟨l', p', m, a, hmm, ha, hfl, hfp⟩
    · omega
    · obtain ⟨par, hpar, hc', hd'⟩ := (hx.good l' p' m hmm).2 a ha
      rw [hfl, hfp, hn0] at hpar
      cases hpar
      exact ⟨by rw [hco.cache]; exact hc', by rw [hco.deleted]; exact hd'⟩
  exact ⟨bv, lp.1, lp.2, n3, hbv, hn, hl1, hkey.1, hmk, hkey.2, hex3, hclean.1, hclean.2, hceq⟩

/-- **the field `fresh`, the consulted cache**, both filters: a sub-problem of the cut-set survived `_filter_with_cache` -/
theorem JFacts.cut_fresh_cache (hx : JFacts cfg cache p0 fin)
    (e : Bool) (c : SubP S) (hc : c ∈ (finalize cfg (finalizeLayers fin) e).1.cutset)
    (huse : cfg.useCache = true) (t : Thr) (ht : cache.get c.state c.depth = some (some t)) : c.value > t.value := by
  obtain ⟨bv, l, p, n3, hbv, hn, hl1, hl, hmk, hcut, hex, hcl, hdl, rfl⟩ := hx.cut_node e c hc
  obtain ⟨n0, n1, n2, hn0, _, _, hco⟩ := corr_of_L3 cfg (finalizeLayers fin) e hn
  simp only [subOf] at ht ⊢
  have hfr : n0.fRelaxed = false := isExact_fRelaxed (by rw [← hco.isExact]; exact hex)
  have hlook : lookup cfg cache n0 = some t := by
    unfold lookup
    rw [if_pos huse, ← hco.state, ← hco.depth, ht]
    rfl
  have := hx.filt l p n0 t hl1 hl hn0 (by rw [← hco.cache]; exact hcl) hfr hlook
  rw [hco.value]; exact this

/-- `computeThresholds_spec`, read on `finalize` of a relaxed compilation (no hypothesis on the filters) -/
theorem JFacts.spec (hx : JFacts cfg cache p0 fin) (e : Bool) :
    (∀ (l p : Nat) (n3 : Node S),
      getNode (finalize cfg (finalizeLayers fin) e).2 l p = some n3 → n3.deleted = false →
      ∃ θp : Option Int,
        n3.theta = ownTheta (bkOf cfg.lb (finalize cfg (finalizeLayers fin) e).1.bestExactValue) n3 θp) ∧
    (∀ u ∈ (finalize cfg (finalizeLayers fin) e).1.cacheUpdates,
      ∃ (l p : Nat) (n3 : Node S),
        getNode (finalize cfg (finalizeLayers fin) e).2 l p = some n3 ∧
        n3.deleted = false ∧ n3.cache = false ∧ n3.above = true ∧
        ∃ t, n3.theta = some t ∧ u = (n3.state, n3.depth, t, !n3.cutset)) := by
  have h := computeThresholds_spec cfg.kind (finalizeLayers fin).isExactField cfg.lb
    (finalize cfg (finalizeLayers fin) e).1.bestExactValue (finalizeLayers fin).termL (fLayers2 cfg (finalizeLayers fin))
    (fLayers2_arcs cfg p0 (finalizeLayers fin) hx.wf)
  obtain ⟨e1, e2⟩ := finalize_relaxed cfg (finalizeLayers fin) e hx.rel
  rw [← e1, ← e2] at h
  refine ⟨fun l p n3 hn hd => ?_, h.2⟩
  obtain ⟨_, θp, _, _, _, _, h5⟩ := h.1 l p n3 hn hd
  exact ⟨θp, h5⟩

/-- a node flagged `above` is exact -/
theorem JFacts.above_exact (hx : JFacts cfg cache p0 fin) (e : Bool) (l p : Nat) (n3 : Node S)
    (hn : getNode (finalize cfg (finalizeLayers fin) e).2 l p = some n3) (hab : n3.above = true) :
    ∃ n0, getNode (finalizeLayers fin).layers l p = some n0 ∧ n0.isExact = true ∧ n3.state = n0.state ∧ n3.depth = n0.depth ∧
      n3.cache = n0.cache ∧ n3.deleted = n0.deleted := by
  obtain ⟨n0, n1, n2, hn0, hn1, _, hco⟩ := corr_of_L3 cfg (finalizeLayers fin) e hn
  rw [hco.above] at hab
  rw [fLayers1_relaxed cfg _ hx.rel] at hn1
  refine ⟨n0, hn0, ?_, hco.state, hco.depth, hco.cache, hco.deleted⟩
  cases hkd : cfg.kind with
  | lel =>
    rw [hkd] at hn1
    exact hx.wf.exactUpTo l p n0 hn0 ((computeCutset_lel_flags _ _ hx.flags0 l p n1 hn1).1.mp hab)
  | frontier =>
    rw [hkd] at hn1
    rw [← hco.isExact1]
    exact ((computeCutset_frontier_flags (finalizeLayers fin).lel _ hx.flags0).1 l p n1 hn1).1.mp hab

/-- **the field `fresh`, the updates of the compilation itself**, both filters: the only threshold recorded for the
    `(state, depth)` of a sub-problem of the cut-set whose bound beats the incumbent is its own value, not explored -/
theorem JFacts.cut_fresh_ups (hx : JFacts cfg cache p0 fin)
    (e : Bool) (c : SubP S) (hc : c ∈ (finalize cfg (finalizeLayers fin) e).1.cutset)
    (hub : c.ub > bkOf cfg.lb (finalize cfg (finalizeLayers fin) e).1.bestExactValue)
    (u : S × Nat × Int × Bool) (hu : u ∈ (finalize cfg (finalizeLayers fin) e).1.cacheUpdates)
    (hs : u.1 = c.state) (hd : u.2.1 = c.depth) : u.2.2.1 = c.value ∧ u.2.2.2 = false := by
  obtain ⟨bv, l, p, n3, hbv, hn, hl1, hl, hmk, hcut, hex, hcl, hdl, rfl⟩ := hx.cut_node e c hc
  obtain ⟨l', p', m3, hm, hmd, hmc, hab, t, hth, rfl⟩ := (hx.spec e).2 u hu
  simp only [subOf] at hs hd hub ⊢
  obtain ⟨n0, _, _, hn0, _, _, hco⟩ := corr_of_L3 cfg (finalizeLayers fin) e hn
  have hex0 : n0.isExact = true := by rw [← hco.isExact]; exact hex
  obtain ⟨m0, hm0, hmex, ms, mdp, _, _⟩ := hx.above_exact e l' p' m3 hm hab
  obtain ⟨_, _, _, hdn⟩ := hx.wf.node l p n0 hn0 hex0
  obtain ⟨_, _, _, hdm⟩ := hx.wf.node l' p' m0 hm0 hmex
  have hdep : n3.depth = n0.depth := hco.depth
  have hll : l' = l := by omega
  subst hll
  have hpp : p' = p := hx.distinct l' p' p m0 n0 hm0 hn0 (isExact_fRelaxed hmex) (isExact_fRelaxed hex0)
    (by rw [← ms, ← hco.state]; exact hs)
  subst hpp
  rw [hn] at hm
  cases hm
  obtain ⟨θp, hθ⟩ := (hx.spec e).1 l' p' n3 hn hdl
  obtain ⟨hr, hv⟩ := satAdd_gt_of_min hub
  unfold ownTheta at hθ
  rw [hcl] at hθ
  simp only [Bool.false_eq_true, if_false] at hθ
  rw [if_neg (by omega), hcut] at hθ
  simp only [if_true] at hθ
  rw [if_neg (by omega), hth] at hθ
  exact ⟨Option.some.inj hθ, by rw [hcut]; rfl⟩

end

/-- everything known about the diagram built by a relaxed compilation with cache and checker that ends normally -/
theorem compile_jfacts (cfg : Cfg S K) (B : Int) (p0 : List Dec) (cache : Cache S) (store : DomStore S K) (polls : Nat)
    (hrel : cfg.ctype = .relaxed) (hW : 1 ≤ cfg.width)
    (hB : NoClamp cfg.P cfg.R cfg.root.value B)
    (hroot : Reach cfg.P cfg.root.depth cfg.root.state cfg.root.value p0) :
    JFacts cfg cache p0 (buildLoop cfg none (cfg.P.nbVars + 2) (initDD cfg cache store polls)).1 := by
  have hwf := compile_wf cfg B p0 hB hroot cache store polls none
  have hinv2 := (buildLoop_inv2 cfg B p0 hB none (cfg.P.nbVars + 2) (initDD cfg cache store polls)
    (initDD_inv cfg B p0 hB hroot cache store polls) (initDD_inv2 cfg cache store polls) rfl
    (by simp only [initDD, List.length_nil]; omega)).2
  have hF : FInv (buildLoop cfg none (cfg.P.nbVars + 2) (initDD cfg cache store polls)).1 := by
    refine buildLoop_finv cfg _ _ ⟨fun ly hly => (by cases hly), fun n hn => ?_⟩
    simp only [initDD, List.mem_singleton] at hn
    subst hn
    exact ⟨rfl, rfl⟩
  have hK := buildLoop_kj cfg cache hrel hW (cfg.P.nbVars + 2) (initDD cfg cache store polls) (init_kj cfg cache store polls)
  exact ⟨hrel, hwf, hF, fun k hk => (hinv2.lelSome k hk).1, hK⟩

/-- **the field `fresh` of the contract for a relaxed compilation with cache and checker** (any cache, any store, any rule): a
    sub-problem of the cut-set whose bound beats the incumbent is not refused by the cache once the updates of its own
    compilation (`ups`: any list of them) are applied -/
theorem fresh_contract_joint (cfg : Cfg S K) (B : Int) (p0 : List Dec) (cache : Cache S)
    (store : DomStore S K) (polls : Nat)
    (hrel : cfg.ctype = .relaxed) (huse : cfg.useCache = true) (hW : 1 ≤ cfg.width)
    (hB : NoClamp cfg.P cfg.R cfg.root.value B)
    (hroot : Reach cfg.P cfg.root.depth cfg.root.state cfg.root.value p0)
    (hok : (compile cfg cache store polls none).1 = .ok) (r : Result S)
    (hr : r = (compile cfg cache store polls none).2.1 ∨ (compile cfg cache store polls none).2.2.1 = some r)
    (ups : List (S × Nat × Int × Bool)) (hups : ∀ u ∈ ups, u ∈ r.cacheUpdates) :
    ∀ c ∈ (C01.toOut r).cutset, c.ub > bkOf cfg.lb r.bestExactValue → ¬ prunM ((viewOf cache).upds ups) c := by
  intro c hc hub
  have hx := compile_jfacts cfg B p0 cache store polls hrel hW hB hroot
  obtain ⟨_, e, rfl⟩ := compile_results cfg cache store polls none hok r hr
  generalize (buildLoop cfg none (cfg.P.nbVars + 2) (initDD cfg cache store polls)).1 = fin at hx hc hub hups
  rintro ⟨t, ht, hcond⟩
  rcases upds_get ups (viewOf cache) c.state c.depth t ht with h1 | ⟨u, hu, hus, hud, rfl⟩
  · have hget : cache.get c.state c.depth = some (some t) := by
      unfold viewOf at h1
      cases hg : cache.get c.state c.depth with
      | none => rw [hg] at h1; cases h1
      | some x => rw [hg, Option.getD_some] at h1; rw [h1]
    have := hx.cut_fresh_cache e c hc huse t hget
    omega
  · obtain ⟨h1, h2⟩ := hx.cut_fresh_ups e c hc hub u (hups u hu) hus hud
    dsimp only at hcond
    rw [h2] at hcond
    rcases hcond with h | ⟨_, h⟩
    · omega
    · cases h

/-- **`JCFresh`**: a cut-set node worth enqueuing is accepted by `must_explore` once the updates of its own compilation are
    applied, for every compilation with cache and checker that counts (relaxed: `fresh_contract_joint`; restricted and exact: its
    cut-set is empty) -/
theorem jcFresh : JCFresh := by
  intro S K _ _ dv H B0 B opt n hM ct N lb cache store p0 hpre c hc hub
  have hroot := hpre.root
  have hBN : NoClamp dv.sv.P dv.sv.R N.value B := hM.wf.bound.noClamp_at hM.wf.nv hroot
  rcases hpre.counts with hct | ⟨hct, hex⟩
  · subst hct
    have hbk := hpre.bk
    refine fresh_contract_joint (dv.kdcfg .relaxed N lb) B p0 cache store 0 rfl rfl (hM.wf.width N) hBN hroot hpre.ok _ (.inl rfl)
      _ (fun u hu => List.mem_reverse.mp hu) c hc ?_
    show c.ub > bkOf lb (compile (dv.kdcfg .relaxed N lb) cache store 0 none).2.1.bestExactValue
    omega
  · subst hct
    exfalso
    have hlel := restricted_isExact (dv.kdcfg .restricted N lb) cache store 0 rfl hpre.ok hex
    have hemp := C08.cutset_empty_of_exact (dv.kdcfg .restricted N lb) B p0 cache store 0 none hroot hBN hpre.ok _ (.inl rfl) hlel
    have hc' : c ∈ (compile (dv.kdcfg .restricted N lb) cache store 0 none).2.1.cutset := hc
    rw [hemp] at hc'
    cases hc'

end Ddo.C10d

#print axioms Ddo.C10d.buildLoop_kj
#print axioms Ddo.C10d.fresh_contract_joint
#print axioms Ddo.C10d.jcFresh
