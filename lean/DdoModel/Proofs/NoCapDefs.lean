import DdoModel.Proofs.CacheClosedDefs
import DdoModel.Proofs.SeqInv
/-! C09 (D14, "what if `enqueue_cutset` did not cap?") — **the no-cap variant of the caching sequential solver**.

`enqueue_cutset(ub)` of `implementation/solver/sequential.rs` caps the bound of every cut-set node by the bound of the
sub-problem that was just processed (`cutset_node.ub = ub.min(cutset_node.ub)`).  `Props/C09c.lean` showed that, with the
threshold cache, this cap is what loses the optimum when the fringe is not popped best-first (`anyOrderOpt_false`).  Here
is the solver with that single line deleted: a cut-set node keeps the bound its own diagram gave it.

Everything else is mirrored literally from `SeqSolver.lean` / `Proofs/CacheClosedDefs.lean`:

* `SeqSt.enqueueNC`   — `SeqSt.enqueue` without `min nodeUb ·`;
* `SeqSt.processNC`   — `SeqSt.process` calling `enqueueNC`;
* `SolverCfg.kprocessNC`, `SolverCfg.kturnNC` — `kprocess`, `kturn` calling `enqueueNC`;
* `KStepNC` (best-first pop), `KStepAnyNC` (arbitrary pop), `KRunNC`, `KRunAnyNC`, `ksolveLoopNC`, `ksolveSchedNC`.

The bridge to the existing development (`enqueueNC_eq`, `processNC_eq`): **the no-cap enqueue is the capped enqueue with any
cap that dominates the bounds of the cut-set**, so processing `N` without the cap is processing `N` with its bound raised
(`raise N U`, `U ≥` every bound around) with the cap — and a node whose bound dominates the fringe is a best-first pop. -/
set_option linter.unusedSectionVars false
set_option linter.unusedVariables false
namespace Ddo
variable {S : Type} [DecidableEq S]

/-- `enqueue_cutset` **without the cap**: a cut-set node is pushed with the bound its diagram gave it, if it beats the
    incumbent -/
def SeqSt.enqueueNC (dedup : Bool) (st : SeqSt S) (cs : List (SubP S)) : SeqSt S :=
  cs.foldl (fun st c =>
    if c.ub > st.bestLb then
      let fr := pushSpec dedup st.fringe c
      let delta := fr.length - st.fringe.length
      match bumpLayer st.openByLayer c.depth delta with
      | some l => { st with fringe := fr, openByLayer := l }
      | none => { st with fringe := fr, crashed := true }
    else st) st

/-- `process_one_node(node)` with the no-cap `enqueue_cutset` (otherwise `SeqSt.process`, line by line) -/
def SeqSt.processNC (dedup : Bool) (st : SeqSt S) (node : SubP S) (mustExplore : Bool) (r x : DDRes S) : SeqSt S × Nat :=
  if node.ub ≤ st.bestLb then (st, 0)
  else if !mustExplore then (st, 0)
  else
    match r with
    | .cutoff => (st.abortSearch, 1)
    | .ok r =>
      let st := st.updateBest r
      if r.isExact then (st, 1)
      else
        match x with
        | .cutoff => (st.abortSearch, 2)
        | .ok x =>
          let st := st.updateBest x
          if x.isExact then (st, 2) else (st.enqueueNC dedup x.cutset, 2)

/-- a bound that dominates the bounds of a list of sub-problems -/
def capOf (cs : List (SubP S)) : Int := cs.foldl (fun a c => max a c.ub) 0

/-- the node with its bound raised to (at least) `U` -/
def raise (N : SubP S) (U : Int) : SubP S := { N with ub := max N.ub U }

theorem capOf_ge_aux (cs : List (SubP S)) : ∀ a : Int, a ≤ cs.foldl (fun a c => max a c.ub) a ∧
    ∀ c ∈ cs, c.ub ≤ cs.foldl (fun a c => max a c.ub) a := by
  induction cs with
  | nil => intro a; exact ⟨Int.le_refl _, fun c hc => by cases hc⟩
  | cons c0 cs ih =>
    intro a
    obtain ⟨h1, h2⟩ := ih (max a c0.ub)
    simp only [List.foldl_cons]
    refine ⟨by omega, fun c hc => ?_⟩
    rcases List.mem_cons.mp hc with e | e
    · subst e; omega
    · exact h2 c e

theorem capOf_ge (cs : List (SubP S)) : ∀ c ∈ cs, c.ub ≤ capOf cs := (capOf_ge_aux cs 0).2

/-- one iteration of the no-cap `drain_cutset` closure -/
def enqOneNC (dedup : Bool) (st : SeqSt S) (c : SubP S) : SeqSt S :=
  if c.ub > st.bestLb then
    let fr := pushSpec dedup st.fringe c
    let delta := fr.length - st.fringe.length
    match bumpLayer st.openByLayer c.depth delta with
    | some l => { st with fringe := fr, openByLayer := l }
    | none => { st with fringe := fr, crashed := true }
  else st

theorem enqueueNC_eq_foldl (dedup : Bool) (st : SeqSt S) (cs : List (SubP S)) :
    st.enqueueNC dedup cs = cs.foldl (enqOneNC dedup) st := rfl

theorem enqOneNC_eq (dedup : Bool) (U : Int) (st : SeqSt S) (c : SubP S) (h : c.ub ≤ U) :
    enqOneNC dedup st c = enqOne dedup U st c := by
  have hm : min U c.ub = c.ub := by omega
  unfold enqOneNC enqOne
  simp only [hm]
  rfl

/-- **the no-cap enqueue is the capped enqueue with a cap that dominates the cut-set** -/
theorem enqueueNC_eq (dedup : Bool) (U : Int) (cs : List (SubP S)) (hU : ∀ c ∈ cs, c.ub ≤ U) :
    ∀ st : SeqSt S, st.enqueueNC dedup cs = st.enqueue dedup U cs := by
  induction cs with
  | nil => intro st; rfl
  | cons c0 cs ih =>
    intro st
    rw [enqueueNC_eq_foldl, enqueue_eq_foldl, List.foldl_cons, List.foldl_cons,
      enqOneNC_eq dedup U st c0 (hU c0 List.mem_cons_self), ← enqueueNC_eq_foldl, ← enqueue_eq_foldl]
    exact ih (fun c h => hU c (List.mem_cons_of_mem _ h)) _

/-- the cut-set bound of a relaxed answer (`0` for a cutoff) -/
def capX : DDRes S → Int
  | .ok o => capOf o.cutset
  | .cutoff => 0

/-- **processing `N` without the cap = processing `N` with a raised bound with the cap** (when `N` passes the bound test;
    otherwise nothing happens) -/
theorem processNC_eq (dedup : Bool) (st : SeqSt S) (N : SubP S) (me : Bool) (r x : DDRes S) (U : Int) (hU : capX x ≤ U) :
    st.processNC dedup N me r x = if N.ub ≤ st.bestLb then (st, 0) else st.process dedup (raise N U) me r x := by
  unfold SeqSt.processNC
  by_cases hub : N.ub ≤ st.bestLb
  · rw [if_pos hub, if_pos hub]
  · rw [if_neg hub, if_neg hub]
    unfold SeqSt.process
    have hub' : ¬ (raise N U).ub ≤ st.bestLb := by
      unfold raise; dsimp only; omega
    rw [if_neg hub']
    cases me with
    | false => rfl
    | true =>
      simp only [Bool.not_true, Bool.false_eq_true, if_false]
      cases r with
      | cutoff => rfl
      | ok r =>
        dsimp only
        cases hre : r.isExact with
        | true => rfl
        | false =>
          simp only [Bool.false_eq_true, if_false]
          cases x with
          | cutoff => rfl
          | ok x =>
            dsimp only
            cases hxe : x.isExact with
            | true => rfl
            | false =>
              simp only [Bool.false_eq_true, if_false]
              rw [enqueueNC_eq dedup (raise N U).ub x.cutset]
              intro c hc
              have h1 := capOf_ge x.cutset c hc
              have h2 : capOf x.cutset ≤ U := hU
              unfold raise; dsimp only; omega

end Ddo

namespace Ddo.C09
open Ddo Ddo.C01 Ddo.Closed
variable {S : Type} [DecidableEq S]

/-- `process_one_node(N)` of the **no-cap** caching solver from the popped state `st` with the cache `c0`
    (`SolverCfg.kprocess` with `enqueueNC`) -/
def _root_.Ddo.C01.SolverCfg.kprocessNC (sv : SolverCfg S) (st : SeqSt S) (c0 : Cache S) (N : SubP S) : Option (KSt S) :=
  if N.ub ≤ st.bestLb then some ⟨st, c0⟩
  else
    match c0.mustExplore N.state N.depth N.value with
    | none => none
    | some false => some ⟨st, c0⟩
    | some true =>
      if sv.coutR c0 N st.bestLb ≠ .ok then none
      else
        match applyUps c0 (sv.cresR c0 N st.bestLb).cacheUpdates.reverse with
        | none => none
        | some c1 =>
          let st1 := st.updateBest (toOut (sv.cresR c0 N st.bestLb))
          if (sv.cresR c0 N st.bestLb).isExact then some ⟨st1, c1⟩
          else if sv.coutX c1 N st1.bestLb ≠ .ok then none
          else
            match applyUps c1 (sv.cresX c1 N st1.bestLb).cacheUpdates.reverse with
            | none => none
            | some c2 =>
              let st2 := st1.updateBest (toOut (sv.cresX c1 N st1.bestLb))
              if (sv.cresX c1 N st1.bestLb).isExact then some ⟨st2, c2⟩
              else some ⟨st2.enqueueNC sv.dedup (sv.cresX c1 N st1.bestLb).cutset, c2⟩

/-- one turn of the loop of `maximize` of the no-cap solver (`SolverCfg.kturn` with `kprocessNC`) -/
def _root_.Ddo.C01.SolverCfg.kturnNC (sv : SolverCfg S) (s : KSt S) (N : SubP S) (rest : List (SubP S)) : Option (KSt S) :=
  match cleanCache sv.P.nbVars s.st.openByLayer sv.P.nbVars s.st.firstActive s.cache with
  | none => none
  | some c0 =>
    sv.kprocessNC (popped s.st N rest (cleanLoop sv.P.nbVars s.st.openByLayer sv.P.nbVars s.st.firstActive)) c0 N

/-- one turn of the no-cap solver with a best-first pop (`MaxUB`) -/
inductive KStepNC (sv : SolverCfg S) : KSt S → KSt S → Prop
  | pop (s t : KSt S) (N : SubP S) (rest : List (SubP S))
      (hpop : s.st.fringe.Perm (N :: rest))
      (hmax : ∀ c ∈ rest, c.ub < N.ub ∨ (c.ub = N.ub ∧ c.value ≤ N.value))
      (hturn : sv.kturnNC s N rest = some t) : KStepNC sv s t

/-- one turn of the no-cap solver with an arbitrary pop (a custom `SubProblemRanking`, or a delayed worker) -/
inductive KStepAnyNC (sv : SolverCfg S) : KSt S → KSt S → Prop
  | pop (s t : KSt S) (N : SubP S) (rest : List (SubP S))
      (hpop : s.st.fringe.Perm (N :: rest))
      (hturn : sv.kturnNC s N rest = some t) : KStepAnyNC sv s t

theorem KStepNC.any {sv : SolverCfg S} {s t : KSt S} (h : KStepNC sv s t) : KStepAnyNC sv s t := by
  cases h with
  | pop N rest hpop _ hturn => exact KStepAnyNC.pop s t N rest hpop hturn

/-- finite runs of the no-cap solver with arbitrary pops -/
inductive KRunAnyNC (sv : SolverCfg S) : KSt S → KSt S → Prop
  | refl (s : KSt S) : KRunAnyNC sv s s
  | tail {s t u : KSt S} : KRunAnyNC sv s t → KStepAnyNC sv t u → KRunAnyNC sv s u

theorem KRunAnyNC.head {sv : SolverCfg S} {s t u : KSt S} (h1 : KStepAnyNC sv s t) (h2 : KRunAnyNC sv t u) :
    KRunAnyNC sv s u := by
  induction h2 with
  | refl => exact KRunAnyNC.tail (KRunAnyNC.refl _) h1
  | tail _ hstep ih => exact KRunAnyNC.tail ih hstep

/-- the no-cap loop with the deterministic best-first pop `popMax` (fuel-driven) -/
def _root_.Ddo.C01.SolverCfg.ksolveLoopNC (sv : SolverCfg S) : Nat → KSt S → KSt S
  | 0, s => s
  | n + 1, s =>
    match popMax s.st.fringe with
    | none => s
    | some (N, rest) =>
      match sv.kturnNC s N rest with
      | none => s
      | some t => sv.ksolveLoopNC n t

/-- the no-cap loop with an explicit pop schedule: turn `j` pops the entry of index `sched[j]` of the fringe -/
def _root_.Ddo.C01.SolverCfg.ksolveSchedNC (sv : SolverCfg S) : List Nat → KSt S → KSt S
  | [], s => s
  | i :: sched, s =>
    match popAt s.st.fringe i with
    | none => s
    | some (N, rest) =>
      match sv.kturnNC s N rest with
      | none => s
      | some t => sv.ksolveSchedNC sched t

/-- the scheduled no-cap loop is a run with arbitrary pops -/
theorem ksolveSchedNC_run (sv : SolverCfg S) : ∀ (sched : List Nat) (s : KSt S), KRunAnyNC sv s (sv.ksolveSchedNC sched s) := by
  intro sched
  induction sched with
  | nil => intro s; exact KRunAnyNC.refl s
  | cons i sched ih =>
    intro s
    unfold SolverCfg.ksolveSchedNC
    cases hp : popAt s.st.fringe i with
    | none => exact KRunAnyNC.refl s
    | some Nr =>
      obtain ⟨N, rest⟩ := Nr
      dsimp only
      cases ht : sv.kturnNC s N rest with
      | none => exact KRunAnyNC.refl s
      | some t => exact KRunAnyNC.head (KStepAnyNC.pop s t N rest (popAt_perm _ _ _ _ hp) ht) (ih t)

/-- the best-first no-cap loop is a run with arbitrary pops -/
theorem ksolveLoopNC_run (sv : SolverCfg S) : ∀ (n : Nat) (s : KSt S), KRunAnyNC sv s (sv.ksolveLoopNC n s) := by
  intro n
  induction n with
  | zero => intro s; exact KRunAnyNC.refl s
  | succ n ih =>
    intro s
    unfold SolverCfg.ksolveLoopNC
    cases hp : popMax s.st.fringe with
    | none => exact KRunAnyNC.refl s
    | some Nr =>
      obtain ⟨N, rest⟩ := Nr
      obtain ⟨hpop, _⟩ := popMax_spec s.st.fringe N rest hp
      dsimp only
      cases ht : sv.kturnNC s N rest with
      | none => exact KRunAnyNC.refl s
      | some t => exact KRunAnyNC.head (KStepAnyNC.pop s t N rest hpop ht) (ih t)

end Ddo.C09
