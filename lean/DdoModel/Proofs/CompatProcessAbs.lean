import DdoModel.Proofs.CompatStore
import DdoModel.Proofs.SeqCacheDedup
/-! C10e — **the abstract step of the joint invariant** (clauses *main* and *entries* of `Ddo.C10d.CompatInv`) over one compiled
turn, from a **contract of a single compilation**.

`Proofs/SeqCache.lean` proves the step of the caching solver (`step_generic`) for an abstract potential `H`, from the contract
`CompC` of one caching compilation.  The joint invariant is its restriction to ONE level of potential: call an item `(x, v)` of
depth `d` **hot** when `v + H d x ≥ opt` (`Hot`; with the pseudo-potential of `Proofs/CompatProcessPot.lean` "hot" *is* `GAbove`).
Every clause of `CInvC` / `CompC` is read at that level only — which is what makes the dominance checker harmless: whatever it
drops is not hot.

* `MEInv F T`: a hot open node with a bound `≥ opt` that `must_explore` accepts exists (`LiveO … 0`: clause *main*), and every
  cache entry that applies to a hot item is backed by such a node at least as deep (clause *entries*);
* `JCompC N T o ups`: the contract of one compilation of `N` consulting the cache view `T`, output `o`, updates `ups`, **under the
  standing assumption that the incumbent stays below `opt`**: `exact` / `cover` (a hot root reaches the cut-set or a deeper entry of
  `T` that applies to a hot item: `HitO`), `theta` (a recorded threshold that applies to a hot item is justified by a hot cut-set
  node at least as deep or by `HitO`), `ub` (a hot cut-set node has a bound `≥ opt`, or `HitO` below it), `fresh`, `exactCut`,
  `deeper`, `rng`;
* `step_me`: `MEInv (N :: F') T` and `JCompC N T o ups` give the two clauses for the new fringe `Fn` (any list that dominates — in
  the sense of the duplicate-free fringe — the rest of the fringe and, when `o` is not exact, the cut-set nodes whose bound is
  `≥ opt`) and the cache `T.upds ups`.  No hypothesis on the pop order. -/
set_option linter.unusedSectionVars false
set_option linter.unusedVariables false
namespace Ddo.C10d
open Ddo Ddo.C01 Ddo.Closed Ddo.C09 Ddo.C10 Ddo.C10c

section abs
variable {S : Type} [DecidableEq S]
variable (H : Nat → S → EInt) (opt : Int) (Rg : Nat → Int → Prop)

/-- the item `(x, v)` of depth `d` has a potential `≥ opt` -/
def Hot (d : Nat) (x : S) (v : Int) : Prop := ∃ h, H d x = some h ∧ opt ≤ v + h
def HotN (c : SubP S) : Prop := Hot H opt c.depth c.state c.value

/-- a hot open node of depth `≥ d`, bound `≥ opt`, accepted by `must_explore` -/
def LiveO (F : List (SubP S)) (T : CView S) (d : Nat) : Prop :=
  ∃ c ∈ F, d ≤ c.depth ∧ HotN H opt c ∧ opt ≤ c.ub ∧ ¬ prunM T c

/-- the cache `T` holds, strictly deeper than `d`, an entry that applies to a hot item -/
def HitO (T : CView S) (d : Nat) : Prop :=
  ∃ (x : S) (d' : Nat) (t : Thr) (v : Int), T x d' = some t ∧ d < d' ∧ Rg d' v ∧ v ≤ t.value ∧ Hot H opt d' x v

structure MEInv (F : List (SubP S)) (T : CView S) : Prop where
  rng : ∀ c ∈ F, Rg c.depth c.value
  root : LiveO H opt F T 0
  cache : ∀ (x : S) (d : Nat) (t : Thr) (v : Int), T x d = some t → Rg d v → v ≤ t.value → Hot H opt d x v → LiveO H opt F T d

/-- contract of one compilation, at the level `opt`, the incumbent staying below `opt` -/
structure JCompC (N : SubP S) (T : CView S) (o : DDOut S) (ups : List (S × Nat × Int × Bool)) : Prop where
  exact : o.isExact = true → HotN H opt N → HitO H opt Rg T N.depth
  exactCut : o.isExact = true → ∀ c ∈ o.cutset, c.ub < opt
  cover : o.isExact = false → HotN H opt N → (∃ c ∈ o.cutset, HotN H opt c) ∨ HitO H opt Rg T N.depth
  theta : ∀ u ∈ ups, ∀ v, Rg u.2.1 v → v ≤ u.2.2.1 → Hot H opt u.2.1 u.1 v →
    (∃ c ∈ o.cutset, u.2.1 ≤ c.depth ∧ HotN H opt c) ∨ HitO H opt Rg T u.2.1
  rng : ∀ c ∈ o.cutset, Rg c.depth c.value
  deeper : ∀ c ∈ o.cutset, N.depth < c.depth
  ub : ∀ c ∈ o.cutset, HotN H opt c → opt ≤ c.ub ∨ HitO H opt Rg T c.depth
  fresh : ∀ c ∈ o.cutset, opt ≤ c.ub → ¬ prunM (T.upds ups) c

theorem liveO_mono {F : List (SubP S)} {T : CView S} {d d' : Nat} (h : LiveO H opt F T d) (hd : d' ≤ d) : LiveO H opt F T d' := by
  obtain ⟨c, hc, hdc, h1, h2, h3⟩ := h
  exact ⟨c, hc, by omega, h1, h2, h3⟩

theorem hotN_dom {s c : SubP S} (hd : Dom s c) (h : HotN H opt c) : HotN H opt s := by
  obtain ⟨h0, hH, hle⟩ := h
  have h1 := hd.value
  exact ⟨h0, by rw [hd.state, hd.depth]; exact hH, by omega⟩

/-- a dominating entry of the fringe is a witness as well -/
theorem liveO_of_dom {F : List (SubP S)} {T : CView S} {d : Nat} {s c : SubP S} (hs : s ∈ F) (hd : Dom s c) (hdc : d ≤ c.depth)
    (hot : HotN H opt c) (hub : opt ≤ c.ub) (hnp : ¬ prunM T c) : LiveO H opt F T d := by
  have h1 := hd.depth
  have h2 := hd.ub
  exact ⟨s, hs, by omega, hotN_dom H opt hd hot, by omega, fun hp => hnp (prunM_dom T hd hp)⟩

/-- **the step** -/
theorem step_me (N : SubP S) (F' Fn : List (SubP S)) (T : CView S) (o : DDOut S) (ups : List (S × Nat × Int × Bool))
    (hinv : MEInv H opt Rg (N :: F') T) (hC : JCompC H opt Rg N T o ups)
    (hsubD : ∀ c ∈ F', ∃ s ∈ Fn, Dom s c)
    (henqD : o.isExact = false → ∀ c0 ∈ o.cutset, opt ≤ c0.ub → ∃ s ∈ Fn, Dom s c0) :
    LiveO H opt Fn (T.upds ups) 0 ∧
    ∀ (x : S) (d : Nat) (t : Thr) (v : Int), (T.upds ups) x d = some t → Rg d v → v ≤ t.value → Hot H opt d x v →
      LiveO H opt Fn (T.upds ups) d := by
  have hCC : ∀ d, HitO H opt Rg T d → ∃ d', d < d' ∧ LiveO H opt (N :: F') T d' := by
    intro d hh
    obtain ⟨x, d', t, v, hT, hdd, hrg, hvt, hot⟩ := hh
    exact ⟨d', hdd, hinv.cache x d' t v hT hrg hvt hot⟩
  have hEnq : ∀ c' ∈ o.cutset, HotN H opt c' → LiveO H opt Fn (T.upds ups) c'.depth ∨ HitO H opt Rg T c'.depth := by
    intro c' hc' hot
    rcases hC.ub c' hc' hot with h | h
    · cases hex : o.isExact with
      | true => have := hC.exactCut hex c' hc'; omega
      | false =>
        left
        obtain ⟨s, hs, hd⟩ := henqD hex c' hc' h
        exact liveO_of_dom H opt hs hd (Nat.le_refl _) hot h (hC.fresh c' hc' h)
    · exact Or.inr h
  obtain ⟨D, hD⟩ := depth_bound (N :: F')
  have hTr : ∀ n d, D < d + n → LiveO H opt (N :: F') T d → LiveO H opt Fn (T.upds ups) d := by
    intro n
    induction n with
    | zero =>
      intro d hd hl
      obtain ⟨c, hc, hdc, _⟩ := hl
      have := hD c hc
      omega
    | succ n ih =>
      intro d hd hL
      obtain ⟨c, hc, hdc, hot, hxu, hnp⟩ := hL
      have hcov : ∀ d1, d ≤ d1 → HitO H opt Rg T d1 → LiveO H opt Fn (T.upds ups) d := by
        intro d1 hd1 hcc
        obtain ⟨d', hdd, hL'⟩ := hCC d1 hcc
        exact liveO_mono H opt (ih d' (by omega) hL') (by omega)
      have hcs : ∀ c' ∈ o.cutset, d ≤ c'.depth → HotN H opt c' → LiveO H opt Fn (T.upds ups) d := by
        intro c' hc' hdc' hot'
        rcases hEnq c' hc' hot' with h | h
        · exact liveO_mono H opt h hdc'
        · exact hcov c'.depth hdc' h
      rcases List.mem_cons.mp hc with e | e
      · have e' : N = c := e.symm
        subst e'
        cases hex : o.isExact with
        | true => exact hcov N.depth hdc (hC.exact hex hot)
        | false =>
          rcases hC.cover hex hot with ⟨c', hc', hot'⟩ | h
          · exact hcs c' hc' (by have := hC.deeper c' hc'; omega) hot'
          · exact hcov N.depth hdc h
      · by_cases hp : prunM (T.upds ups) c
        · obtain ⟨u, hu, hus, hud, hvu⟩ := prun_new T ups c hnp hp
          have hrg := hinv.rng c hc
          have hot' : Hot H opt u.2.1 u.1 c.value := by rw [hud, hus]; exact hot
          rcases hC.theta u hu c.value (by rw [hud]; exact hrg) hvu hot' with ⟨c', hc', hdc', hotc⟩ | h3
          · exact hcs c' hc' (by omega) hotc
          · rw [hud] at h3; exact hcov c.depth hdc h3
        · obtain ⟨s, hs, hd'⟩ := hsubD c e
          exact liveO_of_dom H opt hs hd' hdc hot hxu hp
  have hTr' : ∀ d, LiveO H opt (N :: F') T d → LiveO H opt Fn (T.upds ups) d := fun d => hTr (D + 1) d (by omega)
  refine ⟨hTr' 0 hinv.root, ?_⟩
  intro x d t v hT hrg hvt hot
  rcases upds_get ups T x d t hT with h1 | ⟨u, hu, hus, hud, ht⟩
  · exact hTr' _ (hinv.cache x d t v h1 hrg hvt hot)
  · subst ht
    dsimp only at hvt
    have hot' : Hot H opt u.2.1 u.1 v := by rw [hud, hus]; exact hot
    rcases hC.theta u hu v (by rw [hud]; exact hrg) hvt hot' with ⟨c', hc', hdc', hotc⟩ | h3
    · rcases hEnq c' hc' hotc with h4 | h4
      · exact liveO_mono H opt h4 (by omega)
      · obtain ⟨d', hdd, hL'⟩ := hCC c'.depth h4
        exact liveO_mono H opt (hTr' d' hL') (by omega)
    · rw [hud] at h3
      obtain ⟨d', hdd, hL'⟩ := hCC d h3
      exact liveO_mono H opt (hTr' d' hL') (by omega)

end abs

end Ddo.C10d

#print axioms Ddo.C10d.step_me
