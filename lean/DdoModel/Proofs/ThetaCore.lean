import DdoModel.Proofs.ThetaBuild
import DdoModel.Proofs.ThetaPass
/-! Stage 1 of C09, the core argument: soundness of the thresholds on a finished diagram, from the facts `FF` that the
    top-down invariant (`ThetaBuild.lean`) and the analyses of the bottom-up passes (`ThetaPass.lean`, `ThetaCut.lean`,
    `computeLocalBounds_good`) provide.

For a node `n` of layer `l` that is not deleted, an *abstract value* `w` (the value with which some sub-problem reaches the
state of `n`; `w` may exceed `n.value`) below the final threshold of `n`, and the potential `h` of the state of `n`:
* `w + h ≤ bk` (cannot improve the incumbent), or
* `Handed`: a node `c` of the cut-set, not deeper… at a layer `≥ l`, flagged `cutset`, marked, whose rough bound and local bound
  both beat `bk` (so that it is handed out with `theta = value`), with `w + h ≤ c.value + H c`, or
* `CutBy`: a node pruned by the cache at a layer `≥ l` (`> l` when `n` itself was not pruned) whose cached threshold `t`
  admits a value `v' ≤ t` with `w + h ≤ v' + H`, or
* (only for the nodes that are not `above`) a potential-preserving path from `n` to the terminal layer.
Downward induction on the layers; `NP` is the same statement for `w = n.value`, without thresholds. -/
set_option linter.unusedSectionVars false
set_option linter.unusedVariables false
namespace Ddo.Theta
open Ddo Ddo.Bounds
variable {S K : Type} [DecidableEq S] [DecidableEq K]

/-- the bound on the magnitudes: `isize::MAX` -/
def big : Int := 9223372036854775807

/-! ## arithmetic with saturation -/

theorem satSub_chain {w b r h : Int} (hw : -big ≤ w) (h1 : w ≤ satSub b r) (h2 : h ≤ r) : w + h ≤ b := by
  unfold satSub clamp at h1
  simp only [iMin, iMax, big] at *
  omega

theorem rub_fail {r v lb h : Int} (h1 : ¬ satAdd r v > lb) (hlb : lb < iMax) (h2 : h ≤ r) : v + h ≤ lb := by
  unfold satAdd clamp at h1
  simp only [iMin, iMax] at *
  omega

theorem satAdd_comm (a b : Int) : satAdd a b = satAdd b a := by
  unfold satAdd; rw [Int.add_comm]

/-! ## the alternatives -/

/-- a cut-set node that is handed out (with `theta = value`) carries the potential `x` -/
def Handed (cfg : Cfg S K) (H : Nat → S → EInt) (L3 : List (List (Node S))) (nE : Nat) (bk : Int) (l : Nat) (x : Int) : Prop :=
  ∃ (l' p' : Nat) (c3 : Node S) (hc : Int), l ≤ l' ∧ getNode L3 l' p' = some c3 ∧ c3.deleted = false ∧ c3.cutset = true ∧
    c3.marked = true ∧ satAdd c3.value c3.vbot > bk ∧ satAdd c3.value c3.rub > bk ∧
    (∃ pt tn, getNode L3 nE pt = some tn) ∧
    H (cfg.root.depth + l') c3.state = some hc ∧ x ≤ c3.value + hc

/-- a node pruned by the cache carries the potential `x` -/
def CutBy (cfg : Cfg S K) (H : Nat → S → EInt) (B M : Int) (cache : Cache S) (L3 : List (List (Node S)))
    (l p : Nat) (x : Int) : Prop :=
  ∃ (l' p' : Nat) (m3 : Node S) (t : Thr) (v' h' : Int), l ≤ l' ∧ (l' = l → p' = p) ∧ getNode L3 l' p' = some m3 ∧
    m3.deleted = false ∧ m3.cache = true ∧ lookup cfg cache m3 = some t ∧ v' ≤ t.value ∧
    Cover.Within (M + Cover.Bd B l') v' ∧ H (cfg.root.depth + l') m3.state = some h' ∧ x ≤ v' + h'

theorem Handed.mono {cfg : Cfg S K} {H : Nat → S → EInt} {L3 : List (List (Node S))} {nE : Nat} {bk : Int} {l l0 : Nat} {x x0 : Int}
    (h : Handed cfg H L3 nE bk l x) (hl : l0 ≤ l) (hx : x0 ≤ x) : Handed cfg H L3 nE bk l0 x0 := by
  obtain ⟨l', p', c3, hc, a1, a2, a3, a4, a5, a6, a7, a8, a9, a10⟩ := h
  exact ⟨l', p', c3, hc, by omega, a2, a3, a4, a5, a6, a7, a8, a9, by omega⟩

/-- from a child (layer `l + 1`) to its parent at `(l, p0)` -/
theorem CutBy.up {cfg : Cfg S K} {H : Nat → S → EInt} {B M : Int} {cache : Cache S} {L3 : List (List (Node S))}
    {l p p0 : Nat} {x x0 : Int} (h : CutBy cfg H B M cache L3 (l + 1) p x) (hx : x0 ≤ x) :
    CutBy cfg H B M cache L3 l p0 x0 := by
  obtain ⟨l', p', m3, t, v', h', a1, a2, a3, a4, a5, a6, a7, a8, a9, a10⟩ := h
  exact ⟨l', p', m3, t, v', h', by omega, fun e => by omega, a3, a4, a5, a6, a7, a8, a9, by omega⟩

theorem CutBy.mono {cfg : Cfg S K} {H : Nat → S → EInt} {B M : Int} {cache : Cache S} {L3 : List (List (Node S))}
    {l p : Nat} {x x0 : Int} (h : CutBy cfg H B M cache L3 l p x) (hx : x0 ≤ x) : CutBy cfg H B M cache L3 l p x0 := by
  obtain ⟨l', p', m3, t, v', h', a1, a2, a3, a4, a5, a6, a7, a8, a9, a10⟩ := h
  exact ⟨l', p', m3, t, v', h', a1, a2, a3, a4, a5, a6, a7, a8, a9, by omega⟩

/-! ## the facts about the finished diagram -/

/-- the step fact, read in the finished diagram -/
def StepF (cfg : Cfg S K) (H : Nat → S → EInt) (B : Int) (L3 : List (List (Node S))) (l p : Nat) (n3 : Node S) : Prop :=
  satAdd (cfg.R.rub n3.state) n3.value > cfg.lb → ∀ h, H (cfg.root.depth + l) n3.state = some h →
    ∃ (p' : Nat) (m3 : Node S) (e : Arc) (h' : Int), getNode L3 (l + 1) p' = some m3 ∧ m3.deleted = false ∧ e ∈ m3.inb ∧
      e.fromL = l ∧ e.fromP = p ∧ Cover.Within B e.cost ∧ H (cfg.root.depth + l + 1) m3.state = some h' ∧
      h ≤ e.cost + h' ∧ n3.value + e.cost ≤ m3.value

/-- the facts about the finished diagram `L3` (`nE` = number of expanded layers = index of the terminal layer, if any) -/
structure FF (cfg : Cfg S K) (H : Nat → S → EInt) (B : Int) (cache : Cache S) (L3 : List (List (Node S))) (nE : Nat)
    (bk : Int) : Prop where
  lmax : ∀ (l p : Nat) (n3 : Node S), getNode L3 l p = some n3 → l ≤ nE
  rng : ∀ (l p : Nat) (n3 : Node S), getNode L3 l p = some n3 → Cover.Within (Cover.Bd B l) n3.value
  cacheN : ∀ (l p : Nat) (n3 : Node S), getNode L3 l p = some n3 → n3.deleted = false → n3.cache = true →
    l < nE ∧ ∃ (t : Thr) (tf : Int), lookup cfg cache n3 = some t ∧ n3.value ≤ t.value ∧ n3.theta = some tf ∧ tf ≤ t.value
  liveN : ∀ (l p : Nat) (n3 : Node S), getNode L3 l p = some n3 → n3.deleted = false → n3.cache = false → l < nE →
    n3.rub = cfg.R.rub n3.state ∧ StepF cfg H B L3 l p n3
  termN : ∀ (p : Nat) (n3 : Node S), getNode L3 nE p = some n3 →
    n3.deleted = false ∧ n3.cache = false ∧ n3.cutset = false ∧ n3.rub = iMax ∧
    H (cfg.root.depth + nE) n3.state = some 0 ∧ L3.length = nE + 1
  theta : ∀ (l p : Nat) (n3 : Node S), getNode L3 l p = some n3 → n3.deleted = false →
    ∃ θp : Option Int, n3.theta = ownTheta bk n3 θp ∧
      (∀ (p' : Nat) (m3 : Node S) (t : Int) (e : Arc), getNode L3 (l + 1) p' = some m3 → m3.deleted = false →
        m3.theta = some t → e ∈ m3.inb → e.fromP = p → ∃ tp, θp = some tp ∧ tp ≤ satSub t e.cost) ∧
      (l = nE → n3.above = true → ∃ tp, θp = some tp ∧ tp ≤ bk)
  flagStep : ∀ (l p p' : Nat) (n3 m3 : Node S) (e : Arc), getNode L3 l p = some n3 → n3.above = true → n3.cutset = false →
    getNode L3 (l + 1) p' = some m3 → e ∈ m3.inb → e.fromL = l → e.fromP = p → m3.above = true
  good : ∀ (l0 p0 : Nat) (c3 : Node S), getNode L3 l0 p0 = some c3 → c3.cutset = true →
    ∀ (l p : Nat) (h : Int) (r : Nat), Path L3 H cfg.root.depth B l p h r →
      ∃ n3, getNode L3 l p = some n3 ∧ n3.marked = true ∧ h ≤ n3.vbot

/-- the hypotheses on the model and the magnitudes -/
structure HypF (cfg : Cfg S K) (H : Nat → S → EInt) (B M : Int) (nE : Nat) (bk : Int) : Prop where
  R : RubOk cfg.R H
  lbMax : cfg.lb < iMax
  lbBk : cfg.lb ≤ bk
  B0 : 0 ≤ B
  M0 : 0 ≤ M
  small : M + Cover.Bd B nE ≤ big

/-- the statement without thresholds: the potential of a node beats the incumbent only if the cache cut it or a path leads
    to the terminal layer -/
def NP (cfg : Cfg S K) (H : Nat → S → EInt) (B M : Int) (cache : Cache S) (L3 : List (List (Node S))) (nE : Nat)
    (l p : Nat) (n3 : Node S) : Prop :=
  ∀ h, H (cfg.root.depth + l) n3.state = some h →
    n3.value + h ≤ cfg.lb ∨ CutBy cfg H B M cache L3 l p (n3.value + h) ∨ Path L3 H cfg.root.depth B l p h (nE - l)

/-- the statement with thresholds -/
def GT (cfg : Cfg S K) (H : Nat → S → EInt) (B M : Int) (cache : Cache S) (L3 : List (List (Node S))) (nE : Nat) (bk : Int)
    (l p : Nat) (n3 : Node S) : Prop :=
  ∀ w, Cover.Within (M + Cover.Bd B l) w → (∀ t, n3.theta = some t → w ≤ t) →
    ∀ h, H (cfg.root.depth + l) n3.state = some h →
      w + h ≤ bk ∨ Handed cfg H L3 nE bk l (w + h) ∨ CutBy cfg H B M cache L3 l p (w + h) ∨
      (n3.above = false ∧ Path L3 H cfg.root.depth B l p h (nE - l))

section
variable {cfg : Cfg S K} {H : Nat → S → EInt} {B M : Int} {cache : Cache S} {L3 : List (List (Node S))} {nE : Nat} {bk : Int}

theorem bd_step (hy : HypF cfg H B M nE bk) {l : Nat} (hl : l < nE) :
    M + Cover.Bd B l + B = M + Cover.Bd B (l + 1) ∧ M + Cover.Bd B (l + 1) ≤ big ∧ M + Cover.Bd B l ≤ big := by
  have h1 := Cover.Bd_succ B l
  have h2 : Cover.Bd B (l + 1) ≤ Cover.Bd B nE := Cover.Bd_mono hy.B0 (by omega)
  have h3 := hy.small
  have h4 := hy.B0
  refine ⟨by omega, by omega, by omega⟩

theorem bd_le (hy : HypF cfg H B M nE bk) {l : Nat} (hl : l ≤ nE) : M + Cover.Bd B l ≤ big := by
  have h2 : Cover.Bd B l ≤ Cover.Bd B nE := Cover.Bd_mono hy.B0 (by omega)
  have h3 := hy.small
  omega

/-- **nodes without thresholds** -/
theorem np_all (hf : FF cfg H B cache L3 nE bk) (hy : HypF cfg H B M nE bk) :
    ∀ (d l p : Nat) (n3 : Node S), l + d = nE → getNode L3 l p = some n3 → n3.deleted = false →
      NP cfg H B M cache L3 nE l p n3 := by
  intro d
  induction d with
  | zero =>
    intro l p n3 hl hn hdel h hH
    have hl' : l = nE := by omega
    subst hl'
    obtain ⟨_, _, _, _, hH0, hlen⟩ := hf.termN p n3 hn
    rw [hH0] at hH; cases hH
    right; right
    rw [Nat.sub_self]
    exact .term l p n3 hlen.symm hn hH0
  | succ d ih =>
    intro l p n3 hl hn hdel h hH
    have hlt : l < nE := by omega
    have hrng := hf.rng l p n3 hn
    by_cases hc : n3.cache = true
    · -- pruned by the cache
      obtain ⟨_, t, tf, ht, hvt, _, _⟩ := hf.cacheN l p n3 hn hdel hc
      right; left
      refine ⟨l, p, n3, t, n3.value, h, Nat.le_refl _, fun _ => rfl, hn, hdel, hc, ht, hvt, ?_, hH, Int.le_refl _⟩
      have := hy.M0
      unfold Cover.Within at hrng ⊢
      omega
    · have hc' : n3.cache = false := by simpa using hc
      obtain ⟨hrub, hstep⟩ := hf.liveN l p n3 hn hdel hc' hlt
      by_cases htest : satAdd (cfg.R.rub n3.state) n3.value > cfg.lb
      · obtain ⟨p', m3, e, h', hm, hmd, he, hfl, hfp, hw, hH', hle, hval⟩ := hstep htest h hH
        have hH'' : H (cfg.root.depth + (l + 1)) m3.state = some h' := by rw [← Nat.add_assoc]; exact hH'
        rcases ih (l + 1) p' m3 (by omega) hm hmd h' hH'' with h1 | h1 | h1
        · left; omega
        · right; left; exact h1.up (by omega)
        · right; right
          rw [show nE - l = (nE - (l + 1)) + 1 by omega]
          exact .step l p p' n3 m3 e h h' _ hn hm he hfl hfp hw hH hH' hle hval h1
      · left
        exact rub_fail htest hy.lbMax (hy.R _ _ _ hH)

/-- a path reaches the terminal layer -/
theorem path_term {l p : Nat} {h : Int} (hl : l ≤ nE) (hp : Path L3 H cfg.root.depth B l p h (nE - l)) :
    ∃ pt tn, getNode L3 nE pt = some tn := by
  obtain ⟨n, hn, _⟩ := hp.node
  obtain ⟨pt, tn, htn, _⟩ := hp.terminal n hn
  rw [show l + (nE - l) = nE by omega] at htn
  exact ⟨pt, tn, htn⟩

/-- **nodes with thresholds** -/
theorem gt_all (hf : FF cfg H B cache L3 nE bk) (hy : HypF cfg H B M nE bk) :
    ∀ (d l p : Nat) (n3 : Node S), l + d = nE → getNode L3 l p = some n3 → n3.deleted = false →
      GT cfg H B M cache L3 nE bk l p n3 := by
  intro d
  induction d with
  | zero =>
    intro l p n3 hl hn hdel w hw hth h hH
    have hl' : l = nE := by omega
    subst hl'
    obtain ⟨_, hc, hcut, hrub, hH0, hlen⟩ := hf.termN p n3 hn
    rw [hH0] at hH; cases hH
    obtain ⟨θp, hθ, _, hterm⟩ := hf.theta l p n3 hn hdel
    have hwb : -big ≤ w := by
      have := bd_le hy (Nat.le_refl l)
      unfold Cover.Within at hw; omega
    unfold ownTheta at hθ
    rw [hc] at hθ
    simp only [Bool.false_eq_true, if_false] at hθ
    by_cases hr : satAdd n3.value n3.rub ≤ bk
    · rw [if_pos hr] at hθ
      left
      have h1 := hth _ hθ
      rw [hrub] at h1
      have := satSub_chain (h := 0) hwb h1 (by unfold iMax; omega)
      omega
    · rw [if_neg hr, hcut] at hθ
      simp only [Bool.false_eq_true, if_false] at hθ
      by_cases hab : n3.above = true
      · obtain ⟨tp, htp, hle⟩ := hterm rfl hab
        rw [htp] at hθ
        simp only [Option.isNone_some, Bool.and_false, Bool.false_eq_true, if_false] at hθ
        left
        have := hth _ hθ
        omega
      · right; right; right
        refine ⟨by simpa using hab, ?_⟩
        rw [Nat.sub_self]
        exact .term l p n3 hlen.symm hn hH0
  | succ d ih =>
    intro l p n3 hl hn hdel w hw hth h hH
    have hlt : l < nE := by omega
    obtain ⟨hb1, hb2, hb3⟩ := bd_step hy hlt
    have hwb : -big ≤ w ∧ w ≤ big := by unfold Cover.Within at hw; omega
    by_cases hc : n3.cache = true
    · -- pruned by the cache: the node itself
      obtain ⟨_, t, tf, ht, hvt, htf, htfle⟩ := hf.cacheN l p n3 hn hdel hc
      right; right; left
      have := hth tf htf
      exact ⟨l, p, n3, t, w, h, Nat.le_refl _, fun _ => rfl, hn, hdel, hc, ht, by omega, hw, hH, Int.le_refl _⟩
    have hc' : n3.cache = false := by simpa using hc
    obtain ⟨hrub, hstep⟩ := hf.liveN l p n3 hn hdel hc' hlt
    obtain ⟨θp, hθ, hkids, _⟩ := hf.theta l p n3 hn hdel
    unfold ownTheta at hθ
    rw [hc'] at hθ
    simp only [Bool.false_eq_true, if_false] at hθ
    have hrle := hy.R _ _ _ hH
    by_cases hr : satAdd n3.value n3.rub ≤ bk
    · -- the rough upper bound cannot beat `bk`
      rw [if_pos hr] at hθ
      left
      have h1 := hth _ hθ
      rw [hrub] at h1
      exact satSub_chain hwb.1 h1 hrle
    rw [if_neg hr] at hθ
    have htest : satAdd (cfg.R.rub n3.state) n3.value > cfg.lb := by
      rw [satAdd_comm, ← hrub]
      have := hy.lbBk
      omega
    -- the step to a child, for a value `w` below the threshold `θp` the node held when its turn came
    have child : (∀ tp, θp = some tp → w ≤ tp) →
        w + h ≤ bk ∨ Handed cfg H L3 nE bk l (w + h) ∨ CutBy cfg H B M cache L3 l p (w + h) ∨
        ∃ (p' : Nat) (m3 : Node S) (e : Arc), getNode L3 (l + 1) p' = some m3 ∧ e ∈ m3.inb ∧ e.fromL = l ∧ e.fromP = p ∧
          m3.above = false ∧ Path L3 H cfg.root.depth B l p h (nE - l) := by
      intro hwθ
      obtain ⟨p', m3, e, h', hm, hmd, he, hfl, hfp, hwc, hH', hle, hval⟩ := hstep htest h hH
      have hH'' : H (cfg.root.depth + (l + 1)) m3.state = some h' := by rw [← Nat.add_assoc]; exact hH'
      have hw' : Cover.Within (M + Cover.Bd B (l + 1)) (w + e.cost) := by
        rw [← hb1]; unfold Cover.Within at hw hwc ⊢; omega
      have hth' : ∀ t, m3.theta = some t → w + e.cost ≤ t := by
        intro t ht
        obtain ⟨tp, htp, hle'⟩ := hkids p' m3 t e hm hmd ht he hfp
        have h1 := hwθ tp htp
        have h2 : w ≤ satSub t e.cost := by omega
        exact satSub_chain hwb.1 h2 (Int.le_refl _)
      rcases ih (l + 1) p' m3 (by omega) hm hmd (w + e.cost) hw' hth' h' hH'' with h1 | h1 | h1 | ⟨h1, h2⟩
      · left; omega
      · right; left; exact h1.mono (by omega) (by omega)
      · right; right; left; exact h1.up (by omega)
      · right; right; right
        refine ⟨p', m3, e, hm, he, hfl, hfp, h1, ?_⟩
        rw [show nE - l = (nE - (l + 1)) + 1 by omega]
        exact .step l p p' n3 m3 e h h' _ hn hm he hfl hfp hwc hH hH' hle hval h2
    by_cases hcut : n3.cutset = true
    · rw [hcut] at hθ
      simp only [if_true] at hθ
      by_cases hlocb : satAdd n3.value n3.vbot ≤ bk
      · -- a cut-set node whose local bound cannot beat `bk`
        rw [if_pos hlocb] at hθ
        have h1 := hth _ hθ
        have hwθ : ∀ tp, θp = some tp → w ≤ tp := by
          intro tp htp
          rw [htp, Option.getD_some] at h1
          omega
        rcases child hwθ with c1 | c1 | c1 | ⟨p', m3, e, _, _, _, _, _, hpath⟩
        · exact .inl c1
        · exact .inr (.inl c1)
        · exact .inr (.inr (.inl c1))
        · left
          obtain ⟨n3', hn3', _, hvb⟩ := hf.good l p n3 hn hcut l p h _ hpath
          rw [hn] at hn3'; cases hn3'
          have h2 : w ≤ satSub bk n3.vbot := by omega
          exact satSub_chain hwb.1 h2 hvb
      · -- a cut-set node whose local bound beats `bk`: `theta = value`
        rw [if_neg hlocb] at hθ
        have h1 := hth _ hθ
        by_cases hT : (∃ pt tn, getNode L3 nE pt = some tn) ∧ n3.marked = true
        · right; left
          exact ⟨l, p, n3, h, Nat.le_refl _, hn, hdel, hcut, hT.2, by omega, by omega, hT.1, hH, by omega⟩
        · rcases np_all hf hy (d + 1) l p n3 hl hn hdel h hH with c1 | c1 | c1
          · left
            have := hy.lbBk
            omega
          · right; right; left; exact c1.mono (by omega)
          · exfalso
            apply hT
            refine ⟨path_term (by omega) c1, ?_⟩
            obtain ⟨n3', hn3', hmk, _⟩ := hf.good l p n3 hn hcut l p h _ c1
            rw [hn] at hn3'; cases hn3'
            exact hmk
    · -- not in the cut-set
      have hcut' : n3.cutset = false := by simpa using hcut
      rw [hcut'] at hθ
      simp only [Bool.false_eq_true, if_false] at hθ
      have hwθ : ∀ tp, θp = some tp → w ≤ tp := by
        intro tp htp
        rw [htp] at hθ
        simp only [Option.isNone_some, Bool.and_false, Bool.false_eq_true, if_false] at hθ
        exact hth tp hθ
      rcases child hwθ with c1 | c1 | c1 | ⟨p', m3, e, hm, he, hfl, hfp, hmab, hpath⟩
      · exact .inl c1
      · exact .inr (.inl c1)
      · exact .inr (.inr (.inl c1))
      · right; right; right
        refine ⟨?_, hpath⟩
        cases hab : n3.above with
        | false => rfl
        | true =>
          have := hf.flagStep l p p' n3 m3 e hn hab hcut' hm he hfl hfp
          rw [hmab] at this; cases this

end
end Ddo.Theta
