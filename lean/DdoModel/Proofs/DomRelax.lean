import DdoModel.Proofs.DomRelaxB
import DdoModel.Props.C06
/-! # Relaxed compilation with the dominance checker enabled (C10): upper bound and cut-set of the protected family

`DomRelaxA` (flag analysis of `relaxLayer` / `expandAll`), `DomRelaxB` (the invariant `DInv` of the top-down build) and this
file extend the diagram theorems about relaxed compilations — C06 (`Proofs/MddCover.lean`), C08 (iii) / (iv)
(`Proofs/MddBounds.lean`, `Props/C08b.lean`), all stated for `cfg.dom = none` — to `cfg.dom = some D`, for a sub-problem
that belongs to a *protected family* (`Protected` of `Proofs/DomSound.lean`):

* `relaxed_ub_dom` — the best value of the relaxed diagram is at least the optimum;
* `relaxed_cutset_dom` — unless the diagram reports an exact value reaching the optimum, the cut-set (either kind) contains a
  protected sub-problem whose upper bound is at least the optimum.

Here: protected potential-preserving paths (`PPath`: every non-terminal node was expanded and is inexact or protected),
`ppath_of_live`, the invariant at the end of a compilation (`compile_dinv`), the final assembly. -/
set_option linter.unusedSectionVars false
set_option linter.unusedVariables false
namespace Ddo.C10
open Ddo Ddo.C01 Ddo.Closed Ddo.Truth
variable {S K : Type} [DecidableEq S] [DecidableEq K]

/-! ## protected paths -/

/-- what is recorded of a non-terminal node (layer `l`) of a protected path: it was expanded, it is inexact or protected -/
def QNode (cfg : Cfg S K) (Prot : Nat → S → Int → Prop) (l : Nat) (n : Node S) : Prop :=
  n.rub = cfg.R.rub n.state ∧ (n.isExact = true → Prot (cfg.root.depth + l) n.state n.value)

/-- `Bounds.Path` whose non-terminal nodes satisfy `Q` -/
inductive PPath (LS : List (List (Node S))) (H : Nat → S → EInt) (k0 : Nat) (B : Int) (Q : Nat → Node S → Prop) :
    Nat → Nat → Int → Nat → Prop
  | term (l p : Nat) (n : Node S) : l + 1 = LS.length → getNode LS l p = some n → H (k0 + l) n.state = some 0 →
      PPath LS H k0 B Q l p 0 0
  | step (l p p' : Nat) (n m : Node S) (e : Arc) (h h' : Int) (r : Nat) :
      getNode LS l p = some n → Q l n → getNode LS (l + 1) p' = some m → e ∈ m.inb → e.fromL = l → e.fromP = p →
      Cover.Within B e.cost → H (k0 + l) n.state = some h → H (k0 + l + 1) m.state = some h' →
      h ≤ e.cost + h' → n.value + e.cost ≤ m.value → PPath LS H k0 B Q (l + 1) p' h' r → PPath LS H k0 B Q l p h (r + 1)

theorem PPath.toPath {LS : List (List (Node S))} {H : Nat → S → EInt} {k0 : Nat} {B : Int} {Q : Nat → Node S → Prop}
    {l p : Nat} {h : Int} {r : Nat} (hp : PPath LS H k0 B Q l p h r) : Bounds.Path LS H k0 B l p h r := by
  induction hp with
  | term l p n hl hn hH => exact .term l p n hl hn hH
  | step l p p' n m e h h' r hn _ hm he hfl hfp hw hH hH' hle hval _ ih =>
    exact .step l p p' n m e h h' r hn hm he hfl hfp hw hH hH' hle hval ih

theorem PPath.head {LS : List (List (Node S))} {H : Nat → S → EInt} {k0 : Nat} {B : Int} {Q : Nat → Node S → Prop}
    {l p : Nat} {h : Int} {r : Nat} (hp : PPath LS H k0 B Q l p h (r + 1)) :
    ∀ n, getNode LS l p = some n → Q l n := by
  cases hp with
  | step _ _ p' n m e _ h' _ hn hq _ _ _ _ _ _ _ _ _ _ =>
    intro n' hn'
    rw [hn] at hn'; cases hn'
    exact hq

/-- walking `j` arcs down a protected path -/
theorem PPath.descend {LS : List (List (Node S))} {H : Nat → S → EInt} {k0 : Nat} {B : Int} {Q : Nat → Node S → Prop}
    {l p : Nat} {h : Int} {r : Nat} (hp : PPath LS H k0 B Q l p h r) :
    ∀ n, getNode LS l p = some n → ∀ j, j ≤ r → ∃ p' n' h', getNode LS (l + j) p' = some n' ∧
      PPath LS H k0 B Q (l + j) p' h' (r - j) ∧ n.value + h ≤ n'.value + h' := by
  induction hp with
  | term l p n hl hn hH =>
    intro n' hn' j hj
    rw [hn] at hn'; cases hn'
    have : j = 0 := by omega
    subst this
    exact ⟨p, n, 0, hn, .term l p n hl hn hH, Int.le_refl _⟩
  | step l p p' n m e h h' r hn hq hm he hfl hfp hw hH hH' hle hval hp' ih =>
    intro n' hn' j hj
    rw [hn] at hn'; cases hn'
    cases j with
    | zero => exact ⟨p, n, h, hn, .step l p p' n m e h h' r hn hq hm he hfl hfp hw hH hH' hle hval hp', Int.le_refl _⟩
    | succ j =>
      obtain ⟨p'', n'', h'', hn'', hp'', hv⟩ := ih m hm j (by omega)
      refine ⟨p'', n'', h'', ?_, ?_, by omega⟩
      · rw [show l + (j + 1) = l + 1 + j by omega]; exact hn''
      · rw [show l + (j + 1) = l + 1 + j by omega, show r + 1 - (j + 1) = r - j by omega]; exact hp''

/-- following a protected path from an exact node: it stays exact down to a terminal node of value `≥ o`, or it meets an exact
    node (satisfying `Q`) with an arc into an inexact node -/
theorem PPath.frontier {LS : List (List (Node S))} {H : Nat → S → EInt} {k0 : Nat} {B : Int} {Q : Nat → Node S → Prop}
    {l p : Nat} {h : Int} {r : Nat} (hp : PPath LS H k0 B Q l p h r) (o : Int) :
    ∀ n, getNode LS l p = some n → n.isExact = true → o ≤ n.value + h →
      (∃ pt tn, getNode LS (l + r) pt = some tn ∧ tn.isExact = true ∧ o ≤ tn.value) ∨
      (∃ (l1 p1 : Nat) (n1 : Node S) (h1 : Int) (r1 : Nat) (p2 : Nat) (m : Node S) (e : Arc),
        PPath LS H k0 B Q l1 p1 h1 (r1 + 1) ∧ getNode LS l1 p1 = some n1 ∧ n1.isExact = true ∧ o ≤ n1.value + h1 ∧
        getNode LS (l1 + 1) p2 = some m ∧ m.isExact = false ∧ e ∈ m.inb ∧ e.fromL = l1 ∧ e.fromP = p1) := by
  induction hp with
  | term l p n hl hn hH =>
    intro n' hn' hex ho
    rw [hn] at hn'; cases hn'
    exact .inl ⟨p, n, hn, hex, by omega⟩
  | step l p p' n m e h h' r hn hq hm he hfl hfp hw hH hH' hle hval hp' ih =>
    intro n' hn' hex ho
    rw [hn] at hn'; cases hn'
    by_cases hme : m.isExact = true
    · rcases ih m hm hme (by omega) with ⟨pt, tn, htn, hte, htv⟩ | hcut
      · exact .inl ⟨pt, tn, by rw [show l + (r + 1) = l + 1 + r by omega]; exact htn, hte, htv⟩
      · exact .inr hcut
    · exact .inr ⟨l, p, n, h, r, p', m, e, .step l p p' n m e h h' r hn hq hm he hfl hfp hw hH hH' hle hval hp',
        hn, hex, ho, hm, by simpa using hme, he, hfl, hfp⟩

/-! ## from the invariant to paths -/

theorem DInv.root_node {cfg : Cfg S K} {H : Nat → S → EInt} {Prot : Nat → S → Int → Prop} {B t : Int}
    {Live : Nat → Nat → Prop} {dd : DD S K} (hI : DInv cfg H Prot B t Live dd) :
    ∃ n0, getNode (dd.layers ++ [dd.next]) 0 0 = some n0 ∧ n0.state = cfg.root.state ∧ n0.value = cfg.root.value ∧
      (0 < dd.layers.length → Live 0 0) := by
  by_cases hemp : dd.layers = []
  · obtain ⟨n0, hn0, hs, hv⟩ := hI.root0 hemp
    refine ⟨n0, ?_, hs, hv, fun h => by rw [hemp] at h; simp at h⟩
    rw [hemp, hn0]; rfl
  · obtain ⟨ly, n0, hly, hn0, hs, hv, hlive⟩ := hI.root1 hemp
    exact ⟨n0, Bounds.getNode_full_of hly hn0, hs, hv, fun _ => hlive⟩

/-- **cover**: if the potential of the root reaches `t`, every layer (the one under construction included) holds a node —
    live when the layer is complete — whose potential reaches it -/
theorem DInv.cover {cfg : Cfg S K} {H : Nat → S → EInt} {Prot : Nat → S → Int → Prop} {B t : Int}
    {Live : Nat → Nat → Prop} {dd : DD S K} (hI : DInv cfg H Prot B t Live dd)
    (h0 : Int) (hH0 : H cfg.root.depth cfg.root.state = some h0) (ht : t ≤ cfg.root.value + h0) :
    ∀ l, l ≤ dd.layers.length → ∃ p n h, getNode (dd.layers ++ [dd.next]) l p = some n ∧
      (l < dd.layers.length → Live l p) ∧ H (cfg.root.depth + l) n.state = some h ∧ t ≤ n.value + h := by
  intro l
  induction l with
  | zero =>
    intro _
    obtain ⟨n0, hn0, hs, hv, hlive⟩ := hI.root_node
    exact ⟨0, n0, h0, hn0, hlive, by rw [hs]; exact hH0, by rw [hv]; exact ht⟩
  | succ l ih =>
    intro hl
    obtain ⟨p, n, h, hn, hlive, hH, hth⟩ := ih (by omega)
    have hlt : l < dd.layers.length := by omega
    obtain ⟨ly, hly, hnp⟩ := Bounds.getNode_full_lt hn hlt
    by_cases hl1 : l + 1 = dd.layers.length
    · obtain ⟨p', m, e, h', _, hm, _, _, _, _, hH', hle, hval, _⟩ := hI.stepN l p ly n hl1 hly (hlive hlt) hnp h hH hth
      exact ⟨p', m, h', by rw [hl1, Bounds.getNode_full_last]; exact hm, fun hh => by omega, hH', by omega⟩
    · have hlt1 : l + 1 < dd.layers.length := by omega
      have hly' : dd.layers[l + 1]? = some dd.layers[l + 1] := List.getElem?_eq_getElem hlt1
      obtain ⟨p', m, e, h', hlive', hm, _, _, _, _, hH', hle, hval, _⟩ :=
        hI.stepL l p ly _ n hly hly' (hlive hlt) hnp h hH hth
      exact ⟨p', m, h', Bounds.getNode_full_of hly' hm, fun _ => hlive', hH', by omega⟩

theorem DInv.next_ne {cfg : Cfg S K} {H : Nat → S → EInt} {Prot : Nat → S → Int → Prop} {B t : Int}
    {Live : Nat → Nat → Prop} {dd : DD S K} (hI : DInv cfg H Prot B t Live dd)
    (h0 : Int) (hH0 : H cfg.root.depth cfg.root.state = some h0) (ht : t ≤ cfg.root.value + h0) : dd.next ≠ [] := by
  obtain ⟨p, n, h, hn, _⟩ := hI.cover h0 hH0 ht dd.layers.length (Nat.le_refl _)
  rw [Bounds.getNode_full_last] at hn
  exact List.ne_nil_of_mem (List.mem_of_getElem? hn)

/-- every live node whose potential reaches the threshold starts a protected potential-preserving path -/
theorem ppath_of_live (cfg : Cfg S K) (H : Nat → S → EInt) (Prot : Nat → S → Int → Prop) (B t : Int) (hP : Potential cfg.P H)
    (Live : Nat → Nat → Prop) (fin : DD S K) (hI : DInv cfg H Prot B t Live fin)
    (hdepth : fin.depth = cfg.root.depth + fin.layers.length)
    (hnone : cfg.P.nextVar fin.depth (fin.next.map (·.state)) = none) :
    ∀ (d l p : Nat) (n : Node S) (h : Int), l + d = fin.layers.length → (l < fin.layers.length → Live l p) →
      getNode (fin.layers ++ [fin.next]) l p = some n → H (cfg.root.depth + l) n.state = some h → t ≤ n.value + h →
      PPath (fin.layers ++ [fin.next]) H cfg.root.depth B (QNode cfg Prot) l p h d := by
  intro d
  induction d with
  | zero =>
    intro l p n h hl _ hn hH _
    have hl' : l = fin.layers.length := by omega
    subst hl'
    rw [Bounds.getNode_full_last] at hn
    have hterm := hP.term fin.depth _ n.state hnone (List.mem_map_of_mem (List.mem_of_getElem? hn))
    rw [hdepth] at hterm
    rw [hterm] at hH
    cases hH
    exact .term _ p n (by rw [List.length_append, List.length_singleton]) (by rw [Bounds.getNode_full_last]; exact hn) hterm
  | succ d ih =>
    intro l p n h hl hlive hn hH ht
    have hlt : l < fin.layers.length := by omega
    obtain ⟨ly, hly, hnp⟩ := Bounds.getNode_full_lt hn hlt
    have hq : QNode cfg Prot l n :=
      ⟨hI.rub l p ly n hly (hlive hlt) hnp, fun hex => hI.prot l p ly n hly (hlive hlt) hnp hex⟩
    by_cases hl1 : l + 1 = fin.layers.length
    · obtain ⟨p', m, e, h', _, hm, he, hfl, hfp, hw, hH', hle, hval, _⟩ :=
        hI.stepN l p ly n hl1 hly (hlive hlt) hnp h hH ht
      have hm' : getNode (fin.layers ++ [fin.next]) (l + 1) p' = some m := by
        rw [hl1, Bounds.getNode_full_last]; exact hm
      exact .step l p p' n m e h h' d hn hq hm' he hfl hfp hw hH hH' hle hval
        (ih (l + 1) p' m h' (by omega) (fun hh => by omega) hm' hH' (by omega))
    · have hlt1 : l + 1 < fin.layers.length := by omega
      have hly' : fin.layers[l + 1]? = some fin.layers[l + 1] := List.getElem?_eq_getElem hlt1
      obtain ⟨p', m, e, h', hlive', hm, he, hfl, hfp, hw, hH', hle, hval, _⟩ :=
        hI.stepL l p ly _ n hly hly' (hlive hlt) hnp h hH ht
      have hm' : getNode (fin.layers ++ [fin.next]) (l + 1) p' = some m := Bounds.getNode_full_of hly' hm
      exact .step l p p' n m e h h' d hn hq hm' he hfl hfp hw hH hH' hle hval
        (ih (l + 1) p' m h' (by omega) (fun _ => hlive') hm' hH' (by omega))

/-! ## the invariant at the end of a compilation -/

/-- what the top-down build of a compilation that ends normally leaves -/
def TEnd (cfg : Cfg S K) (H : Nat → S → EInt) (opt : Int) (Prot : Nat → S → Int → Prop) (B : Int) (fin : DD S K) : Prop :=
  ∃ Live, DInv cfg H Prot B opt Live fin ∧ cfg.P.nextVar fin.depth (fin.next.map (·.state)) = none ∧
    fin.depth = cfg.root.depth + fin.layers.length

theorem root_potential (cfg : Cfg S K) (D : DomRule S K) (H : Nat → S → EInt) (opt : Int) (Prot : Nat → S → Int → Prop) (B : Int)
    (hy : DomHyp cfg D H opt Prot B) (hprot : Prot cfg.root.depth cfg.root.state cfg.root.value) :
    ∃ h0, H cfg.root.depth cfg.root.state = some h0 ∧ opt = h0 + cfg.root.value :=
  addI_some' (hy.prot.opt _ _ _ hprot)

/-- **the invariant holds at the end of a relaxed compilation with the checker enabled** -/
theorem compile_dinv (cfg : Cfg S K) (D : DomRule S K) (H : Nat → S → EInt) (opt : Int) (Prot : Nat → S → Int → Prop) (B : Int)
    (hy : RHyp cfg D H opt Prot B) (p0 : List Dec) (cache : Cache S) (store : DomStore S K) (polls : Nat)
    (hroot : Reach cfg.P cfg.root.depth cfg.root.state cfg.root.value p0)
    (hprot : Prot cfg.root.depth cfg.root.state cfg.root.value)
    (hst : StoreReach D cfg.P store) (hlen : store.layers.length = cfg.P.nbVars + 1)
    (hok : (compile cfg cache store polls none).1 = .ok) :
    TEnd cfg H opt Prot B (buildLoop cfg none (cfg.P.nbVars + 2) (initDD cfg cache store polls)).1 := by
  obtain ⟨hbl, _, _⟩ := Ddo.compile_ok cfg cache store polls none hok
  obtain ⟨h0, hH0, ho0⟩ := root_potential cfg D H opt Prot B hy.toDomHyp hprot
  have h := buildLoop_ind cfg B p0 hy.B (JInv cfg D H opt Prot B) (TEnd cfg H opt Prot B)
    (fun dd var hJ => ⟨⟨hJ.1.store, hJ.1.len⟩, hJ.2.imp (fun Live hI => hI.congr rfl rfl)⟩)
    (fun dd var dd' oc hJ hM hd hnv hl hstep => by
      obtain ⟨_, Live, hI⟩ := hJ
      have hne := hI.next_ne h0 hH0 (by omega)
      obtain ⟨hoc, hJ'⟩ := stepLayer_dinv cfg D H opt Prot B hy p0 dd dd' var oc hprot ⟨‹_›, Live, hI⟩ hM hd hnv hl hne hstep
      exact ⟨fun _ => hJ', fun hc => by rw [hoc] at hc; cases hc⟩)
    (fun dd hJ _ hd hnv => by
      obtain ⟨_, Live, hI⟩ := hJ
      exact ⟨Live, hI.congr rfl rfl, hnv, hd⟩)
    (cfg.P.nbVars + 2) (initDD cfg cache store polls)
    ⟨⟨hst, hlen⟩, _, init_dinv cfg H Prot B opt cache store polls hy.B⟩
    (initDD_inv cfg B p0 hy.B hroot cache store polls) rfl (by simp only [initDD, List.length_nil]; omega) hbl
  obtain ⟨fin, ⟨Live, hI, hnone, hdepth⟩, el, en, ed, _, _⟩ := h
  exact ⟨Live, hI.congr el.symm en.symm, by rw [← ed, ← en]; exact hnone, by rw [← ed, ← el]; exact hdepth⟩

/-! ## relaxed upper bound, checker enabled -/

theorem RHyp.mk' {cfg : Cfg S K} {D : DomRule S K} {H : Nat → S → EInt} {opt : Int} {Prot : Nat → S → Int → Prop} {B : Int}
    (hy : DomHyp cfg D H opt Prot B) (hrel : cfg.ctype = .relaxed) (hW : 1 ≤ cfg.width)
    (hM : MergeOk cfg.R H) (hAM : Cover.AttMerge cfg.P cfg.R H) : RHyp cfg D H opt Prot B :=
  { toDomHyp := hy, rel := hrel, W := hW, M := hM, AM := hAM }

/-- the root of the final diagram starts a protected path -/
theorem TEnd.root_path {cfg : Cfg S K} {H : Nat → S → EInt} {opt : Int} {Prot : Nat → S → Int → Prop} {B : Int} {fin : DD S K}
    (hT : TEnd cfg H opt Prot B fin) (hP : Potential cfg.P H)
    (h0 : Int) (hH0 : H cfg.root.depth cfg.root.state = some h0) (ho0 : opt ≤ cfg.root.value + h0) :
    ∃ n0, getNode (fin.layers ++ [fin.next]) 0 0 = some n0 ∧ n0.value = cfg.root.value ∧
      PPath (fin.layers ++ [fin.next]) H cfg.root.depth B (QNode cfg Prot) 0 0 h0 fin.layers.length := by
  obtain ⟨Live, hI, hnone, hdepth⟩ := hT
  obtain ⟨n0, hn0, hs0, hv0, hlive0⟩ := hI.root_node
  exact ⟨n0, hn0, hv0, ppath_of_live cfg H Prot B opt hP Live fin hI hdepth hnone fin.layers.length 0 0 n0 h0 (by omega) hlive0
    hn0 (by rw [Nat.add_zero, hs0]; exact hH0) (by rw [hv0]; exact ho0)⟩

/-- **relaxed upper bound, checker enabled**: the best value of a relaxed compilation of a protected sub-problem, run from a
    store of exactly reached entries, is at least the optimum -/
theorem relaxed_ub_dom (cfg : Cfg S K) (D : DomRule S K) (H : Nat → S → EInt) (opt : Int) (Prot : Nat → S → Int → Prop)
    (B : Int) (hy : DomHyp cfg D H opt Prot B) (hrel : cfg.ctype = .relaxed) (hW : 1 ≤ cfg.width)
    (hM : MergeOk cfg.R H) (hAM : Cover.AttMerge cfg.P cfg.R H)
    (p0 : List Dec) (cache : Cache S) (store : DomStore S K) (polls : Nat)
    (hroot : Reach cfg.P cfg.root.depth cfg.root.state cfg.root.value p0)
    (hprot : Prot cfg.root.depth cfg.root.state cfg.root.value)
    (hst : StoreReach D cfg.P store) (hlen : store.layers.length = cfg.P.nbVars + 1)
    (hok : (compile cfg cache store polls none).1 = .ok) :
    ∃ bv, (compile cfg cache store polls none).2.1.bestValue = some bv ∧ opt ≤ bv := by
  have hyR := RHyp.mk' hy hrel hW hM hAM
  have hT := compile_dinv cfg D H opt Prot B hyR p0 cache store polls hroot hprot hst hlen hok
  obtain ⟨_, _, hres⟩ := Ddo.compile_ok cfg cache store polls none hok
  obtain ⟨h0, hH0, ho0⟩ := root_potential cfg D H opt Prot B hy hprot
  rw [hres, Ddo.finalize_bestValue]
  generalize (buildLoop cfg none (cfg.P.nbVars + 2) (initDD cfg cache store polls)).1 = fin at hT
  obtain ⟨n0, hn0, hv0, hpath⟩ := hT.root_path hy.P h0 hH0 (by omega)
  obtain ⟨pt, tn, htn, hv⟩ := hpath.toPath.terminal n0 hn0
  rw [Nat.zero_add, Bounds.getNode_full_last] at htn
  obtain ⟨bv, h1, h2⟩ := Cover.maxValue_ge _ tn (List.mem_of_getElem? htn)
  refine ⟨bv, ?_, by omega⟩
  unfold Built.bestValue
  rw [terminals_finalizeLayers]; exact h1

/-! ## the cut-set, checker enabled -/

/-- an exact node of the built diagram that starts a protected path (of at least one arc) and sits at a position of the cut-set
    is handed out; it is protected and its upper bound is at least the optimum -/
theorem cut_handed_dom (cfg : Cfg S K) (D : DomRule S K) (H : Nat → S → EInt) (opt : Int) (Prot : Nat → S → Int → Prop) (B : Int)
    (hy : RHyp cfg D H opt Prot B) (p0 : List Dec) (Live : Nat → Nat → Prop) (fin : DD S K)
    (hI : DInv cfg H Prot B opt Live fin) (hne : fin.next ≠ [])
    (hwf : CutWF cfg p0 (finalizeLayers fin).layers (finalizeLayers fin).lel) (e : Bool)
    (l p : Nat) (n0 : Node S) (h : Int) (r : Nat)
    (hpath : PPath (finalizeLayers fin).layers H cfg.root.depth B (QNode cfg Prot) l p h (r + 1))
    (hn0 : getNode (finalizeLayers fin).layers l p = some n0) (hex : n0.isExact = true) (ho : opt ≤ n0.value + h)
    (hcs : (l, p) ∈ (computeCutset cfg.kind (finalizeLayers fin).lel (finalizeLayers fin).layers).2) :
    ∃ c ∈ (finalize cfg (finalizeLayers fin) e).1.cutset, Prot c.depth c.state c.value ∧ opt ≤ c.ub := by
  have hLS := (finalizeLayers_nonempty fin hne).1
  obtain ⟨hqr, hqp⟩ := hpath.head n0 hn0
  have hP := hpath.toPath
  have hlel : (finalizeLayers fin).lel < (finalizeLayers fin).layers.length := by
    rcases Nat.lt_or_ge (finalizeLayers fin).lel (finalizeLayers fin).layers.length with h | h
    · exact h
    · rw [hwf.cutset_nil h] at hcs; cases hcs
  -- the terminal node of the path, the best value
  have hlenp := hP.len
  obtain ⟨pt, tn, htn, hv⟩ := hP.terminal n0 hn0
  rw [hLS] at htn hlenp
  rw [List.length_append, List.length_singleton] at hlenp
  rw [show l + (r + 1) = fin.layers.length by omega, Bounds.getNode_full_last] at htn
  have htmem : tn ∈ fin.next := List.mem_of_getElem? htn
  obtain ⟨bv, hb1, hb2⟩ := Cover.maxValue_ge _ tn htmem
  have hbv : (finalizeLayers fin).bestValue = some bv := by
    unfold Built.bestValue
    rw [terminals_finalizeLayers]; exact hb1
  have hsm : tn.value ≤ 4611686018427387904 := by
    have := hI.rngN tn htmem
    have hs := Cover.Bd_small hy.B.toDom hI.len
    unfold Cover.Within at this
    omega
  -- the local bound
  have hlen : (finalizeLayers fin).layers.length ≤ cfg.P.nbVars + 2 := by
    rw [hLS, List.length_append, List.length_singleton]; have := hI.len; omega
  obtain ⟨n3, hn3, hmk, hvb⟩ := Bounds.finalize_good cfg (finalizeLayers fin) e H cfg.root.depth B hy.rel hlel
    (Bounds.small_of_noClamp hy.B hlen) l p h _ hP
  obtain ⟨n0', hn0', hs⟩ := (finalize_layers_xEq cfg (finalizeLayers fin) e).getNode_some hn3
  rw [hn0] at hn0'
  cases hn0'
  obtain ⟨e1, e2, _, e4, e5, _⟩ := Bounds.stripB_fields hs
  obtain ⟨_, _, _, hdepth⟩ := hwf.node _ _ n0 hn0 hex
  obtain ⟨n', hn', hH'⟩ := hP.node
  rw [hn0] at hn'; cases hn'
  have hrle := hy.R _ _ _ hH'
  refine ⟨Bounds.subOf cfg (finalize cfg (finalizeLayers fin) e).2 bv n3,
    (Bounds.finalize_cutset_iff cfg _ e _).2
      ⟨bv, (l, p), n3, hbv, by rw [Bounds.fCs_of_relaxed cfg _ hy.rel]; exact hcs, hn3, hmk, rfl⟩, ?_, ?_⟩
  · simp only [Bounds.subOf]
    rw [← e5, hdepth, ← e1, ← e2]
    exact hqp hex
  · simp only [Bounds.subOf]
    have h1 : opt ≤ satAdd n3.value n3.rub := by
      rw [← e2, ← e4, hqr]
      unfold satAdd clamp
      simp only [iMin, iMax]
      omega
    have h2 : opt ≤ satAdd n3.value n3.vbot := by
      rw [← e2]
      unfold satAdd clamp
      simp only [iMin, iMax]
      omega
    omega

/-- the cut-set of the final diagram, for any value of the `hasEBP` bit -/
theorem cutset_dom_fin (cfg : Cfg S K) (D : DomRule S K) (H : Nat → S → EInt) (opt : Int) (Prot : Nat → S → Int → Prop) (B : Int)
    (hy : RHyp cfg D H opt Prot B) (p0 : List Dec) (fin : DD S K)
    (hprot : Prot cfg.root.depth cfg.root.state cfg.root.value)
    (hT : TEnd cfg H opt Prot B fin) (hinv2 : Inv2 cfg fin)
    (hwf : CutWF cfg p0 (finalizeLayers fin).layers (finalizeLayers fin).lel) (e : Bool)
    (hbe : ∀ w, (finalize cfg (finalizeLayers fin) e).1.bestExactValue = some w → w < opt) :
    ∃ c ∈ (finalize cfg (finalizeLayers fin) e).1.cutset, Prot c.depth c.state c.value ∧ opt ≤ c.ub := by
  obtain ⟨h0, hH0, ho0⟩ := root_potential cfg D H opt Prot B hy.toDomHyp hprot
  obtain ⟨n0, hn0, hv0, hpath0⟩ := hT.root_path hy.P h0 hH0 (by omega)
  obtain ⟨Live, hI, hnone, hdepth⟩ := hT
  have hne : fin.next ≠ [] := hI.next_ne h0 hH0 (by omega)
  have hLS := (finalizeLayers_nonempty fin hne).1
  have hlenLS : (finalizeLayers fin).layers.length = fin.layers.length + 1 := by
    rw [hLS, List.length_append, List.length_singleton]
  -- no exact terminal node reaches the optimum
  have noTerm : ∀ pt tn, getNode (finalizeLayers fin).layers fin.layers.length pt = some tn → tn.isExact = true →
      opt ≤ tn.value → False := by
    intro pt tn htn hex hv
    rw [hLS, Bounds.getNode_full_last] at htn
    have htmem : tn ∈ fin.next := List.mem_of_getElem? htn
    rw [Bounds.finalize_bestExactValue] at hbe
    cases e with
    | true =>
      obtain ⟨bv, h1, h2⟩ := Cover.maxValue_ge _ tn htmem
      have := hbe bv (by
        simp only [if_true]
        unfold Built.bestValue
        rw [terminals_finalizeLayers]; exact h1)
      omega
    | false =>
      have hmem : tn ∈ (finalizeLayers fin).terminals.filter (·.isExact) := by
        rw [terminals_finalizeLayers]; exact List.mem_filter.2 ⟨htmem, hex⟩
      obtain ⟨bv, h1, h2⟩ := Cover.maxValue_ge _ tn hmem
      have := hbe bv (by simp only [Bool.false_eq_true, if_false]; exact h1)
      omega
  rw [← hLS] at hn0 hpath0
  have hex0 : n0.isExact = true := hwf.exactUpTo 0 0 n0 hn0 (Nat.zero_le _)
  have ht0 : opt ≤ n0.value + h0 := by rw [hv0]; omega
  cases hk : cfg.kind with
  | lel =>
    cases hfl : fin.lel with
    | none =>
      exfalso
      have hlel : (finalizeLayers fin).lel = (finalizeLayers fin).layers.length := by
        rw [finalizeLayers_lel, hfl, Option.getD_none]
      obtain ⟨pt, tn, htn, hv⟩ := hpath0.toPath.terminal n0 hn0
      rw [Nat.zero_add] at htn
      exact noTerm pt tn htn (hwf.exactUpTo _ pt tn htn (by rw [hlel, hlenLS]; omega)) (by omega)
    | some k =>
      have hlel : (finalizeLayers fin).lel = k := by rw [finalizeLayers_lel, hfl, Option.getD_some]
      obtain ⟨hkT, _⟩ := hinv2.lelSome k hfl
      obtain ⟨p', n', h', hn', hpath', hv'⟩ := hpath0.descend n0 hn0 k (by omega)
      rw [Nat.zero_add] at hn' hpath'
      have hex' : n'.isExact = true := hwf.exactUpTo k p' n' hn' (by rw [hlel]; exact Nat.le_refl _)
      have hcs : (k, p') ∈ (computeCutset cfg.kind (finalizeLayers fin).lel (finalizeLayers fin).layers).2 := by
        rw [hk, hlel]; exact Bounds.computeCutset_lel_mem k _ p' n' hn'
      rw [show fin.layers.length - k = (fin.layers.length - k - 1) + 1 by omega] at hpath'
      exact cut_handed_dom cfg D H opt Prot B hy p0 Live fin hI hne hwf e k p' n' h' _ hpath' hn' hex' (by omega) hcs
  | frontier =>
    have hcut : ∀ (l p : Nat) (n : Node S), getNode (finalizeLayers fin).layers l p = some n → n.cutset = false := by
      intro l p n hn
      rcases finalizeLayers_at fin hn with ⟨ly, hly, hmem⟩ | ⟨_, hmem⟩
      · exact hI.cutL ly (List.mem_of_getElem? hly) n hmem
      · exact hI.cutN n hmem
    rcases hpath0.frontier opt n0 hn0 hex0 ht0 with ⟨pt, tn, htn, hte, htv⟩ |
      ⟨l1, p1, n1, h1, r1, p2, m, e', hp1, hn1, hex1, hv1, hm, hmex, he', hfl, hfp⟩
    · exfalso
      rw [Nat.zero_add] at htn
      exact noTerm pt tn htn hte htv
    · have hcs := Bounds.computeCutset_frontier_mem (finalizeLayers fin).lel (finalizeLayers fin).layers hcut (l1 + 1) p2 m e' n1
        hm hmex he' (by rw [hfl, hfp]; exact hn1) hex1
      rw [hfl, hfp, ← hk] at hcs
      exact cut_handed_dom cfg D H opt Prot B hy p0 Live fin hI hne hwf e l1 p1 n1 h1 r1 hp1 hn1 hex1 hv1 hcs

/-- **cut-set coverage and bound for the protected family, checker enabled**: unless the relaxed diagram reports an exact value
    reaching the optimum, its cut-set (last exact layer or frontier) contains a protected sub-problem whose upper bound is at
    least the optimum -/
theorem relaxed_cutset_dom (cfg : Cfg S K) (D : DomRule S K) (H : Nat → S → EInt) (opt : Int) (Prot : Nat → S → Int → Prop)
    (B : Int) (hy : DomHyp cfg D H opt Prot B) (hrel : cfg.ctype = .relaxed) (hW : 1 ≤ cfg.width)
    (hM : MergeOk cfg.R H) (hAM : Cover.AttMerge cfg.P cfg.R H)
    (p0 : List Dec) (cache : Cache S) (store : DomStore S K) (polls : Nat)
    (hroot : Reach cfg.P cfg.root.depth cfg.root.state cfg.root.value p0)
    (hprot : Prot cfg.root.depth cfg.root.state cfg.root.value)
    (hst : StoreReach D cfg.P store) (hlen : store.layers.length = cfg.P.nbVars + 1)
    (hok : (compile cfg cache store polls none).1 = .ok)
    (hbe : ∀ w, (compile cfg cache store polls none).2.1.bestExactValue = some w → w < opt) :
    ∃ c ∈ (compile cfg cache store polls none).2.1.cutset, Prot c.depth c.state c.value ∧ opt ≤ c.ub := by
  have hyR := RHyp.mk' hy hrel hW hM hAM
  have hT := compile_dinv cfg D H opt Prot B hyR p0 cache store polls hroot hprot hst hlen hok
  have hwf := compile_wf cfg B p0 hy.B hroot cache store polls none
  have hinv2 := (buildLoop_inv2 cfg B p0 hy.B none (cfg.P.nbVars + 2) (initDD cfg cache store polls)
    (initDD_inv cfg B p0 hy.B hroot cache store polls) (initDD_inv2 cfg cache store polls) rfl
    (by simp only [initDD, List.length_nil]; omega)).2
  obtain ⟨_, _, hres⟩ := Ddo.compile_ok cfg cache store polls none hok
  rw [hres] at hbe ⊢
  exact cutset_dom_fin cfg D H opt Prot B hyR p0 _ hprot hT hinv2 hwf _ hbe

/-- the same for both results of `compile` (the two admissible resolutions of the exact-best-path tie) -/
theorem relaxed_cutset_dom_both (cfg : Cfg S K) (D : DomRule S K) (H : Nat → S → EInt) (opt : Int) (Prot : Nat → S → Int → Prop)
    (B : Int) (hy : DomHyp cfg D H opt Prot B) (hrel : cfg.ctype = .relaxed) (hW : 1 ≤ cfg.width)
    (hM : MergeOk cfg.R H) (hAM : Cover.AttMerge cfg.P cfg.R H)
    (p0 : List Dec) (cache : Cache S) (store : DomStore S K) (polls : Nat)
    (hroot : Reach cfg.P cfg.root.depth cfg.root.state cfg.root.value p0)
    (hprot : Prot cfg.root.depth cfg.root.state cfg.root.value)
    (hst : StoreReach D cfg.P store) (hlen : store.layers.length = cfg.P.nbVars + 1)
    (hok : (compile cfg cache store polls none).1 = .ok) (r : Result S)
    (hr : r = (compile cfg cache store polls none).2.1 ∨ (compile cfg cache store polls none).2.2.1 = some r)
    (hbe : ∀ w, r.bestExactValue = some w → w < opt) :
    ∃ c ∈ r.cutset, Prot c.depth c.state c.value ∧ opt ≤ c.ub := by
  have hyR := RHyp.mk' hy hrel hW hM hAM
  have hT := compile_dinv cfg D H opt Prot B hyR p0 cache store polls hroot hprot hst hlen hok
  have hwf := compile_wf cfg B p0 hy.B hroot cache store polls none
  have hinv2 := (buildLoop_inv2 cfg B p0 hy.B none (cfg.P.nbVars + 2) (initDD cfg cache store polls)
    (initDD_inv cfg B p0 hy.B hroot cache store polls) (initDD_inv2 cfg cache store polls) rfl
    (by simp only [initDD, List.length_nil]; omega)).2
  obtain ⟨_, e, rfl⟩ := compile_results cfg cache store polls none hok r hr
  exact cutset_dom_fin cfg D H opt Prot B hyR p0 _ hprot hT hinv2 hwf e hbe

/-! ## non-vacuity: the tiny model of C06 (three binary variables, width 1) with a rule that does prune

States `0` and `1` share a bucket (larger state and value is better), the other states have no key.  On the second layer the
checker drops the node `(0, 0)` (dominated by `(1, 1)`), on the third layer a merge takes place (`lel = some 1`); the
protected family is "all ones".  Every hypothesis of the two theorems holds; the cut-set (either kind) is `[(1, 1)]`. -/
namespace TinyDom
open Ddo.C06

/-- states `0` and `1` are comparable (one bucket), larger is better, value included; the other states have no key -/
def rule : DomRule Int Unit :=
  { key := fun s => if s ≤ 1 then some () else none, dims := fun _ => 1, coord := fun s _ => s, useValue := true }

def cfgL : Cfg Int Unit := { Tiny.cfg with dom := some rule }
def cfgF : Cfg Int Unit := { Tiny.cfg with dom := some rule, kind := .frontier }

/-- the protected family: "all ones" -/
def Prot (d : Nat) (s : Int) (v : Int) : Prop := s = (d : Int) ∧ v = (d : Int) ∧ d ≤ 3

theorem reach_inv {k : Nat} {s v : Int} {p : List Dec} (h : Reach Tiny.prob k s v p) : s = v ∧ v ≤ (k : Int) := by
  induction h with
  | root => exact ⟨rfl, by decide⟩
  | step k s v p L x d _ _ _ hd ih =>
    obtain ⟨rfl, hv⟩ := ih
    have hd' : d = 0 ∨ d = 1 := by simpa [Tiny.prob] using hd
    show s + d = s + (if d = 1 then 1 else 0) ∧ s + (if d = 1 then 1 else 0) ≤ ((k + 1 : Nat) : Int)
    rcases hd' with rfl | rfl
    · simp; omega
    · simp; omega

theorem reach_ones : ∀ d : Nat, d ≤ 3 → ∃ p, Reach Tiny.prob d (d : Int) (d : Int) p := by
  intro d
  induction d with
  | zero => intro _; exact ⟨[], Reach.root⟩
  | succ d ih =>
    intro hd
    obtain ⟨p, hp⟩ := ih (by omega)
    have hnv : Tiny.prob.nextVar d [(d : Int)] = some d := by simp only [Tiny.prob]; rw [if_pos (by omega)]
    have := Reach.step d (d : Int) (d : Int) p [(d : Int)] d 1 hp hnv List.mem_cons_self (by simp [Tiny.prob])
    refine ⟨p ++ [⟨d, 1⟩], ?_⟩
    have e : ((d + 1 : Nat) : Int) = (d : Int) + 1 := by omega
    rw [e]
    exact this

theorem protected_ : Protected rule Tiny.prob Tiny.H 3 Prot := by
  refine ⟨⟨rfl, rfl, by decide⟩, ?_, ?_, ?_, ?_⟩
  · rintro d s v ⟨rfl, rfl, hd⟩
    exact reach_ones d hd
  · rintro d s v ⟨rfl, rfl, hd⟩
    simp only [Tiny.H, EInt.addI, Option.map_some, Option.some.injEq]
    omega
  · rintro d s v L x ⟨rfl, rfl, hd⟩ hnv _
    obtain ⟨hk, hx⟩ := Tiny.nv_some hnv
    rw [hx]
    refine ⟨1, by simp [Tiny.prob], ?_⟩
    exact ⟨by show (d : Int) + 1 = _; omega,
      by show (d : Int) + (if (1 : Int) = 1 then 1 else 0) = _; rw [if_pos rfl]; omega, by omega⟩
  · rintro d s v a va pa ⟨rfl, rfl, hd⟩ hr hdom
    obtain ⟨rfl, hle⟩ := reach_inv hr
    obtain ⟨_, h2⟩ := hdom
    simp [Ddo.domEnt, Ddo.geEnt, DomRule.ent, DomRule.coordsN, Ddo.leB, rule] at h2
    omega

theorem attMerge : Cover.AttMerge Tiny.prob Tiny.rlx Tiny.H :=
  Cover.attMerge_of_static Tiny.potential (fun _ _ _ _ _ => rfl)

theorem nvBound : NvBound Tiny.prob := by
  intro k L hk
  have hk' : 3 ≤ k := hk
  simp only [Tiny.prob]
  rw [if_neg (by omega)]

theorem domHypL : DomHyp cfgL rule Tiny.H 3 Prot 1 :=
  ⟨rfl, rfl, Tiny.potential, Tiny.rubOk, Tiny.noClamp, nvBound, protected_, by decide, by decide, Or.inl (by decide)⟩
theorem domHypF : DomHyp cfgF rule Tiny.H 3 Prot 1 :=
  ⟨rfl, rfl, Tiny.potential, Tiny.rubOk, Tiny.noClamp, nvBound, protected_, by decide, by decide, Or.inl (by decide)⟩

/-- the checker does prune (one `dominated` verdict), a merge does happen (`lel = some 1`) -/
example : (compile cfgL (Cache.init 3) (DomStore.init 3) 0 none).2.2.2.ndom = 1 ∧
    (compile cfgL (Cache.init 3) (DomStore.init 3) 0 none).2.2.2.lel = some 1 := by decide

example : ∃ bv, (compile cfgL (Cache.init 3) (DomStore.init 3) 0 none).2.1.bestValue = some bv ∧ 3 ≤ bv :=
  relaxed_ub_dom cfgL rule Tiny.H 3 Prot 1 domHypL rfl (by decide) Tiny.mergeOk attMerge [] (Cache.init 3)
    (DomStore.init 3) 0 Reach.root ⟨rfl, rfl, by decide⟩ (storeReach_init rule _ 3) (by decide) (by decide)

example : ∃ c ∈ (compile cfgL (Cache.init 3) (DomStore.init 3) 0 none).2.1.cutset, Prot c.depth c.state c.value ∧ 3 ≤ c.ub :=
  relaxed_cutset_dom cfgL rule Tiny.H 3 Prot 1 domHypL rfl (by decide) Tiny.mergeOk attMerge [] (Cache.init 3)
    (DomStore.init 3) 0 Reach.root ⟨rfl, rfl, by decide⟩ (storeReach_init rule _ 3) (by decide) (by decide)
    (by
      have h : (compile cfgL (Cache.init 3) (DomStore.init 3) 0 none).2.1.bestExactValue = none := by decide
      intro w hw; rw [h] at hw; cases hw)

example : ∃ c ∈ (compile cfgF (Cache.init 3) (DomStore.init 3) 0 none).2.1.cutset, Prot c.depth c.state c.value ∧ 3 ≤ c.ub :=
  relaxed_cutset_dom cfgF rule Tiny.H 3 Prot 1 domHypF rfl (by decide) Tiny.mergeOk attMerge [] (Cache.init 3)
    (DomStore.init 3) 0 Reach.root ⟨rfl, rfl, by decide⟩ (storeReach_init rule _ 3) (by decide) (by decide)
    (by
      have h : (compile cfgF (Cache.init 3) (DomStore.init 3) 0 none).2.1.bestExactValue = none := by decide
      intro w hw; rw [h] at hw; cases hw)

example : ((compile cfgL (Cache.init 3) (DomStore.init 3) 0 none).2.1.cutset.map
    (fun c => (c.state, c.value, c.ub, c.depth))) = [(1, 1, 3, 1)] := by decide

end TinyDom

#print axioms relaxed_ub_dom
#print axioms relaxed_cutset_dom
#print axioms relaxed_cutset_dom_both

end Ddo.C10
