import DdoModel.Proofs.ParDomOpReach
import DdoModel.Proofs.ParDomOpSpec
import DdoModel.Props.C10b
/-! # The operation-wise compilation: a reported exact value is the value of the reported solution

`isSolOp_restricted` / `isSolOp_relaxed`: the analogues of `Closed.isSol_restricted` / `C10.isSol_relaxed_dom` for `compileOp`,
whatever the oracle (nothing is assumed of the stores). -/
set_option linter.unusedSectionVars false
set_option linter.unusedVariables false
namespace Ddo.ParDom
open Ddo Ddo.Truth Ddo.Closed Ddo.C10
open Ddo.C01 (SolverCfg WellFormed toOut SolOf)
variable {S K : Type} [DecidableEq S] [DecidableEq K]

/-- `stepLayerO` answers `cutoff` on an empty layer only -/
theorem sl_stepLayerO_cutoff (cfg : Cfg S K) (τ : Nat → DomStore S K) (dd : DD S K) (k : Nat) (ops : List (Op S)) (var : Nat)
    (dd' : DD S K) (k' : Nat) (ops' : List (Op S))
    (h : stepLayerO cfg τ dd k ops var = (some (dd', k', ops'), .cutoff)) : dd'.next = [] := by
  by_cases hempty : dd.next.isEmpty = true
  · unfold stepLayerO at h
    rw [if_pos hempty] at h
    simp only [Prod.mk.injEq, Option.some.injEq] at h
    obtain ⟨⟨rfl, _, _⟩, _⟩ := h
    exact List.isEmpty_iff.1 hempty
  · have hne' : dd.next.isEmpty = false := by simpa using hempty
    rw [stepLayerO_unfold cfg τ dd k ops var hne'] at h
    unfold stepTailO at h
    split at h
    · cases h
    · split at h
      · cases h
      · simp only [Prod.mk.injEq, Option.some.injEq] at h
        exact absurd h.2 (by decide)

/-- the analogue of `buildLoop_inv` -/
theorem sl_buildLoopO_inv (cfg : Cfg S K) (B : Int) (p0 : List Dec) (hB : NoClamp cfg.P cfg.R cfg.root.value B)
    (τ : Nat → DomStore S K) :
    ∀ (fuel : Nat) (dd : DD S K) (k : Nat) (ops : List (Op S)), MInv cfg B p0 dd →
      dd.depth = cfg.root.depth + dd.layers.length → dd.layers.length + fuel ≤ cfg.P.nbVars + 2 →
      MInv cfg B p0 (buildLoopO cfg τ fuel dd k ops).1.1 ∧
        ((buildLoopO cfg τ fuel dd k ops).2 = .ok → Terminal cfg (buildLoopO cfg τ fuel dd k ops).1.1) := by
  intro fuel
  induction fuel with
  | zero => intro dd k ops hM _ _; exact ⟨hM, fun h => by cases h⟩
  | succ fuel ih =>
    intro dd k ops hM hdepth hfuel
    cases hnv : cfg.P.nextVar dd.depth (dd.next.map (·.state)) with
    | none =>
      rw [buildLoopO_stop cfg τ fuel dd k ops hnv]
      exact ⟨hM.congr rfl rfl, fun _ => .inr ⟨hnv, hdepth⟩⟩
    | some var =>
      rw [buildLoopO_step cfg τ fuel dd k ops var hnv]
      have hM' : MInv cfg B p0 (tick dd var) := hM.congr rfl rfl
      cases hs : stepLayerO cfg τ (tick dd var) k ops var with
      | mk o oc =>
        cases o with
        | none => exact ⟨hM', fun h => by cases h⟩
        | some x =>
          obtain ⟨dd', k', ops'⟩ := x
          obtain ⟨m1, m2, _⟩ := stepLayerO_inv cfg B p0 hB τ (tick dd var) k ops var hM' hdepth hnv
            (by show dd.layers.length ≤ _; omega) dd' k' ops' oc hs
          cases oc with
          | cutoff => exact ⟨m1, fun _ => .inl (sl_stepLayerO_cutoff cfg τ _ k ops var dd' k' ops' hs)⟩
          | crash => exact ⟨m1, fun h => by cases h⟩
          | ok =>
            obtain ⟨m2a, m2b⟩ := m2 rfl
            exact ih dd' k' ops' m1 m2a (by rw [m2b]; show dd.layers.length + 1 + fuel ≤ _; omega)

/-- the analogue of `bestExact_sol_false` for the final diagram of the operation-wise loop -/
theorem sl_bestExact_sol_false (cfg : Cfg S K) (B : Int) (p0 : List Dec) (hB : NoClamp cfg.P cfg.R cfg.root.value B)
    (hroot : Reach cfg.P cfg.root.depth cfg.root.state cfg.root.value p0)
    (cache : Cache S) (τ : Nat → DomStore S K) (polls : Nat)
    (hok : (buildLoopO cfg τ (cfg.P.nbVars + 2) (initDD cfg cache (τ 0) polls) 0 []).2 = .ok) (w : Int)
    (hw : (finalize cfg (finalizeLayers (buildLoopO cfg τ (cfg.P.nbVars + 2) (initDD cfg cache (τ 0) polls) 0 []).1.1) false).1.bestExactValue
      = some w) :
    IsSol cfg p0 w
      (finalize cfg (finalizeLayers (buildLoopO cfg τ (cfg.P.nbVars + 2) (initDD cfg cache (τ 0) polls) 0 []).1.1) false).1.bestExactSol := by
  obtain ⟨hinv, hterm⟩ := sl_buildLoopO_inv cfg B p0 hB τ (cfg.P.nbVars + 2) (initDD cfg cache (τ 0) polls) 0 []
    (initDD_inv cfg B p0 hB hroot cache (τ 0) polls) rfl (by simp only [initDD, List.length_nil]; omega)
  have hterm := hterm hok
  generalize (buildLoopO cfg τ (cfg.P.nbVars + 2) (initDD cfg cache (τ 0) polls) 0 []).1.1 = dd at *
  rw [finalize_bestExactValue, terminals_finalizeLayers] at hw
  simp only [Bool.false_eq_true, if_false] at hw
  rcases hterm with hnil | ⟨hnv, hdepth⟩
  · rw [hnil] at hw; cases hw
  · refine finalize_exactSol_false cfg p0 w dd hnv hw ?_
    intro n hn hx
    obtain ⟨q, hq, hr, hd, _⟩ := hinv.next n hn hx
    exact ⟨q, hq.mono _, by rw [hdepth, ← hd]; exact hr⟩

/-- **restricted operation-wise compilation, any oracle**: a reported exact value is the value of the reported solution -/
theorem isSolOp_restricted (cfg : Cfg S K) (B : Int) (p0 : List Dec) (cache : Cache S) (τ : Nat → DomStore S K) (polls : Nat)
    (hres : cfg.ctype = .restricted) (hB : NoClamp cfg.P cfg.R cfg.root.value B)
    (hroot : Reach cfg.P cfg.root.depth cfg.root.state cfg.root.value p0)
    (hok : (compileOp cfg cache τ polls).1 = .ok) (w : Int)
    (hw : (compileOp cfg cache τ polls).2.1.bestExactValue = some w) :
    IsSol cfg p0 w (compileOp cfg cache τ polls).2.1.bestExactSol := by
  have e2 : (cfg.ctype == CompType.relaxed) = false := by rw [hres]; decide
  have e3 : ∀ b : Built S K, b.ebpMust false = false := fun _ => rfl
  have hok' : (buildLoopO cfg τ (cfg.P.nbVars + 2) (initDD cfg cache (τ 0) polls) 0 []).2 = .ok := hok
  have hres' : (compileOp cfg cache τ polls).2.1 =
      (finalize cfg (finalizeLayers (buildLoopO cfg τ (cfg.P.nbVars + 2) (initDD cfg cache (τ 0) polls) 0 []).1.1) false).1 := by
    show resultOf cfg _ = _
    unfold resultOf
    rw [e2, e3]
  rw [hres'] at hw ⊢
  exact sl_bestExact_sol_false cfg B p0 hB hroot cache τ polls hok' w hw

/-! ## relaxed -/

/-- one step of the operation-wise filter keeps the layer up to `theta` (no hypothesis on the oracle) -/
theorem sl_fdStepO_thEq (D : DomRule S K) (τ : Nat → DomStore S K) (layer : List (Node S))
    (acc : List (Node S) × List Nat × Nat × Bool × List (Op S)) (p : Nat) (hth : ThEq acc.1 layer) :
    ThEq (fdStepO D τ acc p).1 layer := by
  obtain ⟨ly, keep, j, ok, ops⟩ := acc
  dsimp only at hth
  unfold fdStepO
  dsimp only
  cases hn : ly[p]? with
  | none => exact hth
  | some m =>
    dsimp only
    by_cases hex : m.isExact = true
    · rw [if_pos hex]
      cases hq : DomStore.query D (τ j) m.state m.depth m.value with
      | none => exact hth
      | some r =>
        obtain ⟨st', dom, thr⟩ := r
        dsimp only
        cases dom with
        | true =>
          rw [if_pos rfl]
          exact hth.set hn rfl
        | false =>
          rw [if_neg (by simp)]
          exact hth
    · rw [if_neg hex]
      exact hth

/-- the operation-wise filter changes `theta` only, whatever the oracle -/
theorem sl_filterDomO_thEq (cfg : Cfg S K) (τ : Nat → DomStore S K) (k : Nat) (layer : List (Node S)) (cur : List Nat) :
    ThEq (filterDomO cfg τ k layer cur).1 layer := by
  unfold filterDomO
  cases hd : cfg.dom with
  | none => exact ThEq.refl _
  | some D =>
    simp only
    refine foldl_inv (β := List (Node S) × List Nat × Nat × Bool × List (Op S))
      (fun acc => ThEq acc.1 layer) _ _ _ (ThEq.refl _) ?_
    intro acc p _ h
    exact sl_fdStepO_thEq D τ layer acc p h

theorem sl_fcOf_id (cfg : Cfg S K) (hc : cfg.useCache = false) (dd : DD S K) :
    fcOf cfg dd = (dd.next, List.range dd.next.length) := by
  unfold fcOf
  split
  · rfl
  · exact Cover.filterCache_id cfg dd.cache dd.next _ hc (fun p hp => List.mem_range.mp hp)

/-- what a successful `stepTailO` returns -/
theorem sl_stepTailO_some (cfg : Cfg S K) (dd : DD S K) (ops : List (Op S)) (var : Nat) (fc : List (Node S) × List Nat)
    (r : List (Node S) × List Nat × Nat × Bool × List (Op S)) (dd' : DD S K) (k' : Nat) (ops' : List (Op S)) (oc : Outcome)
    (hs : stepTailO cfg dd ops var fc r = (some (dd', k', ops'), oc)) :
    oc = .ok ∧ ∃ sq, squash cfg dd r.1 r.2.1 = some sq ∧
      dd'.layers = dd.layers ++ [(expandAll cfg var dd.layers.length sq.1 sq.2.1 sq.2.2.1).1] ∧
      dd'.next = (expandAll cfg var dd.layers.length sq.1 sq.2.1 sq.2.2.1).2.1 ∧ dd'.depth = dd.depth + 1 := by
  unfold stepTailO at hs
  by_cases ho : (!r.2.2.2.1) = true
  · rw [if_pos ho] at hs; cases hs
  · rw [if_neg ho] at hs
    cases hsq : squash cfg dd r.1 r.2.1 with
    | none => rw [hsq] at hs; cases hs
    | some sq =>
      obtain ⟨l', c', lg, lel⟩ := sq
      rw [hsq] at hs
      simp only [Prod.mk.injEq, Option.some.injEq] at hs
      obtain ⟨⟨ha, _, _⟩, h2⟩ := hs
      subst ha
      exact ⟨h2.symm, _, rfl, rfl, rfl, rfl⟩

/-- the analogue of `buildLoop_g2_dom` -/
theorem sl_buildLoopO_g2 (cfg : Cfg S K) (hrel : cfg.ctype = .relaxed) (hW : 1 ≤ cfg.width) (hc : cfg.useCache = false)
    (τ : Nat → DomStore S K) :
    ∀ (fuel : Nat) (dd : DD S K) (k : Nat) (ops : List (Op S)), G2 cfg dd → dd.depth = cfg.root.depth + dd.layers.length →
      G2 cfg (buildLoopO cfg τ fuel dd k ops).1.1 ∧
      (buildLoopO cfg τ fuel dd k ops).1.1.layers.length ≤ dd.layers.length + fuel := by
  intro fuel
  induction fuel with
  | zero => intro dd k ops hG _; exact ⟨hG, Nat.le_refl _⟩
  | succ fuel ih =>
    intro dd k ops hG hdepth
    cases hnv : cfg.P.nextVar dd.depth (dd.next.map (·.state)) with
    | none =>
      rw [buildLoopO_stop cfg τ fuel dd k ops hnv]
      exact ⟨hG.congr rfl rfl, by dsimp only; omega⟩
    | some var =>
      have hG1 : G2 cfg (tick dd var) := hG.congr rfl rfl
      rw [buildLoopO_step cfg τ fuel dd k ops var hnv]
      by_cases hempty : (tick dd var).next.isEmpty = true
      · have hs : stepLayerO cfg τ (tick dd var) k ops var =
            (some ({ (tick dd var) with layers := (tick dd var).layers ++ [[]] }, k, ops), .cutoff) := by
          unfold stepLayerO
          rw [if_pos hempty]
        rw [hs]
        dsimp only
        have hne : (tick dd var).next = [] := List.isEmpty_iff.1 hempty
        refine ⟨⟨?_, ?_⟩, ?_⟩
        · exact gOk_append_layer hG1.layers (fun n hn => by cases hn)
        · intro n hn; rw [hne] at hn; cases hn
        · rw [List.length_append, List.length_singleton]; show dd.layers.length + 1 ≤ _; omega
      · have hne' : (tick dd var).next.isEmpty = false := by simpa using hempty
        have hth : ThEq (filterDomO cfg τ k (fcOf cfg (tick dd var)).1 (fcOf cfg (tick dd var)).2).1 (tick dd var).next := by
          have := sl_filterDomO_thEq cfg τ k (fcOf cfg (tick dd var)).1 (fcOf cfg (tick dd var)).2
          rw [sl_fcOf_id cfg hc (tick dd var)] at this ⊢
          exact this
        cases hs : stepLayerO cfg τ (tick dd var) k ops var with
        | mk o oc =>
          cases o with
          | none => exact ⟨hG1, by show dd.layers.length ≤ _; omega⟩
          | some x =>
            obtain ⟨dd', k', ops'⟩ := x
            rw [stepLayerO_unfold cfg τ (tick dd var) k ops var hne'] at hs
            obtain ⟨hoc, sq, hsq, hl, hn, hdd⟩ := sl_stepTailO_some cfg (tick dd var) ops var _ _ dd' k' ops' oc hs
            subst hoc
            dsimp only
            have hlen' : dd'.layers.length = dd.layers.length + 1 := by
              rw [hl, List.length_append, List.length_singleton]; rfl
            have hG' : G2 cfg dd' :=
              stepLayer_g2_gen cfg hrel hW (tick dd var) dd' var _ _ hth hG1 hdepth hnv sq hsq hl hn
            obtain ⟨h1, h2⟩ := ih dd' k' ops' hG' (by rw [hdd, hlen']; show dd.depth + 1 = _; omega)
            exact ⟨h1, by omega⟩

/-- the analogue of `ebpMust_sound_dom` for the final diagram of the operation-wise loop (nothing is assumed of the oracle) -/
theorem sl_ebpMust_sound (cfg : Cfg S K) (B : Int) (p0 : List Dec)
    (hrel : cfg.ctype = .relaxed) (hW : 1 ≤ cfg.width) (hc : cfg.useCache = false)
    (hB : NoClamp cfg.P cfg.R cfg.root.value B)
    (hroot : Reach cfg.P cfg.root.depth cfg.root.state cfg.root.value p0)
    (cache : Cache S) (τ : Nat → DomStore S K) (polls : Nat)
    (hok : (buildLoopO cfg τ (cfg.P.nbVars + 2) (initDD cfg cache (τ 0) polls) 0 []).2 = .ok)
    (hmust : (finalizeLayers (buildLoopO cfg τ (cfg.P.nbVars + 2) (initDD cfg cache (τ 0) polls) 0 []).1.1).ebpMust true = true)
    (w : Int)
    (hw : (finalize cfg (finalizeLayers (buildLoopO cfg τ (cfg.P.nbVars + 2) (initDD cfg cache (τ 0) polls) 0 []).1.1) true).1.bestExactValue
      = some w) :
    Truthful cfg p0 w (finalize cfg (finalizeLayers (buildLoopO cfg τ (cfg.P.nbVars + 2) (initDD cfg cache (τ 0) polls) 0 []).1.1) true).1 := by
  obtain ⟨hinv, hterm⟩ := sl_buildLoopO_inv cfg B p0 hB τ (cfg.P.nbVars + 2) (initDD cfg cache (τ 0) polls) 0 []
    (initDD_inv cfg B p0 hB hroot cache (τ 0) polls) rfl (by simp only [initDD, List.length_nil]; omega)
  have hterm := hterm hok
  obtain ⟨hG, hlen⟩ := sl_buildLoopO_g2 cfg hrel hW hc τ (cfg.P.nbVars + 2) (initDD cfg cache (τ 0) polls) 0 []
    (initDD_g2 cfg cache (τ 0) polls) rfl
  have hlen0 : (initDD cfg cache (τ 0) polls).layers.length = 0 := rfl
  rw [hlen0] at hlen
  generalize (buildLoopO cfg τ (cfg.P.nbVars + 2) (initDD cfg cache (τ 0) polls) 0 []).1.1 = dd at *
  rw [finalize_bestExactValue] at hw
  simp only [if_true] at hw
  have hbv : maxValue dd.next = some w := by
    unfold Built.bestValue at hw; rwa [terminals_finalizeLayers] at hw
  obtain ⟨n1, _, hn1, _⟩ := find?_of_maxValue hbv
  rcases hterm with hnil | ⟨hnv, hdepth⟩
  · rw [hnil] at hn1; cases hn1
  · have hne : dd.next ≠ [] := List.ne_nil_of_mem hn1
    obtain ⟨hlayers, _⟩ := finalizeLayers_nonempty dd hne
    have hbt := bestTerminals_finalizeLayers dd w hbv
    have hF : FinOk cfg B p0 (dd.layers ++ [dd.next]) :=
      ⟨MInv.append_layer hinv.layers hinv.next, gOk_append_layer hG.layers hG.next, by
        rw [List.length_append, List.length_singleton]; omega⟩
    have hlast : (dd.layers ++ [dd.next])[dd.layers.length]? = some dd.next := List.getElem?_concat_length
    simp only [Built.ebpMust, Bool.true_and, hbt, hlayers, List.all_eq_true, List.mem_filter, decide_eq_true_eq] at hmust
    refine finalize_truthful cfg p0 w dd true hbv hnv ?_ (fun h => by cases h)
    intro n hf
    have h1 := List.find?_some hf
    simp only [decide_eq_true_eq] at h1
    have hn := List.mem_of_find?_eq_some hf
    obtain ⟨q, c1, c2, _⟩ := ebpAll_reach cfg B p0 hB _ hF _ _ _ n hlast hn (hmust n ⟨hn, h1⟩)
    exact ⟨q, c1, hdepth ▸ c2⟩

/-- **relaxed operation-wise compilation, checker enabled, any oracle** (nothing is assumed of the stores `τ k`): the `must`
    result reports as best exact value the value of the reported best exact solution -/
theorem isSolOp_relaxed (cfg : Cfg S K) (D : DomRule S K) (hD : cfg.dom = some D) (B : Int) (p0 : List Dec)
    (cache : Cache S) (τ : Nat → DomStore S K) (polls : Nat)
    (hrel : cfg.ctype = .relaxed) (hcache : cfg.useCache = false) (hW : 1 ≤ cfg.width)
    (hB : NoClamp cfg.P cfg.R cfg.root.value B)
    (hroot : Reach cfg.P cfg.root.depth cfg.root.state cfg.root.value p0)
    (hok : (compileOp cfg cache τ polls).1 = .ok) (w : Int)
    (hw : (compileOp cfg cache τ polls).2.1.bestExactValue = some w) :
    IsSol cfg p0 w (compileOp cfg cache τ polls).2.1.bestExactSol := by
  have e2 : (cfg.ctype == CompType.relaxed) = true := by rw [hrel]; decide
  have hok' : (buildLoopO cfg τ (cfg.P.nbVars + 2) (initDD cfg cache (τ 0) polls) 0 []).2 = .ok := hok
  have hres' : (compileOp cfg cache τ polls).2.1 =
      (finalize cfg (finalizeLayers (buildLoopO cfg τ (cfg.P.nbVars + 2) (initDD cfg cache (τ 0) polls) 0 []).1.1)
        ((finalizeLayers (buildLoopO cfg τ (cfg.P.nbVars + 2) (initDD cfg cache (τ 0) polls) 0 []).1.1).ebpMust true)).1 := by
    show resultOf cfg _ = _
    unfold resultOf
    rw [e2]
  rw [hres'] at hw ⊢
  cases hm : (finalizeLayers (buildLoopO cfg τ (cfg.P.nbVars + 2) (initDD cfg cache (τ 0) polls) 0 []).1.1).ebpMust true with
  | false =>
    rw [hm] at hw
    exact sl_bestExact_sol_false cfg B p0 hB hroot cache τ polls hok' w hw
  | true =>
    rw [hm] at hw
    exact (sl_ebpMust_sound cfg B p0 hrel hW hcache hB hroot cache τ polls hok' hm w hw).exactSol

end Ddo.ParDom

#print axioms Ddo.ParDom.isSolOp_restricted
#print axioms Ddo.ParDom.isSolOp_relaxed
